(** Property C11 - the generator emits the API the DBC implies (decision logic and conversion typing).

    The theorems are about Gen/Api.v, the model of the decisions of internal/generate/file.go
    (tied to the code on every run by checks/api.py). The class is [in_class43] (Gen/ApiSpec.v,
    DESIGN.md 4.3). PARTIAL with respect to the property text: that generation returns no error, is
    byte-identical when repeated, gofmt-canonical and compiles is OBSERVED on the sampled programs of
    every run, not proved (go/format and the Go compiler are not modelled). What is proved, for ALL
    databases of the class: field types, enum types/constants, physical accessors, node groups, and
    that every conversion / constant / library call the templates emit is well-typed ([conv_ok]).

    Exact values: [fval b] is the value of the finite binary64 pattern b times 2^1074 (an integer),
    [scaled n = n * 2^1074]; so [fval x < scaled n] is the exact comparison of x with the integer n. *)
From Coq Require Import ZArith List Bool.
From CanVerif Require Import Descriptor.Types Gen.Message Gen.Api Gen.ApiSpec Gen.ApiProofs.
Import ListNotations.
Open Scope Z_scope.

(** Go type of a signal's field and accessors: bool iff 1 bit, float32 iff float, otherwise the
    NARROWEST of (u)int8/16/32/64 whose width holds the length, signed iff the signal is signed. *)
Theorem C11_field_type : forall db m s,
  in_class43 db = true -> In m (db_messages db) -> In s (msg_signals m) ->
  let t := signal_prim_type s in
  (t = PBool <-> s_length s = 1) /\
  (t = PFloat32 <-> s_float s = true) /\
  (s_length s <> 1 -> s_float s = false ->
     exists w, t = (if s_signed s then PInt w else PUint w) /\ In w [8; 16; 32; 64] /\ s_length s <= w /\
               forall w', In w' [8; 16; 32; 64] -> s_length s <= w' -> w <= w').
Proof. exact class_field_type_explicit. Qed.
Print Assumptions C11_field_type.

(** A named enum type <Msg>_<Sig> exists iff the signal has value descriptions (then it is the type
    of field and accessors); one constant <Msg>_<Sig>_<slug> per value description. *)
Theorem C11_enum_type : forall hp m s,
  let sa := signal_api_with hp m s in
  (s_value_descriptions s <> [] -> sa_enum sa = Some (msg_name m ++ k_us ++ s_name s) /\
                                   sa_type sa = GNamed (msg_name m ++ k_us ++ s_name s)) /\
  (s_value_descriptions s = [] -> sa_enum sa = None /\ sa_type sa = GBasic (basic_of_prim (signal_prim_type s))) /\
  sa_consts sa = map (fun vd => {| ec_name := msg_name m ++ k_us ++ s_name s ++ k_us ++ slugify (vdesc_text vd);
                                   ec_value := enum_const_val s vd |}) (s_value_descriptions s).
Proof. exact enum_type_iff. Qed.
Print Assumptions C11_enum_type.

(** ... whose value is the description's value, true/false for a 1-bit signal *)
Theorem C11_enum_const_value : forall db m s vd,
  in_class43 db = true -> In m (db_messages db) -> In s (msg_signals m) -> In vd (s_value_descriptions s) ->
  enum_const_val s vd = if s_length s =? 1 then CBool (vdesc_value vd =? 1) else CInt (vdesc_value vd).
Proof. exact class_enum_const_values. Qed.
Print Assumptions C11_enum_const_value.

(** Physical accessors (X/SetX float64 + RawX/SetRawX) exactly when the signal is multi-bit and has a
    factor outside {0,1}, a non-zero offset, or a declared range (min or max non-zero) that is narrower
    than the representable range [raw_min, raw_max] - all in exact arithmetic. *)
Theorem C11_physical_accessors : forall db m s,
  in_class43 db = true -> In m (db_messages db) -> In s (msg_signals m) ->
  sa_physical (signal_api_with has_physical m s) =
    (1 <? s_length s)
    && ( (negb (fval (s_scale s) =? 0) && negb (fval (s_scale s) =? scaled 1))
         || negb (fval (s_offset s) =? 0)
         || ( (negb (fval (s_min s) =? 0) || negb (fval (s_max s) =? 0))
              && ( (scaled (raw_min s) <? fval (s_min s)) || (fval (s_max s) <? scaled (raw_max s)) ) ) ).
Proof. exact class_has_physical. Qed.
Print Assumptions C11_physical_accessors.

(** the accessor sets that go with the decision *)
Theorem C11_accessor_sets : forall hp m s,
  let sa := signal_api_with hp m s in
  let t := sa_type sa in
  let self := GPtr (msg_name m) in
  (hp s = true ->
     sa_reader sa = [ mk_sig (s_name s) [] [GBasic BFloat64]; mk_sig (k_Raw ++ s_name s) [] [t] ] /\
     sa_writer sa = [ mk_sig (k_Set ++ s_name s) [GBasic BFloat64] [self]; mk_sig (k_SetRaw ++ s_name s) [t] [self] ]) /\
  (hp s = false ->
     sa_reader sa = [ mk_sig (s_name s) [] [t] ] /\ sa_writer sa = [ mk_sig (k_Set ++ s_name s) [t] [self] ]).
Proof. exact accessor_sets. Qed.
Print Assumptions C11_accessor_sets.

(** Rx(n) = the messages with a signal received by n, Tx(n) = the messages sent by n that have a send
    type, both in database order *)
Theorem C11_node_groups : forall db n,
  (exists f, collect_rx db n = filter f (db_messages db) /\
             forall m, f m = true <-> exists s, In s (msg_signals m) /\ In (node_name n) (s_receivers s)) /\
  (exists g, collect_tx db n = filter g (db_messages db) /\
             forall m, g m = true <-> msg_sender m = node_name n /\ msg_send_type m <> SendNone) /\
  na_rx (node_api_of db n) = map msg_name (collect_rx db n) /\
  na_tx (node_api_of db n) = map (fun m => (msg_name m, is_cyclic (msg_send_type m))) (collect_tx db n).
Proof. exact node_groups. Qed.
Print Assumptions C11_node_groups.

(** node code is generated iff some message has a send type, and then for every node *)
Theorem C11_node_gate : forall db,
  ((exists m, In m (db_messages db) /\ msg_send_type m <> SendNone) ->
     api_nodes (api_of_db db) = Some (map (node_api_of db) (db_nodes db))) /\
  ((forall m, In m (db_messages db) -> msg_send_type m = SendNone) -> api_nodes (api_of_db db) = None).
Proof. exact (fun db => conj (node_code_gate db) (node_code_gate_none db)). Qed.
Print Assumptions C11_node_gate.

(** every conversion T(x), constant use (enum constants, Reset, multiplexer comparison, switch cases)
    and descriptor.Signal call the templates emit is well-typed by Go's rules *)
Theorem C11_conversions_typed : forall db, in_class43 db = true ->
  forall c, In c (db_convs db) -> conv_ok c = true.
Proof. exact class_convs_ok. Qed.
Print Assumptions C11_conversions_typed.

(** hasPhysicalRepresentation as written, in exact terms (no length test): the pattern comparisons
    with float64(MaxUnsigned()) etc. agree with the exact integers for every length 1..64 *)
Theorem C11_has_physical_as_written : forall s,
  f64_finite (s_scale s) = true -> f64_finite (s_offset s) = true ->
  f64_finite (s_min s) = true -> f64_finite (s_max s) = true ->
  1 <= s_length s <= 64 ->
  has_physical_old s =
    ( (negb (fval (s_scale s) =? 0) && negb (fval (s_scale s) =? scaled 1))
      || negb (fval (s_offset s) =? 0)
      || ( (negb (fval (s_min s) =? 0) || negb (fval (s_max s) =? 0))
           && ( (scaled (raw_min s) <? fval (s_min s)) || (fval (s_max s) <? scaled (raw_max s)) ) ) ).
Proof. exact has_physical_old_exact. Qed.
Print Assumptions C11_has_physical_as_written.

(** F4: with the decision as it was written (no [Length > 1]) the physical-accessor statement and the
    typing statement are FALSE: f4_db (one message, [SG_ Flag : 0|1@1+ (2,0) [0|0]]) is in the class,
    the property requires no physical accessors, the old decision gives them, and the emitted
    float64(bool) and SaturatedCastBool are ill-typed. *)
Theorem C11_api_refuted :
  in_class43 f4_db = true /\
  In f4_message (db_messages f4_db) /\ In f4_signal (msg_signals f4_message) /\
  s_length f4_signal = 1 /\
  has_physical_spec f4_signal = false /\
  sa_physical (signal_api_with has_physical_old f4_message f4_signal) = true /\
  In (CConvert BBool BFloat64) (db_convs_old f4_db) /\ conv_ok (CConvert BBool BFloat64) = false /\
  In (CSat StBool) (db_convs_old f4_db) /\ conv_ok (CSat StBool) = false.
Proof. exact api_old_refuted. Qed.

(** the hypotheses are satisfiable: ex_db (2 nodes; a cyclic message with a scaled 12-bit signal, a 3-bit
    enum, a 1-bit signal WITH a factor, a signed 9-bit signal with an offset; a multiplexed message with a
    float32 signal and no send type) is in the class, and the decisions are the expected ones *)
Example C11_nonvacuous :
  in_class43 ex_db = true /\
  map (fun m => map signal_prim_type (msg_signals m)) (db_messages ex_db)
    = [[PUint 16; PUint 8; PBool; PInt 16]; [PUint 8; PInt 16; PFloat32]] /\
  map (fun m => map has_physical (msg_signals m)) (db_messages ex_db)
    = [[true; false; false; true]; [false; false; false]] /\
  map (fun m => map has_physical_old (msg_signals m)) (db_messages ex_db)
    = [[true; false; true; true]; [false; false; false]] /\
  option_map (map (fun na => (na_name na, na_rx na, na_tx na))) (api_nodes (api_of_db ex_db))
    = Some [ (ex_ecu, [msg_name ex_cmd], [(msg_name ex_status, true)]); (ex_gateway, [msg_name ex_status], []) ] /\
  (28 <= length (db_convs ex_db))%nat /\ db_convs_ok ex_db = true /\ db_convs_ok_old ex_db = false.
Proof. exact ex_db_facts. Qed.

(** WIRING TIE FOR NODE TYPES (Gen/Wiring.v; DESIGN.md 9.6 "Wiring tie for generated code"). [p_nodegens p] is the strict
    reading of the emitted node types (harness/genwire): per node the Rx/Tx container structs, the rx/tx message types and the
    message type each embeds, the cases of ReceivedMessage, the list of TransmittedMessages, Descriptor(). If the checker
    [nodes_wiring_ok db p] - evaluated on every generated package of every run of this check - accepts, then: node code exists
    exactly when some message has a send type; and for every node of the database, in order, there is the node type of that
    name, whose Descriptor() is that node's nd entry, whose ReceivedMessage(id) returns, for EVERY id, the rx instance of the
    FIRST message of [collect_rx db n] (messages with a signal whose receivers contain the node, database order) whose ID is id,
    and (nil, false) when there is none, and whose TransmittedMessages() lists exactly [collect_tx db n] (messages sent by the
    node that have a send type), in database order *)
From CanVerif Require Gen.Wiring Gen.WiringProofs.
Theorem C11_wiring_nodes : forall db p,
  Wiring.nodes_wiring_ok db p = true ->
  (has_send_type db = false -> Wiring.p_nodegens p = []) /\
  (has_send_type db = true ->
   Forall2 (fun n ng =>
      Wiring.ng_name ng = node_name n /\ Wiring.ng_desc ng = node_name n /\
      (forall id, Wiring.wiring_received ng id =
                  Some (match find_message (collect_rx db n) id with Some m => Some (msg_name m) | None => None end)) /\
      Wiring.wiring_transmitted ng = Some (map msg_name (collect_tx db n))) (db_nodes db) (Wiring.p_nodegens p)).
Proof. exact WiringProofs.nodes_wiring_correct. Qed.
Print Assumptions C11_wiring_nodes.
