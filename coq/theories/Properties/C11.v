(** placeholder while the pipeline is brought up *)
From Coq Require Import ZArith List Bool.
From CanVerif Require Import Descriptor.Types Gen.Message Gen.Api Gen.ApiSpec.
Theorem C11_placeholder : True. Proof. exact I. Qed.
Print Assumptions C11_placeholder.
