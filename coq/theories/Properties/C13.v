(** Property C13 - the runner touches node state only under the node lock and calls hooks unlocked.
    Only the property theorems, each closed by [exact], each followed by [Print Assumptions].
    Model: Runner/Lts.v - labelled transition system of pkg/canrunner/run.go plus the generated
    channel code, with ANY number of receiver / transmitter / application threads
    ([th s t] = local state of thread t; [step_fn s e = Some s'] = transition s --e--> s';
    [reachable cfg s] = s is reached from the initial state of configuration cfg by some finite
    event sequence; [locked_thread] = "program counter inside a critical section": receiver
    R4..R7 and RHL, transmitter S2,S3,X2,X3,X4,X7,X8 and XHL, application a_locked).
    Proofs: Runner/LockDiscipline.v.  Not modelled: scheduler fairness, real time. *)
From Coq Require Import Arith Bool List.
From CanVerif Require Import Runner.Lts Runner.RunModel Runner.LockDiscipline Runner.Protocol Runner.RunLts Runner.RunProofs.
From CanVerif Require Import Runner.Program Runner.ProgramProofs Runner.ProgramLts Runner.ProgramLtsProofs.
Import ListNotations.

(** I1: in every reachable state the mutex owner is exactly the thread inside a critical section *)
Theorem C13_I1_owner_iff_in_critical_section : forall cfg s,
  reachable cfg s -> forall t, owner s = Some t <-> locked_thread (th s t) = true.
Proof. exact I1_reachable. Qed.
Print Assumptions C13_I1_owner_iff_in_critical_section.

(** mutual exclusion: Lock fires only on a free mutex *)
Theorem C13_lock_only_when_free : forall s t s',
  step_fn s (Lock t) = Some s' -> owner s = None /\ owner s' = Some t.
Proof. exact lock_only_when_free. Qed.
Print Assumptions C13_lock_only_when_free.

(** I2: every access of the runner to message state (read hook, set time, unmarshal, read the
    cyclic flag, marshal the frame) happens while the accessing thread owns the lock *)
Theorem C13_I2_access_under_lock : forall cfg s t w s',
  reachable cfg s -> step_fn s (Access t w) = Some s' -> owner s = Some t /\ owner s' = Some t.
Proof. exact I2_access_under_lock. Qed.
Print Assumptions C13_I2_access_under_lock.

(** ... and so does every write of message contents (application code, hook bodies) *)
Theorem C13_I2_mutate_under_lock : forall cfg s t m v s',
  reachable cfg s -> step_fn s (Mutate t m v) = Some s' -> owner s = Some t.
Proof. exact I2_mutate_under_lock. Qed.
Print Assumptions C13_I2_mutate_under_lock.

(** I3: hooks are invoked with the lock released by the invoking thread ... *)
Theorem C13_I3_hook_called_unlocked : forall cfg s t s',
  reachable cfg s -> step_fn s (HookCall t) = Some s' -> owner s <> Some t /\ owner s' <> Some t.
Proof. exact I3_hook_called_unlocked. Qed.
Print Assumptions C13_I3_hook_called_unlocked.

(** ... so a hook may take the lock itself without deadlocking on its own thread *)
Theorem C13_I3_hook_may_lock : forall s t s',
  step_fn s (HookCall t) = Some s' -> owner s' = None -> exists s'', step_fn s' (Lock t) = Some s''.
Proof. exact I3_hook_may_lock. Qed.
Print Assumptions C13_I3_hook_may_lock.

(** while another thread (an application) holds the lock, no runner access and no foreign write
    is possible: no half-updated message is observable *)
Theorem C13_no_access_while_other_holds : forall cfg s a t,
  reachable cfg s -> owner s = Some a -> t <> a ->
  (forall w, step_fn s (Access t w) = None) /\ (forall m v, step_fn s (Mutate t m v) = None).
Proof. exact no_access_while_other_holds. Qed.
Print Assumptions C13_no_access_while_other_holds.

(** the frame marshalled by Frame() at X7 is the content of the message at that moment *)
Theorem C13_frame_is_current_content : forall s t v s',
  step_fn s (Access t (WFrame v)) = Some s' ->
  exists x x', th s t = TTx x /\ t_pc x = X7 /\ v = t_content x /\
               th s' t = TTx x' /\ t_snap x' = v /\ t_pc x' = X8.
Proof. exact frame_is_current_content. Qed.
Print Assumptions C13_frame_is_current_content.

(** per transmitter iteration HookRet t true < Access t (WFrame f) < Transmit t f _ : [order_ok]
    is the trace monitor [mon_run] started with every thread in phase P0, where
      HookCall t            : phase t := PHook
      HookRet t ok          : requires PHook;  phase t := if ok then P1 else P0
      Access t (WFrame v)   : requires P1;     phase t := P2 v
      Transmit t f _        : requires P2 f;   phase t := P0          (other events: no change) *)
Theorem C13_hook_frame_transmit_order : forall cfg tr,
  accepts cfg tr = true -> order_ok tr = true.
Proof. exact accepted_order_ok. Qed.
Print Assumptions C13_hook_frame_transmit_order.

(** trace form of I1-I3, the predicate evaluated on logged implementation traces: along an
    accepted trace the model's owner is the acting thread at every Access / Mutate, is not the
    acting thread at every HookCall, and is None at every Lock *)
Theorem C13_accepted_trace_discipline : forall cfg tr,
  accepts cfg tr = true -> discipline_ok (init cfg) tr = true.
Proof. exact accepted_discipline_ok. Qed.
Print Assumptions C13_accepted_trace_discipline.

(** model-free form (no program counters, only the events): tracking the owner from the Lock /
    Unlock events of an accepted trace, [raw_discipline None tr 0] finds no event that is a Lock of
    an owned mutex, an Unlock by a non-owner, an Access / Mutate by a non-owner (I2), a HookCall by
    the owner (I3) or a Done of a thread that still owns the mutex (no thread returns with the
    lock held: I1 at thread exit).  This predicate is what the check evaluates on a logged
    implementation trace even when the LTS rejects it. *)
Theorem C13_accepted_trace_raw_discipline : forall cfg tr,
  accepts cfg tr = true -> raw_discipline None tr 0 = None.
Proof. exact accepted_raw_discipline. Qed.
Print Assumptions C13_accepted_trace_raw_discipline.

(** whatever a frame with a known ID looks like: a frame the message does not accept - remote,
    standard/extended mismatch, wrong length (shape_accepts msg_ext msg_len f = Nat.eqb (sh_len f)
    msg_len && negb (sh_remote f) && Bool.eqb (sh_extended f) msg_ext, the checks of the generated
    UnmarshalFrame) - goes through the same critical section as every other frame: hook lookup,
    receive time and the failing unmarshal all between Lock and Unlock, no hook call, error return
    ([rx_trace]: the events RunMessageReceiver performs, RunModel.v; accepted by the LTS: C14) *)
Theorem C13_rejected_known_frame_locked : forall t id e l f hook_ok rest end_ok,
  shape_accepts e l f = false ->
  rx_trace t (rframe_of_shape id true e l f hook_ok :: rest) end_ok =
  [Recv t true; RxFrame t; Lookup t true; Lock t; Access t WHook; Access t WTime;
   Access t (WUnmarshal false); Unlock t; Done t false].
Proof. exact rejected_known_frame_trace. Qed.
Print Assumptions C13_rejected_known_frame_locked.

Theorem C13_remote_frame_not_accepted : forall e l f, sh_remote f = true -> shape_accepts e l f = false.
Proof. exact remote_not_accepted. Qed.
Print Assumptions C13_remote_frame_not_accepted.

(** which hook runs (RunLts.v section 5: one runner thread - KLock / KUnlock = its critical section in
    which it reads the hook field, KCall h = it calls hook h - against application critical sections
    KSet h' that replace the hook; krun = fold of kstep from kinit f0 = field initially f0): the hook
    called is the value the field had when the runner's critical section began, whatever is installed
    between the runner's Unlock and the call; and the field cannot be replaced inside that section *)
Theorem C13_hook_called_is_read_under_lock : forall pre mid h f0 k,
  krun (kinit f0) (pre ++ [KLock]) = Some k ->
  (forall e, In e mid -> e <> KLock) ->
  (exists k', krun k (mid ++ [KCall h]) = Some k') ->
  h = k_field k.
Proof. exact kcall_is_locked_read. Qed.
Print Assumptions C13_hook_called_is_read_under_lock.

Theorem C13_hook_not_replaced_while_locked : forall k h k',
  kstep k (KSet h) = Some k' -> k_pc k <> KLocked /\ k_snap k' = k_snap k.
Proof. exact kset_not_while_locked. Qed.
Print Assumptions C13_hook_not_replaced_while_locked.

(** non-vacuity: a receiver (1), a transmitter (2) and an application thread (3) interleaved -
    one received frame with a hook that takes the lock, one event transmit whose hook mutates the
    message, an application critical section in between; the trace is accepted, satisfies the
    order and discipline predicates, and dropping the receiver's Lock makes it rejected *)
Definition c13_cfg := cfg_of_list [(1, RoleRx); (2, RoleTx false); (3, RoleApp)].
Definition c13_trace : list event :=
  [ TxInit 2; Lock 2; Access 2 (WFlag false); Unlock 2; Apply 2; GetWake 2;
    Recv 1 true; RxFrame 1; Lookup 1 true; Lock 1; Access 1 WHook; Offer 3 2; Access 1 WTime;
    Access 1 (WUnmarshal true); Unlock 1; Accept 2 3; HookCall 1; Lock 3; Mutate 3 2 7; Unlock 3;
    Lock 1; Unlock 1; HookRet 1 true;
    Lock 2; Access 2 WHook; Access 2 WTime; Unlock 2; HookCall 2; Lock 2; Mutate 2 2 9; Unlock 2;
    HookRet 2 true; Lock 2; Access 2 (WFrame 9); Unlock 2; Transmit 2 9 true;
    Cancel; Done 2 true; Recv 1 false; RecvErr 1 true; Done 1 true ].
Example C13_nonvacuous :
  accepts c13_cfg c13_trace = true /\ order_ok c13_trace = true /\
  discipline_ok (init c13_cfg) c13_trace = true /\
  accepts c13_cfg (filter (fun e => match e with Lock 1 => false | _ => true end) c13_trace) = false /\
  raw_discipline None c13_trace 0 = None /\
  raw_discipline None [Lock 1; Access 1 (WUnmarshal false); Done 1 false] 0 = Some (2, DvExitLocked) /\
  (* hook 7 installed; replaced by 9 in the window after the runner's Unlock: 7 runs for this frame, 9 for the next *)
  (match krun (kinit 7) [KLock; KUnlock; KSet 9; KCall 7; KLock; KUnlock; KCall 9] with Some _ => True | None => False end) /\
  krun (kinit 7) [KLock; KUnlock; KSet 9; KCall 9] = None /\ krun (kinit 7) [KLock; KSet 9] = None.
Proof. vm_compute. repeat split. Qed.

(** ACTION-SEQUENCE TIE (DESIGN.md 9.6).  Runner/Program.v: an action program = the control-flow graph of one Go function as
    the strict extractor harness/runwire reads it from the CURRENT source text (node = class, statement text, successors);
    [ostep p (pc,h) (pc',h')] = one own step of a thread (h = "I hold the node lock"; a Lock node is enabled only with
    h = false), [oreach] = reachable from (entry, lock not held), [osteps] = a path with the list of executed pcs;
    [prog_lock_ok] = the decidable checker evaluated on every extracted function at run time.
    For ANY program the checker accepts: a message-state action (class CMsg) or an Unlock is only ever executed with the
    lock held ... *)
Theorem C13_prog_msg_access_under_lock : forall p, prog_lock_ok p = true ->
  forall pc h n, oreach p (pc, h) -> nth_error p pc = Some n ->
  (n_cls n = CMsg \/ n_cls n = CUnlock) -> h = true.
Proof. exact msg_access_under_lock. Qed.
Print Assumptions C13_prog_msg_access_under_lock.

(** ... and a hook call, a blocking action (TransmitFrame, channel receive, g.Wait), a select, a closure call, a goroutine
    start, a return and a Lock only with the lock NOT held (so a hook may lock, nothing blocks under the lock, no function
    returns holding it, no Lock on a mutex the thread already holds) *)
Theorem C13_prog_hooks_and_blocking_unlocked : forall p, prog_lock_ok p = true ->
  forall pc h n, oreach p (pc, h) -> nth_error p pc = Some n ->
  (n_cls n = CHook \/ n_cls n = CBlock \/ n_cls n = CSelect \/ n_cls n = CRet \/ n_cls n = CCallFn \/ n_cls n = CGo
   \/ n_cls n = CLock) -> h = false.
Proof. exact release_points_unlocked. Qed.
Print Assumptions C13_prog_hooks_and_blocking_unlocked.

(** on every path from a message-state action to a hook call / blocking action / select / return / closure call an Unlock
    node is executed *)
Theorem C13_prog_unlock_before_release : forall p, prog_lock_ok p = true ->
  forall pc h l pc' h' n n',
  oreach p (pc, h) -> osteps p (pc, h) l (pc', h') ->
  nth_error p pc = Some n -> n_cls n = CMsg ->
  nth_error p pc' = Some n' ->
  (n_cls n' = CHook \/ n_cls n' = CBlock \/ n_cls n' = CSelect \/ n_cls n' = CRet \/ n_cls n' = CCallFn \/ n_cls n' = CGo
   \/ n_cls n' = CLock) ->
  exists k m, In k l /\ nth_error p k = Some m /\ n_cls m = CUnlock.
Proof. exact msg_then_unlock_before_release. Qed.
Print Assumptions C13_prog_unlock_before_release.

(** over the shared mutex of the LTS ([pstep p t]: Lock needs owner = None and makes t the owner, Unlock frees it): a step
    of thread t whose view "h" agrees with the owner field is an own step, and the agreement is kept - so the three
    theorems above speak about [owner s = Some t] *)
Theorem C13_prog_shared_owner : forall p t pc o pc' o' h,
  pstep p t (pc, o) (pc', o') -> (o = Some t <-> h = true) ->
  exists h', ostep p (pc, h) (pc', h') /\ (o' = Some t <-> h' = true).
Proof. exact pstep_is_ostep. Qed.
Print Assumptions C13_prog_shared_owner.

(** the reference programs (transcription of RunMessageReceiver, RunMessageTransmitter with its four closures, Run with
    its three goroutine bodies) are accepted; the run-time comparison [first_diff extracted reference = None] means equality *)
Theorem C13_reference_programs_lock_ok :
  prog_lock_ok receiver_prog = true /\ forallb prog_lock_ok transmitter_prog = true /\ forallb prog_lock_ok run_prog = true.
Proof. exact (conj receiver_prog_lock_ok (conj transmitter_progs_lock_ok run_progs_lock_ok)). Qed.
Print Assumptions C13_reference_programs_lock_ok.

Theorem C13_extracted_equal_is_reference : forall p q, first_diff p q = None -> p = q.
Proof. exact first_diff_none_eq. Qed.
Print Assumptions C13_extracted_equal_is_reference.

(** non-vacuity of the checker: the receiver with `continue` placed after n.Lock() (node 3/4 moved behind the Lock), a
    Frame() outside the lock, a hook called before Unlock are all rejected; the receiver's reachable configurations
    include a message access and the hook call *)
Example C13_action_programs_nonvacuous :
  prog_lock_ok [mkNode CLock [] [1]; mkNode CTest [] [2; 3]; mkNode CAssign [] [0]; mkNode CMsg [] [4]; mkNode CUnlock [] [5]; mkNode CRet [] []] = false /\
  prog_lock_ok [mkNode CLock [] [1]; mkNode CUnlock [] [2]; mkNode CMsg [] [3]; mkNode CRet [] []] = false /\
  prog_lock_ok [mkNode CLock [] [1]; mkNode CMsg [] [2]; mkNode CHook [] [3]; mkNode CUnlock [] [4]; mkNode CRet [] []] = false /\
  prog_lock_ok [mkNode CLock [] [1]; mkNode CMsg [] [2]; mkNode CTest [] [3; 4]; mkNode CRet [] []; mkNode CUnlock [] [3]] = false /\
  first_lock_violation [mkNode CLock [] [1]; mkNode CUnlock [] [2]; mkNode CMsg [] [3]; mkNode CRet [] []] = Some 2 /\
  cls_at receiver_prog 8 = Some CMsg /\ cls_at receiver_prog 12 = Some CHook /\
  first_diff receiver_prog receiver_prog = None /\ first_diff receiver_prog (removelast receiver_prog) = Some 18.
Proof. vm_compute. repeat split. Qed.

(** REFINEMENT of the receiver's action program by the LTS (Runner/ProgramLts.v).  [rx_next t c o b] = the step thread t takes
    from the local configuration c = (pc, ok = outcome recorded last, hook = 0 / 1 inside the hook body / 2 inside it holding
    the lock) of [receiver_prog] when the executed call answers o: the LTS event it shows (None = silent: tests, `continue`)
    and the next configuration; [rx_abs] maps configurations to the receiver pcs R0..R8, RH, RHL, RErr, REnd, RDone of
    Appendix B (e.g. pc 9 `n.Unlock()` -> R7 ok; pc 10 `err != nil` -> R8 or REnd false).  Every silent step is a stutter of
    the abstraction, every visible step is a transition of [step_fn] of thread t (Lock: provided the mutex is free) into the
    abstraction of the new configuration that leaves the other threads alone. *)
Theorem C13_receiver_program_refines_lts : forall t c o b e c' s,
  rx_next t c o b = Some (e, c') -> th s t = TRx (rx_abs c) ->
  match e with
  | None => rx_abs c' = rx_abs c
  | Some ev => (forall u, ev = Lock u -> owner s = None) ->
      exists s', step_fn s ev = Some s' /\ th s' t = TRx (rx_abs c') /\ (forall u, u <> t -> th s' u = th s u)
                 /\ owner s' = match ev with Lock _ => Some t | Unlock _ => None | _ => owner s end
  end.
Proof. exact receiver_refines. Qed.
Print Assumptions C13_receiver_program_refines_lts.

(** hence reachability is kept, and I2 is a statement about the program: a message-state node of the receiver program is
    only ever executed, in a reachable state, by the owner of the node lock *)
Theorem C13_receiver_program_step_reachable : forall cfg t c o b ev c' s,
  reachable cfg s -> th s t = TRx (rx_abs c) -> rx_next t c o b = Some (Some ev, c') ->
  (forall u, ev = Lock u -> owner s = None) ->
  exists s', step_fn s ev = Some s' /\ reachable cfg s' /\ th s' t = TRx (rx_abs c').
Proof. exact receiver_step_reachable. Qed.
Print Assumptions C13_receiver_program_step_reachable.

Theorem C13_receiver_program_access_owns_lock : forall cfg t c o b w c' s,
  reachable cfg s -> th s t = TRx (rx_abs c) -> rx_next t c o b = Some (Some (Access t w), c') -> owner s = Some t.
Proof. exact receiver_program_access_owns_lock. Qed.
Print Assumptions C13_receiver_program_access_owns_lock.

(** the labelled semantics walks the program graph: the pc stays (inside a hook body), ends the function, or follows an edge *)
Theorem C13_program_steps_follow_graph : forall p interp outs ret_ok ret_ev t c o b e c',
  lnext p interp outs ret_ok ret_ev t c o b = Some (e, c') ->
  l_pc c' = l_pc c \/ l_pc c' = List.length p \/
  exists n, nth_error p (l_pc c) = Some n /\ In (l_pc c') (n_succ n).
Proof. exact lnext_follows_graph. Qed.
Print Assumptions C13_program_steps_follow_graph.

(** non-vacuity: the program started at (0, _, 0) abstracts to the receiver's initial pc; one frame with a hook that locks *)
Example C13_receiver_refinement_nonvacuous :
  rx_abs (mkL 0 true 0) = R0 /\
  rx_next 1 (mkL 0 true 0) true false = Some (Some (Recv 1 true), mkL 1 true 0) /\
  rx_next 1 (mkL 8 true 0) false false = Some (Some (Access 1 (WUnmarshal false)), mkL 9 false 0) /\
  rx_next 1 (mkL 10 false 0) true false = Some (None, mkL 11 false 0) /\
  rx_next 1 (mkL 12 true 1) true true = Some (Some (Lock 1), mkL 12 true 2) /\
  rx_next 1 (mkL 12 true 1) false false = Some (Some (HookRet 1 false), mkL 13 false 0) /\
  rx_next 1 (mkL 18 true 0) true false = Some (Some (Done 1 true), mkL 19 true 0).
Proof. vm_compute. repeat split. Qed.
