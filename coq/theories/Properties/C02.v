(** Property C02 - bit-range writes change exactly the addressed bits; read-after-write is
    identity; disjoint writes commute in any order; single-bit set/get.
    Only property theorems, each closed by [exact], each followed by [Print Assumptions]. *)
From Coq Require Import ZArith List Bool Permutation.
From CanVerif Require Import Can.Data Can.DataSpec Can.CheckProofs Can.DataProofs.
Import ListNotations.
Open Scope Z_scope.

(** content and frame condition in one statement, every payload bit k *)
Theorem C02_write_le : forall d s l v k,
  valid_data d -> 0 <= s -> 1 <= l <= 64 -> s + l <= 64 -> 0 <= v < 2 ^ l -> 0 <= k < 64 ->
  pbit (set_ubits_le d s l v) k =
  if (s <=? k) && (k <? s + l) then Z.testbit v (k - s) else pbit d k.
Proof. exact set_ubits_le_bits. Qed.
Print Assumptions C02_write_le.

Theorem C02_write_be : forall d s l v k,
  valid_data d -> 0 <= s < 64 -> 1 <= l <= 64 -> stream s + l <= 64 -> 0 <= v < 2 ^ l -> 0 <= k < 64 ->
  pbit (set_ubits_be d s l v) k =
  let t := stream k - stream s in
  if (0 <=? t) && (t <? l) then Z.testbit v (l - 1 - t) else pbit d k.
Proof. exact set_ubits_be_bits. Qed.
Print Assumptions C02_write_be.

(** the same in terms of the numbering of C01: value bit i lands at position i of the range,
    every position outside the range keeps its bit *)
Theorem C02_write_le_content : forall d s l v i,
  valid_data d -> 0 <= s -> 1 <= l <= 64 -> s + l <= 64 -> 0 <= v < 2 ^ l -> 0 <= i < l ->
  pbit (set_ubits_le d s l v) (le_pos s i) = Z.testbit v i.
Proof. exact set_ubits_le_content. Qed.
Print Assumptions C02_write_le_content.
Theorem C02_write_le_frame : forall d s l v k,
  valid_data d -> 0 <= s -> 1 <= l <= 64 -> s + l <= 64 -> 0 <= v < 2 ^ l -> 0 <= k < 64 ->
  (forall i, 0 <= i < l -> k <> le_pos s i) -> pbit (set_ubits_le d s l v) k = pbit d k.
Proof. exact set_ubits_le_frame. Qed.
Print Assumptions C02_write_le_frame.
Theorem C02_write_be_content : forall d s l v i,
  valid_data d -> 0 <= s < 64 -> 1 <= l <= 64 -> stream s + l <= 64 -> 0 <= v < 2 ^ l -> 0 <= i < l ->
  pbit (set_ubits_be d s l v) (be_pos s (l - 1 - i)) = Z.testbit v i.
Proof. exact set_ubits_be_content. Qed.
Print Assumptions C02_write_be_content.
Theorem C02_write_be_frame : forall d s l v k,
  valid_data d -> 0 <= s < 64 -> 1 <= l <= 64 -> stream s + l <= 64 -> 0 <= v < 2 ^ l -> 0 <= k < 64 ->
  (forall j, 0 <= j < l -> k <> be_pos s j) -> pbit (set_ubits_be d s l v) k = pbit d k.
Proof. exact set_ubits_be_frame. Qed.
Print Assumptions C02_write_be_frame.

(** signed writes store the low l two's-complement bits of any integer *)
Theorem C02_signed_le : forall d s l w, 1 <= l <= 64 -> set_sbits_le d s l w = set_ubits_le d s l (w mod 2 ^ l).
Proof. exact set_sbits_le_eq. Qed.
Print Assumptions C02_signed_le.
Theorem C02_signed_be : forall d s l w, 1 <= l <= 64 -> set_sbits_be d s l w = set_ubits_be d s l (w mod 2 ^ l).
Proof. exact set_sbits_be_eq. Qed.
Print Assumptions C02_signed_be.

(** read-after-write *)
Theorem C02_read_after_write_le : forall d s l v,
  valid_data d -> 0 <= s -> 1 <= l <= 64 -> s + l <= 64 -> 0 <= v < 2 ^ l ->
  ubits_le (set_ubits_le d s l v) s l = v.
Proof. exact ubits_le_set. Qed.
Print Assumptions C02_read_after_write_le.
Theorem C02_read_after_write_be : forall d s l v,
  valid_data d -> 0 <= s < 64 -> 1 <= l <= 64 -> stream s + l <= 64 -> 0 <= v < 2 ^ l ->
  ubits_be (set_ubits_be d s l v) s l = v.
Proof. exact ubits_be_set. Qed.
Print Assumptions C02_read_after_write_be.
Theorem C02_signed_read_after_write_le : forall d s l w,
  valid_data d -> 0 <= s -> 1 <= l <= 64 -> s + l <= 64 ->
  sbits_le (set_sbits_le d s l w) s l = sext l (w mod 2 ^ l).
Proof. exact sbits_le_set. Qed.
Print Assumptions C02_signed_read_after_write_le.
Theorem C02_signed_read_after_write_be : forall d s l w,
  valid_data d -> 0 <= s < 64 -> 1 <= l <= 64 -> stream s + l <= 64 ->
  sbits_be (set_sbits_be d s l w) s l = sext l (w mod 2 ^ l).
Proof. exact sbits_be_set. Qed.
Print Assumptions C02_signed_read_after_write_be.
Theorem C02_sext_in_range : forall l w, 1 <= l -> - 2 ^ (l - 1) <= w < 2 ^ (l - 1) -> sext l (w mod 2 ^ l) = w.
Proof. exact sext_mod. Qed.
Print Assumptions C02_sext_in_range.

(** histories: writes to disjoint ranges commute, and any ordering of a list of pairwise
    disjoint writes (mixed byte orders) yields the same payload *)
Theorem C02_commute : forall d w1 w2,
  valid_data d -> write_ok w1 -> write_ok w2 -> disjoint w1 w2 ->
  apply_write (apply_write d w1) w2 = apply_write (apply_write d w2) w1.
Proof. exact apply_write_comm. Qed.
Print Assumptions C02_commute.
Theorem C02_any_order : forall ws ws' d,
  Permutation ws ws' -> valid_data d -> Forall write_ok ws -> ForallOrdPairs disjoint ws ->
  fold_left apply_write ws d = fold_left apply_write ws' d.
Proof. exact writes_any_order. Qed.
Print Assumptions C02_any_order.
Theorem C02_history_bits : forall ws d k,
  valid_data d -> Forall write_ok ws -> ForallOrdPairs disjoint ws -> 0 <= k < 64 ->
  pbit (fold_left apply_write ws d) k =
  match find (fun w => covers w k) ws with Some w => wbit w k | None => pbit d k end.
Proof. exact writes_final_bits. Qed.
Print Assumptions C02_history_bits.

(** single bits: same numbering; no-op above 63 *)
Theorem C02_set_bit : forall d i b k,
  valid_data d -> 0 <= i -> 0 <= k < 64 ->
  pbit (set_bit d i b) k = if (i <=? 63) && (k =? i) then b else pbit d k.
Proof. exact set_bit_bits. Qed.
Print Assumptions C02_set_bit.
Theorem C02_set_bit_valid : forall d i b, valid_data d -> 0 <= i -> valid_data (set_bit d i b).
Proof. exact set_bit_valid. Qed.
Print Assumptions C02_set_bit_valid.

(** non-vacuity: an interleaved little-/big-endian pair of disjoint writes *)
Example C02_nonvacuous :
  let w1 := {| w_be := false; w_s := 4; w_l := 12; w_v := 0xABC |} in
  let w2 := {| w_be := true; w_s := 23; w_l := 20; w_v := 0x12345 |} in
  let d := [255; 0; 255; 0; 255; 0; 255; 0] in
  valid_datab d = true /\
  apply_write (apply_write d w1) w2 = apply_write (apply_write d w2) w1 /\
  apply_write (apply_write d w1) w2 <> d.
Proof. vm_compute. repeat split; congruence. Qed.
