(** Property C04 - the DBC parser reads back every well-formed definition faithfully, with positions.
    Only theorem statements, each closed by [exact]. Model: Dbc/Scanner.v (text/scanner subset),
    Dbc/Parser.v (parser.go, def.go), Dbc/DecFloat.v (strconv). [parse_bytes il id src] is
    NewParser(src).Parse() together with Defs() after the fixes F8, F9, F11, F12; [parse_bytes_old] is the code
    as it was before F8, F9, F11 and [p_int_old] / [int_of_token_old] is Parser.int as it was before F12. [il], [id] = unicode.IsLetter / unicode.IsDigit on runes >= 128 (arbitrary).
    Source AST, printer, denotation and well-formedness: Dbc/Printer.v. *)
From Coq Require Import ZArith List String.
From CanVerif Require Import Base.Dec Dbc.Ast Dbc.Scanner Dbc.DecFloat Dbc.Parser Dbc.Printer Dbc.Witness Dbc.IntConv Dbc.RoundTrip.
Import ListNotations.
Open Scope Z_scope.

(* FULL STATEMENT (DESIGN.md 5.4), not proved in this generality:

     Theorem parse_print : forall il id (l : layout) (ds : list sdef_full),
       wf_layout l -> Forall wf_sdef_full ds ->
       parse_bytes il id (print_full l ds) = Ok (elaborate_full l ds).

   over the source AST of all 16 definition kinds + unknown lines and all layouts of DESIGN.md 4.1
   (LF/CRLF, blank lines, indentation, extra spaces, empty gaps next to punctuation, line ends inside
   definitions, strings with escaped quotes / UTF-8 / embedded newlines, decimal and exponent floats).
   The executable definition of that class is the generator of harness/parser/gen.go; the
   correspondence run of the check compares implementation, model and denotation on it.

   PROVED (below): the statement for all 16 dispatching kinds and unknown lines (a top-level SG_ line anywhere except
   directly after a BO_ block, where the parser reads it as a signal of that message), any count
   and order, in the layouts described by [wf_lfile cr its gend]: one line per definition or signal,
   tokens separated by single spaces, every line terminated by the same run [cr] of spaces and carriage
   returns followed by LF ([cr] = [] : LF files, [13] : CRLF files, spaces : trailing blanks), any
   number of blank lines (spaces, carriage returns, line ends; LF or CRLF) before every definition and
   at the end of the file (positions = the line / byte offset where the definition really starts):
     VERSION; BS_ (all three forms); BU_; BO_ with its SG_ lines (plain / multiplexer switch M /
     multiplexed m<k> signals, both byte orders and signs, factor, offset, minimum, maximum, unit,
     one or more receivers; message id valid standard / extended / pseudo id);
     CM_ (all five object forms); VAL_ (signal and environment variable form); VAL_TABLE_;
     SIG_VALTYPE_ (with and without ':'); BO_TX_BU_ (with and without commas); EV_; ENVVAR_DATA_;
     BA_DEF_ (INT / HEX / FLOAT with and without range, STRING, ENUM; with and without object type);
     BA_DEF_DEF_ and BA_ (all object forms) with the value typed by the FIRST earlier BA_DEF_ of that
     name (enum value as string or as index; no value when no such BA_DEF_ exists) - [wf_file] threads
     the attribute context through the file, [elaborate] uses it for enum indices;
     NS_ with its symbol list ("NS_ :" and one line LF TAB symbol per symbol);
     unknown lines (identifier / decimal number / punctuation tokens).
   Numbers read by ParseFloat are decimal literals  [-] digits [. digits] [(e|E) [+|-] digits]  (no
   leading zeros; value = the model's correctly rounded conversion of the literal; sign applied
   afterwards as the parser does).  INT / HEX attribute ranges, defaults and values (Parser.int): a
   literal without fraction and exponent denotes ITS VALUE, for every int64 (any number of digits;
   saturated at the int64 limits beyond them) - [num_int] of Dbc/Printer.v, C04_int_field_is_written_value
   below; only a literal WITH fraction or exponent is read through float64 (correctly rounded, then
   the model of int64(f) with clamps).  The value of a VAL_ / VAL_TABLE_ entry is a float64 field in
   the Go structure itself (p.float()), so integers above 2^53 are rounded there by design;
   unsigned integers < 2^64 without leading zeros; strings over printable ASCII including the
   escaped quote and backslash-character pairs (kept verbatim); the text of CM_ may in addition contain
   line ends (each read as one space; the following definitions are then positioned on the later
   lines) and a backslash before anything but a quote; positions of value descriptions included.
   NOT covered by the proof: UTF-8 in strings, line ends in strings other than the
   CM_ text, the other layouts (indentation, extra spaces between tokens, empty gaps next to
   punctuation, line ends inside definitions, blank lines between the SG_ lines of a message or the
   symbol lines of NS_, tabs as blanks, line-end runs that differ from line to line). *)

(** parse (print_file cr its gend) = Ok (elaborate_file cr its): one definition per source definition,
    in order, every field equal to the source value, position = (line of the definition, column 1,
    byte offset of its line), for items [its] = (blank lines, definition) pairs, the line-end run [cr]
    and the final blank lines [gend] *)
Theorem C04_parse_print_partial : forall (il id : Z -> bool) (cr : list Z) (its : list item) (gend : list Z),
  wf_lfile cr its gend -> parse_bytes il id (print_file cr its gend) = Ok (elaborate_file cr its).
Proof. exact parse_print_layout. Qed.
Print Assumptions C04_parse_print_partial.

(** the plain layout (LF, no blank lines) as a special case, in the earlier form *)
Theorem C04_parse_print_plain : forall (il id : Z -> bool) (ds : list sdef),
  wf_file ds -> parse_bytes il id (print [] ds) = Ok (elaborate [] ds).
Proof. exact (fun il id ds H => parse_print_partial il id [] ds (Forall_nil _) H). Qed.
Print Assumptions C04_parse_print_plain.

(** a line that starts with an unrecognised keyword yields exactly one unknown definition and never
    changes how the following lines are parsed *)
Theorem C04_unknown_one : forall (il id : Z -> bool) (cr : list Z) kw ts (ds : list sdef),
  cr_ok cr -> wf_sdef (SUnknown kw ts) -> wf_file ds ->
  parse_bytes il id (print cr (SUnknown kw ts :: ds))
  = Ok (DUnknown {| p_line := 1; p_column := 1; p_offset := 0 |} kw
        :: elab_from cr [] 2 (blen (print_def cr (SUnknown kw ts))) ds).
Proof. exact unknown_one. Qed.
Print Assumptions C04_unknown_one.

(** regression witnesses of the two C04 defects: with the discardLine that read two tokens per
    iteration, the one-token unknown line FOO_ swallows the following VERSION definition (F8),
    so C04_unknown_one is false of [parse_bytes_old] ... *)
Theorem C04_parse_print_refuted : forall il id,
  parse_bytes_old il id (txt ("FOO_" ++ LF ++ "VERSION ""a""" ++ LF)) = Ok [DUnknown (at_ 1 1 0) (txt "FOO_")]
  /\ parse_bytes il id (txt ("FOO_" ++ LF ++ "VERSION ""a""" ++ LF))
     = Ok [DUnknown (at_ 1 1 0) (txt "FOO_"); DVersion (at_ 2 1 5) (txt "a")].
Proof. exact (fun il id => conj (f8_old il id) (f8_fixed il id)). Qed.

(** ... and the full bit timing form was rejected because ':' and ',' were never consumed (F9) *)
Theorem C04_bit_timing_refuted : forall il id,
  parse_bytes_old il id (txt ("BS_: 500 : 1 , 2" ++ LF)) = Err (at_ 1 10 9) ESyntax [DBitTiming (at_ 1 1 0) 500 0 0]
  /\ parse_bytes il id (txt ("BS_: 500 : 1 , 2" ++ LF)) = Ok [DBitTiming (at_ 1 1 0) 500 1 2].
Proof. exact (fun il id => conj (f9_old il id) (f9_fixed il id)). Qed.

(** ------------------------------------------------------------------ integers (F12)
    Parser.int after the fix: a scanner.Int token made of decimal digits - any length, leading zeros
    included - is converted to its base-ten value with the sign applied, saturated at the int64
    limits ([int_of_token is_int neg txt] = the conversion of Dbc/DecFloat.v; [uint_value] = the value
    of the digit string; [sat64 z] = max (-2^63) (min (2^63 - 1) z)) ... *)
Theorem C04_int_conversion_exact : forall (neg : bool) (ds : list Z),
  ds <> [] -> Forall (fun c => is_decimal c = true) ds ->
  int_of_token true neg ds = Some (sat64 (if neg then - uint_value ds else uint_value ds)).
Proof. exact (fun neg ds H1 H2 => int_of_token_digits neg ds (conj H1 H2)). Qed.
Print Assumptions C04_int_conversion_exact.

(** ... so every int64 written the way strconv.FormatInt writes it ('-' is a token of its own, then
    [itoa] of the magnitude, Base/Dec.v) is read back exactly, MinInt64 and MaxInt64 included *)
Theorem C04_int_conversion_every_int64 : forall z : Z, - 2 ^ 63 <= z < 2 ^ 63 ->
  int_of_token true (z <? 0) (Dec.itoa (Z.abs z)) = Some z.
Proof. exact int_of_token_itoa. Qed.
Print Assumptions C04_int_conversion_every_int64.

(** the INT / HEX fields of [elaborate] in C04_parse_print_partial ([num_int]) are the written value
    for every decimal integer inside int64 - no bound at 2^53 *)
Theorem C04_int_field_is_written_value : forall n : snum,
  n_frac n = None -> n_exp n = None ->
  - 2 ^ 63 <= (if n_neg n then - uint_value (n_digits n) else uint_value (n_digits n)) < 2 ^ 63 ->
  num_int n = (if n_neg n then - uint_value (n_digits n) else uint_value (n_digits n)).
Proof. exact num_int_written. Qed.
Print Assumptions C04_int_field_is_written_value.

(** regression witness of F12: Parser.int as it was converted every token through float64 and tested
    the upper clamp with '>': 9223372036854775807 rounds to 2^63, is not > float64(MaxInt64) = 2^63,
    and int64(2^63) is MinInt64 on amd64; 9007199254740993 = 2^53 + 1 loses its last bit.  The same
    on a parser state: [p_int_old] on the text after `BA_ "GenSigStartValue" SG_ 1 S`; the fixed
    parser reads both as written *)
Theorem C04_int_old_refuted : forall il id,
  int_of_token_old false (txt "9223372036854775807") = Some (- 2 ^ 63)
  /\ int_of_token_old false (txt "9007199254740993") = Some (2 ^ 53)
  /\ int_of_token true false (txt "9223372036854775807") = Some (2 ^ 63 - 1)
  /\ int_of_token true false (txt "9007199254740993") = Some (2 ^ 53 + 1)
  /\ (exists st, p_int_old il id 40 (p_init (txt " 9223372036854775807;")) = POk (- 2 ^ 63) st)
  /\ (exists st, p_int_old il id 40 (p_init (txt " -9007199254740993;")) = POk (- 2 ^ 53) st)
  /\ (exists a v1 v2,
        parse_bytes il id (txt ("BA_DEF_ SG_ ""GenSigStartValue"" INT 0 0;" ++ LF
                                ++ "BA_ ""GenSigStartValue"" SG_ 1 S 9223372036854775807;" ++ LF
                                ++ "BA_ ""GenSigStartValue"" SG_ 1 S -9007199254740993;" ++ LF))
        = Ok [DAttribute a; DAttributeValue v1; DAttributeValue v2]
        /\ av_int v1 = 2 ^ 63 - 1 /\ av_int v2 = - (2 ^ 53 + 1)).
Proof.
  exact (fun il id => conj int_of_token_old_maxint64 (conj int_of_token_old_2p53_1
          (conj (proj1 int_of_token_new_witnesses) (conj (proj2 int_of_token_new_witnesses)
          (conj (proj1 (f12_old il id)) (conj (proj1 (proj2 (f12_old il id))) (f12_fixed il id))))))).
Qed.

(** non-vacuity: a source file with all covered kinds satisfies the hypothesis of the round trip
    (VERSION "1.0" / BS_: 500 : 1 , 2 / BU_: ECU1 ECU2 / BO_ 2566844926 Msg : 8 ECU1 with two lines
    SG_ Speed m3 : 7 | 16 @ 0 - ( 0.5 , -1.5e1 ) [ -40 | 6E+3 ] "km/h" ECU2 , ECU1 / FOO_ x 12 ; / the same SG_
    line at top level / BS_: /
    VERSION "") ... *)
Example C04_nonvacuous : wf_file sample_ds /\ List.length sample_ds = 8%nat.
Proof. exact (conj sample_ds_wf_file eq_refl). Qed.

(** ... as does a file with NS_ (two symbols, then an empty NS_) and the one-line kinds (CM_ SG_ 1 S "hi" ; / CM_ with escaped quotes, backslashes and three line ends in the text ; / VAL_ 1 S -1 "a" 2 "" ; /
    VAL_ E ; / VAL_TABLE_ T 0 "z" ; / SIG_VALTYPE_ 1 S : 1 ; / SIG_VALTYPE_ 1 S 2 ; / BO_TX_BU_ 1 : A , B ; /
    EV_ E : 1 [ 0 | 9 ] "V" -3 7 DUMMY_NODE_VECTOR2 N , M ; / ENVVAR_DATA_ E : 8 ;) *)
Example C04_nonvacuous_one_line_kinds : wf_file sample2_ds /\ List.length sample2_ds = 12%nat.
Proof. exact (conj sample2_ds_wf_file eq_refl). Qed.

(** ... and a file with attribute definitions, defaults and values: BA_DEF_ "A" INT 0 100 ; / BA_DEF_ SG_ "E"
    ENUM "x" , "y" ; / BA_DEF_ BO_ "F" FLOAT ; / BA_DEF_ BU_ "S" STRING ; / BA_DEF_ EV_ "H" HEX ; / BA_DEF_ "A"
    STRING ; (second definition of A, not used for typing) / BA_DEF_DEF_ "A" 5 ; / BA_DEF_DEF_ "E" 1 ; /
    BA_DEF_DEF_ "Z" ; / BA_ "A" BO_ 1 -3 ; / BA_ "E" SG_ 1 S "y" ; / BA_ "S" BU_ N "t" ; / BA_ "F" 2 ; / BA_ "H" EV_ V 7 ; *)
Example C04_nonvacuous_attributes : wf_file sample3_ds /\ List.length sample3_ds = 14%nat.
Proof. exact (conj sample3_ds_wf_file eq_refl). Qed.

(** ... and the same 14 definitions laid out with CRLF line ends, a CRLF blank line before every
    definition and a last line that holds one space *)
Example C04_nonvacuous_layout : wf_lfile [13] sample_layout [32; 13; 10] /\ List.length sample_layout = 14%nat.
Proof. exact (conj sample_layout_wf eq_refl). Qed.

(** ... and the model parses a file of other kinds (BO_/SG_ with extended id, multiplexed big-endian
    signed signal, unknown line, two-line comment) to six definitions *)
Example C04_nonvacuous_model : forall il id,
  exists v b n m u c, parse_bytes il id sample_input = Ok [v; b; n; DMessage m; DUnknown u (txt "SIG_GROUP_"); DComment c]
    /\ m_id m = 2566844926 /\ List.length (m_signals m) = 1%nat /\ cm_comment c = txt "a b".
Proof. exact sample_parses. Qed.

(** ------------------------------------------------------------------ numbers: link to Flocq
    What "the model's correctly rounded conversion" above means.  strconv.ParseFloat is modelled
    (Dbc/DecFloat.v) as readFloat's syntax analysis, which yields a mantissa m > 0 and a decimal
    exponent e (value m * 10^e; hexadecimal literals: m * 2^e), followed by [dec_to_spec m e]
    ([bin_to_spec m e]), written with the executable operations of Coq's Floats.SpecFloat.
    PROVED here (through Flocq's Bdiv_correct_aux / binary_normalize_correct): [dec_to_spec m e] and
    [bin_to_spec m e] are the binary64 numbers nearest (ties to even, gradual underflow) to the exact
    real value, for EVERY m and e, and they are infinite exactly when that rounded value reaches
    2^1024 (ParseFloat's ErrRange); [b64_bits_of_spec] is Flocq's IEEE-754 encoding.
    TESTED ONLY (NUM stream of the harness against strconv.ParseFloat/ParseUint/Atoi, 1500 + 500
    literals per run incl. rounding boundaries, subnormals, overflow, 400-digit mantissas): the
    transcription of readFloat (digit/underscore/exponent syntax -> m, e; exponent accumulation that
    saturates at 10000), the two shortcuts [dp > 310 -> ErrRange] and [dp < -330 -> 0] that Go takes
    before converting (they agree with correct rounding since 10^310 > 2^1024 and 10^-330 < 2^-1075,
    but that is not proved), Go's own algorithm (Eisel-Lemire / 800-digit decimal slow path) being
    correctly rounded at all, and int64(float64) on amd64. *)
From Coq Require Import Reals Floats.SpecFloat.
From Flocq Require Import Core.Core IEEE754.BinarySingleNaN.
From CanVerif Require Import Dbc.DecFloat Dbc.DecFloatCorrect.

Theorem C04_decimal_correctly_rounded : forall (m : positive) (e : Z),
  let x := (IZR (Zpos m) * bpow radix10 e)%R in
  if Rlt_bool (Rabs (rnd64 x)) (bpow radix2 1024) then
    SF2R radix2 (dec_to_spec m e) = rnd64 x /\ is_finite_SF (dec_to_spec m e) = true
  else dec_to_spec m e = S754_infinity false.
Proof. exact dec_to_spec_correct. Qed.
Print Assumptions C04_decimal_correctly_rounded.

Theorem C04_hexadecimal_correctly_rounded : forall (m : positive) (e : Z),
  let x := (IZR (Zpos m) * bpow radix2 e)%R in
  if Rlt_bool (Rabs (rnd64 x)) (bpow radix2 1024) then
    SF2R radix2 (bin_to_spec m e) = rnd64 x /\ is_finite_SF (bin_to_spec m e) = true
  else bin_to_spec m e = S754_infinity false.
Proof. exact bin_to_spec_correct. Qed.
Print Assumptions C04_hexadecimal_correctly_rounded.

Theorem C04_bits_are_ieee754 : forall s m e (H : SpecFloat.bounded 53 1024 m e = true),
  b64_bits_of_spec (S754_finite s m e)
  = Some (Bits.bits_of_binary_float 52 11 (Binary.B754_finite 53 1024 s m e H)).
Proof. exact b64_bits_of_spec_encoding. Qed.
Print Assumptions C04_bits_are_ieee754.
