(** Property C04 - the DBC parser reads back every well-formed definition faithfully, with positions.
    Only theorem statements, each closed by [exact]. Model: Dbc/Scanner.v, Dbc/Parser.v, Dbc/DecFloat.v
    ([parse_bytes il id src] = NewParser(src).Parse() with Defs(), after the fixes F8, F9, F11;
    [parse_bytes_old] = the code as it was). [il], [id]: unicode.IsLetter / IsDigit on runes >= 128. *)
From Coq Require Import ZArith List String.
From CanVerif Require Import Dbc.Ast Dbc.Scanner Dbc.Parser Dbc.Witness.
Import ListNotations.
Open Scope Z_scope.

(** regression witnesses of the two C04 defects: with the discardLine that read two tokens per
    iteration, the one-token unknown line FOO_ swallows the following VERSION definition (F8) ... *)
Theorem C04_parse_print_refuted : forall il id,
  parse_bytes_old il id (txt ("FOO_" ++ LF ++ "VERSION ""a""" ++ LF)) = Ok [DUnknown (at_ 1 1 0) (txt "FOO_")]
  /\ parse_bytes il id (txt ("FOO_" ++ LF ++ "VERSION ""a""" ++ LF))
     = Ok [DUnknown (at_ 1 1 0) (txt "FOO_"); DVersion (at_ 2 1 5) (txt "a")].
Proof. exact (fun il id => conj (f8_old il id) (f8_fixed il id)). Qed.

(** ... and the full bit timing form was rejected because ':' and ',' were never consumed (F9) *)
Theorem C04_bit_timing_refuted : forall il id,
  parse_bytes_old il id (txt ("BS_: 500 : 1 , 2" ++ LF)) = Err (at_ 1 10 9) ESyntax [DBitTiming (at_ 1 1 0) 500 0 0]
  /\ parse_bytes il id (txt ("BS_: 500 : 1 , 2" ++ LF)) = Ok [DBitTiming (at_ 1 1 0) 500 1 2].
Proof. exact (fun il id => conj (f9_old il id) (f9_fixed il id)). Qed.

(** non-vacuity: a file with VERSION, BS_, BU_, BO_/SG_ (extended id, multiplexed, big-endian signed
    signal), an unknown line and a two-line comment parses to six definitions *)
Example C04_nonvacuous : forall il id,
  exists v b n m u c, parse_bytes il id sample_input = Ok [v; b; n; DMessage m; DUnknown u (txt "SIG_GROUP_"); DComment c]
    /\ m_id m = 2566844926 /\ List.length (m_signals m) = 1%nat /\ cm_comment c = txt "a b".
Proof. exact sample_parses. Qed.
