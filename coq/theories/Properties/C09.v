(** Property C09 - physical <-> raw conversion is the DBC linear rule: clamped, saturating,
    monotone.
    Only property theorems, each closed by [exact], each followed by [Print Assumptions].
    Model: Descriptor/Physical.v on Flocq binary64 ([f64 = binary_float 53 1024], one NaN):
      to_physical_f scale offset mn mx v  = clamp_opt (Bplus (Bmult v scale) offset)
      from_physical_f scale offset mn mx signed len p
          = fmax lo (fmin hi (Bdiv (Bminus (clamp_opt p) offset) scale))      (lo, hi = float64 of the raw bounds)
      clamp_opt x = if declared_f mn mx then fmax (fmin x mx) mn else x       (math.Max(math.Min(x, Max), Min))
      declared_f mn mx = (mn != 0 || mx != 0);  fmin/fmax = math.Min/math.Max with Go's special cases
      setter_raw_f ... p = Btrunc (from_physical_f ... p)                      (the generated setter's T(...))
    every operation in round-to-nearest-even ([mode_NE]).
    Class of signals (hypothesis of every theorem):
      c09_class_f scale offset mn mx = true  :=  scale finite and non-zero, offset, mn, mx finite, mn <= mx.
    [Bleb x y = true] is IEEE x <= y (false if a NaN is involved); raw_lo/raw_hi are the bounds
    of C08: (-2^(len-1), 2^(len-1)-1) signed, (0, 2^len-1) unsigned. *)
From Coq Require Import ZArith List Bool Reals.
From Flocq Require Import Core BinarySingleNaN.
From CanVerif Require Import Can.Data Descriptor.Signal Descriptor.Physical Descriptor.FloatProofs
  Descriptor.PhysicalProofs Descriptor.RoundTrip.
Open Scope R_scope.

(** ** clamp: ToPhysical of a finite raw value v (in the code: float64 of the raw integer).
    The linear value x = fl(fl(v*scale)+offset) is never NaN; with a declared range the result
    is finite, inside [mn, mx], and is x limited to [mn, mx]; with no range it is x itself. *)
Theorem C09_clamp : forall scale offset mn mx v,
  c09_class_f scale offset mn mx = true -> is_finite v = true ->
  let x := Bplus mode_NE (Bmult mode_NE v scale) offset in
  let r := to_physical_f scale offset mn mx v in
  is_nan x = false /\
  (declared_f mn mx = true ->
     is_finite r = true /\ Bleb mn r = true /\ Bleb r mx = true /\
     (is_finite x = true -> B2R r = Rmax (B2R mn) (Rmin (B2R x) (B2R mx)))) /\
  (declared_f mn mx = false -> r = x).
Proof. exact to_physical_clamp_b. Qed.
Print Assumptions C09_clamp.

(** "declares a range" is: min or max is a non-zero number *)
Theorem C09_declared : forall mn mx,
  is_finite mn = true -> is_finite mx = true ->
  (declared_f mn mx = true <-> (B2R mn <> 0 \/ B2R mx <> 0)).
Proof. exact declared_f_spec. Qed.
Print Assumptions C09_declared.

(** the linear value is raw*factor+offset in float64: two roundings to nearest even
    ([rnd64 = round radix2 (FLT_exp (3-1024-53) 53) ZnearestE]), provided neither overflows *)
Theorem C09_linear_value : forall v scale offset : f64,
  is_finite v = true -> is_finite scale = true -> is_finite offset = true ->
  Rabs (rnd64 (B2R v * B2R scale)) < bpow radix2 1024 ->
  Rabs (rnd64 (rnd64 (B2R v * B2R scale) + B2R offset)) < bpow radix2 1024 ->
  is_finite (Bplus mode_NE (Bmult mode_NE v scale) offset) = true /\
  B2R (Bplus mode_NE (Bmult mode_NE v scale) offset) = rnd64 (rnd64 (B2R v * B2R scale) + B2R offset).
Proof. exact linear_value. Qed.
Print Assumptions C09_linear_value.

(** float64 of a raw integer is exact (all raw values of signals up to 53 bits) *)
Theorem C09_raw_to_float_exact : forall z,
  (Z.abs z < 2 ^ 53)%Z -> is_finite (f64_of_Z z) = true /\ B2R (f64_of_Z z) = IZR z.
Proof. exact f64_of_Z_exact. Qed.
Print Assumptions C09_raw_to_float_exact.

(** ** saturation, L <= 52: for EVERY non-NaN physical value, +-Inf included, FromPhysical is a
    finite float inside the raw range, and the integer the setter stores (truncation) is inside
    the raw range: always encodable *)
Theorem C09_saturation : forall scale offset mn mx signed len p,
  c09_class_f scale offset mn mx = true -> (1 <= len <= 52)%Z -> is_nan p = false ->
  let r := from_physical_f scale offset mn mx signed len p in
  is_finite r = true /\
  Bleb (raw_lo_f signed len) r = true /\ Bleb r (raw_hi_f signed len) = true /\
  IZR (raw_lo signed len) <= B2R r <= IZR (raw_hi signed len) /\
  (raw_lo signed len <= setter_raw_f scale offset mn mx signed len p <= raw_hi signed len)%Z.
Proof. exact from_physical_saturates_b. Qed.
Print Assumptions C09_saturation.

(** ** monotonicity (every length): p <= q implies FromPhysical p <= FromPhysical q for a
    positive scale and FromPhysical q <= FromPhysical p for a negative one; p, q range over all
    non-NaN floats including +-Inf *)
Theorem C09_monotone : forall scale offset mn mx signed len p q,
  c09_class_f scale offset mn mx = true -> Bleb p q = true ->
  Bleb (if Bsign scale then from_physical_f scale offset mn mx signed len q
        else from_physical_f scale offset mn mx signed len p)
       (if Bsign scale then from_physical_f scale offset mn mx signed len p
        else from_physical_f scale offset mn mx signed len q) = true.
Proof. exact from_physical_mono_b. Qed.
Print Assumptions C09_monotone.

(** ** the decidable clause predicates that the correspondence driver evaluates on the
    implementation's outputs hold of the model (so a PFAIL line is a violation of the above) *)
Theorem C09_clauses_hold_of_model : forall scale offset mn mx signed len,
  c09_class_f scale offset mn mx = true ->
  (forall v, is_finite v = true ->
     clamp_ok_f scale offset mn mx v (to_physical_f scale offset mn mx v) = true) /\
  (forall p, (1 <= len <= 52)%Z -> is_nan p = false ->
     sat_ok_f signed len (from_physical_f scale offset mn mx signed len p)
              (setter_raw_f scale offset mn mx signed len p) = true) /\
  (forall p q, Bleb p q = true ->
     mono_ok_f scale (from_physical_f scale offset mn mx signed len p)
                     (from_physical_f scale offset mn mx signed len q) = true).
Proof. exact model_satisfies_clauses. Qed.
Print Assumptions C09_clauses_hold_of_model.

(** ** round trip, signals of at most 32 bits whose step float64 resolves:
      resolves_f scale offset = true  :=  2^-960 <= |scale| <= 2^960, offset = 0 or of such
      magnitude, |offset| <= 2^50 * |scale|   (lemma [resolves_inv] gives the real inequalities) *)
(** raw -> physical -> raw: a raw value r of the signal whose linear value
    fl(fl(r*scale)+offset) lies inside the declared range (or no range is declared) comes back
    from the setter within one least-significant step.  Proof: forward error analysis of the four
    roundings (|q - r| <= 1), saturation towards an interval containing r, truncation. *)
Theorem C09_roundtrip_raw : forall scale offset mn mx signed len r,
  c09_class_f scale offset mn mx = true -> resolves_f scale offset = true ->
  (1 <= len <= 32)%Z -> (raw_lo signed len <= r <= raw_hi signed len)%Z ->
  in_range_f mn mx (Bplus mode_NE (Bmult mode_NE (f64_of_Z r) scale) offset) = true ->
  (Z.abs (setter_raw_f scale offset mn mx signed len (to_physical_f scale offset mn mx (f64_of_Z r)) - r) <= 1)%Z.
Proof. intros scale offset mn mx signed len r Hc Hr. exact (raw_roundtrip scale offset mn mx Hc Hr signed len r). Qed.
Print Assumptions C09_roundtrip_raw.

(** the clause the driver evaluates is an instance of it *)
Theorem C09_roundtrip_raw_clause : forall scale offset mn mx signed len r,
  c09_class_f scale offset mn mx = true -> (1 <= len <= 64)%Z ->
  rt_raw_ok_f scale offset mn mx signed len r
    (setter_raw_f scale offset mn mx signed len (to_physical_f scale offset mn mx (f64_of_Z r))) = true.
Proof. exact rt_raw_ok_model. Qed.
Print Assumptions C09_roundtrip_raw_clause.

(** physical -> raw -> physical.  The clause of the property text, "a physical value inside the
    representable range is reproduced with an error BELOW one factor step", is false for exact
    reals on the faithful model: scale 0.1, offset -40, unsigned 16 bits, no declared range,
    p = -39.6: FromPhysical gives 3.99999999999998, the setter stores 3, the getter returns -39.7,
    |back - p| = 1.0000000000000142 steps (truncation plus the rounding of 3*0.1-40).
    So the FULL clause of the property is REFUTED for the unchanged code: this is the known finding
    C09-physical-roundtrip-truncation of known_findings.json (not fixed: a rounding setter would
    change documented behaviour).  The check evaluates this one-step clause on every in-class
    observation (clause roundtrip-physical-one-step) and reports its failures once as KNOWN-FINDING;
    the proved replacement is the two-step bound [C09_roundtrip_physical_partial] below (clause
    roundtrip-physical-two-steps, whose failure is an ordinary violation). *)
Theorem C09_roundtrip_physical_refuted :
  c09_class_f w_scale w_offset fzero fzero = true /\ resolves_f w_scale w_offset = true /\
  in_range_f fzero fzero w_p = true /\ in_representable_f w_scale w_offset false 16 w_p = true /\
  Rabs (B2R w_scale) <= Rabs (B2R w_back - B2R w_p) < 2 * Rabs (B2R w_scale).
Proof. exact rt_phys_strict_refuted. Qed.

(** what holds instead (proved): the error is below TWO factor steps, for every finite p inside
    the declared range and inside the representable physical range
      in_representable_f scale offset signed len p  :=  p lies between the physical values
      fl(fl(lo*scale)+offset) and fl(fl(hi*scale)+offset) of the raw extremes (either order).
    The forward error analysis gives 1 (truncation) + 0.14 (division side, saturation) + 0.13
    (multiplication side) steps; the full statement of the property text with bound ONE is the
    refuted theorem above, this is its [_partial] replacement. *)
Theorem C09_roundtrip_physical_partial : forall scale offset mn mx signed len p,
  c09_class_f scale offset mn mx = true -> resolves_f scale offset = true ->
  (1 <= len <= 32)%Z -> is_finite p = true -> in_range_f mn mx p = true ->
  in_representable_f scale offset signed len p = true ->
  let back := to_physical_f scale offset mn mx (f64_of_Z (setter_raw_f scale offset mn mx signed len p)) in
  is_finite back = true /\ Rabs (B2R back - B2R p) < 2 * Rabs (B2R scale).
Proof.
  intros scale offset mn mx signed len p Hc Hr.
  exact (phys_roundtrip scale offset mn mx Hc Hr signed len p).
Qed.
Print Assumptions C09_roundtrip_physical_partial.

(** the decidable clause the driver evaluates (bound two) holds of the model, and means exactly
    that inequality of reals *)
Theorem C09_roundtrip_physical_clause : forall scale offset mn mx signed len p,
  c09_class_f scale offset mn mx = true -> (1 <= len)%Z ->
  rt_phys_ok_f 2 scale offset mn mx signed len p
    (to_physical_f scale offset mn mx (f64_of_Z (setter_raw_f scale offset mn mx signed len p))) = true.
Proof. exact rt_phys_ok_model. Qed.
Print Assumptions C09_roundtrip_physical_clause.

Theorem C09_roundtrip_physical_clause_meaning : forall steps scale offset mn mx signed len p back,
  (len <=? 32)%Z = true -> resolves_f scale offset = true -> is_finite p = true ->
  in_range_f mn mx p = true -> in_representable_f scale offset signed len p = true ->
  is_finite back = true -> is_finite scale = true ->
  rt_phys_ok_f steps scale offset mn mx signed len p back =
  Rlt_bool (Rabs (B2R back - B2R p)) (IZR steps * Rabs (B2R scale)).
Proof. exact rt_phys_ok_f_spec. Qed.
Print Assumptions C09_roundtrip_physical_clause_meaning.

(** the resolvability hypothesis in real terms *)
Theorem C09_resolves_meaning : forall scale offset : f64,
  is_finite scale = true -> is_finite offset = true -> resolves_f scale offset = true ->
  bpow radix2 (-960) <= Rabs (B2R scale) <= bpow radix2 960 /\
  Rabs (B2R offset) <= bpow radix2 50 * Rabs (B2R scale).
Proof. exact resolves_inv. Qed.
Print Assumptions C09_resolves_meaning.

(** non-vacuity: a signal of the class (scale 0.1, offset -40, range [-40, 215], signed 16 bits),
    which resolves; a clamped conversion, saturation of +Inf, a strict monotone pair *)
Example C09_nonvacuous :
  let scale := f64_of_bits 0x3fb999999999999a in
  let offset := f64_of_bits 0xc044000000000000 in
  let mn := f64_of_bits 0xc044000000000000 in
  let mx := f64_of_bits 0x406ae00000000000 in
  c09_class_f scale offset mn mx = true /\ declared_f mn mx = true /\ resolves_f scale offset = true /\
  bits_of_f64 (to_physical_f scale offset mn mx (f64_of_Z 30000)) = 0x406ae00000000000%Z /\
  bits_of_f64 (to_physical_f scale offset mn mx (f64_of_Z 123)) = 0xc03bb33333333333%Z /\
  setter_raw_f scale offset mn mx true 16 (B754_infinity false) = 2550%Z /\
  setter_raw_f scale offset mn mx true 16 (f64_of_bits 0x4024000000000000) = 500%Z /\
  setter_raw_f scale offset mn mx true 16 (f64_of_bits 0x4034000000000000) = 600%Z /\
  Bleb (f64_of_bits 0x4024000000000000) (f64_of_bits 0x4034000000000000) = true.
Proof. vm_compute. repeat split; reflexivity. Qed.
