(** Property C01 - bit-range reads return exactly the documented payload bits.
    Only property theorems, each closed by [exact], each followed by [Print Assumptions].
    Model: Can/Data.v (ubits_le/ubits_be/sbits_*/bit = data.go:101-213 + reinterpret.AsSigned);
    specification: Can/DataSpec.v ([pbit], [le_pos], [be_pos] = the documented numbering, [sext]). *)
From Coq Require Import ZArith List Bool.
From CanVerif Require Import Can.Data Can.DataSpec Can.CheckProofs Can.DataProofs.
Import ListNotations.
Open Scope Z_scope.

(** little-endian: value bit i is payload bit start+i; nothing above bit l-1 *)
Theorem C01_unsigned_le : forall d s l i,
  valid_data d -> 0 <= s -> 1 <= l <= 64 -> s + l <= 64 -> 0 <= i ->
  Z.testbit (ubits_le d s l) i = (i <? l) && pbit d (le_pos s i).
Proof. exact ubits_le_bits. Qed.
Print Assumptions C01_unsigned_le.

(** big-endian: value bit l-1 is payload bit start; each following (lower) value bit is one
    lower in the same byte, continuing at bit 7 of the next byte ([be_pos]) *)
Theorem C01_unsigned_be : forall d s l i,
  valid_data d -> 0 <= s < 64 -> 1 <= l <= 64 -> stream s + l <= 64 -> 0 <= i ->
  Z.testbit (ubits_be d s l) i = (i <? l) && pbit d (be_pos s (l - 1 - i)).
Proof. exact ubits_be_bits. Qed.
Print Assumptions C01_unsigned_be.

(** "fits" in the statement above is exactly: every bit of the walk lies inside the 64 payload bits *)
Theorem C01_fits_be_iff : forall s l,
  0 <= s -> 1 <= l -> ((forall j, 0 <= j < l -> be_pos s j < 64) <-> stream s + l <= 64).
Proof. intros s l Hs Hl. exact (fits_be_closed 64 s l Hs Hl eq_refl). Qed.
Print Assumptions C01_fits_be_iff.

Theorem C01_fits_le_iff : forall s l,
  1 <= l -> ((forall i, 0 <= i < l -> le_pos s i < 64) <-> s + l <= 64).
Proof. exact (fits_le_closed 64). Qed.
Print Assumptions C01_fits_le_iff.

Theorem C01_unsigned_range_le : forall d s l, 1 <= l <= 64 -> 0 <= ubits_le d s l < 2 ^ l.
Proof. exact ubits_le_range. Qed.
Print Assumptions C01_unsigned_range_le.
Theorem C01_unsigned_range_be : forall d s l, 1 <= l <= 64 -> 0 <= ubits_be d s l < 2 ^ l.
Proof. exact ubits_be_range. Qed.
Print Assumptions C01_unsigned_range_be.

(** signed reads: two's complement interpretation of exactly those l bits *)
Theorem C01_signed_le : forall d s l, 1 <= l <= 64 -> sbits_le d s l = sext l (ubits_le d s l).
Proof. exact sbits_le_sext. Qed.
Print Assumptions C01_signed_le.
Theorem C01_signed_be : forall d s l, 1 <= l <= 64 -> sbits_be d s l = sext l (ubits_be d s l).
Proof. exact sbits_be_sext. Qed.
Print Assumptions C01_signed_be.

(** single bit *)
Theorem C01_bit : forall d i, valid_data d -> 0 <= i -> bit d i = if i <=? 63 then pbit d i else false.
Proof. exact bit_spec. Qed.
Print Assumptions C01_bit.

(** non-vacuity: the documented example range (length 32 from bit 29), both orders *)
Example C01_nonvacuous :
  let d := [0x01; 0x23; 0x45; 0x67; 0x89; 0xAB; 0xCD; 0xEF] in
  valid_datab d = true /\ 29 + 32 <= 64 /\ stream 29 + 32 <= 64 /\
  ubits_le d 29 32 = 0x7E6D5C4B /\ ubits_be d 29 32 = 0x9E26AF37 /\ sbits_le d 60 4 = -2.
Proof. vm_compute. repeat split; congruence. Qed.
