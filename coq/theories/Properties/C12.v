(** Property C12 - parsing any input terminates with success or a positioned, local error.
    Only theorem statements, each closed by [exact]. Model: Dbc/Scanner.v, Dbc/Parser.v
    ([parse_bytes il id src] = NewParser(src).Parse() with Defs(), fuel = length src + 4). *)
From Coq Require Import ZArith List String.
From CanVerif Require Import Dbc.Ast Dbc.Scanner Dbc.ScanLemmas Dbc.Parser Dbc.Printer Dbc.Witness Dbc.RoundTrip
  Dbc.Totality Dbc.Locality Dbc.Validate.
Import ListNotations.
Open Scope Z_scope.

(** totality: for EVERY byte list and every classification of the non-ASCII runes, parsing ends in
    success or in an error whose position lies inside the input; it never reaches a failing index
    operation ([Panic]) and never exhausts the fuel ([OutOfFuel]: every loop iteration consumes input) *)
Theorem C12_parse_total : forall (il id : Z -> bool) (src : list Z),
  Forall (fun b => 0 <= b < 256) src ->
  match parse_bytes il id src with
  | Ok _ => True
  | Err pos _ _ => 0 <= p_offset pos <= Z.of_nat (List.length src)
  | Panic => False
  | OutOfFuel => False
  end.
Proof. exact parse_total. Qed.
Print Assumptions C12_parse_total.

(** the identifier check on that path: Identifier.Validate transcribed as written - a loop over the
    RUNES of the string (utf8 decoding, RuneError for ill-formed bytes, byte index i) calling the
    comparison chains IsAlphaChar / IsNumChar - is, for EVERY byte list (so also for the arbitrary
    string content that Parser.stringIdentifier passes to it), the byte-wise check [ident_valid]
    used by [parse_bytes]; it contains no index operation, so C12_parse_total covers the quoted
    attribute name of BA_DEF_ for all 256 byte values *)
Theorem C12_validate_bytewise : forall id : list Z, validate id = ident_valid id.
Proof. exact validate_bytewise. Qed.
Print Assumptions C12_validate_bytewise.

(** determinism: the outcome (kind, position, reason kind, definitions) is a function of the bytes *)
Theorem C12_deterministic : forall (il id : Z -> bool) (src : list Z) o1 o2,
  parse_bytes il id src = o1 -> parse_bytes il id src = o2 -> o1 = o2.
Proof. exact (fun il id src o1 o2 H1 H2 => eq_trans (eq_sym H1) H2). Qed.
Print Assumptions C12_deterministic.

(* FULL STATEMENT of locality (DESIGN.md 5.12), not proved in this generality:

     Theorem error_local : forall il id l ds1 c pos k defs, wf_layout l -> Forall wf_sdef_full ds1 ->
       at_definition_boundary c ->
       parse_bytes il id (print_full l ds1 ++ c) = Err pos k defs ->
       prefix (elaborate_full l ds1) defs /\ length (print_full l ds1) <= offset pos.

   PROVED (below): for the source class of Dbc/Printer.v (the kinds and layouts listed in
   Properties/C04.v: line-end run [cr], blank lines before the definitions) and every continuation [c] that is empty or still begins with an identifier other
   than SG_ (which would continue a preceding BO_) followed by an ASCII non-identifier character (the
   first token of the corrupted definition is scannable). Without that side condition the statement is false of the code by design of the one-token lookahead: an
   illegal byte directly after a BS_, NS_, BO_ or SG_ definition is raised while that definition
   peeks for its optional continuation, before it is appended to Defs(). *)
Theorem C12_error_local_partial : forall (il id : Z -> bool) (cr : list Z) (its1 : list item) (c : list Z) pos k defs,
  cr_ok cr -> wf_items [] its1 -> sg_placed false (map snd its1) -> Forall (fun b => 0 <= b < 256) c ->
  (c = [] \/ exists kw ch r, c = kw ++ ch :: r /\ is_ident kw /\ ascii ch /\ idc ch = false
                            /\ bytes_eqb kw kw_signal = false) ->
  parse_bytes il id (print_items cr its1 ++ c) = Err pos k defs ->
  (exists more, defs = elaborate_file cr its1 ++ more)
  /\ Z.of_nat (List.length (print_items cr its1)) <= p_offset pos <= Z.of_nat (List.length (print_items cr its1 ++ c)).
Proof. exact error_local_partial. Qed.
Print Assumptions C12_error_local_partial.

(** regression witness of the locality defect F11: with the signal loop that called peekKeyword on any
    non-EOF token, a complete message followed by '$' was not among the definitions reported so far *)
Theorem C12_error_local_refuted : forall il id,
  parse_bytes_old il id (txt ("BO_ 1 M: 8 N" ++ LF ++ "$" ++ LF)) = Err (at_ 2 1 13) ESyntax []
  /\ parse_bytes il id (txt ("BO_ 1 M: 8 N" ++ LF ++ "$" ++ LF)) = Err (at_ 2 1 13) ESyntax [f11_message].
Proof. exact (fun il id => conj (f11_old il id) (f11_fixed il id)). Qed.

(** KNOWN FINDING C12-lookahead-scanner-error-drops-previous-definition (known_findings.json): the side
    condition of C12_error_local_partial cannot be dropped. The complete message "BO_ 1 M: 8 N" followed
    by a NUL byte at the start of the next line: the scanner reports the NUL while the message's signal
    loop looks one token ahead, so the error (positioned at the NUL, inside the corrupted part) comes
    with NO definition reported, although [f11_message] precedes the corruption (compare
    C12_error_local_refuted, where the legal character '$' in the same place reports the message). *)
Theorem C12_error_local_lookahead_refuted : forall il id,
  parse_bytes il id (txt ("BO_ 1 M: 8 N" ++ LF) ++ [0]) = Err (at_ 2 1 13) EScanNul []
  /\ parse_bytes_old il id (txt ("BO_ 1 M: 8 N" ++ LF) ++ [0]) = Err (at_ 2 1 13) EScanNul [].
Proof. exact lookahead_drops_message. Qed.

(** non-vacuity of the locality hypotheses: an empty line, then "BS_:" with a CRLF line end, c = "CM_ $"
    (identifier CM_, then a space) *)
Example C12_error_local_nonvacuous : forall il id,
  parse_bytes il id (print_items [13] [([10], SBitTiming None)] ++ [67; 77; 95; 32; 36])
  = Err {| p_line := 3; p_column := 5; p_offset := 11 |} ESyntax (elaborate_file [13] [([10], SBitTiming None)]).
Proof. exact error_local_instance. Qed.

(** non-vacuity: an error outcome exists (so the position clause is not vacuous), and a success *)
Example C12_nonvacuous : forall il id,
  parse_bytes il id (txt ("BO_ 1 M: 8 N" ++ LF ++ "$" ++ LF)) = Err (at_ 2 1 13) ESyntax [f11_message]
  /\ parse_bytes il id (txt ("BS_: 500 : 1 , 2" ++ LF)) = Ok [DBitTiming (at_ 1 1 0) 500 1 2].
Proof. exact (fun il id => conj (f11_fixed il id) (f9_fixed il id)). Qed.
