(** Property C12 - parsing any input terminates with success or a positioned, local error.
    Only theorem statements, each closed by [exact]. Model: Dbc/Scanner.v, Dbc/Parser.v. *)
From Coq Require Import ZArith List String.
From CanVerif Require Import Dbc.Ast Dbc.Scanner Dbc.Parser Dbc.Witness.
Import ListNotations.
Open Scope Z_scope.

(** regression witness of the locality defect F11: with the signal loop that called peekKeyword on any
    non-EOF token, a complete message followed by '$' was not among the definitions reported so far *)
Theorem C12_error_local_refuted : forall il id,
  parse_bytes_old il id (txt ("BO_ 1 M: 8 N" ++ LF ++ "$" ++ LF)) = Err (at_ 2 1 13) ESyntax []
  /\ parse_bytes il id (txt ("BO_ 1 M: 8 N" ++ LF ++ "$" ++ LF)) = Err (at_ 2 1 13) ESyntax [f11_message].
Proof. exact (fun il id => conj (f11_old il id) (f11_fixed il id)). Qed.

Example C12_nonvacuous : forall il id,
  parse_bytes il id (txt ("BS_: 500 : 1 , 2" ++ LF)) = Ok [DBitTiming (at_ 1 1 0) 500 1 2].
Proof. exact f9_fixed. Qed.
