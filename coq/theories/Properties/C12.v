(** Property C12 - parsing any input terminates with success or a positioned, local error.
    Only theorem statements, each closed by [exact]. Model: Dbc/Scanner.v, Dbc/Parser.v. *)
From Coq Require Import ZArith List String.
From CanVerif Require Import Dbc.Ast Dbc.Scanner Dbc.Parser Dbc.Witness Dbc.Totality.
Import ListNotations.
Open Scope Z_scope.

(** totality: for EVERY byte list and every classification of the non-ASCII runes, parsing with the
    fuel [length src + 4] ends in success or in an error whose position lies inside the input; it never
    reaches a failing index operation ([Panic]) and never exhausts the fuel ([OutOfFuel]: every loop
    iteration consumes input) *)
Theorem C12_parse_total : forall (il id : Z -> bool) (src : list Z),
  Forall (fun b => 0 <= b < 256) src ->
  match parse_bytes il id src with
  | Ok _ => True
  | Err pos _ _ => 0 <= p_offset pos <= Z.of_nat (List.length src)
  | Panic => False
  | OutOfFuel => False
  end.
Proof. exact parse_total. Qed.
Print Assumptions C12_parse_total.

(** determinism: the outcome (kind, position, reason kind, definitions) is a function of the bytes *)
Theorem C12_deterministic : forall (il id : Z -> bool) (src : list Z) o1 o2,
  parse_bytes il id src = o1 -> parse_bytes il id src = o2 -> o1 = o2.
Proof. exact (fun il id src o1 o2 H1 H2 => eq_trans (eq_sym H1) H2). Qed.
Print Assumptions C12_deterministic.

(** regression witness of the locality defect F11: with the signal loop that called peekKeyword on any
    non-EOF token, a complete message followed by '$' was not among the definitions reported so far *)
Theorem C12_error_local_refuted : forall il id,
  parse_bytes_old il id (txt ("BO_ 1 M: 8 N" ++ LF ++ "$" ++ LF)) = Err (at_ 2 1 13) ESyntax []
  /\ parse_bytes il id (txt ("BO_ 1 M: 8 N" ++ LF ++ "$" ++ LF)) = Err (at_ 2 1 13) ESyntax [f11_message].
Proof. exact (fun il id => conj (f11_old il id) (f11_fixed il id)). Qed.

Example C12_nonvacuous : forall il id,
  parse_bytes il id (txt ("BS_: 500 : 1 , 2" ++ LF)) = Ok [DBitTiming (at_ 1 1 0) 500 1 2].
Proof. exact f9_fixed. Qed.
