(** Property C06 - the SocketCAN wire format equals Linux' struct can_frame in both directions.
    Only property theorems, each closed by [exact], each followed by [Print Assumptions].

    Model: Socketcan/Wire.v
      [validate]        = can.Frame.Validate                  (frame.go:39-58), true = nil
      [transmit_bytes]  = the slice Transmitter.TransmitFrame passes to conn.Write
                          (encodeFrame + make([]byte,16) + marshalBinary), None = panic
      [receive16 b]     = (Frame(), HasErrorFrame(), ErrorFrame()) of a Receiver after Receive()
                          returned true on the 16-byte token b (unmarshalBinary + decodeFrame +
                          isError + decodeErrorFrame)
    Specification: Socketcan/WireSpec.v, arithmetic only, from linux/can.h and linux/can/error.h:
      [wbit w k]  = ((w / 2^k) mod 2 =? 1)                    "bit k of w"
      [le32 w]    = [w mod 256; (w/256) mod 256; (w/65536) mod 256; (w/16777216) mod 256]
    Frames: record [frame] = {fid; flen; fdata; fremote; fext} (can.Frame),
            [errframe] = {eclass; elostarb; ectrl; eprot; eprotloc; etrx; ecsi} (socketcan.ErrorFrame).
    Type ranges: [wf_frame f] = 0 <= fid f < 2^32 /\ 0 <= flen f < 256 /\ length (fdata f) = 8 /\
    every data byte in 0..255; [bytes l] = every element in 0..255. No other bound. *)
From Coq Require Import ZArith List Bool.
From CanVerif Require Import Socketcan.Wire Socketcan.WireSpec Socketcan.WireProofs.
Import ListNotations.
Open Scope Z_scope.

(** validation accepts exactly the frames whose ID fits its format and whose length is 0..8 *)
Theorem C06_validate_exact : forall f,
  validate f = true <->
  ((fext f = true -> fid f <= 2 ^ 29 - 1) /\ (fext f = false -> fid f <= 2 ^ 11 - 1) /\ flen f <= 8).
Proof. exact validate_exact. Qed.
Print Assumptions C06_validate_exact.

(** transmitting a valid frame writes: little-endian can_id = ID + 2^31 if extended + 2^30 if
    remote; the length in byte 4; zeros in bytes 5..7; the 8 data bytes in bytes 8..15 *)
Theorem C06_transmit_layout : forall f, wf_frame f -> validate f = true ->
  transmit_bytes f =
    Some (le32 (fid f + (if fext f then 2 ^ 31 else 0) + (if fremote f then 2 ^ 30 else 0))
          ++ [flen f; 0; 0; 0] ++ fdata f).
Proof. exact transmit_layout_explicit. Qed.
Print Assumptions C06_transmit_layout.

(** ... which is exactly one 16-byte block, padding zero *)
Theorem C06_transmit_16_bytes : forall f b, wf_frame f -> validate f = true -> transmit_bytes f = Some b ->
  length b = 16%nat /\ bytes b /\ nth 4 b 0 = flen f /\ nth 5 b 0 = 0 /\ nth 6 b 0 = 0 /\ nth 7 b 0 = 0
  /\ firstn 8 (skipn 8 b) = fdata f.
Proof. exact transmit_16_bytes. Qed.
Print Assumptions C06_transmit_16_bytes.

(** the can_id word really has bit 31 = extended, bit 30 = remote, and the ID below *)
Theorem C06_can_id_bits : forall f, wf_frame f -> validate f = true -> forall m, 0 <= m ->
  Z.testbit (fid f + (if fext f then 2 ^ 31 else 0) + (if fremote f then 2 ^ 30 else 0)) m =
    if m =? 31 then fext f else if m =? 30 then fremote f else Z.testbit (fid f) m.
Proof. exact can_id_bits. Qed.
Print Assumptions C06_can_id_bits.

(** receiving ANY 16-byte block: flags from bits 31/30, ID masked to 29 or 11 bits, the length
    byte, the 8 data bytes; error frame iff bit 29; error class = can_id with bit 29 cleared;
    detail bytes at data[0..4], controller specific data[5..7] *)
Theorem C06_receive_fields : forall b0 b1 b2 b3 b4 b5 b6 b7 b8 b9 b10 b11 b12 b13 b14 b15,
  bytes [b0; b1; b2; b3; b4; b5; b6; b7; b8; b9; b10; b11; b12; b13; b14; b15] ->
  let w := b0 + 256 * b1 + 65536 * b2 + 16777216 * b3 in
  receive16 [b0; b1; b2; b3; b4; b5; b6; b7; b8; b9; b10; b11; b12; b13; b14; b15] =
    Some (mkFrame (if wbit w 31 then w mod 2 ^ 29 else w mod 2 ^ 11) b4
                  [b8; b9; b10; b11; b12; b13; b14; b15] (wbit w 30) (wbit w 31),
          wbit w 29,
          mkErrFrame (if wbit w 29 then w - 2 ^ 29 else w) b8 b9 b10 b11 b12 [b13; b14; b15]).
Proof. exact receive_fields. Qed.
Print Assumptions C06_receive_fields.

(** the same, for a block given as a list ([S_decode] of WireSpec.v is the right-hand side above) *)
Theorem C06_receive_spec : forall b, length b = 16%nat /\ bytes b -> receive16 b = Some (S_decode b).
Proof. exact receive_spec. Qed.
Print Assumptions C06_receive_spec.

Theorem C06_wbit_meaning : forall w k, wbit w k = true <-> (w / 2 ^ k) mod 2 = 1.
Proof. exact wbit_iff. Qed.
Print Assumptions C06_wbit_meaning.

(** for a plain error frame (bits 30/31 clear) the class is can_id & 0x1FFFFFFF *)
Theorem C06_error_class_plain : forall b, length b = 16%nat /\ bytes b ->
  wbit (S_word b) 31 = false -> wbit (S_word b) 30 = false -> wbit (S_word b) 29 = true ->
  eclass (S_error_frame b) = S_word b mod 2 ^ 29.
Proof. exact error_class_plain. Qed.
Print Assumptions C06_error_class_plain.

(** every frame that passes validation survives transmit-then-receive unchanged (and is not
    reported as an error frame) *)
Theorem C06_roundtrip : forall f, wf_frame f -> validate f = true ->
  exists b ef, transmit_bytes f = Some b /\ length b = 16%nat /\ receive16 b = Some (f, false, ef).
Proof. exact roundtrip_explicit. Qed.
Print Assumptions C06_roundtrip.

(** non-vacuity: an extended remote frame with a 29-bit ID, and an error block *)
Example C06_nonvacuous :
  let f := mkFrame 0x1ABCDEF5 8 [0x11; 0x22; 0x33; 0x44; 0x55; 0x66; 0x77; 0x88] true true in
  wf_frameb f = true /\ validate f = true /\
  transmit_bytes f = Some [0xF5; 0xDE; 0xBC; 0xDA; 8; 0; 0; 0; 0x11; 0x22; 0x33; 0x44; 0x55; 0x66; 0x77; 0x88] /\
  (exists ef, receive16 [0xF5; 0xDE; 0xBC; 0xDA; 8; 0; 0; 0; 0x11; 0x22; 0x33; 0x44; 0x55; 0x66; 0x77; 0x88]
              = Some (f, false, ef)) /\
  validate (mkFrame 0x800 0 (repeat 0 8) false false) = false /\
  receive16 [0x04; 0; 0; 0x20; 8; 0; 0; 0; 0; 0x10; 0; 0; 0; 1; 2; 3] =
    Some (mkFrame 4 8 [0; 0x10; 0; 0; 0; 1; 2; 3] false false, true,
          mkErrFrame 4 0 0x10 0 0 0 [1; 2; 3]).
Proof. vm_compute. repeat split; try congruence. eexists. reflexivity. Qed.
