(** Property C03 - generated message types encode and decode frames exactly as the DBC specifies.
    Theorems are about the descriptor interpreter Gen/Message.v (frame_of = generated Frame(),
    unmarshal = generated UnmarshalFrame(), dispatch = Messages().UnmarshalFrame); the interpreter
    is tied to the generated, compiled Go code on every run (checks/gen.py).
    [wf_message m]: every signal's range fits the 64 payload bits (float signals are 32 bits wide)
    and two signals share payload bits only if both are multiplexed with different selectors. *)
From Coq Require Import ZArith List Bool.
From CanVerif Require Import Can.Data Can.DataSpec Can.DataProofs Descriptor.Types
  Gen.Message Gen.MessageProofs Gen.History Gen.Layout Gen.LayoutProofs Gen.RoundTrip Gen.HistoryProofs
  Gen.Wiring Gen.WiringProofs.
Import ListNotations.
Open Scope Z_scope.

(** the encoded frame carries the message's ID, length and ID format and is never remote *)
Theorem C03_frame_header : forall m st,
  let f := frame_of m st in
  fr_id f = msg_id m /\ fr_length f = msg_length m /\ fr_extended f = msg_extended m /\ fr_remote f = false.
Proof. exact frame_of_header. Qed.
Print Assumptions C03_frame_header.

(** ENCODE. Frame() is exactly the history of writes [active_writes m st]: one write per
    non-multiplexed signal and per multiplexed signal whose selector equals the multiplexer field,
    each at the signal's layout (start, length, byte order; 1-bit signals: the single addressed bit)
    carrying the field's wire value, into a zero payload ... *)
Theorem C03_encode_is_write_history : forall m st,
  Forall wf_signal (msg_signals m) -> inv (msg_signals m) st = true ->
  fr_data (frame_of m st) = fold_left apply_write (active_writes m st) zero_data /\
  Forall write_ok (active_writes m st).
Proof. exact frame_data_fold. Qed.
Print Assumptions C03_encode_is_write_history.

(** ... so every payload bit k is the value bit of the (unique) active signal covering position k
    under the numbering of C01/C02 ([covers], [wbit]), and zero everywhere else *)
Theorem C03_encode_bits : forall m st k,
  wf_message m -> inv (msg_signals m) st = true -> 0 <= k < 64 ->
  pbit (fr_data (frame_of m st)) k =
  match find (fun w => covers w k) (active_writes m st) with
  | Some w => wbit w k
  | None => false
  end.
Proof. exact frame_bits. Qed.
Print Assumptions C03_encode_bits.

(** when every signal lies inside the first msg_length bytes, the payload is zero from there on *)
Theorem C03_zero_beyond_length : forall m st k,
  wf_message m -> fits_message m -> inv (msg_signals m) st = true -> 0 <= msg_length m ->
  8 * msg_length m <= k < 64 -> pbit (fr_data (frame_of m st)) k = false.
Proof. exact frame_zero_beyond_length. Qed.
Print Assumptions C03_zero_beyond_length.

(** DECODE. A matching frame is accepted; every non-multiplexed field becomes the value read at its
    signal's layout, a multiplexed field is replaced only when the (freshly decoded) multiplexer
    field equals its selector, otherwise it is left unchanged *)
Theorem C03_decode_plain : forall ss st d i s,
  nth_error ss i = Some s -> (i < length st)%nat ->
  nth i (unmarshal_plain ss st d) 0 = if s_multiplexed s then nth i st 0 else read_field s d.
Proof. exact nth_unmarshal_plain. Qed.
Print Assumptions C03_decode_plain.
Theorem C03_decode_muxed : forall ss muxv st d i s,
  nth_error ss i = Some s -> (i < length st)%nat ->
  nth i (unmarshal_muxed ss st muxv d) 0 =
  if s_multiplexed s && (muxv =? s_mux_value s) then read_field s d else nth i st 0.
Proof. exact nth_unmarshal_muxed. Qed.
Print Assumptions C03_decode_muxed.

(** a decoded field is always inside its signal's representable range *)
Theorem C03_decode_in_range : forall s d, wf_signal s -> valid_data d -> in_range s (read_field s d) = true.
Proof. exact read_field_in_range. Qed.
Print Assumptions C03_decode_in_range.

(** decode after encode: a signal written by Frame() reads back (re-encodes) unchanged *)
Theorem C03_read_back : forall ws s v,
  wf_signal s -> in_range s v = true ->
  ForallOrdPairs disjoint ws -> Forall write_ok ws -> In (write_of s v) ws ->
  let d := fold_left apply_write ws zero_data in
  write_of s (read_field s d) = write_of s v /\
  (s_float s = false -> read_field s d = if s_length s =? 1 then (if v =? 0 then 0 else 1) else v).
Proof. exact read_back_field. Qed.
Print Assumptions C03_read_back.

(** REJECT. a frame with another ID, another length, the remote flag or the other ID format is
    rejected (no new state is produced: the message is unchanged) and every other frame is accepted *)
Theorem C03_rejects : forall m f st,
  ~ (fr_id f = msg_id m /\ fr_length f = msg_length m /\ fr_remote f = false /\ fr_extended f = msg_extended m) ->
  exists r, unmarshal m f st = inl r.
Proof. exact unmarshal_rejects. Qed.
Print Assumptions C03_rejects.
Theorem C03_accepts : forall m f st,
  fr_id f = msg_id m -> fr_length f = msg_length m -> fr_remote f = false -> fr_extended f = msg_extended m ->
  exists st', unmarshal m f st = inr st'.
Proof. exact unmarshal_accepts. Qed.
Print Assumptions C03_accepts.

(** DISPATCH. the database-level dispatcher returns a message registered for the frame's ID, or none exists *)
Theorem C03_dispatch : forall db f,
  match dispatch db f with
  | Some (m, _) => In m (db_messages db) /\ msg_id m = fr_id f
  | None => forall m, In m (db_messages db) -> msg_id m <> fr_id f
  end.
Proof. exact dispatch_spec. Qed.
Print Assumptions C03_dispatch.

(** non-vacuity: a multiplexed message with little-/big-endian, signed, 1-bit and float signals *)
Definition C03_example_signal (name : Z) start len be sg fl mx md mv : signal :=
  {| s_name := [name]; s_start := start; s_length := len; s_big_endian := be; s_signed := sg; s_float := fl;
     s_multiplexer := mx; s_multiplexed := md; s_mux_value := mv; s_offset := 0; s_scale := 0; s_min := 0; s_max := 0;
     s_unit := []; s_description := []; s_value_descriptions := []; s_receivers := []; s_default := 0 |}.
Definition C03_example_message : message :=
  {| msg_name := [77]; msg_id := 0x123; msg_extended := false; msg_length := 8; msg_send_type := SendNone;
     msg_description := [];
     msg_signals := [ C03_example_signal 1 0 4 false false false true false 0;     (* multiplexer, bits 0..3 *)
                      C03_example_signal 2 4 1 false false false false false 0;    (* bool, bit 4 *)
                      C03_example_signal 3 15 12 true true false false true 1;     (* m1: big-endian signed 12 bits *)
                      C03_example_signal 4 8 16 false false false false true 2;    (* m2: overlaps m1, other selector *)
                      C03_example_signal 5 32 32 false false true false false 0 ]; (* float32 *)
     msg_sender := []; msg_cycle_time := 0; msg_delay_time := 0 |}.
Example C03_nonvacuous :
  wf_message C03_example_message /\
  inv (msg_signals C03_example_message) [1; 1; -5; 0xBEEF; 0x40490FDB] = true /\
  fr_data (frame_of C03_example_message [1; 1; -5; 0xBEEF; 0x40490FDB]) = [0x11; 0xFF; 0xB0; 0; 0xDB; 0x0F; 0x49; 0x40] /\
  unmarshal C03_example_message (frame_of C03_example_message [1; 1; -5; 0xBEEF; 0x40490FDB]) [0; 0; 0; 7; 0]
    = inr [1; 1; -5; 7; 0x40490FDB].
Proof.
  split; [|vm_compute; repeat split; congruence].
  split.
  - repeat constructor; vm_compute; intuition congruence.
  - apply (fopb_sound compatb compat); [exact compatb_sound|vm_compute; reflexivity].
Qed.

(** WIRING TIE (Gen/Wiring.v). [w] is the first-order reading of the emitted Go text of one message type (struct
    declaration, md literal, and every statement of Frame() and UnmarshalFrame(), by harness/genwire); each wiring
    statement means the call of the library function it names ([wiring_frame], [wiring_unmarshal]: sequential
    execution of the statements, guards read the CURRENT field values, a rejection returns the state as it is at
    that point). If the decidable checker accepts the wiring - evaluated on every generated message of every run -
    the emitted Frame() is the interpreter's [frame_of] for ALL states ... *)
Theorem C03_wiring_frame : forall m w st,
  frame_wiring_ok m w = true -> length st = length (msg_signals m) ->
  wiring_frame m w st = Some (frame_of m st).
Proof. exact wiring_frame_correct. Qed.
Print Assumptions C03_wiring_frame.
(** ... and the emitted UnmarshalFrame() is the interpreter's [unmarshal] for ALL frames and states: the same
    rejection with the state untouched, or the same new state *)
Theorem C03_wiring_unmarshal : forall m w f st,
  unmarshal_wiring_ok m w = true -> length st = length (msg_signals m) ->
  wiring_unmarshal m w f st =
  Some (match unmarshal m f st with inl r => inl (r, st) | inr st' => inr st' end).
Proof. exact wiring_unmarshal_correct. Qed.
Print Assumptions C03_wiring_unmarshal.

(** ... and the emitted dispatcher MessagesDescriptor.UnmarshalFrame (switch f.ID with one case md.<Msg>.ID per message type
    constructing a zero <Msg> and calling its UnmarshalFrame, then default) is the interpreter's [dispatch] for ALL frames:
    the first message of the database registered for the ID, decoded into a fresh zero value, or no message *)
Theorem C03_wiring_dispatch : forall db p f,
  package_wiring_ok_c03 db p = true -> dispatch_ok db p = true ->
  wiring_dispatch db p f = Some (dispatch db f).
Proof. exact wiring_dispatch_correct. Qed.
Print Assumptions C03_wiring_dispatch.

(** non-vacuity of the wiring tie: the wiring of the example message as harness/genwire prints it is accepted *)
Definition C03_example_wiring : wiring :=
  let u8 := [117; 105; 110; 116; 56] in let u16 := [117; 105; 110; 116; 49; 54] in let i16 := [105; 110; 116; 49; 54] in
  let u64 := [117; 105; 110; 116; 54; 52] in let i64 := [105; 110; 116; 54; 52] in
  let bool := [98; 111; 111; 108] in let f32 := [102; 108; 111; 97; 116; 51; 50] in let f64 := [102; 108; 111; 97; 116; 54; 52] in
  let fld n := xxx_prefix ++ [n] in
  let st k d c g := {| n_kind := k; n_desc := [d]; n_field := fld d; n_conv := c; n_guard := g |} in
  {| w_name := [77]; w_fields := [(fld 1, u8); (fld 2, bool); (fld 3, i16); (fld 4, u16); (fld 5, f32)];
     w_types := []; w_msg_index := 3;
     w_descs := [([1], (3, 0)); ([2], (3, 1)); ([3], (3, 2)); ([4], (3, 3)); ([5], (3, 4))];
     w_init := (HId, HExt, HLen);
     w_frame := [st StUnsigned 1 u64 None; st StBool 2 bool None; st StFloat 5 f64 None;
                 st StSigned 3 i64 (Some (fld 1, 1)); st StUnsigned 4 u64 (Some (fld 1, 2))];
     w_unmarshal := [NReject (RcNe HId HId); NReject (RcNe HLen HLen); NReject RcRemote; NReject (RcNe HExt HExt);
                     NAssign (st StUnsigned 1 u8 None); NAssign (st StBool 2 bool None); NAssign (st StFloat 5 f32 None);
                     NAssign (st StSigned 3 i16 (Some (fld 1, 1))); NAssign (st StUnsigned 4 u16 (Some (fld 1, 2)))];
     w_reset := []; w_copy := true; w_setters := []; w_getters := [] |}.
Example C03_wiring_nonvacuous :
  wiring_ok_c03 3 C03_example_message C03_example_wiring = true /\
  wiring_frame C03_example_message C03_example_wiring [1; 1; -5; 0xBEEF; 0x40490FDB] =
    Some (frame_of C03_example_message [1; 1; -5; 0xBEEF; 0x40490FDB]) /\
  (* moving one assignment in front of the remote-frame rejection, or guarding the last group with another constant, is refused *)
  unmarshal_wiring_ok C03_example_message
    {| w_name := [77]; w_fields := w_fields C03_example_wiring; w_types := []; w_msg_index := 3; w_descs := w_descs C03_example_wiring;
       w_init := w_init C03_example_wiring; w_frame := w_frame C03_example_wiring;
       w_unmarshal := match w_unmarshal C03_example_wiring with
                      | a :: b :: c :: d :: e :: tl => a :: b :: e :: c :: d :: tl | l => l end;
       w_reset := []; w_copy := true; w_setters := []; w_getters := [] |} = false.
Proof. vm_compute. repeat split; reflexivity. Qed.
