(** Property C03 - generated message types encode and decode frames exactly as the DBC specifies.
    Theorems are about the descriptor interpreter Gen/Message.v (frame_of = generated Frame(),
    unmarshal = generated UnmarshalFrame(), dispatch = Messages().UnmarshalFrame). *)
From Coq Require Import ZArith List Bool.
From CanVerif Require Import Can.Data Can.DataSpec Descriptor.Types Gen.Message Gen.MessageProofs.
Import ListNotations.
Open Scope Z_scope.

(** the encoded frame carries the message's ID, length and ID format and is never remote *)
Theorem C03_frame_header : forall m st,
  let f := frame_of m st in
  fr_id f = msg_id m /\ fr_length f = msg_length m /\ fr_extended f = msg_extended m /\ fr_remote f = false.
Proof. exact frame_of_header. Qed.
Print Assumptions C03_frame_header.

(** a frame with another ID, another length, the remote flag or the other ID format is rejected
    (the state is returned unchanged: the result carries no new state) *)
Theorem C03_rejects : forall m f st,
  ~ (fr_id f = msg_id m /\ fr_length f = msg_length m /\ fr_remote f = false /\ fr_extended f = msg_extended m) ->
  exists r, unmarshal m f st = inl r.
Proof. exact unmarshal_rejects. Qed.
Print Assumptions C03_rejects.

Theorem C03_accepts : forall m f st,
  fr_id f = msg_id m -> fr_length f = msg_length m -> fr_remote f = false -> fr_extended f = msg_extended m ->
  exists st', unmarshal m f st = inr st'.
Proof. exact unmarshal_accepts. Qed.
Print Assumptions C03_accepts.

(** the database-level dispatcher returns a message registered for the frame's ID, or none exists *)
Theorem C03_dispatch : forall db f,
  match dispatch db f with
  | Some (m, _) => In m (db_messages db) /\ msg_id m = fr_id f
  | None => forall m, In m (db_messages db) -> msg_id m <> fr_id f
  end.
Proof. exact dispatch_spec. Qed.
Print Assumptions C03_dispatch.
