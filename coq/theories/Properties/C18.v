(** Property C18 - every lint analyzer reports exactly the violations of its rule and never fails.
    Only property theorems, each closed by [exact] and followed by [Print Assumptions].
    Model: Dbc/Lint.v (the 20 [X_run] = pkg/dbc/analysis/passes/X/analyzer.go, with the fixes F5/F6);
    specification: Dbc/LintSpec.v ([X_spec] = the diagnostics owed, [X_rule] = the rule as a
    proposition); proofs: Dbc/LintProofs.v.
    All statements quantify over EVERY [file] (raw bytes + any list of definitions, not only parser
    outputs, the empty file included).  unicode.IsDigit / unicode.IsUpper are parameters
    [uni_digit] / [uni_upper]; the only fact needed is that IsUpper is A..Z on ASCII letters/digits. *)
From Coq Require Import String.
From Coq Require Import ZArith List Bool.
From CanVerif Require Import Dbc.Ast Dbc.Lint Dbc.LintSpec Dbc.LintProofs.
Import ListNotations.
Open Scope Z_scope.

(** soundness, completeness, multiplicity and order at once: each analyzer returns (never panics)
    exactly the list of diagnostics its declarative rule owes, in the specified order *)
Theorem C18_run_equals_spec : forall (uni_digit uni_upper : Z -> bool),
  (forall r, is_alpha_char r || is_num_char r = true -> uni_upper r = is_upper_ascii r) ->
  forall (a : analyzer) (f : file),
    run uni_digit uni_upper a f = Ok (spec_diagnostics uni_digit a f).
Proof. exact run_correct. Qed.
Print Assumptions C18_run_equals_spec.

(** a file gets no diagnostic from an analyzer iff it does not violate the analyzer's rule *)
Theorem C18_clean_iff_rule : forall (uni_digit uni_upper : Z -> bool),
  (forall r, is_alpha_char r || is_num_char r = true -> uni_upper r = is_upper_ascii r) ->
  forall (a : analyzer) (f : file),
    run uni_digit uni_upper a f = Ok [] <-> rule uni_digit a f.
Proof. exact run_clean. Qed.
Print Assumptions C18_clean_iff_rule.

Theorem C18_no_panic : forall (uni_digit uni_upper : Z -> bool),
  (forall r, is_alpha_char r || is_num_char r = true -> uni_upper r = is_upper_ascii r) ->
  forall (a : analyzer) (f : file), run uni_digit uni_upper a f <> Panic.
Proof. exact run_no_panic. Qed.
Print Assumptions C18_no_panic.

(** the empty file: 19 analyzers report nothing, requireddefinitions reports once at 1:1 *)
Theorem C18_empty_file : forall (uni_digit uni_upper : Z -> bool) (a : analyzer),
  run uni_digit uni_upper a {| f_data := []; f_defs := [] |} =
  Ok (match a with
      | ARequiredDefinitions => [diag {| p_line := 1; p_column := 1; p_offset := 0 |} MMissingRequired]
      | _ => []
      end).
Proof. exact run_empty_file. Qed.
Print Assumptions C18_empty_file.

(* ------------------------------------------------------------------------------------------ *)
(** The 20 rules written out: [X_run f = Ok []] iff ... *)

Theorem C18_boolprefix : forall f,
  boolprefix_run f = Ok [] <->
  forall m s, In (DMessage m) (f_defs f) -> In s (m_signals m) -> sg_size s = 1 ->
    starts_with prefix_is (sg_name s) \/ starts_with prefix_has (sg_name s) \/
    exists v, In (DValueDescriptions v) (f_defs f) /\ vs_message_id v = m_id m /\ vs_signal v = sg_name s.
Proof. exact (run_clean (fun _ => false) is_upper_ascii (fun _ _ => eq_refl) ABoolPrefix). Qed.
Print Assumptions C18_boolprefix.

Theorem C18_definitiontypeorder : forall f,
  definitiontypeorder_run f = Ok [] <->
  forall before d after, f_defs f = before ++ d :: after -> forall d', In d' after -> rank d <= rank d'.
Proof. exact (run_clean (fun _ => false) is_upper_ascii (fun _ _ => eq_refl) ADefinitionTypeOrder). Qed.
Print Assumptions C18_definitiontypeorder.

(** definition [d] (with [later] after it) is reported iff a later definition has a strictly
    smaller rank; the reports come in reverse file order *)
Theorem C18_definitiontypeorder_reports : forall f,
  definitiontypeorder_run f =
  Ok (rev (at_each (f_defs f) (fun _ d later =>
        if existsb (fun d' => rank d' <? rank d) later then [diag (def_pos d) MOutOfOrder] else []))).
Proof. exact definitiontypeorder_correct. Qed.
Print Assumptions C18_definitiontypeorder_reports.

Theorem C18_intervals : forall f,
  intervals_run f = Ok [] <->
  (forall e, In (DEnvVar e) (f_defs f) -> f64_gt (ev_min e) (ev_max e) = false) /\
  (forall m s, In (DMessage m) (f_defs f) -> In s (m_signals m) -> f64_gt (sg_min s) (sg_max s) = false) /\
  (forall a, In (DAttribute a) (f_defs f) ->
     ad_min_int a <= ad_max_int a /\ f64_gt (ad_min_float a) (ad_max_float a) = false).
Proof. exact (run_clean (fun _ => false) is_upper_ascii (fun _ _ => eq_refl) AIntervals). Qed.
Print Assumptions C18_intervals.

Theorem C18_lineendings : forall f,
  lineendings_run f = Ok [] <-> ~ exists front back, f_data f = front ++ 13 :: 10 :: back.
Proof. exact (run_clean (fun _ => false) is_upper_ascii (fun _ _ => eq_refl) ALineEndings). Qed.
Print Assumptions C18_lineendings.

Theorem C18_messagenames : forall (uni_digit uni_upper : Z -> bool),
  (forall r, is_alpha_char r || is_num_char r = true -> uni_upper r = is_upper_ascii r) ->
  forall f, messagenames_run uni_digit uni_upper f = Ok [] <->
            forall m, In (DMessage m) (f_defs f) -> camel_case uni_digit (m_name m) = true.
Proof. exact (fun ud uu H => run_clean ud uu H AMessageNames). Qed.
Print Assumptions C18_messagenames.

Theorem C18_multiplexedsignals : forall f,
  multiplexedsignals_run f = Ok [] <->
  forall m, In (DMessage m) (f_defs f) ->
    (forall before s after, m_signals m = before ++ s :: after -> sg_mux_switch s = true ->
       (forall s', In s' before -> sg_mux_switch s' = false) /\ sg_signed s = false /\ sg_multiplexed s = false)
    /\ (forall s, In s (m_signals m) -> sg_multiplexed s = true ->
          exists s0, find sg_mux_switch (m_signals m) = Some s0 /\ sg_mux_value s <= mux_limit (sg_size s0)).
Proof. exact (run_clean (fun _ => false) is_upper_ascii (fun _ _ => eq_refl) AMultiplexedSignals). Qed.
Print Assumptions C18_multiplexedsignals.

Theorem C18_newsymbols : forall f,
  newsymbols_run f = Ok [] <-> forall p syms, In (DNewSymbols p syms) (f_defs f) -> syms = [].
Proof. exact (run_clean (fun _ => false) is_upper_ascii (fun _ _ => eq_refl) ANewSymbols). Qed.
Print Assumptions C18_newsymbols.

Theorem C18_nodereferences : forall f,
  nodereferences_run f = Ok [] <->
  (forall m, In (DMessage m) (f_defs f) ->
     Declared (f_defs f) (m_transmitter m) /\
     forall s n, In s (m_signals m) -> In n (sg_receivers s) -> Declared (f_defs f) n) /\
  (forall e n, In (DEnvVar e) (f_defs f) -> In n (ev_access_nodes e) -> Declared (f_defs f) n) /\
  (forall p id txs n, In (DMessageTransmitters p id txs) (f_defs f) -> In n txs -> Declared (f_defs f) n).
Proof. exact (run_clean (fun _ => false) is_upper_ascii (fun _ _ => eq_refl) ANodeReferences). Qed.
Print Assumptions C18_nodereferences.

Theorem C18_noreservedsignals : forall f,
  noreservedsignals_run f = Ok [] <->
  forall m s, In (DMessage m) (f_defs f) -> In s (m_signals m) -> ~ starts_with prefix_reserved (sg_name s).
Proof. exact (run_clean (fun _ => false) is_upper_ascii (fun _ _ => eq_refl) ANoReservedSignals). Qed.
Print Assumptions C18_noreservedsignals.

Theorem C18_requireddefinitions : forall f,
  requireddefinitions_run f = Ok [] <->
  (exists p baud b1 b2, In (DBitTiming p baud b1 b2) (f_defs f)) /\ (exists p names, In (DNodes p names) (f_defs f)).
Proof. exact (run_clean (fun _ => false) is_upper_ascii (fun _ _ => eq_refl) ARequiredDefinitions). Qed.
Print Assumptions C18_requireddefinitions.

(** exactly one report when a required definition is missing, at the first definition or at 1:1 *)
Theorem C18_requireddefinitions_reports : forall f,
  requireddefinitions_run f =
  Ok (if existsb is_bit_timing (f_defs f) && existsb is_nodes (f_defs f) then []
      else [diag (match f_defs f with [] => pos_1_1 | d :: _ => def_pos d end) MMissingRequired]).
Proof. exact requireddefinitions_correct. Qed.
Print Assumptions C18_requireddefinitions_reports.

Theorem C18_signalbounds : forall f,
  signalbounds_run f = Ok [] <->
  forall m s, In (DMessage m) (f_defs f) -> pseudo m = false -> In s (m_signals m) ->
    sg_start s < (8 * m_size m) mod 2 ^ 64.
Proof. exact (run_clean (fun _ => false) is_upper_ascii (fun _ _ => eq_refl) ASignalBounds). Qed.
Print Assumptions C18_signalbounds.

(** for message sizes below 2^61 bytes the uint64 product is the mathematical one *)
Theorem C18_signalbounds_small_sizes : forall f,
  (forall m, In (DMessage m) (f_defs f) -> 0 <= m_size m < 2 ^ 61) ->
  ((forall m s, In (DMessage m) (f_defs f) -> pseudo m = false -> In s (m_signals m) ->
      sg_start s < (8 * m_size m) mod 2 ^ 64)
   <-> (forall m s, In (DMessage m) (f_defs f) -> pseudo m = false -> In s (m_signals m) ->
      sg_start s < 8 * m_size m)).
Proof. exact signalbounds_rule_small_sizes. Qed.
Print Assumptions C18_signalbounds_small_sizes.

Theorem C18_signalnames : forall (uni_digit uni_upper : Z -> bool),
  (forall r, is_alpha_char r || is_num_char r = true -> uni_upper r = is_upper_ascii r) ->
  forall f, signalnames_run uni_digit uni_upper f = Ok [] <->
            forall m s, In (DMessage m) (f_defs f) -> In s (m_signals m) -> camel_case uni_digit (sg_name s) = true.
Proof. exact (fun ud uu H => run_clean ud uu H ASignalNames). Qed.
Print Assumptions C18_signalnames.

Theorem C18_singletondefinitions : forall f,
  singletondefinitions_run f = Ok [] <->
  forall k, In k [KVersion; KNewSymbols; KBitTiming; KNodes] ->
    (length (filter (is_kind k) (f_defs f)) <= 1)%nat.
Proof. exact (run_clean (fun _ => false) is_upper_ascii (fun _ _ => eq_refl) ASingletonDefinitions). Qed.
Print Assumptions C18_singletondefinitions.

Theorem C18_siunits : forall f,
  siunits_run f = Ok [] <->
  forall m s, In (DMessage m) (f_defs f) -> In s (m_signals m) -> ~ In (sg_unit s) (map fst non_si_units).
Proof. exact (run_clean (fun _ => false) is_upper_ascii (fun _ _ => eq_refl) ASiUnits). Qed.
Print Assumptions C18_siunits.

Theorem C18_uniquemessageids : forall f,
  uniquemessageids_run f = Ok [] <-> NoDup (map m_id (real_messages (f_defs f))).
Proof. exact (run_clean (fun _ => false) is_upper_ascii (fun _ _ => eq_refl) AUniqueMessageIDs). Qed.
Print Assumptions C18_uniquemessageids.

(** one report per non-pseudo message whose ID already occurred in an earlier non-pseudo message *)
Theorem C18_uniquemessageids_reports : forall f,
  uniquemessageids_run f =
  Ok (at_each (real_messages (f_defs f)) (fun before m _ =>
        if existsb (fun m' => m_id m' =? m_id m) before then [diag (m_pos m) MDupMessageID] else [])).
Proof. exact uniquemessageids_correct. Qed.
Print Assumptions C18_uniquemessageids_reports.

Theorem C18_uniquenodenames : forall f,
  uniquenodenames_run f = Ok [] <-> NoDup (map snd (node_occurrences (f_defs f))).
Proof. exact (run_clean (fun _ => false) is_upper_ascii (fun _ _ => eq_refl) AUniqueNodeNames). Qed.
Print Assumptions C18_uniquenodenames.

Theorem C18_uniquesignalnames : forall f,
  uniquesignalnames_run f = Ok [] <->
  forall m, In (DMessage m) (f_defs f) -> pseudo m = false -> NoDup (map sg_name (m_signals m)).
Proof. exact (run_clean (fun _ => false) is_upper_ascii (fun _ _ => eq_refl) AUniqueSignalNames). Qed.
Print Assumptions C18_uniquesignalnames.

Theorem C18_unitsuffixes : forall f,
  unitsuffixes_run f = Ok [] <->
  forall m s suffix, In (DMessage m) (f_defs f) -> In s (m_signals m) ->
    In (sg_unit s, suffix) suffix_of_unit -> ends_with suffix (sg_name s).
Proof. exact (run_clean (fun _ => false) is_upper_ascii (fun _ _ => eq_refl) AUnitSuffixes). Qed.
Print Assumptions C18_unitsuffixes.

Theorem C18_valuedescriptions : forall (uni_digit uni_upper : Z -> bool),
  (forall r, is_alpha_char r || is_num_char r = true -> uni_upper r = is_upper_ascii r) ->
  forall f, valuedescriptions_run uni_digit uni_upper f = Ok [] <->
            forall d vd, In d (f_defs f) -> In vd (values_of d) -> camel_case uni_digit (vd_description vd) = true.
Proof. exact (fun ud uu H => run_clean ud uu H AValueDescriptions). Qed.
Print Assumptions C18_valuedescriptions.

Theorem C18_version : forall f,
  version_run f = Ok [] <-> forall p v, In (DVersion p v) (f_defs f) -> v = [].
Proof. exact (run_clean (fun _ => false) is_upper_ascii (fun _ _ => eq_refl) AVersion). Qed.
Print Assumptions C18_version.

(* ------------------------------------------------------------------------------------------ *)
(** regression witnesses: the analyzers as they were before the fix commits violate the property *)

(** F5: requireddefinitions indexed Defs[0] unconditionally - panic on a file without definitions *)
Theorem C18_requireddefinitions_old_refuted :
  requireddefinitions_run_old {| f_data := []; f_defs := [] |} = Panic.
Proof. exact (proj1 requireddefinitions_old_refuted). Qed.

(** F6: intervals reported `BA_DEF_ "A" FLOAT 10 0;` twice (the rule owes one diagnostic) *)
Theorem C18_intervals_old_refuted :
  intervals_run_old f6_file =
    Ok [diag pos_1_1 (MIntervalInt 0 0); diag pos_1_1 (MIntervalFloat 4621819117588971520 0)]
  /\ intervals_spec f6_file = [diag pos_1_1 (MIntervalFloat 4621819117588971520 0)]
  /\ intervals_run f6_file = Ok (intervals_spec f6_file).
Proof. exact intervals_old_refuted. Qed.

(* ------------------------------------------------------------------------------------------ *)
(** non-vacuity: a concrete clean file passes all 20 analyzers, and a concrete dirty file gets the
    expected diagnostics (so the rules are neither unsatisfiable nor trivially true) *)
Definition ex_pos (l : Z) : position := {| p_line := l; p_column := 1; p_offset := 10 * l |}.
Definition ex_signal (l : Z) (name : string) (start size : Z) (unit : bytes) (mux m : bool) (mv : Z) : signal_def :=
  {| sg_pos := ex_pos l; sg_name := bytes_of_string name; sg_start := start; sg_size := size;
     sg_big_endian := false; sg_signed := false; sg_mux_switch := mux; sg_multiplexed := m; sg_mux_value := mv;
     sg_offset := 0; sg_factor := 4607182418800017408; sg_min := 0; sg_max := 4607182418800017408;
     sg_unit := unit; sg_receivers := [bytes_of_string "ECU"; node_placeholder] |}.
Definition ex_clean : file :=
  {| f_data := bytes_of_string "VERSION";
     f_defs :=
       [DVersion (ex_pos 1) []; DNewSymbols (ex_pos 2) []; DBitTiming (ex_pos 3) 0 0 0;
        DNodes (ex_pos 4) [bytes_of_string "ECU"; bytes_of_string "GW"];
        DMessage {| m_pos := ex_pos 5; m_id := 256; m_name := bytes_of_string "Speed"; m_size := 8;
                    m_transmitter := bytes_of_string "GW";
                    m_signals := [ex_signal 6 "Mode" 0 2 [] true false 0;
                                  ex_signal 7 "IsOn" 2 1 [] false true 3;
                                  ex_signal 8 "WheelMps" 8 16 si_ms false false 0] |};
        DValueDescriptions {| vs_pos := ex_pos 9; vs_object := OtSignal; vs_message_id := 256;
                              vs_signal := bytes_of_string "Mode"; vs_envvar := [];
                              vs_values := [{| vd_pos := ex_pos 9; vd_value := 0;
                                               vd_description := bytes_of_string "Off1" |}] |}] |}.
Definition ex_dirty : file :=
  {| f_data := [66; 13; 10];
     f_defs :=
       [DMessage {| m_pos := ex_pos 1; m_id := 256; m_name := bytes_of_string "speed"; m_size := 1;
                    m_transmitter := bytes_of_string "GW";
                    m_signals := [ex_signal 2 "A" 8 4 u_kph false true 3; ex_signal 3 "A" 0 1 [] false false 0] |};
        DMessage {| m_pos := ex_pos 4; m_id := 256; m_name := bytes_of_string "B"; m_size := 8;
                    m_transmitter := node_placeholder; m_signals := [] |};
        DVersion (ex_pos 5) [49]] |}.

Example C18_nonvacuous :
  (forall a, run is_num_char is_upper_ascii a ex_clean = Ok [])
  /\ run is_num_char is_upper_ascii AUniqueMessageIDs ex_dirty = Ok [diag (ex_pos 4) MDupMessageID]
  /\ run is_num_char is_upper_ascii AUniqueSignalNames ex_dirty = Ok [diag (ex_pos 3) MDupSignalName]
  /\ run is_num_char is_upper_ascii ASignalBounds ex_dirty = Ok [diag (ex_pos 2) MStartBit]
  /\ run is_num_char is_upper_ascii AMultiplexedSignals ex_dirty = Ok [diag (ex_pos 2) MMuxNoSwitch]
  /\ run is_num_char is_upper_ascii ADefinitionTypeOrder ex_dirty =
       Ok [diag (ex_pos 4) MOutOfOrder; diag (ex_pos 1) MOutOfOrder]
  /\ run is_num_char is_upper_ascii ALineEndings ex_dirty = Ok [diag pos_1_1 MLineEndings]
  /\ run is_num_char is_upper_ascii ARequiredDefinitions ex_dirty = Ok [diag (ex_pos 1) MMissingRequired]
  /\ run is_num_char is_upper_ascii AMessageNames ex_dirty = Ok [diag (ex_pos 1) MMessageName]
  /\ run is_num_char is_upper_ascii ABoolPrefix ex_dirty = Ok [diag (ex_pos 3) MBoolPrefix]
  /\ run is_num_char is_upper_ascii ANodeReferences ex_dirty =
       Ok [diag (ex_pos 1) (MUndeclTransmitter (bytes_of_string "GW"));
           diag (ex_pos 2) (MUndeclReceiver (bytes_of_string "ECU"));
           diag (ex_pos 3) (MUndeclReceiver (bytes_of_string "ECU"))].
Proof. split; [intro a; destruct a; vm_compute; reflexivity|]. repeat split; vm_compute; reflexivity. Qed.
