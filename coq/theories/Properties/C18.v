(** Property C18 - every lint analyzer reports exactly the violations of its rule and never fails.
    Only property theorems, each closed by [exact] and followed by [Print Assumptions].
    Model: Dbc/Lint.v (the 20 [X_run] = pkg/dbc/analysis/passes/X/analyzer.go, with the fixes F5/F6);
    specification: Dbc/LintSpec.v ([X_spec] = the diagnostics owed, [X_rule] = the rule as a
    proposition); proofs: Dbc/LintProofs.v.
    All statements quantify over EVERY [file] (raw bytes + any list of definitions, not only parser
    outputs, the empty file included).  unicode.IsDigit / unicode.IsUpper are parameters
    [uni_digit] / [uni_upper]; the only fact needed is that IsUpper is A..Z on ASCII letters/digits.
    Last section: the `lint` command of cmd/cantool through which a user runs the analyzers (model
    Dbc/LintCli.v, specification and proofs Dbc/LintCliProofs.v): its source-line function is total
    and returns the line of the diagnostic, and the command prints one block per diagnostic, never
    crashes and fails with "one or more lint errors" iff some analyzer reports. *)
From Coq Require Import String.
From Coq Require Import ZArith List Bool.
From CanVerif Require Import Dbc.Ast Dbc.Lint Dbc.LintSpec Dbc.LintProofs Dbc.LintCli Dbc.LintCliProofs.
Import ListNotations.
Open Scope Z_scope.

(** soundness, completeness, multiplicity and order at once: each analyzer returns (never panics)
    exactly the list of diagnostics its declarative rule owes, in the specified order *)
Theorem C18_run_equals_spec : forall (uni_digit uni_upper : Z -> bool),
  (forall r, is_alpha_char r || is_num_char r = true -> uni_upper r = is_upper_ascii r) ->
  forall (a : analyzer) (f : file),
    run uni_digit uni_upper a f = Ok (spec_diagnostics uni_digit a f).
Proof. exact run_correct. Qed.
Print Assumptions C18_run_equals_spec.

(** a file gets no diagnostic from an analyzer iff it does not violate the analyzer's rule *)
Theorem C18_clean_iff_rule : forall (uni_digit uni_upper : Z -> bool),
  (forall r, is_alpha_char r || is_num_char r = true -> uni_upper r = is_upper_ascii r) ->
  forall (a : analyzer) (f : file),
    run uni_digit uni_upper a f = Ok [] <-> rule uni_digit a f.
Proof. exact run_clean. Qed.
Print Assumptions C18_clean_iff_rule.

Theorem C18_no_panic : forall (uni_digit uni_upper : Z -> bool),
  (forall r, is_alpha_char r || is_num_char r = true -> uni_upper r = is_upper_ascii r) ->
  forall (a : analyzer) (f : file), run uni_digit uni_upper a f <> Panic.
Proof. exact run_no_panic. Qed.
Print Assumptions C18_no_panic.

(** the empty file: 19 analyzers report nothing, requireddefinitions reports once at 1:1 *)
Theorem C18_empty_file : forall (uni_digit uni_upper : Z -> bool) (a : analyzer),
  run uni_digit uni_upper a {| f_data := []; f_defs := [] |} =
  Ok (match a with
      | ARequiredDefinitions => [diag {| p_line := 1; p_column := 1; p_offset := 0 |} MMissingRequired]
      | _ => []
      end).
Proof. exact run_empty_file. Qed.
Print Assumptions C18_empty_file.

(* ------------------------------------------------------------------------------------------ *)
(** The 20 rules written out: [X_run f = Ok []] iff ... *)

Theorem C18_boolprefix : forall f,
  boolprefix_run f = Ok [] <->
  forall m s, In (DMessage m) (f_defs f) -> In s (m_signals m) -> sg_size s = 1 ->
    starts_with prefix_is (sg_name s) \/ starts_with prefix_has (sg_name s) \/
    exists v, In (DValueDescriptions v) (f_defs f) /\ vs_message_id v = m_id m /\ vs_signal v = sg_name s.
Proof. exact (run_clean (fun _ => false) is_upper_ascii (fun _ _ => eq_refl) ABoolPrefix). Qed.
Print Assumptions C18_boolprefix.

Theorem C18_definitiontypeorder : forall f,
  definitiontypeorder_run f = Ok [] <->
  forall before d after, f_defs f = before ++ d :: after -> forall d', In d' after -> rank d <= rank d'.
Proof. exact (run_clean (fun _ => false) is_upper_ascii (fun _ _ => eq_refl) ADefinitionTypeOrder). Qed.
Print Assumptions C18_definitiontypeorder.

(** definition [d] (with [later] after it) is reported iff a later definition has a strictly
    smaller rank; the reports come in reverse file order *)
Theorem C18_definitiontypeorder_reports : forall f,
  definitiontypeorder_run f =
  Ok (rev (at_each (f_defs f) (fun _ d later =>
        if existsb (fun d' => rank d' <? rank d) later then [diag (def_pos d) MOutOfOrder] else []))).
Proof. exact definitiontypeorder_correct. Qed.
Print Assumptions C18_definitiontypeorder_reports.

Theorem C18_intervals : forall f,
  intervals_run f = Ok [] <->
  (forall e, In (DEnvVar e) (f_defs f) -> f64_gt (ev_min e) (ev_max e) = false) /\
  (forall m s, In (DMessage m) (f_defs f) -> In s (m_signals m) -> f64_gt (sg_min s) (sg_max s) = false) /\
  (forall a, In (DAttribute a) (f_defs f) ->
     ad_min_int a <= ad_max_int a /\ f64_gt (ad_min_float a) (ad_max_float a) = false).
Proof. exact (run_clean (fun _ => false) is_upper_ascii (fun _ _ => eq_refl) AIntervals). Qed.
Print Assumptions C18_intervals.

Theorem C18_lineendings : forall f,
  lineendings_run f = Ok [] <-> ~ exists front back, f_data f = front ++ 13 :: 10 :: back.
Proof. exact (run_clean (fun _ => false) is_upper_ascii (fun _ _ => eq_refl) ALineEndings). Qed.
Print Assumptions C18_lineendings.

Theorem C18_messagenames : forall (uni_digit uni_upper : Z -> bool),
  (forall r, is_alpha_char r || is_num_char r = true -> uni_upper r = is_upper_ascii r) ->
  forall f, messagenames_run uni_digit uni_upper f = Ok [] <->
            forall m, In (DMessage m) (f_defs f) -> camel_case uni_digit (m_name m) = true.
Proof. exact (fun ud uu H => run_clean ud uu H AMessageNames). Qed.
Print Assumptions C18_messagenames.

Theorem C18_multiplexedsignals : forall f,
  multiplexedsignals_run f = Ok [] <->
  forall m, In (DMessage m) (f_defs f) ->
    (forall before s after, m_signals m = before ++ s :: after -> sg_mux_switch s = true ->
       (forall s', In s' before -> sg_mux_switch s' = false) /\ sg_signed s = false /\ sg_multiplexed s = false)
    /\ (forall s, In s (m_signals m) -> sg_multiplexed s = true ->
          exists s0, find sg_mux_switch (m_signals m) = Some s0 /\ sg_mux_value s <= mux_limit (sg_size s0)).
Proof. exact (run_clean (fun _ => false) is_upper_ascii (fun _ _ => eq_refl) AMultiplexedSignals). Qed.
Print Assumptions C18_multiplexedsignals.

Theorem C18_newsymbols : forall f,
  newsymbols_run f = Ok [] <-> forall p syms, In (DNewSymbols p syms) (f_defs f) -> syms = [].
Proof. exact (run_clean (fun _ => false) is_upper_ascii (fun _ _ => eq_refl) ANewSymbols). Qed.
Print Assumptions C18_newsymbols.

Theorem C18_nodereferences : forall f,
  nodereferences_run f = Ok [] <->
  (forall m, In (DMessage m) (f_defs f) ->
     Declared (f_defs f) (m_transmitter m) /\
     forall s n, In s (m_signals m) -> In n (sg_receivers s) -> Declared (f_defs f) n) /\
  (forall e n, In (DEnvVar e) (f_defs f) -> In n (ev_access_nodes e) -> Declared (f_defs f) n) /\
  (forall p id txs n, In (DMessageTransmitters p id txs) (f_defs f) -> In n txs -> Declared (f_defs f) n).
Proof. exact (run_clean (fun _ => false) is_upper_ascii (fun _ _ => eq_refl) ANodeReferences). Qed.
Print Assumptions C18_nodereferences.

Theorem C18_noreservedsignals : forall f,
  noreservedsignals_run f = Ok [] <->
  forall m s, In (DMessage m) (f_defs f) -> In s (m_signals m) -> ~ starts_with prefix_reserved (sg_name s).
Proof. exact (run_clean (fun _ => false) is_upper_ascii (fun _ _ => eq_refl) ANoReservedSignals). Qed.
Print Assumptions C18_noreservedsignals.

Theorem C18_requireddefinitions : forall f,
  requireddefinitions_run f = Ok [] <->
  (exists p baud b1 b2, In (DBitTiming p baud b1 b2) (f_defs f)) /\ (exists p names, In (DNodes p names) (f_defs f)).
Proof. exact (run_clean (fun _ => false) is_upper_ascii (fun _ _ => eq_refl) ARequiredDefinitions). Qed.
Print Assumptions C18_requireddefinitions.

(** exactly one report when a required definition is missing, at the first definition or at 1:1 *)
Theorem C18_requireddefinitions_reports : forall f,
  requireddefinitions_run f =
  Ok (if existsb is_bit_timing (f_defs f) && existsb is_nodes (f_defs f) then []
      else [diag (match f_defs f with [] => pos_1_1 | d :: _ => def_pos d end) MMissingRequired]).
Proof. exact requireddefinitions_correct. Qed.
Print Assumptions C18_requireddefinitions_reports.

Theorem C18_signalbounds : forall f,
  signalbounds_run f = Ok [] <->
  forall m s, In (DMessage m) (f_defs f) -> pseudo m = false -> In s (m_signals m) ->
    sg_start s < (8 * m_size m) mod 2 ^ 64.
Proof. exact (run_clean (fun _ => false) is_upper_ascii (fun _ _ => eq_refl) ASignalBounds). Qed.
Print Assumptions C18_signalbounds.

(** for message sizes below 2^61 bytes the uint64 product is the mathematical one *)
Theorem C18_signalbounds_small_sizes : forall f,
  (forall m, In (DMessage m) (f_defs f) -> 0 <= m_size m < 2 ^ 61) ->
  ((forall m s, In (DMessage m) (f_defs f) -> pseudo m = false -> In s (m_signals m) ->
      sg_start s < (8 * m_size m) mod 2 ^ 64)
   <-> (forall m s, In (DMessage m) (f_defs f) -> pseudo m = false -> In s (m_signals m) ->
      sg_start s < 8 * m_size m)).
Proof. exact signalbounds_rule_small_sizes. Qed.
Print Assumptions C18_signalbounds_small_sizes.

Theorem C18_signalnames : forall (uni_digit uni_upper : Z -> bool),
  (forall r, is_alpha_char r || is_num_char r = true -> uni_upper r = is_upper_ascii r) ->
  forall f, signalnames_run uni_digit uni_upper f = Ok [] <->
            forall m s, In (DMessage m) (f_defs f) -> In s (m_signals m) -> camel_case uni_digit (sg_name s) = true.
Proof. exact (fun ud uu H => run_clean ud uu H ASignalNames). Qed.
Print Assumptions C18_signalnames.

Theorem C18_singletondefinitions : forall f,
  singletondefinitions_run f = Ok [] <->
  forall k, In k [KVersion; KNewSymbols; KBitTiming; KNodes] ->
    (length (filter (is_kind k) (f_defs f)) <= 1)%nat.
Proof. exact (run_clean (fun _ => false) is_upper_ascii (fun _ _ => eq_refl) ASingletonDefinitions). Qed.
Print Assumptions C18_singletondefinitions.

Theorem C18_siunits : forall f,
  siunits_run f = Ok [] <->
  forall m s, In (DMessage m) (f_defs f) -> In s (m_signals m) -> ~ In (sg_unit s) (map fst non_si_units).
Proof. exact (run_clean (fun _ => false) is_upper_ascii (fun _ _ => eq_refl) ASiUnits). Qed.
Print Assumptions C18_siunits.

Theorem C18_uniquemessageids : forall f,
  uniquemessageids_run f = Ok [] <-> NoDup (map m_id (real_messages (f_defs f))).
Proof. exact (run_clean (fun _ => false) is_upper_ascii (fun _ _ => eq_refl) AUniqueMessageIDs). Qed.
Print Assumptions C18_uniquemessageids.

(** one report per non-pseudo message whose ID already occurred in an earlier non-pseudo message *)
Theorem C18_uniquemessageids_reports : forall f,
  uniquemessageids_run f =
  Ok (at_each (real_messages (f_defs f)) (fun before m _ =>
        if existsb (fun m' => m_id m' =? m_id m) before then [diag (m_pos m) MDupMessageID] else [])).
Proof. exact uniquemessageids_correct. Qed.
Print Assumptions C18_uniquemessageids_reports.

Theorem C18_uniquenodenames : forall f,
  uniquenodenames_run f = Ok [] <-> NoDup (map snd (node_occurrences (f_defs f))).
Proof. exact (run_clean (fun _ => false) is_upper_ascii (fun _ _ => eq_refl) AUniqueNodeNames). Qed.
Print Assumptions C18_uniquenodenames.

Theorem C18_uniquesignalnames : forall f,
  uniquesignalnames_run f = Ok [] <->
  forall m, In (DMessage m) (f_defs f) -> pseudo m = false -> NoDup (map sg_name (m_signals m)).
Proof. exact (run_clean (fun _ => false) is_upper_ascii (fun _ _ => eq_refl) AUniqueSignalNames). Qed.
Print Assumptions C18_uniquesignalnames.

Theorem C18_unitsuffixes : forall f,
  unitsuffixes_run f = Ok [] <->
  forall m s suffix, In (DMessage m) (f_defs f) -> In s (m_signals m) ->
    In (sg_unit s, suffix) suffix_of_unit -> ends_with suffix (sg_name s).
Proof. exact (run_clean (fun _ => false) is_upper_ascii (fun _ _ => eq_refl) AUnitSuffixes). Qed.
Print Assumptions C18_unitsuffixes.

Theorem C18_valuedescriptions : forall (uni_digit uni_upper : Z -> bool),
  (forall r, is_alpha_char r || is_num_char r = true -> uni_upper r = is_upper_ascii r) ->
  forall f, valuedescriptions_run uni_digit uni_upper f = Ok [] <->
            forall d vd, In d (f_defs f) -> In vd (values_of d) -> camel_case uni_digit (vd_description vd) = true.
Proof. exact (fun ud uu H => run_clean ud uu H AValueDescriptions). Qed.
Print Assumptions C18_valuedescriptions.

Theorem C18_version : forall f,
  version_run f = Ok [] <-> forall p v, In (DVersion p v) (f_defs f) -> v = [].
Proof. exact (run_clean (fun _ => false) is_upper_ascii (fun _ _ => eq_refl) AVersion). Qed.
Print Assumptions C18_version.

(* ------------------------------------------------------------------------------------------ *)
(** `cantool lint` (cmd/cantool/main.go): the source line printed under every diagnostic.
    [source_line src off] models getSourceLine(source, pos) as a function of pos.Offset; [None] is a
    Go run-time panic (index or slice bounds out of range). *)

(** total: for EVERY text and EVERY offset 0..len (the end of the text included, the empty text
    included) the function returns - no index, no slice expression is out of range *)
Theorem C18_source_line_total : forall (src : bytes) (off : Z),
  0 <= off <= Z.of_nat (length src) -> exists l, source_line src off = Some l.
Proof. exact source_line_total. Qed.
Print Assumptions C18_source_line_total.

(** ... and these are exactly the offsets for which it returns *)
Theorem C18_source_line_domain : forall (src : bytes) (off : Z),
  source_line src off = None <-> off < 0 \/ Z.of_nat (length src) < off.
Proof. exact source_line_domain. Qed.
Print Assumptions C18_source_line_domain.

(** the returned line [l] is a contiguous slice of the text, [src = pre ++ l ++ post], that contains
    the offset (or ends at it: offset at a line end / at the end of the text), contains no line feed
    (byte 10), begins at the start of the text or right after a line feed and ends at the end of
    the text or right before a line feed *)
Theorem C18_source_line_shape : forall (src : bytes) (off : Z) (l : bytes),
  source_line src off = Some l ->
  exists pre post,
    src = pre ++ l ++ post
    /\ Z.of_nat (length pre) <= off <= Z.of_nat (length pre + length l)
    /\ ~ In 10 l
    /\ (pre = [] \/ exists pre', pre = pre' ++ [10])
    /\ (post = [] \/ exists post', post = 10 :: post').
Proof. exact source_line_shape. Qed.
Print Assumptions C18_source_line_shape.

(** the same as a formula: what precedes the offset back to the previous line feed, followed by what
    follows it up to the next line feed ([upto_lf s] = [s] up to, not including, its first byte 10) *)
Theorem C18_source_line_is_line_around : forall (src : bytes) (off : Z),
  0 <= off <= Z.of_nat (length src) ->
  source_line src off =
  Some (rev (upto_lf (rev (firstn (Z.to_nat off) src))) ++ upto_lf (skipn (Z.to_nat off) src)).
Proof. exact source_line_spec. Qed.
Print Assumptions C18_source_line_is_line_around.

(** the whole command. [files] = the files in the order of the loop, each with its name, its bytes
    and the parser's result. Provided every position to be printed lies inside its text and has a
    column >= 1 ([file_printable]: a fact about the parser, C04), the output is, file by file, for a
    parse error one block, else analyzer by analyzer (the 19 of [cantool_analyzers], in that order)
    one block [header; source line; caret under column] per owed diagnostic ([file_blocks], with
    the diagnostics of the declarative rules [spec_diagnostics]); the run never crashes; and it ends
    with "one or more lint errors" iff some analyzer owes a diagnostic on some parsed file (a parse
    error alone does not make the command fail). *)
Theorem C18_cantool_lint_output : forall (uni_digit uni_upper : Z -> bool),
  (forall r, is_alpha_char r || is_num_char r = true -> uni_upper r = is_upper_ascii r) ->
  forall files : list lint_input,
    (forall fi, In fi files -> file_printable uni_digit fi) ->
    cantool_lint_output uni_digit uni_upper files =
    (flat_map (file_blocks uni_digit) files,
     if existsb (file_reports uni_digit) files then ExitLintErrors else ExitOk).
Proof. exact cantool_lint_correct. Qed.
Print Assumptions C18_cantool_lint_output.

(** the empty file through the command: one block (requireddefinitions at 1:1 with an empty source
    line and the caret in column 1), then "one or more lint errors" *)
Theorem C18_cantool_lint_empty_file : forall (uni_digit uni_upper : Z -> bool) (name : bytes),
  cantool_lint_output uni_digit uni_upper [{| li_name := name; li_source := []; li_parse := Parsed [] |}] =
  ([OHeader name {| p_line := 1; p_column := 1; p_offset := 0 |} (PAnalyzer ARequiredDefinitions) (Some MMissingRequired);
    OSourceLine []; OCaret 0],
   ExitLintErrors).
Proof. exact cantool_lint_empty_file. Qed.
Print Assumptions C18_cantool_lint_empty_file.

(** non-vacuity: the text "ab\ncd" (last line without line feed): every offset 0..5 has its line; and
    a file "BU_: A A" without trailing line feed gets its two blocks (requireddefinitions and
    uniquenodenames, both at 1:1, each with the whole last line) *)
Example C18_cli_nonvacuous :
  map (source_line [97; 98; 10; 99; 100]) [0; 1; 2; 3; 4; 5; 6; -1] =
    [Some [97; 98]; Some [97; 98]; Some [97; 98]; Some [99; 100]; Some [99; 100]; Some [99; 100]; None; None]
  /\ source_line [] 0 = Some []
  /\ source_line [10] 0 = Some [] /\ source_line [10] 1 = Some []
  /\ (let src := bytes_of_string "BU_: A A" in
      let p := {| p_line := 1; p_column := 1; p_offset := 0 |} in
      cantool_lint_output is_num_char is_upper_ascii
        [{| li_name := [102]; li_source := src; li_parse := Parsed [DNodes p [[65]; [65]]] |}] =
      ([OHeader [102] p (PAnalyzer ARequiredDefinitions) (Some MMissingRequired); OSourceLine src; OCaret 0;
        OHeader [102] p (PAnalyzer AUniqueNodeNames) (Some MDupNodeName); OSourceLine src; OCaret 0],
       ExitLintErrors)).
Proof. repeat split; vm_compute; reflexivity. Qed.

(* ------------------------------------------------------------------------------------------ *)
(** regression witnesses: the analyzers as they were before the fix commits violate the property *)

(** F5: requireddefinitions indexed Defs[0] unconditionally - panic on a file without definitions *)
Theorem C18_requireddefinitions_old_refuted :
  requireddefinitions_run_old {| f_data := []; f_defs := [] |} = Panic.
Proof. exact (proj1 requireddefinitions_old_refuted). Qed.

(** F6: intervals reported `BA_DEF_ "A" FLOAT 10 0;` twice (the rule owes one diagnostic) *)
Theorem C18_intervals_old_refuted :
  intervals_run_old f6_file =
    Ok [diag pos_1_1 (MIntervalInt 0 0); diag pos_1_1 (MIntervalFloat 4621819117588971520 0)]
  /\ intervals_spec f6_file = [diag pos_1_1 (MIntervalFloat 4621819117588971520 0)]
  /\ intervals_run f6_file = Ok (intervals_spec f6_file).
Proof. exact intervals_old_refuted. Qed.

(* ------------------------------------------------------------------------------------------ *)
(** non-vacuity: a concrete clean file passes all 20 analyzers, and a concrete dirty file gets the
    expected diagnostics (so the rules are neither unsatisfiable nor trivially true) *)
Definition ex_pos (l : Z) : position := {| p_line := l; p_column := 1; p_offset := 10 * l |}.
Definition ex_signal (l : Z) (name : string) (start size : Z) (unit : bytes) (mux m : bool) (mv : Z) : signal_def :=
  {| sg_pos := ex_pos l; sg_name := bytes_of_string name; sg_start := start; sg_size := size;
     sg_big_endian := false; sg_signed := false; sg_mux_switch := mux; sg_multiplexed := m; sg_mux_value := mv;
     sg_offset := 0; sg_factor := 4607182418800017408; sg_min := 0; sg_max := 4607182418800017408;
     sg_unit := unit; sg_receivers := [bytes_of_string "ECU"; node_placeholder] |}.
Definition ex_clean : file :=
  {| f_data := bytes_of_string "VERSION";
     f_defs :=
       [DVersion (ex_pos 1) []; DNewSymbols (ex_pos 2) []; DBitTiming (ex_pos 3) 0 0 0;
        DNodes (ex_pos 4) [bytes_of_string "ECU"; bytes_of_string "GW"];
        DMessage {| m_pos := ex_pos 5; m_id := 256; m_name := bytes_of_string "Speed"; m_size := 8;
                    m_transmitter := bytes_of_string "GW";
                    m_signals := [ex_signal 6 "Mode" 0 2 [] true false 0;
                                  ex_signal 7 "IsOn" 2 1 [] false true 3;
                                  ex_signal 8 "WheelMps" 8 16 si_ms false false 0] |};
        DValueDescriptions {| vs_pos := ex_pos 9; vs_object := OtSignal; vs_message_id := 256;
                              vs_signal := bytes_of_string "Mode"; vs_envvar := [];
                              vs_values := [{| vd_pos := ex_pos 9; vd_value := 0;
                                               vd_description := bytes_of_string "Off1" |}] |}] |}.
Definition ex_dirty : file :=
  {| f_data := [66; 13; 10];
     f_defs :=
       [DMessage {| m_pos := ex_pos 1; m_id := 256; m_name := bytes_of_string "speed"; m_size := 1;
                    m_transmitter := bytes_of_string "GW";
                    m_signals := [ex_signal 2 "A" 8 4 u_kph false true 3; ex_signal 3 "A" 0 1 [] false false 0] |};
        DMessage {| m_pos := ex_pos 4; m_id := 256; m_name := bytes_of_string "B"; m_size := 8;
                    m_transmitter := node_placeholder; m_signals := [] |};
        DVersion (ex_pos 5) [49]] |}.

Example C18_nonvacuous :
  (forall a, run is_num_char is_upper_ascii a ex_clean = Ok [])
  /\ run is_num_char is_upper_ascii AUniqueMessageIDs ex_dirty = Ok [diag (ex_pos 4) MDupMessageID]
  /\ run is_num_char is_upper_ascii AUniqueSignalNames ex_dirty = Ok [diag (ex_pos 3) MDupSignalName]
  /\ run is_num_char is_upper_ascii ASignalBounds ex_dirty = Ok [diag (ex_pos 2) MStartBit]
  /\ run is_num_char is_upper_ascii AMultiplexedSignals ex_dirty = Ok [diag (ex_pos 2) MMuxNoSwitch]
  /\ run is_num_char is_upper_ascii ADefinitionTypeOrder ex_dirty =
       Ok [diag (ex_pos 4) MOutOfOrder; diag (ex_pos 1) MOutOfOrder]
  /\ run is_num_char is_upper_ascii ALineEndings ex_dirty = Ok [diag pos_1_1 MLineEndings]
  /\ run is_num_char is_upper_ascii ARequiredDefinitions ex_dirty = Ok [diag (ex_pos 1) MMissingRequired]
  /\ run is_num_char is_upper_ascii AMessageNames ex_dirty = Ok [diag (ex_pos 1) MMessageName]
  /\ run is_num_char is_upper_ascii ABoolPrefix ex_dirty = Ok [diag (ex_pos 3) MBoolPrefix]
  /\ run is_num_char is_upper_ascii ANodeReferences ex_dirty =
       Ok [diag (ex_pos 1) (MUndeclTransmitter (bytes_of_string "GW"));
           diag (ex_pos 2) (MUndeclReceiver (bytes_of_string "ECU"));
           diag (ex_pos 3) (MUndeclReceiver (bytes_of_string "ECU"))].
Proof. split; [intro a; destruct a; vm_compute; reflexivity|]. repeat split; vm_compute; reflexivity. Qed.
