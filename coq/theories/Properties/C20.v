(** Property C20 - the CAN netlink link-info codec matches the kernel ABI and decodes defensively.
    This file contains only the property theorems, each closed by [exact], each followed by
    [Print Assumptions].
    Model: Netlink/Layout.v (marshal_* / unmarshal_* = device_linux.go:341-504, over byte lists with
    CHECKED slicing: [Ok x] = returned x, [Error] = returned a non-nil error, [OutOfBounds] = a Go
    slice / index / nlenc length assertion would have panicked) and Netlink/Attr.v (TLV codec of
    mdlayher/netlink, encode_linkinfo / decode_linkinfo = device_linux.go:506-569).
    Specification: Netlink/LayoutSpec.v (spec_* = the C struct images, computed from the member
    lists of the kernel headers by the C ABI layout rule). Native byte order = little-endian.
    Value ranges: u8/u16/u32 v := 0 <= v < 2^8/2^16/2^32, i32 v := -2^31 <= v < 2^31;
    *_wf x := every field of x is in the range of its Go type; bytes_ok b := every byte is u8. *)
From Coq Require Import ZArith List Bool.
From CanVerif Require Import Netlink.Layout Netlink.LayoutSpec Netlink.Attr Netlink.Proofs Netlink.Program Netlink.ProgramProofs.
Import ListNotations.
Open Scope Z_scope.

(** ** 1. the byte images are the in-memory layouts of the Linux structures *)

(** struct ifinfomsg { u8 family; u8 pad; u16 type; i32 index; u32 flags; u32 change } *)
Theorem C20_ifinfomsg_layout : forall x : ifinfomsg,
  ifinfomsg_wf x -> marshal_ifinfomsg x = Ok (spec_ifinfomsg x).
Proof. exact marshal_ifinfomsg_layout. Qed.
Print Assumptions C20_ifinfomsg_layout.

(** struct can_bittiming { u32 bitrate, sample_point, tq, prop_seg, phase_seg1, phase_seg2, sjw, brp } *)
Theorem C20_bittiming_layout : forall x : bittiming,
  bittiming_wf x -> marshal_bittiming x = Ok (spec_bittiming x).
Proof. exact marshal_bittiming_layout. Qed.
Print Assumptions C20_bittiming_layout.

(** struct can_ctrlmode { u32 mask; u32 flags } *)
Theorem C20_ctrlmode_layout : forall x : ctrlmode,
  ctrlmode_wf x -> marshal_ctrlmode x = Ok (spec_ctrlmode x).
Proof. exact marshal_ctrlmode_layout. Qed.
Print Assumptions C20_ctrlmode_layout.

(** the size constants used by the size checks are the C sizeof of the structures *)
Theorem C20_sizes_are_c_sizeof :
  sizeof_ifinfomsg = c_sizeof [CU8; CU8; CU16; CI32; CU32; CU32] /\
  sizeof_bittiming = c_sizeof [CU32; CU32; CU32; CU32; CU32; CU32; CU32; CU32] /\
  sizeof_bittiming_const = c_sizeof [CChars 16; CU32; CU32; CU32; CU32; CU32; CU32; CU32; CU32] /\
  sizeof_clock = c_sizeof [CU32] /\ sizeof_ctrlmode = c_sizeof [CU32; CU32] /\
  sizeof_berr_counters = c_sizeof [CU16; CU16] /\
  sizeof_stats = c_sizeof [CU32; CU32; CU32; CU32; CU32; CU32].
Proof. exact sizes_are_c_sizeof. Qed.
Print Assumptions C20_sizes_are_c_sizeof.

(** every decoder inverts the C layout: a successfully decoded value has the input as its C image
    (for ifinfomsg up to the padding byte at offset 1, which the value does not carry).
    This is the layout statement for the decode-only structures. *)
Theorem C20_decoders_invert_layout : forall bs : list Z, bytes_ok bs ->
  (forall x, unmarshal_ifinfomsg bs = Ok x -> spec_ifinfomsg x = firstn 1 bs ++ [0] ++ skipn 2 bs) /\
  (forall x, unmarshal_bittiming bs = Ok x -> spec_bittiming x = bs) /\
  (forall x, unmarshal_bittiming_const bs = Ok x -> spec_bittiming_const x = bs) /\
  (forall x, unmarshal_clock bs = Ok x -> spec_clock x = bs) /\
  (forall x, unmarshal_ctrlmode bs = Ok x -> spec_ctrlmode x = bs) /\
  (forall x, unmarshal_berr_counters bs = Ok x -> spec_berr_counters x = bs) /\
  (forall x, unmarshal_stats bs = Ok x -> spec_stats x = bs).
Proof. exact decoders_invert_layout. Qed.
Print Assumptions C20_decoders_invert_layout.

(** ** 2. decoding such an image returns the original field values *)

Theorem C20_ifinfomsg_roundtrip : forall (x : ifinfomsg) (bs : list Z),
  ifinfomsg_wf x -> marshal_ifinfomsg x = Ok bs -> unmarshal_ifinfomsg bs = Ok x.
Proof. exact unmarshal_marshal_ifinfomsg. Qed.
Print Assumptions C20_ifinfomsg_roundtrip.

Theorem C20_bittiming_roundtrip : forall (x : bittiming) (bs : list Z),
  bittiming_wf x -> marshal_bittiming x = Ok bs -> unmarshal_bittiming bs = Ok x.
Proof. exact unmarshal_marshal_bittiming. Qed.
Print Assumptions C20_bittiming_roundtrip.

Theorem C20_ctrlmode_roundtrip : forall (x : ctrlmode) (bs : list Z),
  ctrlmode_wf x -> marshal_ctrlmode x = Ok bs -> unmarshal_ctrlmode bs = Ok x.
Proof. exact unmarshal_marshal_ctrlmode. Qed.
Print Assumptions C20_ctrlmode_roundtrip.

(** ** 3. any other size is an error, and NO input makes a decoder read out of bounds *)

Theorem C20_wrong_size_is_error : forall bs : list Z,
  (length bs <> sizeof_ifinfomsg -> unmarshal_ifinfomsg bs = Error) /\
  (length bs <> sizeof_bittiming -> unmarshal_bittiming bs = Error) /\
  (length bs <> sizeof_bittiming_const -> unmarshal_bittiming_const bs = Error) /\
  (length bs <> sizeof_clock -> unmarshal_clock bs = Error) /\
  (length bs <> sizeof_ctrlmode -> unmarshal_ctrlmode bs = Error) /\
  (length bs <> sizeof_berr_counters -> unmarshal_berr_counters bs = Error) /\
  (length bs <> sizeof_stats -> unmarshal_stats bs = Error).
Proof. exact wrong_size_is_error. Qed.
Print Assumptions C20_wrong_size_is_error.

Theorem C20_right_size_decodes : forall bs : list Z,
  (length bs = sizeof_ifinfomsg -> exists x, unmarshal_ifinfomsg bs = Ok x) /\
  (length bs = sizeof_bittiming -> exists x, unmarshal_bittiming bs = Ok x) /\
  (length bs = sizeof_bittiming_const -> exists x, unmarshal_bittiming_const bs = Ok x) /\
  (length bs = sizeof_clock -> exists x, unmarshal_clock bs = Ok x) /\
  (length bs = sizeof_ctrlmode -> exists x, unmarshal_ctrlmode bs = Ok x) /\
  (length bs = sizeof_berr_counters -> exists x, unmarshal_berr_counters bs = Ok x) /\
  (length bs = sizeof_stats -> exists x, unmarshal_stats bs = Ok x).
Proof. exact right_size_decodes. Qed.
Print Assumptions C20_right_size_decodes.

Theorem C20_never_out_of_bounds : forall bs : list Z,
  unmarshal_ifinfomsg bs <> OutOfBounds /\ unmarshal_bittiming bs <> OutOfBounds /\
  unmarshal_bittiming_const bs <> OutOfBounds /\ unmarshal_clock bs <> OutOfBounds /\
  unmarshal_ctrlmode bs <> OutOfBounds /\ unmarshal_berr_counters bs <> OutOfBounds /\
  unmarshal_stats bs <> OutOfBounds.
Proof. exact never_out_of_bounds. Qed.
Print Assumptions C20_never_out_of_bounds.

Theorem C20_marshal_never_out_of_bounds :
  (forall x, marshal_ifinfomsg x <> OutOfBounds) /\ (forall x, marshal_bittiming x <> OutOfBounds) /\
  (forall x, marshal_ctrlmode x <> OutOfBounds).
Proof. exact marshal_no_oob. Qed.
Print Assumptions C20_marshal_never_out_of_bounds.

(** ** 4. link-info messages *)

(** what li.encode produces for kind "can"/"vcan" (through AttributeEncoder: IFLA_INFO_KIND string,
    nested IFLA_INFO_DATA with IFLA_CAN_BITTIMING and IFLA_CAN_CTRLMODE) is decoded by li.decode,
    on ANY receiver li0, to the same kind, bit timing (all eight words, so the bit rate) and
    control mode; the receiver's other fields keep their values *)
Theorem C20_linkinfo_roundtrip : forall li0 li : linkinfo,
  li_kind li = kind_can \/ li_kind li = kind_vcan ->
  bittiming_wf (i_bittiming (li_info li)) -> ctrlmode_wf (i_ctrlmode (li_info li)) ->
  exists (bs : list Z) (li' : linkinfo),
    encode_linkinfo li = Ok bs /\ decode_linkinfo_from li0 bs = Ok li' /\
    li_kind li' = li_kind li /\
    i_bittiming (li_info li') = i_bittiming (li_info li) /\
    i_ctrlmode (li_info li') = i_ctrlmode (li_info li) /\
    i_bittiming_const (li_info li') = i_bittiming_const (li_info li0) /\
    i_clock (li_info li') = i_clock (li_info li0) /\ i_berr (li_info li') = i_berr (li_info li0) /\
    i_type (li_info li') = i_type (li_info li0) /\ li_stats li' = li_stats li0.
Proof. exact decode_encode_linkinfo. Qed.
Print Assumptions C20_linkinfo_roundtrip.

(** a fixed-size CAN attribute (type after masking the flag bits: 1 bit timing = 32 bytes,
    2 bit-timing const = 48, 3 clock = 4, 5 control mode = 8, 8 error counters = 4) whose payload has
    any other size is rejected by the attribute switch of Info.decode *)
Theorem C20_fixed_size_attribute_wrong_size : forall (i : info) (t : Z) (d : list Z) (n : nat),
  can_attr_size (Z.land t NLA_TYPE_MASK) = Some n -> length d <> n -> info_handler i t d = Error.
Proof. exact info_handler_wrong_size. Qed.
Print Assumptions C20_fixed_size_attribute_wrong_size.

(** ... and at message level: a link-info message (kind, then IFLA_INFO_DATA holding ANY
    well-formed attribute stream pre ++ (t,d) :: post) in which (t,d) is such an attribute makes
    li.decode return an error. attr_ok (t,d) := u16 t /\ length d <= 65531 (what an encoder can emit);
    tlv_stream = concatenation of the attributes' TLV encodings. *)
Theorem C20_linkinfo_wrong_nested_size :
  forall (li0 : linkinfo) (kind : list Z) (dtype : Z) (pre : list (Z * list Z)) (t : Z) (d : list Z)
         (post : list (Z * list Z)) (n : nat),
  Forall attr_ok (pre ++ (t, d) :: post) ->
  attr_ok (IFLA_INFO_KIND, kind) ->
  attr_ok (dtype, tlv_stream (pre ++ (t, d) :: post)) ->
  Z.land dtype NLA_TYPE_MASK = IFLA_INFO_DATA ->
  can_attr_size (Z.land t NLA_TYPE_MASK) = Some n -> length d <> n ->
  decode_linkinfo_from li0
    (attr_bytes IFLA_INFO_KIND kind ++ attr_bytes dtype (tlv_stream (pre ++ (t, d) :: post))) = Error.
Proof. exact decode_linkinfo_wrong_size. Qed.
Print Assumptions C20_linkinfo_wrong_nested_size.

(** the statistics attribute IFLA_INFO_XSTATS (24 bytes) likewise *)
Theorem C20_linkinfo_xstats_wrong_size :
  forall (li0 : linkinfo) (pre : list (Z * list Z)) (t : Z) (d : list Z) (post : list (Z * list Z)),
  Forall attr_ok (pre ++ (t, d) :: post) ->
  Z.land t NLA_TYPE_MASK = IFLA_INFO_XSTATS -> length d <> sizeof_stats ->
  decode_linkinfo_from li0 (tlv_stream (pre ++ (t, d) :: post)) = Error.
Proof. exact decode_linkinfo_xstats_wrong_size. Qed.
Print Assumptions C20_linkinfo_xstats_wrong_size.

(** whatever bytes arrive (well-formed TLV or not), li.decode over an AttributeDecoder never
    reaches an out-of-bounds access: it returns a value or an error *)
Theorem C20_linkinfo_never_out_of_bounds : forall (li0 : linkinfo) (b : list Z),
  decode_linkinfo_from li0 b <> OutOfBounds.
Proof. exact decode_linkinfo_no_oob. Qed.
Print Assumptions C20_linkinfo_never_out_of_bounds.

(** observation recorded while modelling (outside the property's claim about fixed-size
    attributes): Device.unmarshalBinary slices data[:16] before any length check; the model of that
    function reaches OutOfBounds exactly on messages shorter than an ifinfomsg header *)
Theorem C20_note_device_unmarshal_oob_iff : forall (dv : device) (data : list Z),
  device_unmarshal dv data = OutOfBounds <-> (length data < sizeof_ifinfomsg)%nat.
Proof. exact device_unmarshal_oob_iff. Qed.
Print Assumptions C20_note_device_unmarshal_oob_iff.

(** non-vacuity: a 500 kbit/s listen-only "can" link. The byte strings are the ones the real
    encoder printed in the correspondence run. *)
Example C20_nonvacuous :
  let bt := Build_bittiming 500000 875 125 6 7 2 1 4 in
  let cm := Build_ctrlmode 2 2 in
  let li := Build_linkinfo kind_can (set_cm (set_bt info_zero bt) cm) stats_zero in
  bittiming_wf bt /\ ctrlmode_wf cm /\
  marshal_bittiming bt = Ok [32; 161; 7; 0;  107; 3; 0; 0;  125; 0; 0; 0;  6; 0; 0; 0;
                             7; 0; 0; 0;  2; 0; 0; 0;  1; 0; 0; 0;  4; 0; 0; 0] /\
  marshal_ifinfomsg (Build_ifinfomsg 29 280 (-2) 1 1) =
    Ok [29; 0; 24; 1;  254; 255; 255; 255;  1; 0; 0; 0;  1; 0; 0; 0] /\
  encode_linkinfo li =
    Ok ([8; 0; 1; 0; 99; 97; 110; 0;  52; 0; 2; 128;  36; 0; 1; 0;
         32; 161; 7; 0;  107; 3; 0; 0;  125; 0; 0; 0;  6; 0; 0; 0;
         7; 0; 0; 0;  2; 0; 0; 0;  1; 0; 0; 0;  4; 0; 0; 0;
         12; 0; 5; 0;  2; 0; 0; 0;  2; 0; 0; 0]) /\
  (exists bs, encode_linkinfo li = Ok bs /\ decode_linkinfo bs = Ok li) /\
  unmarshal_bittiming (repeat 0 31) = Error /\ unmarshal_bittiming (repeat 0 33) = Error.
Proof.
  cbv zeta. split; [|split; [|split; [|split; [|split; [|split; [|split]]]]]].
  - vm_compute. repeat split; discriminate.
  - vm_compute. repeat split; discriminate.
  - vm_compute. reflexivity.
  - vm_compute. reflexivity.
  - vm_compute. reflexivity.
  - eexists. split; vm_compute; reflexivity.
  - vm_compute. reflexivity.
  - vm_compute. reflexivity.
Qed.

(** ACTION-SEQUENCE TIE for the attribute walkers (Netlink/Program.v). harness/netwire reads Info.decode,
    linkInfoMsg.decode, Device.unmarshalBinary, Info.encode and linkInfoMsg.encode from the source text; the
    check compares them with the constants
      [info_walk]     = cases BITTIMING, BITTIMING_CONST, CLOCK, CTRLMODE, BERR_COUNTER -> err = <field>.unmarshalBinary
      [linkinfo_walk] = INFO_KIND -> kind check, INFO_DATA -> Nested(info.decode), INFO_XSTATS -> stats
      [device_walk]   = IFNAME -> ifname, LINKINFO -> Nested(li.decode); Type = linkType
      [info_encode_prog] = Bytes(BITTIMING), Bytes(CTRLMODE);  [linkinfo_encode_prog] = String(KIND), Nested(DATA)
    (default: skip; `if err != nil { return err }` inside the loop). [run_info] / [run_linkinfo] / [run_device]
    execute a walk: [step exec w st rawtype d] selects the first case equal to the masked type. The executed
    programs ARE the hand model, for all attribute buffers *)
Theorem C20_decode_program_is_model : forall i0 li0 dv b,
  run_info info_walk i0 b = decode_info i0 b /\
  run_linkinfo info_walk linkinfo_walk li0 b = decode_linkinfo_from li0 b /\
  run_device info_walk linkinfo_walk device_walk dv b = device_unmarshal dv b.
Proof.
  exact (fun i0 li0 dv b => conj (info_program_is_model i0 b)
           (conj (linkinfo_program_is_model li0 b) (device_program_is_model dv b))).
Qed.
Print Assumptions C20_decode_program_is_model.

Theorem C20_encode_program_is_model : forall i li,
  run_encode_info info_encode_prog i = encode_info i /\
  run_encode_linkinfo info_encode_prog linkinfo_encode_prog li = encode_linkinfo li.
Proof. exact (fun i li => conj (encode_info_program_is_model i) (encode_linkinfo_program_is_model li)). Qed.
Print Assumptions C20_encode_program_is_model.

(** an error of an attribute's action ends the walk with an error (never overwritten by a later
    attribute); attribute types without a case are skipped *)
Theorem C20_walk_error_ends_unknown_skipped :
  (forall (S : Type) (exec : act -> S -> list Z -> outcome S) w fuel b st len t d,
     length b <> 0%nat -> attr_unmarshal b = Ok (len, t, d) -> step exec w st t d = Error ->
     attrs_iter (Datatypes.S fuel) (step exec w) b st = Error) /\
  (forall (S : Type) (exec : act -> S -> list Z -> outcome S) w st t d,
     select w (Z.land t NLA_TYPE_MASK) = None -> step exec w st t d = Ok st).
Proof. exact (conj (@walk_error_ends) (@walk_unknown_skipped)). Qed.
Print Assumptions C20_walk_error_ends_unknown_skipped.

(** non-vacuity: a 3-byte CLOCK attribute (error) followed by a well-formed CTRLMODE attribute: the
    walk ends with the error; an unknown type 7 before a CLOCK attribute is skipped *)
Example C20_program_nonvacuous :
  run_info info_walk info_zero ([7; 0; 3; 0; 1; 2; 3; 0] ++ [12; 0; 5; 0; 1; 0; 0; 0; 1; 0; 0; 0]) = Error /\
  run_info info_walk info_zero ([5; 0; 7; 0; 9; 0; 0; 0] ++ [8; 0; 3; 0; 64; 0; 0; 0]) =
    Ok (set_clock info_zero (Build_clock 64)).
Proof. vm_compute. split; reflexivity. Qed.
