(** Property C08 - signal descriptors follow the DBC layout; raw bounds and saturated casts are
    exact up to 64 bits.
    Only property theorems, each closed by [exact], each followed by [Print Assumptions].
    Model: Descriptor/Signal.v (integer part of pkg/descriptor/signal.go, on top of Can/Data.v)
    and Descriptor/Physical.v (UnmarshalFloat / MarshalFloat on Flocq binary32/binary64).
    Specification: Can/DataSpec.v ([pbit] = payload bit k, [le_pos]/[be_pos] = the documented
    numbering, [sext] = two's complement), and
      sig_pos s i  := if s_big_endian s then be_pos (s_start s) (s_length s - 1 - i)
                      else le_pos (s_start s) i            (payload position of value bit i)
      sig_fits s   := 1 <= s_length s <= 64 /\
                      if s_big_endian s then 0 <= s_start s < 64 /\ stream (s_start s) + s_length s <= 64
                      else 0 <= s_start s /\ s_start s + s_length s <= 64
    (by C01_fits_be_iff / C01_fits_le_iff these are exactly the 4160 geometries all of whose
    bits lie inside the 64 payload bits). *)
From Coq Require Import ZArith List Bool Reals.
From Flocq Require Import Core BinarySingleNaN.
From CanVerif Require Import Can.Data Can.DataSpec Can.DataProofs.
From CanVerif Require Import Descriptor.Signal Descriptor.SignalProofs Descriptor.Physical Descriptor.FloatProofs.
Import ListNotations.
Open Scope Z_scope.

(** ** unmarshal = the value C01 defines for the descriptor's layout *)
Theorem C08_unmarshal_unsigned : forall s d i,
  valid_data d -> sig_fits s -> 0 <= i ->
  Z.testbit (unmarshal_unsigned s d) i = (i <? s_length s) && pbit d (sig_pos s i).
Proof. exact unmarshal_unsigned_bits. Qed.
Print Assumptions C08_unmarshal_unsigned.

Theorem C08_unmarshal_signed : forall s d,
  1 <= s_length s <= 64 -> unmarshal_signed s d = sext (s_length s) (unmarshal_unsigned s d).
Proof. exact unmarshal_signed_sext. Qed.
Print Assumptions C08_unmarshal_signed.

Theorem C08_unmarshal_bool : forall s d,
  valid_data d -> 0 <= s_start s <= 63 -> unmarshal_bool s d = pbit d (s_start s).
Proof. exact unmarshal_bool_spec. Qed.
Print Assumptions C08_unmarshal_bool.

(** ** marshal = the write C02 defines: content of the range, and every other bit kept *)
Theorem C08_marshal_unsigned_content : forall s d v i,
  valid_data d -> sig_fits s -> 0 <= v < 2 ^ s_length s -> 0 <= i < s_length s ->
  pbit (marshal_unsigned s d v) (sig_pos s i) = Z.testbit v i.
Proof. exact marshal_unsigned_content. Qed.
Print Assumptions C08_marshal_unsigned_content.

Theorem C08_marshal_unsigned_frame : forall s d v k,
  valid_data d -> sig_fits s -> 0 <= v < 2 ^ s_length s -> 0 <= k < 64 ->
  (forall i, 0 <= i < s_length s -> k <> sig_pos s i) ->
  pbit (marshal_unsigned s d v) k = pbit d k.
Proof. exact marshal_unsigned_frame. Qed.
Print Assumptions C08_marshal_unsigned_frame.

Theorem C08_marshal_signed : forall s d w,
  1 <= s_length s <= 64 -> marshal_signed s d w = marshal_unsigned s d (w mod 2 ^ s_length s).
Proof. exact marshal_signed_eq. Qed.
Print Assumptions C08_marshal_signed.

Theorem C08_marshal_bool : forall s d b k,
  valid_data d -> 0 <= s_start s <= 63 -> 0 <= k < 64 ->
  pbit (marshal_bool s d b) k = if k =? s_start s then b else pbit d k.
Proof. exact marshal_bool_bits. Qed.
Print Assumptions C08_marshal_bool.

(** read-after-write *)
Theorem C08_unmarshal_marshal_unsigned : forall s d v,
  valid_data d -> sig_fits s -> 0 <= v < 2 ^ s_length s ->
  unmarshal_unsigned s (marshal_unsigned s d v) = v.
Proof. exact unmarshal_marshal_unsigned. Qed.
Print Assumptions C08_unmarshal_marshal_unsigned.

Theorem C08_unmarshal_marshal_signed : forall s d w,
  valid_data d -> sig_fits s -> - 2 ^ (s_length s - 1) <= w < 2 ^ (s_length s - 1) ->
  unmarshal_signed s (marshal_signed s d w) = w.
Proof. exact unmarshal_marshal_signed_in_range. Qed.
Print Assumptions C08_unmarshal_marshal_signed.

(** ** 1-bit signals read and write the single addressed bit (either byte order) *)
Theorem C08_one_bit_read : forall s d,
  valid_data d -> sig_fits s -> s_length s = 1 ->
  unmarshal_unsigned s d = (if pbit d (s_start s) then 1 else 0) /\
  unmarshal_bool s d = pbit d (s_start s).
Proof. exact one_bit_unmarshal. Qed.
Print Assumptions C08_one_bit_read.

Theorem C08_one_bit_write : forall s d v k,
  valid_data d -> sig_fits s -> s_length s = 1 -> 0 <= v <= 1 -> 0 <= k < 64 ->
  pbit (marshal_unsigned s d v) k = if k =? s_start s then Z.testbit v 0 else pbit d k.
Proof. exact one_bit_marshal. Qed.
Print Assumptions C08_one_bit_write.

(** ** float signals carry the IEEE-754 binary32 bit pattern of the value *)
(** the 32 bits of the signal (read by the C01 rule) are the binary32 pattern of float32(x) ... *)
Theorem C08_float_pattern : forall s d (x : f64),
  valid_data d -> sig_fits s -> s_length s = 32 ->
  unmarshal_unsigned s (marshal_float s d x) = bits_of_f32 (f32_of_f64 x).
Proof. exact marshal_float_pattern. Qed.
Print Assumptions C08_float_pattern.

(** ... every other payload bit is kept ... *)
Theorem C08_float_frame : forall s d (x : f64) k,
  valid_data d -> sig_fits s -> s_length s = 32 -> 0 <= k < 64 ->
  (forall i, 0 <= i < 32 -> k <> sig_pos s i) ->
  pbit (marshal_float s d x) k = pbit d k.
Proof. exact marshal_float_frame. Qed.
Print Assumptions C08_float_frame.

(** ... where float32(x) is the IEEE round-to-nearest-even of x at binary32, overflowing to the
    infinity of x's sign ([rnd32 = round radix2 (FLT_exp (3-128-24) 24) ZnearestE]) ... *)
Theorem C08_float32_rounding : forall x : f64,
  is_finite x = true ->
  if Rlt_bool (Rabs (rnd32 (B2R x))) (bpow radix2 128)
  then B2R (f32_of_f64 x) = rnd32 (B2R x) /\ is_finite (f32_of_f64 x) = true /\
       Bsign (f32_of_f64 x) = Bsign x
  else f32_of_f64 x = B754_infinity (Bsign x).
Proof. exact f32_of_f64_correct. Qed.
Print Assumptions C08_float32_rounding.

(** ... the pattern decodes to the float it encodes, and UnmarshalFloat returns exactly that
    binary32 value (widening to float64 is exact) *)
Theorem C08_float_pattern_decodes : forall y : f32, f32_of_bits (bits_of_f32 y) = y.
Proof. exact f32_of_bits_of_f32. Qed.
Print Assumptions C08_float_pattern_decodes.

Theorem C08_float_read_after_write : forall s d (x : f64),
  valid_data d -> sig_fits s -> s_length s = 32 ->
  unmarshal_float s (marshal_float s d x) = f64_of_f32 (f32_of_f64 x).
Proof. exact unmarshal_marshal_float. Qed.
Print Assumptions C08_float_read_after_write.

Theorem C08_float_widening_exact : forall y : f32,
  is_finite y = true ->
  B2R (f64_of_f32 y) = B2R y /\ is_finite (f64_of_f32 y) = true /\ Bsign (f64_of_f32 y) = Bsign y.
Proof. exact f64_of_f32_exact. Qed.
Print Assumptions C08_float_widening_exact.

Theorem C08_float_read_after_write_value : forall s d (x : f64),
  valid_data d -> sig_fits s -> s_length s = 32 -> is_finite x = true ->
  (Rabs (rnd32 (B2R x)) < bpow radix2 128)%R ->
  is_finite (unmarshal_float s (marshal_float s d x)) = true /\
  B2R (unmarshal_float s (marshal_float s d x)) = rnd32 (B2R x).
Proof. exact unmarshal_marshal_float_value. Qed.
Print Assumptions C08_float_read_after_write_value.

(** ** raw bounds, exact for every length 1..64 (the int64/uint64 wrap of the Go formulas is
       part of [max_unsigned_l], [min_signed_l], [max_signed_l]) *)
Theorem C08_bounds : forall l,
  1 <= l <= 64 ->
  max_unsigned_l l = 2 ^ l - 1 /\ min_signed_l l = - 2 ^ (l - 1) /\ max_signed_l l = 2 ^ (l - 1) - 1.
Proof. exact bounds_exact. Qed.
Print Assumptions C08_bounds.

(** defect F3 (fixed in /repo by 4de6b10): the formulas (2 << (L-1) / 2) * -1 and
    (2 << (L-1) / 2) - 1 overflow int64 at L = 63 and 64 *)
Theorem C08_bounds_refuted :
  min_signed_l_old 63 = 2 ^ 62 /\ max_signed_l_old 63 = - 2 ^ 62 - 1 /\
  min_signed_l_old 64 = 0 /\ max_signed_l_old 64 = -1 /\
  ~ (forall l, 1 <= l <= 64 ->
       min_signed_l_old l = - 2 ^ (l - 1) /\ max_signed_l_old l = 2 ^ (l - 1) - 1).
Proof. exact bounds_refuted. Qed.

Theorem C08_saturated_cast_old_refuted : forall v,
  saturated_cast_signed_l_old 64 v = (if v <? 0 then 0 else -1).
Proof. exact saturated_cast_old_collapses. Qed.

(** ** saturated casts: the argument inside the bounds, the nearer bound outside *)
Theorem C08_saturated_cast_signed : forall l v,
  1 <= l <= 64 ->
  saturated_cast_signed_l l v = Z.min (Z.max v (- 2 ^ (l - 1))) (2 ^ (l - 1) - 1).
Proof. exact saturated_cast_signed_spec. Qed.
Print Assumptions C08_saturated_cast_signed.

Theorem C08_saturated_cast_unsigned : forall l v,
  1 <= l <= 64 -> 0 <= v ->
  saturated_cast_unsigned_l l v = Z.min (Z.max v 0) (2 ^ l - 1).
Proof. exact saturated_cast_unsigned_spec. Qed.
Print Assumptions C08_saturated_cast_unsigned.

Theorem C08_saturated_cast_signed_cases : forall l v,
  1 <= l <= 64 ->
  (- 2 ^ (l - 1) <= v <= 2 ^ (l - 1) - 1 -> saturated_cast_signed_l l v = v) /\
  (v < - 2 ^ (l - 1) -> saturated_cast_signed_l l v = - 2 ^ (l - 1)) /\
  (2 ^ (l - 1) - 1 < v -> saturated_cast_signed_l l v = 2 ^ (l - 1) - 1).
Proof. exact saturated_cast_signed_cases. Qed.
Print Assumptions C08_saturated_cast_signed_cases.

Theorem C08_saturated_cast_unsigned_cases : forall l v,
  1 <= l <= 64 -> 0 <= v ->
  (v <= 2 ^ l - 1 -> saturated_cast_unsigned_l l v = v) /\
  (2 ^ l - 1 < v -> saturated_cast_unsigned_l l v = 2 ^ l - 1).
Proof. exact saturated_cast_unsigned_cases. Qed.
Print Assumptions C08_saturated_cast_unsigned_cases.

(** non-vacuity: a big-endian 12-bit signed signal and a 32-bit float signal on a concrete
    payload; the 64-bit bounds *)
Example C08_nonvacuous :
  let s := mk_signal 11 12 true true in
  let d := [0x01; 0x23; 0x45; 0x67; 0x89; 0xAB; 0xCD; 0xEF] in
  valid_datab d = true /\ stream 11 + 12 <= 64 /\
  unmarshal_signed s (marshal_signed s d (-1234)) = -1234 /\ marshal_signed s d (-1234) <> d /\
  min_signed_l 64 = - 2 ^ 63 /\ max_signed_l 64 = 2 ^ 63 - 1 /\ max_unsigned_l 64 = 2 ^ 64 - 1 /\
  (let f := mk_signal 16 32 false false in
   unmarshal_unsigned f (marshal_float f d (f64_of_bits 0x3FB999999999999A)) = 0x3DCCCCCD).
Proof. vm_compute. repeat split; congruence. Qed.
