(** Property C10 - a generated message is always a valid, self-consistent frame after any calls.
    Theorems are about Gen/History.v (operations of the generated API over the descriptor interpreter). *)
From Coq Require Import ZArith List Bool.
From CanVerif Require Import Can.Data Descriptor.Types Gen.Message Gen.MessageProofs Gen.History.
Import ListNotations.
Open Scope Z_scope.

(** the produced frame always carries the message's ID, length and ID format *)
Theorem C10_frame_header : forall m st,
  let f := frame_of m st in
  fr_id f = msg_id m /\ fr_length f = msg_length m /\ fr_extended f = msg_extended m /\ fr_remote f = false.
Proof. exact frame_of_header. Qed.
Print Assumptions C10_frame_header.
