(** Property C10 - a generated message is always a valid, self-consistent frame after any calls.
    Theorems are about Gen/History.v: the operations of the generated API (New, Reset, raw setters,
    CopyFrom, UnmarshalFrame, Frame) over the descriptor interpreter of C03. Physical setters
    compose the raw range invariant with C09's saturation theorem (descriptor family); the harness
    checks their results against the invariant on every run.
    Hypotheses (DESIGN.md 4.3): [wf_message] layout as in C03; [wf_mux]: the multiplexer signal is not
    itself multiplexed and not a float; [wf_defaults]: start values inside the raw range;
    [wf_header]: the ID fits its format and the length is at most 8. *)
From Coq Require Import ZArith List Bool.
From Flocq Require Import BinarySingleNaN.
From CanVerif Require Import Can.Data Descriptor.Types Descriptor.Physical Gen.Message Gen.MessageProofs Gen.History
  Gen.Layout Gen.LayoutProofs Gen.RoundTrip Gen.HistoryProofs Gen.HistoryPhys Gen.ClassCheck.
Import ListNotations.
Open Scope Z_scope.

(** construction / reset restore the declared start values, which satisfy the invariant *)
Theorem C10_new_inv : forall m, wf_defaults m -> inv (msg_signals m) (new_state m) = true.
Proof. exact reset_inv. Qed.
Print Assumptions C10_new_inv.

(** every operation (reset, raw setter with ANY argument of the accessor type, copy-from, unmarshal of
    any frame, accepted or rejected) preserves the range invariant of the instance it is applied to *)
Theorem C10_step_inv : forall m this other o,
  wf_message m -> wf_mux m -> wf_defaults m -> op_ok m o ->
  inv (msg_signals m) this = true -> inv (msg_signals m) other = true ->
  inv (msg_signals m) (snd (step m this other o)) = true.
Proof. exact step_inv. Qed.
Print Assumptions C10_step_inv.

(** hence, by induction over ALL finite operation sequences on two instances of a message, every
    reachable pair of states satisfies the invariant *)
Theorem C10_all_histories_inv : forall m ops a b,
  wf_message m -> wf_mux m -> wf_defaults m -> Forall (fun wo => op_ok m (snd wo)) ops ->
  inv (msg_signals m) a = true -> inv (msg_signals m) b = true ->
  inv (msg_signals m) (fst (run m ops (a, b))) = true /\ inv (msg_signals m) (snd (run m ops (a, b))) = true.
Proof. exact run_inv. Qed.
Print Assumptions C10_all_histories_inv.

(** the produced frame always passes validation and carries the message's ID, length and format *)
Theorem C10_frame_valid : forall m st, wf_header m -> frame_valid (frame_of m st) = true.
Proof. exact frame_valid_of_inv. Qed.
Print Assumptions C10_frame_valid.
Theorem C10_frame_header : forall m st,
  let f := frame_of m st in
  fr_id f = msg_id m /\ fr_length f = msg_length m /\ fr_extended f = msg_extended m /\ fr_remote f = false.
Proof. exact frame_of_header. Qed.
Print Assumptions C10_frame_header.

(** unmarshalling the frame into any message (in particular a fresh one) and marshalling again
    reproduces the identical frame; bits of one signal never leak into another (C03_encode_bits) *)
Theorem C10_reencode : forall m st st0,
  wf_message m -> wf_mux m -> inv (msg_signals m) st = true -> inv (msg_signals m) st0 = true ->
  exists st', unmarshal m (frame_of m st) st0 = inr st' /\
              inv (msg_signals m) st' = true /\ frame_of m st' = frame_of m st.
Proof. exact reencode. Qed.
Print Assumptions C10_reencode.

(** copy-from yields a message with the identical frame; the source is a value, never aliased:
    [step] returns only the new state of the instance it is applied to *)
Theorem C10_copy : forall m st other,
  wf_message m -> wf_mux m -> inv (msg_signals m) st = true -> inv (msg_signals m) other = true ->
  inv (msg_signals m) (copy_from m st other) = true /\ frame_of m (copy_from m st other) = frame_of m other.
Proof. exact copy_from_spec. Qed.
Print Assumptions C10_copy.

(** reset (and construction) restore exactly the declared start values *)
Theorem C10_reset_restores_start_values : forall m this other,
  snd (step m this other OpReset) = map reset_value (msg_signals m) /\
  snd (step m this other OpNew) = map reset_value (msg_signals m).
Proof. exact reset_restores. Qed.
Print Assumptions C10_reset_restores_start_values.

(** all clauses together for every reachable state *)
Theorem C10_reachable : forall m ops,
  wf_message m -> wf_mux m -> wf_defaults m -> wf_header m -> Forall (fun wo => op_ok m (snd wo)) ops ->
  let '(a, b) := run m ops (new_state m, new_state m) in
  inv (msg_signals m) a = true /\ inv (msg_signals m) b = true /\
  frame_valid (frame_of m a) = true /\ frame_valid (frame_of m b) = true /\
  (exists a', unmarshal m (frame_of m a) (new_state m) = inr a' /\ frame_of m a' = frame_of m a).
Proof. exact reachable_ok. Qed.
Print Assumptions C10_reachable.

(** PHYSICAL SETTERS. Set<Signal>(float64) stores T(FromPhysical(v)) ([phys_set_value], Flocq model of
    pkg/descriptor FromPhysical + Go's truncating conversion). For a multi-bit integer signal of at most
    52 bits whose scaling is in the class of C09 (finite non-zero factor, finite offset/min/max,
    min <= max) and ANY non-NaN argument (+-Inf, subnormals, huge magnitudes included) the stored raw
    value is inside the signal's raw range - composition with C09_saturation *)
Theorem C10_physical_setter_in_range : forall s xbits,
  wf_signal s ->
  s_float s = false /\ 2 <= s_length s <= 52 /\
  c09_class_f (sc s) (off s) (smin s) (smax s) = true /\ is_nan (f64_of_bits xbits) = false ->
  in_range s (phys_set_value s xbits) = true.
Proof. exact phys_set_value_in_range. Qed.
Print Assumptions C10_physical_setter_in_range.

(** all clauses for every state reachable through ANY finite history of raw setters, physical
    setters, reset, copy-from and unmarshal on two instances *)
Theorem C10_reachable_with_physical_setters : forall m ops,
  wf_message m -> wf_mux m -> wf_defaults m -> wf_header m -> Forall (fun wo => opx_ok m (snd wo)) ops ->
  let '(a, b) := runx m ops (new_state m, new_state m) in
  inv (msg_signals m) a = true /\ inv (msg_signals m) b = true /\
  frame_valid (frame_of m a) = true /\ frame_valid (frame_of m b) = true /\
  (exists a', unmarshal m (frame_of m a) (new_state m) = inr a' /\ frame_of m a' = frame_of m a).
Proof. exact reachable_ok_x. Qed.
Print Assumptions C10_reachable_with_physical_setters.

(** the hypotheses are decidable: the correspondence run evaluates [in_theorem_class] on every message of
    every sampled program (evidence key messages_satisfying_the_hypotheses_of_the_theorems) *)
Theorem C10_hypotheses_decidable : forall m,
  in_theorem_class m = true -> wf_message m /\ wf_mux m /\ wf_defaults m /\ wf_header m.
Proof. exact in_theorem_class_sound. Qed.
Print Assumptions C10_hypotheses_decidable.

(** non-vacuity: a history on the example message of C03 *)
From CanVerif Require Import Properties.C03.
Example C10_nonvacuous :
  let m := C03_example_message in
  let ops := [(false, OpSetRaw 2 (-3000)); (true, OpSetRaw 0 9); (false, OpCopy); (true, OpSetRaw 4 0x7F800000)] in
  wf_defaults m /\ wf_header m /\ wf_mux m /\
  run m ops (new_state m, new_state m) = ([9; 0; -2048; 0; 0], [9; 0; 0; 0; 0x7F7FFFFF]).
Proof.
  cbv zeta. split; [repeat constructor|]. split; [vm_compute; intuition congruence|].
  split; [|vm_compute; reflexivity].
  intros i s Hm Hn. vm_compute in Hm. inversion Hm; subst. vm_compute in Hn. inversion Hn; subst. split; reflexivity.
Qed.

(** CLASS LINK. Every message of a database in the generator-supported class of C11
    ([in_class43], DESIGN.md 4.3, Gen/ApiSpec.v) satisfies the hypotheses of the C03/C10 theorems:
    the theorems above apply to every program of that class, not only to the sampled ones. *)
From CanVerif Require Import Gen.ApiSpec Gen.ClassLink.
Theorem C10_class_link : forall db m, in_class43 db = true -> In m (db_messages db) ->
  wf_message m /\ wf_mux m /\ wf_defaults m /\ wf_header m.
Proof. exact class43_in_theorem_class. Qed.
Print Assumptions C10_class_link.
