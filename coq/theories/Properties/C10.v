(** Property C10 - a generated message is always a valid, self-consistent frame after any calls.
    Theorems are about Gen/History.v: the operations of the generated API (New, Reset, raw setters,
    CopyFrom, UnmarshalFrame, Frame) over the descriptor interpreter of C03. Physical setters
    compose the raw range invariant with C09's saturation theorem (descriptor family); the harness
    checks their results against the invariant on every run.
    Hypotheses (DESIGN.md 4.3): [wf_message] layout as in C03; [wf_mux]: the multiplexer signal is not
    itself multiplexed and not a float; [wf_defaults]: start values inside the raw range;
    [wf_header]: the ID fits its format and the length is at most 8. *)
From Coq Require Import ZArith List Bool.
From Flocq Require Import BinarySingleNaN.
From CanVerif Require Import Can.Data Descriptor.Types Descriptor.Physical Gen.Message Gen.MessageProofs Gen.History
  Gen.Layout Gen.LayoutProofs Gen.RoundTrip Gen.HistoryProofs Gen.HistoryPhys Gen.ClassCheck.
Import ListNotations.
Open Scope Z_scope.

(** construction / reset restore the declared start values, which satisfy the invariant *)
Theorem C10_new_inv : forall m, wf_defaults m -> inv (msg_signals m) (new_state m) = true.
Proof. exact reset_inv. Qed.
Print Assumptions C10_new_inv.

(** every operation (reset, raw setter with ANY argument of the accessor type, copy-from, unmarshal of
    any frame, accepted or rejected) preserves the range invariant of the instance it is applied to *)
Theorem C10_step_inv : forall m this other o,
  wf_message m -> wf_mux m -> wf_defaults m -> op_ok m o ->
  inv (msg_signals m) this = true -> inv (msg_signals m) other = true ->
  inv (msg_signals m) (snd (step m this other o)) = true.
Proof. exact step_inv. Qed.
Print Assumptions C10_step_inv.

(** hence, by induction over ALL finite operation sequences on two instances of a message, every
    reachable pair of states satisfies the invariant *)
Theorem C10_all_histories_inv : forall m ops a b,
  wf_message m -> wf_mux m -> wf_defaults m -> Forall (fun wo => op_ok m (snd wo)) ops ->
  inv (msg_signals m) a = true -> inv (msg_signals m) b = true ->
  inv (msg_signals m) (fst (run m ops (a, b))) = true /\ inv (msg_signals m) (snd (run m ops (a, b))) = true.
Proof. exact run_inv. Qed.
Print Assumptions C10_all_histories_inv.

(** the produced frame always passes validation and carries the message's ID, length and format *)
Theorem C10_frame_valid : forall m st, wf_header m -> frame_valid (frame_of m st) = true.
Proof. exact frame_valid_of_inv. Qed.
Print Assumptions C10_frame_valid.
Theorem C10_frame_header : forall m st,
  let f := frame_of m st in
  fr_id f = msg_id m /\ fr_length f = msg_length m /\ fr_extended f = msg_extended m /\ fr_remote f = false.
Proof. exact frame_of_header. Qed.
Print Assumptions C10_frame_header.

(** unmarshalling the frame into any message (in particular a fresh one) and marshalling again
    reproduces the identical frame; bits of one signal never leak into another (C03_encode_bits) *)
Theorem C10_reencode : forall m st st0,
  wf_message m -> wf_mux m -> inv (msg_signals m) st = true -> inv (msg_signals m) st0 = true ->
  exists st', unmarshal m (frame_of m st) st0 = inr st' /\
              inv (msg_signals m) st' = true /\ frame_of m st' = frame_of m st.
Proof. exact reencode. Qed.
Print Assumptions C10_reencode.

(** copy-from yields a message with the identical frame; the source is a value, never aliased:
    [step] returns only the new state of the instance it is applied to *)
Theorem C10_copy : forall m st other,
  wf_message m -> wf_mux m -> inv (msg_signals m) st = true -> inv (msg_signals m) other = true ->
  inv (msg_signals m) (copy_from m st other) = true /\ frame_of m (copy_from m st other) = frame_of m other.
Proof. exact copy_from_spec. Qed.
Print Assumptions C10_copy.

(** copy-from-self (m.CopyFrom(m), or a reader value that aliases the receiver) leaves the frame unchanged: the
    source is marshalled before any field is assigned. The walker executes self-copies on the generated types. *)
Theorem C10_copy_self : forall m st,
  wf_message m -> wf_mux m -> inv (msg_signals m) st = true ->
  inv (msg_signals m) (copy_from m st st) = true /\ frame_of m (copy_from m st st) = frame_of m st.
Proof. exact copy_from_self. Qed.
Print Assumptions C10_copy_self.

(** reset (and construction) restore exactly the declared start values *)
Theorem C10_reset_restores_start_values : forall m this other,
  snd (step m this other OpReset) = map reset_value (msg_signals m) /\
  snd (step m this other OpNew) = map reset_value (msg_signals m).
Proof. exact reset_restores. Qed.
Print Assumptions C10_reset_restores_start_values.

(** all clauses together for every reachable state *)
Theorem C10_reachable : forall m ops,
  wf_message m -> wf_mux m -> wf_defaults m -> wf_header m -> Forall (fun wo => op_ok m (snd wo)) ops ->
  let '(a, b) := run m ops (new_state m, new_state m) in
  inv (msg_signals m) a = true /\ inv (msg_signals m) b = true /\
  frame_valid (frame_of m a) = true /\ frame_valid (frame_of m b) = true /\
  (exists a', unmarshal m (frame_of m a) (new_state m) = inr a' /\ frame_of m a' = frame_of m a).
Proof. exact reachable_ok. Qed.
Print Assumptions C10_reachable.

(** PHYSICAL SETTERS. Set<Signal>(float64) stores T(FromPhysical(v)) ([phys_set_value], Flocq model of
    pkg/descriptor FromPhysical + Go's truncating conversion). For a multi-bit integer signal of at most
    52 bits whose scaling is in the class of C09 (finite non-zero factor, finite offset/min/max,
    min <= max) and ANY non-NaN argument (+-Inf, subnormals, huge magnitudes included) the stored raw
    value is inside the signal's raw range - composition with C09_saturation *)
Theorem C10_physical_setter_in_range : forall s xbits,
  wf_signal s ->
  s_float s = false /\ 2 <= s_length s <= 52 /\
  c09_class_f (sc s) (off s) (smin s) (smax s) = true /\ is_nan (f64_of_bits xbits) = false ->
  in_range s (phys_set_value s xbits) = true.
Proof. exact phys_set_value_in_range. Qed.
Print Assumptions C10_physical_setter_in_range.

(** PHYSICAL ACCESSORS ARE LOCAL TO THEIR SIGNAL. [phys_get m st i] is the generated <Signal>() on field i:
    ToPhysical (of signal i's own descriptor) of float64(field i). After Set<Signal>(x) field i holds
    T(FromPhysical(x)) computed from signal i's own descriptor and <Signal>() is ToPhysical of exactly that
    value; the raw and physical getters of every other signal j are unchanged. (That the generated code's
    Messages().<Msg>.<Signal> IS signal i's descriptor is a fact about the emitted Go literal: compared on the
    built packages by the generated-code stage of C09, checks/descriptor.py.) *)
Theorem C10_physical_setter_then_getter : forall m st i s xbits,
  nth_error (msg_signals m) i = Some s -> (i < length st)%nat ->
  nth i (phys_set m st i xbits) 0 = phys_set_value s xbits /\
  phys_get m (phys_set m st i xbits) i = Some (getter_physical s (phys_set_value s xbits)).
Proof. exact phys_get_after_set. Qed.
Print Assumptions C10_physical_setter_then_getter.
Theorem C10_physical_setter_leaves_other_signals : forall m st i j xbits,
  i <> j -> nth j (phys_set m st i xbits) 0 = nth j st 0 /\ phys_get m (phys_set m st i xbits) j = phys_get m st j.
Proof. exact phys_set_other. Qed.
Print Assumptions C10_physical_setter_leaves_other_signals.

(** the generated physical getter obeys C09's clamp clause in every state whose field is below 2^53 in
    magnitude (every reachable state of a signal of at most 53 bits): declared range => finite and inside
    [min, max]; no declared range => fl(fl(raw*scale)+offset) *)
Theorem C10_physical_getter_clamped : forall m st i s,
  nth_error (msg_signals m) i = Some s ->
  c09_class_f (sc s) (off s) (smin s) (smax s) = true -> Z.abs (nth i st 0) < 2 ^ 53 ->
  exists r, phys_get m st i = Some r /\
    (declared_f (smin s) (smax s) = true -> is_finite r = true /\ Bleb (smin s) r = true /\ Bleb r (smax s) = true) /\
    (declared_f (smin s) (smax s) = false ->
       r = Bplus mode_NE (Bmult mode_NE (f64_of_Z (nth i st 0)) (sc s)) (off s)).
Proof. exact phys_get_clamped. Qed.
Print Assumptions C10_physical_getter_clamped.

(** all clauses for every state reachable through ANY finite history of raw setters, physical
    setters, reset, copy-from and unmarshal on two instances *)
Theorem C10_reachable_with_physical_setters : forall m ops,
  wf_message m -> wf_mux m -> wf_defaults m -> wf_header m -> Forall (fun wo => opx_ok m (snd wo)) ops ->
  let '(a, b) := runx m ops (new_state m, new_state m) in
  inv (msg_signals m) a = true /\ inv (msg_signals m) b = true /\
  frame_valid (frame_of m a) = true /\ frame_valid (frame_of m b) = true /\
  (exists a', unmarshal m (frame_of m a) (new_state m) = inr a' /\ frame_of m a' = frame_of m a).
Proof. exact reachable_ok_x. Qed.
Print Assumptions C10_reachable_with_physical_setters.

(** the hypotheses are decidable: the correspondence run evaluates [in_theorem_class] on every message of
    every sampled program (evidence key messages_satisfying_the_hypotheses_of_the_theorems) *)
Theorem C10_hypotheses_decidable : forall m,
  in_theorem_class m = true -> wf_message m /\ wf_mux m /\ wf_defaults m /\ wf_header m.
Proof. exact in_theorem_class_sound. Qed.
Print Assumptions C10_hypotheses_decidable.

(** non-vacuity: a history on the example message of C03 *)
From CanVerif Require Import Properties.C03.
Example C10_nonvacuous :
  let m := C03_example_message in
  let ops := [(false, OpSetRaw 2 (-3000)); (true, OpSetRaw 0 9); (false, OpCopy); (true, OpSetRaw 4 0x7F800000)] in
  wf_defaults m /\ wf_header m /\ wf_mux m /\
  run m ops (new_state m, new_state m) = ([9; 0; -2048; 0; 0], [9; 0; 0; 0; 0x7F7FFFFF]).
Proof.
  cbv zeta. split; [repeat constructor|]. split; [vm_compute; intuition congruence|].
  split; [|vm_compute; reflexivity].
  intros i s Hm Hn. vm_compute in Hm. inversion Hm; subst. vm_compute in Hn. inversion Hn; subst. split; reflexivity.
Qed.

(** CLASS LINK. Every message of a database in the generator-supported class of C11
    ([in_class43], DESIGN.md 4.3, Gen/ApiSpec.v) satisfies the hypotheses of the C03/C10 theorems:
    the theorems above apply to every program of that class, not only to the sampled ones. *)
From CanVerif Require Import Gen.ApiSpec Gen.ClassLink.
Theorem C10_class_link : forall db m, in_class43 db = true -> In m (db_messages db) ->
  wf_message m /\ wf_mux m /\ wf_defaults m /\ wf_header m.
Proof. exact class43_in_theorem_class. Qed.
Print Assumptions C10_class_link.

(** END TO END (composition with C06 and C07; E2E/Pipeline.v). "A valid, self-consistent frame" is what
    survives the transport: take ANY list of (message, state) pairs whose states satisfy the range
    invariant ([sender_ok (m, st)] = wf_message m /\ wf_mux m /\ wf_header m /\ inv (msg_signals m) st = true,
    i.e. every state reachable by the histories above). Each generated Frame() is a well-formed frame that
    passes Validate and is written by TransmitFrame as one 16-byte block ([S_layout], C06); for EVERY
    segmentation [chunks] of the concatenated byte stream into reads (C07), a Receiver delivers exactly those
    frames, in order - each Receive() = true with Frame() = the sent frame, HasErrorFrame() = false and the
    interceptor called once with that frame ([delivers]) - and afterwards Receive() = false with Err() = nil. *)
From CanVerif Require E2E.Pipeline.
Theorem C10_frames_survive_the_wire : forall sends chunks rest extra,
  Forall Pipeline.sender_ok sends ->
  Socketcan.ReceiverSpec.no_stall 0 chunks ->
  concat chunks = concat (map (fun ms => Socketcan.WireSpec.S_layout (Pipeline.sent_frame ms)) sends) ->
  exists evs,
    Socketcan.Receiver.receive_calls (length sends + extra)
        (map Socketcan.Receiver.RData chunks ++ Socketcan.Receiver.REOF :: rest) =
      evs ++ repeat (Socketcan.ReceiverSpec.stop_event None) extra /\
    Forall2 Pipeline.delivers evs (map Pipeline.sent_frame sends).
Proof. exact Pipeline.pipeline_delivers. Qed.
Print Assumptions C10_frames_survive_the_wire.

(** what each TransmitFrame call writes is that block, 16 bytes *)
Theorem C10_transmitted_block : forall sends, Forall Pipeline.sender_ok sends ->
  Forall (fun ms => Socketcan.Wire.transmit_bytes (Pipeline.sent_frame ms) =
                      Some (Socketcan.WireSpec.S_layout (Pipeline.sent_frame ms))
                    /\ length (Socketcan.WireSpec.S_layout (Pipeline.sent_frame ms)) = 16%nat) sends.
Proof. exact Pipeline.pipeline_transmit. Qed.
Print Assumptions C10_transmitted_block.

(** and the receiving node's dispatcher (Messages().UnmarshalFrame on a fresh zero value) finds the sender's
    message and decodes the delivered frame into a state that marshals to the identical frame *)
Theorem C10_delivered_frame_dispatches : forall db m st,
  Pipeline.sender_ok (m, st) -> find_message (db_messages db) (msg_id m) = Some m ->
  exists st', dispatch db (Pipeline.of_wire (Pipeline.sent_frame (m, st))) = Some (m, inr st') /\
              inv (msg_signals m) st' = true /\ frame_of m st' = frame_of m st.
Proof. exact Pipeline.pipeline_dispatch. Qed.
Print Assumptions C10_delivered_frame_dispatches.

(** non-vacuity of the end-to-end statement: two frames of the example message, read in 5 + 27 bytes *)
Example C10_pipeline_nonvacuous :
  let m := C03_example_message in
  let sends := [(m, [9; 0; -2048; 0; 0]); (m, new_state m)] in
  let bs := concat (map (fun ms => Socketcan.WireSpec.S_layout (Pipeline.sent_frame ms)) sends) in
  length bs = 32%nat /\
  map (fun ev => match ev with Socketcan.Receiver.EvFrame [g] f false _ => Some (Pipeline.of_wire f) | _ => None end)
      (Socketcan.Receiver.receive_calls 2 (map Socketcan.Receiver.RData [firstn 5 bs; skipn 5 bs] ++ [Socketcan.Receiver.REOF]))
  = [Some (frame_of m [9; 0; -2048; 0; 0]); Some (frame_of m (new_state m))].
Proof. vm_compute. split; reflexivity. Qed.

(** WIRING TIE (Gen/Wiring.v; see Properties/C03.v for Frame()/UnmarshalFrame()). [w] is the first-order reading of the
    emitted Go text of one message type (harness/genwire). When the decidable checker - evaluated on every generated
    message of every run - accepts it, the emitted Reset() stores the interpreter's start values in EVERY state ... *)
From CanVerif Require Import Gen.Wiring Gen.WiringProofs Gen.Api.
Theorem C10_wiring_reset : forall m w st,
  reset_wiring_ok m w = true -> length st = length (msg_signals m) ->
  wiring_reset w st = Some (reset_state m).
Proof. exact wiring_reset_correct. Qed.
Print Assumptions C10_wiring_reset.
(** ... the emitted CopyFrom() (f, _ := o.MarshalFrame(); _ = m.UnmarshalFrame(f); return m over the emitted Frame() and
    UnmarshalFrame()) is the interpreter's [copy_from] for ALL pairs of states ... *)
Theorem C10_wiring_copy : forall m w st other,
  frame_wiring_ok m w = true -> unmarshal_wiring_ok m w = true -> w_copy w = true ->
  length st = length (msg_signals m) -> length other = length (msg_signals m) ->
  wiring_copy m w st other = Some (copy_from m st other).
Proof. exact wiring_copy_correct. Qed.
Print Assumptions C10_wiring_copy.
(** ... and EVERY setter method of the emitted type is the raw setter (Set<Signal>, or SetRaw<Signal> when the signal has
    physical accessors) or the physical setter (Set<Signal>(float64)) of one signal of THIS message and stores the
    interpreter's value ([raw_set] = saturate-then-convert, [phys_set] = T(FromPhysical(v))) for EVERY argument and state *)
Theorem C10_wiring_setters : forall m w,
  setters_wiring_ok m w = true ->
  Forall (fun ns => exists i s, nth_error (msg_signals m) i = Some s /\
            ((st_method ns = (if has_physical s then setraw_prefix else set_prefix) ++ s_name s /\
              forall st v, wiring_setter m w ns st v = Some (raw_set m st i v)) \/
             (has_physical s = true /\ st_method ns = set_prefix ++ s_name s /\
              forall st x, wiring_setter m w ns st x = Some (phys_set m st i x))))
         (w_setters w).
Proof. exact wiring_setters_correct. Qed.
Print Assumptions C10_wiring_setters.

(** ... and EVERY getter method is the raw getter (<Signal>, or Raw<Signal> when the signal has physical accessors) or the
    physical getter (<Signal>() float64) of the one signal of THIS message it is named after and returns, in EVERY state,
    that signal's field / ToPhysical(float64(field)) ([phys_get] = [getter_physical], the Flocq model of ToPhysical) *)
Theorem C10_wiring_getters : forall m w,
  getters_wiring_ok m w = true ->
  Forall (fun g => exists i s, nth_error (msg_signals m) i = Some s /\
            ((gt_method g = (if has_physical s then raw_prefix else []) ++ s_name s /\
              forall st, wiring_getter_raw w g st = Some (nth i st 0)) \/
             (has_physical s = true /\ gt_method g = s_name s /\
              forall st, wiring_getter_phys m w g st = phys_get m st i)))
         (w_getters w).
Proof. exact wiring_getters_correct. Qed.
Print Assumptions C10_wiring_getters.

(** WHOLE PACKAGE. [p] is the reading of one generated package: the wirings of all its message types, the nd literal and the
    dispatcher's cases. The checker [package_wiring_ok db p] finds, INSIDE Coq and by name, the wiring of every message of the
    database (there must be exactly one), checks it at the message's own index ([wiring_ok_c03 mi m w], [wiring_ok_c10 mi m w]),
    refuses message types the database does not declare and checks the nd table. If it accepts - evaluated on every generated
    package of every run - then for EVERY message of the database all the per-message theorems above hold ([message_tied m w]:
    Frame = frame_of, UnmarshalFrame = unmarshal, Reset = reset_state, CopyFrom = copy_from, every setter = raw_set/phys_set,
    every getter = field/phys_get, for all states, frames and arguments), and there is no other message type *)
Theorem C10_wiring_package : forall db p,
  package_wiring_ok db p = true ->
  (forall mi m, nth_error (db_messages db) mi = Some m ->
     exists w, filter (fun w => name_eqb (w_name w) (msg_name m)) (p_wirings p) = [w] /\ In w (p_wirings p) /\
               w_name w = msg_name m /\ w_msg_index w = Z.of_nat mi /\ message_tied m w) /\
  (forall w, In w (p_wirings p) -> exists m, In m (db_messages db) /\ w_name w = msg_name m).
Proof. exact package_wiring_correct. Qed.
Print Assumptions C10_wiring_package.

(** ENUM TYPES. For an accepted package ([enums_ok]) every signal with value descriptions has exactly one enum type
    <Msg>_<Sig> (underlying type = the signal's primitive type, one constant <Msg>_<Sig>_<slug> per description) whose String()
    returns, for EVERY value v, [enum_string_spec m s v]: the text of the FIRST value description whose value is v (1-bit
    signals: value 1 for true, any other value for false), otherwise <Msg>_<Sig>(<v in decimal>) resp. <Msg>_<Sig>(true|false);
    and the package declares no other enum type *)
Theorem C10_wiring_enums : forall db p,
  enums_ok db p = true ->
  (forall m s, In m (db_messages db) -> In s (msg_signals m) -> has_custom_type s = true ->
     exists e, filter (fun e => name_eqb (Wiring.e_name e) (enum_type_name m s)) (p_enums p) = [e] /\
               Wiring.e_name e = enum_type_name m s /\ forall v, Wiring.enum_string e v = Some (enum_string_spec m s v)) /\
  (forall e, In e (p_enums p) -> exists m s, In m (db_messages db) /\ In s (msg_signals m) /\
                                             has_custom_type s = true /\ Wiring.e_name e = enum_type_name m s).
Proof. exact enums_correct. Qed.
Print Assumptions C10_wiring_enums.

(** ... and that specification IS C11's model of the enum String() (Gen/Api.v [enum_string] of the signal's API record, the
    function the C11 theorems and its reflective correspondence run are about); moreover [wiring_ok_c10] demands that the
    struct field of such a signal is declared with the enum type NAME <Msg>_<Sig> ([enum_fields_ok]) *)
Theorem C10_wiring_enums_is_api_model : forall hp m s v,
  has_custom_type s = true -> enum_string_spec m s v = Api.enum_string (signal_api_with hp m s) v.
Proof. exact enum_string_spec_is_api. Qed.
Print Assumptions C10_wiring_enums_is_api_model.

(** non-vacuity: Reset, the five setters and getters of the example message as harness/genwire prints them; a setter that
    converts before saturating (cin = int16 instead of int64) is refused *)
Definition w_unmarshal_rejects : list nustmt := [NReject (RcNe HId HId); NReject (RcNe HLen HLen); NReject RcRemote; NReject (RcNe HExt HExt)].
Definition C10_example_wiring (cin3 : name) : wiring :=
  let u8 := [117; 105; 110; 116; 56] in let u16 := [117; 105; 110; 116; 49; 54] in let i16 := [105; 110; 116; 49; 54] in
  let u64 := [117; 105; 110; 116; 54; 52] in let i64 := [105; 110; 116; 54; 52] in
  let bool := [98; 111; 111; 108] in let f32 := [102; 108; 111; 97; 116; 51; 50] in let f64 := [102; 108; 111; 97; 116; 54; 52] in
  let fld n := xxx_prefix ++ [n] in
  let set n p b := {| st_method := set_prefix ++ [n]; st_field := fld n; st_param := p; st_body := b |} in
  let get n t := {| gt_method := [n]; gt_field := fld n; gt_result := t; gt_body := GbField |} in
  {| w_name := [77]; w_fields := w_fields C03_example_wiring; w_types := []; w_msg_index := 3; w_descs := w_descs C03_example_wiring;
     w_init := w_init C03_example_wiring; w_frame := w_frame C03_example_wiring; w_unmarshal := w_unmarshal C03_example_wiring;
     w_reset := [(fld 1, RInt 0); (fld 2, RBool false); (fld 3, RInt 0); (fld 4, RInt 0); (fld 5, RInt 0)];
     w_copy := true;
     w_setters := [set 1 u8 (SbSat StUnsigned [1] u64 u8); set 2 bool SbDirect; set 3 i16 (SbSat StSigned [3] cin3 i16);
                   set 4 u16 (SbSat StUnsigned [4] u64 u16); set 5 f32 (SbSat StFloat [5] f64 f32)];
     w_getters := [get 1 u8; get 2 bool; get 3 i16; get 4 u16; get 5 f32] |}.
Example C10_wiring_nonvacuous :
  wiring_ok_c10 3 C03_example_message (C10_example_wiring [105; 110; 116; 54; 52]) = true /\
  wiring_ok_c10 3 C03_example_message (C10_example_wiring [105; 110; 116; 49; 54]) = false /\
  match nth_error (w_setters (C10_example_wiring [105; 110; 116; 54; 52])) 2 with
  | Some ns => wiring_setter C03_example_message (C10_example_wiring [105; 110; 116; 54; 52]) ns [9; 0; 0; 0; 0] (-3000)
  | None => None
  end = Some [9; 0; -2048; 0; 0] /\
  (* a package: the database holds the example message at index 3 (three empty messages before it), one node *)
  let e n := {| msg_name := [n]; msg_id := n; msg_extended := false; msg_length := 0; msg_send_type := SendNone;
                msg_description := []; msg_signals := []; msg_sender := []; msg_cycle_time := 0; msg_delay_time := 0 |} in
  let we n i := {| w_name := [n]; w_fields := []; w_types := []; w_msg_index := i; w_descs := []; w_init := (HId, HExt, HLen);
                   w_frame := []; w_unmarshal := w_unmarshal_rejects; w_reset := []; w_copy := true; w_setters := []; w_getters := [] |} in
  let db := {| db_source_file := []; db_version := []; db_messages := [e 1; e 2; e 3; C03_example_message];
               db_nodes := [{| node_name := [78]; node_description := [] |}] |} in
  let p := {| p_nodegens := []; p_enums := []; p_wirings := [we 1 0; we 2 1; we 3 2; C10_example_wiring [105; 110; 116; 54; 52]]; p_nodes := [([78], 0)];
              p_dispatch := [Some [1]; Some [2]; Some [3]; Some [77]; None] |} in
  package_wiring_ok db p = true /\ dispatch_ok db p = true /\
  wiring_dispatch db p (frame_of C03_example_message [1; 1; -5; 0; 0x40490FDB]) =
    Some (Some (C03_example_message, inr [1; 1; -5; 0; 0x40490FDB])) /\
  (* the same wirings in a package whose md entry of message 3 points at index 2 are refused *)
  package_wiring_ok db {| p_nodegens := []; p_enums := []; p_wirings := [we 1 0; we 2 1; we 3 2; we 77 2]; p_nodes := [([78], 0)]; p_dispatch := [] |} = false.
Proof. vm_compute. repeat split; reflexivity. Qed.
