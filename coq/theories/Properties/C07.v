(** Property C07 - the receiver reassembles the byte stream into whole frames under any read
    chunking; interceptors; the transmitter's single write.
    Only property theorems, each closed by [exact], each followed by [Print Assumptions].

    Model: Socketcan/Receiver.v = bufio.Scanner.Scan (Go 1.23) with the split function of
    receiver.go, run against a list of READ RESULTS of the underlying connection
      [RData bs] = (len bs, nil), [RDataErr bs e] = (len bs, e), [RErr e] = (0, e), [REOF] = (0, io.EOF),
    and Receiver.Receive on top of it.
      [receive_calls n rs] = what a client sees that calls Receive() n times on a fresh receiver
        whose connection answers rs: one [event] per call,
          [EvFrame icpt f iserr ef] : Receive() = true; icpt = arguments of the interceptor calls
                                      made during the call; then Frame() = f, HasErrorFrame() = iserr,
                                      ErrorFrame() = ef
          [EvStop icpt f e]         : Receive() = false; then Frame() = f, Err() = e (None = nil)
          [EvPanic], [EvHang]       : Scan panicked / the model ran out of fuel
    Specification: Socketcan/ReceiverSpec.v
      [delivered 0 rs] = (byte stream delivered up to and including the first read that reports an
                          error or EOF - or the 101st consecutive empty read -, the error Err()
                          must report: None for io.EOF)
      [chunks16 bs]    = map (fun k => firstn 16 (skipn (16 * k) bs)) (seq 0 (length bs / 16))
      [frame_event b]  = EvFrame [f] f iserr ef  where receive16 b = Some (f, iserr, ef) (Wire.v, C06)
      [no_stall 0 chunks] = never more than 100 empty reads in a row.
    Socketcan/Transmitter.v: [transmit has_deadline answers f] = (events in order, result).
    Socketcan/Process.v: several receivers / transmitters in one process.
      [machine_run step s ops]  = one instance of a machine [step : state -> op -> state * list obs]
      [process_run step m ops]  = instances [m 0, m 1, ..] driven by operations (i, op) tagged with the
                                  instance they address; observations tagged (i, obs) the same way
      [addressed_to i l]        = map snd (filter (fun x => fst x =? i) l): the part of l tagged i
      receiver operations [ONew icpt rs] (NewReceiver on a connection answering rs, with/without an
        interceptor), [OReceive], [OClose]; observations [ObEvent event], [ObClosed]; [rstep];
        [receivers_run ops] = process_run rstep (fun _ => RNone) ops;
        [see icpt ev] = ev if icpt, else ev without its interceptor calls;
        [receives calls] = number of OReceive in calls; [is_call o] = o is not an ONew
      transmitter operations [TNew icpt], [TCall dl answers frame]; [tstep]; [transmitters_run]. *)
From Coq Require Import ZArith List Bool.
From CanVerif Require Import Socketcan.Wire Socketcan.WireSpec Socketcan.Receiver Socketcan.ReceiverSpec
  Socketcan.ReceiverProofs Socketcan.Transmitter Socketcan.TransmitterProofs
  Socketcan.Process Socketcan.ProcessProofs Socketcan.ScanBuffer Socketcan.ScanBufferProofs
  Socketcan.Glue Socketcan.GlueProofs Socketcan.Emulator Socketcan.EmulatorProofs
  Socketcan.Program Socketcan.ProgramProofs.
Import ListNotations.
Open Scope Z_scope.

(** every byte stream, EVERY segmentation into reads (empty reads allowed, at most 100 in a row),
    then EOF: floor(n/16) frames, in stream order, the k-th decoded from bytes 16k..16k+15; the
    interceptor called once per frame with that frame; then Receive() = false with Err() = nil for
    ever; the trailing n mod 16 bytes are dropped without error *)
Theorem C07_any_segmentation : forall chunks rest n, no_stall 0 chunks ->
  let bs := concat chunks in
  receive_calls n (map RData chunks ++ REOF :: rest) =
    firstn n (map (fun k => frame_event (firstn 16 (skipn (16 * k) bs))) (seq 0 (length bs / 16)))
    ++ repeat (EvStop [] zero_frame None) (n - length bs / 16).
Proof. exact receive_any_segmentation. Qed.
Print Assumptions C07_any_segmentation.

(** [no_stall 0 chunks] holds for every list of reads without 101 consecutive empty reads *)
Theorem C07_no_stall_meaning : forall chunks : list (list Z),
  (forall pre post, chunks <> pre ++ repeat [] 101 ++ post) -> no_stall 0 chunks.
Proof. exact no_stall_declarative. Qed.
Print Assumptions C07_no_stall_meaning.

(** in particular the result does not depend on the segmentation *)
Theorem C07_segmentation_independent : forall chunks1 chunks2 rest1 rest2 n,
  no_stall 0 chunks1 -> no_stall 0 chunks2 -> concat chunks1 = concat chunks2 ->
  receive_calls n (map RData chunks1 ++ REOF :: rest1) = receive_calls n (map RData chunks2 ++ REOF :: rest2).
Proof. exact segmentation_independent. Qed.
Print Assumptions C07_segmentation_independent.

(** the frames cover the stream up to the last complete block, in order *)
Theorem C07_frames_cover_stream : forall bs,
  length (chunks16 bs) = (length bs / 16)%nat /\
  concat (chunks16 bs) = firstn (16 * (length bs / 16)) bs /\
  (forall c, In c (chunks16 bs) -> length c = 16%nat).
Proof. exact (fun bs => conj (chunks16_length bs) (conj (chunks16_concat bs) (chunks16_block_length bs))). Qed.
Print Assumptions C07_frames_cover_stream.

(** an error at read k together with data: the frames completed by the bytes delivered up to and
    including read k are delivered first; then Receive() = false and Err() = e (nil if e = io.EOF) *)
Theorem C07_error_with_data : forall chunks bs e rest n, no_stall 0 chunks ->
  receive_calls n (map RData chunks ++ RDataErr bs e :: rest) =
    let evs := map frame_event (chunks16 (concat chunks ++ bs)) in
    firstn n evs ++ repeat (EvStop [] zero_frame (match e with EOF => None | _ => Some e end)) (n - length evs).
Proof. exact receive_error_with_data. Qed.
Print Assumptions C07_error_with_data.

Theorem C07_error_without_data : forall chunks e rest n, no_stall 0 chunks ->
  receive_calls n (map RData chunks ++ RErr e :: rest) =
    let evs := map frame_event (chunks16 (concat chunks)) in
    firstn n evs ++ repeat (EvStop [] zero_frame (match e with EOF => None | _ => Some e end)) (n - length evs).
Proof. exact receive_error_without_data. Qed.
Print Assumptions C07_error_without_data.

(** a stuck connection: 101 empty reads in a row give io.ErrNoProgress after the complete frames *)
Theorem C07_no_progress : forall chunks rest n, no_stall 0 chunks ->
  receive_calls n (map RData chunks ++ repeat (RData []) 101 ++ rest) =
    let evs := map frame_event (chunks16 (concat chunks)) in
    firstn n evs ++ repeat (EvStop [] zero_frame (Some ErrNoProgress)) (n - length evs).
Proof. exact receive_no_progress. Qed.
Print Assumptions C07_no_progress.

(** the general form, for EVERY list of read results (any mixture of data, empty reads, errors) *)
Theorem C07_every_read_list : forall n rs,
  receive_calls n rs =
    let (bs, e) := delivered 0 rs in
    let evs := map frame_event (chunks16 bs) in
    firstn n evs ++ repeat (EvStop [] zero_frame e) (n - length evs).
Proof. exact receive_calls_general. Qed.
Print Assumptions C07_every_read_list.

(** interceptor: exactly one call per delivered frame, with the delivered frame, decoded from a
    16-byte block; no call when Receive() returns false; never a panic or a hang *)
Theorem C07_interceptor_once : forall n rs,
  Forall (fun ev => (exists blk f ie ef, length blk = 16%nat /\ receive16 blk = Some (f, ie, ef)
                                         /\ ev = EvFrame [f] f ie ef)
                    \/ (exists e, ev = EvStop [] zero_frame e))
         (receive_calls n rs).
Proof. exact interceptor_once. Qed.
Print Assumptions C07_interceptor_once.

(** Scan terminates (the model never runs out of fuel), never panics, never hits the 64 KiB limit *)
Theorem C07_scan_total : forall s rs,
  exists r s' rs', scan scan_frames s rs = (r, s', rs') /\ (r = STrue \/ r = SFalse).
Proof. exact scan_total. Qed.
Print Assumptions C07_scan_total.

(** transmitter: everything one TransmitFrame call does, for every answer of the connection *)
Theorem C07_transmit_cases : forall dl ans f,
  exists data, transmit_bytes f = Some data /\
  transmit dl ans f =
    match dl, ans_deadline ans, ans_write ans with
    | true, Some e, _ => ([TxSetDeadline], TxErr e)
    | true, None, Some e => ([TxSetDeadline; TxWrite data], TxErr e)
    | true, None, None => ([TxSetDeadline; TxWrite data; TxIntercept f], TxOk)
    | false, _, Some e => ([TxWrite data], TxErr e)
    | false, _, None => ([TxWrite data; TxIntercept f], TxOk)
    end.
Proof. exact transmit_cases. Qed.
Print Assumptions C07_transmit_cases.

(** a successful call made exactly one Write, of the 16 bytes of struct can_frame (C06), and then
    called the interceptor once with the frame *)
Theorem C07_transmit_ok : forall dl ans f, wf_frame f -> validate f = true ->
  snd (transmit dl ans f) = TxOk ->
  fst (transmit dl ans f) = (if dl then [TxSetDeadline] else []) ++ [TxWrite (S_layout f); TxIntercept f]
  /\ length (S_layout f) = 16%nat.
Proof. exact transmit_ok. Qed.
Print Assumptions C07_transmit_ok.

(** at most one Write per call, always 16 bytes; exactly one when the call succeeds *)
Theorem C07_transmit_one_write : forall dl ans f, length (fdata f) = 8%nat ->
  (length (writes (fst (transmit dl ans f))) <= 1)%nat /\
  Forall (fun w => length w = 16%nat) (writes (fst (transmit dl ans f))) /\
  (snd (transmit dl ans f) = TxOk -> length (writes (fst (transmit dl ans f))) = 1%nat).
Proof. exact transmit_one_write. Qed.
Print Assumptions C07_transmit_one_write.

(** the interceptor is called iff the write succeeded, and after it *)
Theorem C07_transmit_intercept_iff : forall dl ans f,
  (intercepts (fst (transmit dl ans f)) = [f] <-> snd (transmit dl ans f) = TxOk) /\
  (snd (transmit dl ans f) <> TxOk -> intercepts (fst (transmit dl ans f)) = []) /\
  (snd (transmit dl ans f) = TxOk <->
     (ans_write ans = None /\ (dl = true -> ans_deadline ans = None))) /\
  (snd (transmit dl ans f) = TxOk ->
     exists pre data, fst (transmit dl ans f) = pre ++ [TxWrite data; TxIntercept f]
                      /\ intercepts pre = [] /\ writes pre = []).
Proof. exact transmit_intercept_iff. Qed.
Print Assumptions C07_transmit_intercept_iff.

(** the byte count n that Write answers is ignored (as in the code: `_, err := conn.Write`): never a
    second Write, and (n < 16, nil) counts as success *)
Theorem C07_transmit_ignores_write_count : forall dl d w n1 n2 f,
  transmit dl (mkAnswers d w n1) f = transmit dl (mkAnswers d w n2) f.
Proof. exact transmit_ignores_count. Qed.
Print Assumptions C07_transmit_ignores_write_count.

(** no write if setting the deadline failed *)
Theorem C07_transmit_deadline_failed : forall ans f e, ans_deadline ans = Some e ->
  transmit true ans f = ([TxSetDeadline], TxErr e).
Proof. exact transmit_deadline_failed. Qed.
Print Assumptions C07_transmit_deadline_failed.

(** SEVERAL RECEIVERS IN ONE PROCESS, operations on them interleaved in any way (creation of further
    receivers, Receive, Close - also twice, also while frames are buffered): what receiver i shows
    is what the single-receiver model shows on the sub-sequence of operations addressed to i. This
    is what justifies comparing every receiver of a process with the single-receiver theorems above.
    (In the model receivers are values and cannot share anything; that the Go objects share
    nothing is observed by the correspondence run, M lines.) *)
Theorem C07_receivers_independent : forall (ops : list (nat * rop)) (i : nat),
  addressed_to i (receivers_run ops) = machine_run rstate rop robs rstep RNone (addressed_to i ops).
Proof. exact receivers_independent. Qed.
Print Assumptions C07_receivers_independent.

(** so neither the operations addressed to other receivers nor the interleaving matter *)
Theorem C07_interleaving_irrelevant : forall (ops1 ops2 : list (nat * rop)) (i : nat),
  addressed_to i ops1 = addressed_to i ops2 ->
  addressed_to i (receivers_run ops1) = addressed_to i (receivers_run ops2).
Proof. exact receivers_interleaving_irrelevant. Qed.
Print Assumptions C07_interleaving_irrelevant.

(** receiver i created once on a connection answering rs, then Receive / Close calls: its events are
    those of C07_every_read_list for ITS OWN connection - floor(n/16) frames of its own stream, each
    with exactly one call of ITS interceptor (none if it was created without one), then the stops *)
Theorem C07_receiver_in_process : forall ops i icpt rs calls,
  addressed_to i ops = ONew icpt rs :: calls -> forallb is_call calls = true ->
  events_of (addressed_to i (receivers_run ops)) =
    map (see icpt)
      (let (bs, e) := delivered 0 rs in
       let evs := map frame_event (chunks16 bs) in
       firstn (receives calls) evs ++ repeat (EvStop [] zero_frame e) (receives calls - length evs)).
Proof. exact receiver_in_process_spec. Qed.
Print Assumptions C07_receiver_in_process.

(** the same for transmitters: transmitter i created once (with / without an interceptor) and used
    for [calls], interleaved in any way with other transmitters, does exactly [transmit_all calls],
    with the interceptor events iff IT has an interceptor *)
Theorem C07_transmitter_in_process : forall ops i icpt calls,
  addressed_to i ops = TNew icpt :: map (fun c => match c with (dl, ans, f) => TCall dl ans f end) calls ->
  addressed_to i (transmitters_run ops) = map (see_tx icpt) (transmit_all calls).
Proof. exact transmitter_in_process. Qed.
Print Assumptions C07_transmitter_in_process.

(** PACKET connections (the package's UDP transport: one datagram per Read, what does not fit the slice
    offered to Read is discarded). Socketcan/ScanBuffer.v models the geometry of bufio.Scanner's buffer
    that Receiver.v abstracts: [gstart, gend, glen] = s.start, s.end, len(s.buf); [prepare] = shift/grow
    before a Read; [offered g] = glen g - gend g = len of the slice handed to Read; [after_read g n] = n
    bytes arrived and every whole frame was handed out; [geom_inv g] = g is the empty initial buffer or
    len 4096 with fewer than 16 bytes pending. The buffer never grows beyond 4096 bytes and EVERY Read
    is offered at least 2033 bytes: a datagram of up to 127 frames is never truncated, so the stream
    theorems above apply to the concatenation of the datagrams. *)
Theorem C07_scan_offers_room : forall g, geom_inv g ->
  exists g', prepare g = Some g' /\ glen g' = 4096 /\
             gend g' - gstart g' = gend g - gstart g /\
             2033 <= offered g' /\
             forall n, 0 <= n <= offered g' -> geom_inv (after_read g' n).
Proof. exact scan_offers_room. Qed.
Print Assumptions C07_scan_offers_room.

(** along any sequence of Reads starting from a new Scanner ([run_reads geom0 ns]: the i-th Read
    returns [nth i ns] bytes, at most what it was offered) the next Read is offered >= 2033 bytes *)
Theorem C07_every_read_is_offered_room : forall ns g1,
  run_reads geom0 ns = Some g1 ->
  exists g', prepare g1 = Some g' /\ glen g' = 4096 /\ 2033 <= offered g'.
Proof. exact every_read_is_offered_room. Qed.
Print Assumptions C07_every_read_is_offered_room.

(** non-vacuity: 37 bytes (2 frames + 5 trailing) served as 1 + 0 + 20 + 16 bytes, and the same
    with an error arriving together with the last 16 bytes *)
Example C07_nonvacuous :
  let bs := map Z.of_nat (seq 1 37) in
  let chunks := [firstn 1 bs; []; firstn 20 (skipn 1 bs); skipn 21 bs] in
  no_stallb 0 chunks = true /\ concat chunks = bs /\
  receive_calls 4 (map RData chunks ++ [REOF]) =
    [frame_event (firstn 16 bs); frame_event (firstn 16 (skipn 16 bs));
     EvStop [] zero_frame None; EvStop [] zero_frame None] /\
  receive_calls 4 (map RData (firstn 3 chunks) ++ [RDataErr (skipn 21 bs) (EOther 7)]) =
    [frame_event (firstn 16 bs); frame_event (firstn 16 (skipn 16 bs));
     EvStop [] zero_frame (Some (EOther 7)); EvStop [] zero_frame (Some (EOther 7))] /\
  frame_event (firstn 16 bs) =
    EvFrame [mkFrame 0x201 5 [9; 10; 11; 12; 13; 14; 15; 16] false false]
            (mkFrame 0x201 5 [9; 10; 11; 12; 13; 14; 15; 16] false false) false
            (mkErrFrame 0x04030201 9 10 11 12 13 [14; 15; 16]).
Proof. vm_compute. repeat split. Qed.

(** non-vacuity of the process theorems: receiver 0 (interceptor, 2 frames in ONE read) is closed twice
    while a frame is still buffered, receivers 1 (no interceptor) and 2 are created afterwards and
    read interleaved with the draining of receiver 0: each shows its own stream *)
Example C07_process_nonvacuous :
  let s0 := map Z.of_nat (seq 1 32) in
  let s1 := map Z.of_nat (seq 101 16) in
  let s2 := map Z.of_nat (seq 201 16) in
  let ops := [(0, ONew true [RData s0]); (0, OReceive); (0, OClose); (0, OClose);
              (1, ONew false [RData (firstn 5 s1); RData (skipn 5 s1)]); (2, ONew true [RData s2]);
              (1, OReceive); (2, OReceive); (0, OReceive); (2, OReceive); (0, OReceive); (1, OReceive)]%nat in
  receivers_run ops =
    [(0, ObEvent (frame_event (firstn 16 s0))); (0, ObClosed); (0, ObClosed);
     (1, ObEvent (strip_icpt (frame_event s1))); (2, ObEvent (frame_event s2));
     (0, ObEvent (frame_event (skipn 16 s0))); (2, ObEvent (EvStop [] zero_frame None));
     (0, ObEvent (EvStop [] zero_frame None)); (1, ObEvent (EvStop [] zero_frame None))]%nat /\
  addressed_to 0 ops = [ONew true [RData s0]; OReceive; OClose; OClose; OReceive; OReceive] /\
  strip_icpt (frame_event s1) <> frame_event s1.
Proof. vm_compute. repeat split. discriminate. Qed.

(** CONNECTION GLUE (Socketcan/Glue.v): fileConn (fileconn.go), udpTxRx (udp.go), dialCtx (dial.go) as
    forwarding machines. Error values are trees: [GNil] = nil, [GLeaf c] = an error without Unwrap,
    [GWrap w e] = a wrapper ([WPath] *os.PathError, [WSyscall] *os.SyscallError, [WOp l net]
    *net.OpError{Op: l, Net: net}, [WFmt] fmt.Errorf %w) whose Unwrap() is e; [wrap_all ws e] wraps e
    in ws (outermost first); [no_path ws] = no WPath among ws; [path_free e] = no WPath in the chain.
    Operations [OpRead n | OpWrite bs | OpSetDeadline t | OpSetReadDeadline t | OpSetWriteDeadline t | OpClose];
    calls on an underlying object [CRead n | CWrite bs | CSetDeadline t | ...| CClose]; [call_of o] =
    the same method with the same arguments; an underlying call answers [mkAns n data err].
    [fileconn_step net o a] = (calls made on the file, result (n, data, err)) when the file answers a;
    [fileconn_run net ops script] = a history, the file answering from the script;
    [udp_step o arx atx], [udp_run ops srx stx] the same for udpTxRx over its rx and tx packet conns
    (calls tagged [Rx] / [Tx]; a script entry is consumed only by a call made on that side;
    [side_calls s outs] = number of calls made on side s by the steps outs). *)

(** unwrapPathError: exactly one *os.PathError level is removed - the outermost one in the Unwrap chain
    (with the wrappers around it); what it wrapped is returned untouched, deeper PathError levels
    included; an error without a PathError in its chain is returned unchanged; and every error value
    has one of these two shapes *)
Theorem C07_glue_unwrap_one_level : forall ws inner e,
  (no_path ws = true -> unwrap_path_error (wrap_all ws (GWrap WPath inner)) = inner) /\
  (path_free e = true -> unwrap_path_error e = e) /\
  (path_free e = true \/ exists ws' inner', no_path ws' = true /\ e = wrap_all ws' (GWrap WPath inner')).
Proof. exact (fun ws inner e => conj (unwrap_one_level ws inner) (conj (unwrap_path_free e) (gerr_shape e))). Qed.
Print Assumptions C07_glue_unwrap_one_level.

(** fileConn, one operation: exactly one call on the file - the same method with the same arguments -;
    an error comes back iff the file's call failed, as *net.OpError{Op: the operation's label, Net: the
    conn's network} around the file's error with one PathError level removed; count and data of
    Read / Write pass through unchanged, also together with an error *)
Theorem C07_glue_fileconn_transparent : forall net o a,
  fst (fileconn_step net o a) = [call_of o] /\
  (rerr (snd (fileconn_step net o a)) = GNil <-> aerr a = GNil) /\
  (aerr a <> GNil ->
     rerr (snd (fileconn_step net o a)) = GWrap (WOp (label_of o) net) (unwrap_path_error (aerr a))) /\
  (carries_count o = true -> rn (snd (fileconn_step net o a)) = an a) /\
  (carries_data o = true -> rdata (snd (fileconn_step net o a)) = adata a).
Proof. exact fileconn_step_transparent. Qed.
Print Assumptions C07_glue_fileconn_transparent.

(** fileConn, EVERY history and EVERY script: the k-th operation makes its own call and returns the
    k-th answer passed through; over the whole history the file sees exactly the operations, in
    order, and NOTHING else (a failed Read triggers no Close, ...) *)
Theorem C07_glue_fileconn_history : forall net ops script,
  length (fileconn_run net ops script) = length ops /\
  concat (map fst (fileconn_run net ops script)) = map call_of ops /\
  forall k o, nth_error ops k = Some o ->
    nth_error (fileconn_run net ops script) k =
      Some ([call_of o], fileconn_result net o (nth k script ans_ok)).
Proof.
  exact (fun net ops script => conj (fileconn_run_length net ops script)
           (conj (fileconn_run_calls net ops script) (fileconn_run_nth net ops script))).
Qed.
Print Assumptions C07_glue_fileconn_history.

(** udpTxRx, one operation, the complete table: Read -> rx.ReadFrom only; Write -> tx.WriteTo only;
    SetDeadline -> rx.SetReadDeadline, then tx.SetWriteDeadline only if that succeeded;
    SetReadDeadline -> rx only; SetWriteDeadline -> tx only; Close -> tx.Close then rx.Close whatever
    tx.Close answered, result = tx's error if any, else rx's. Results are the underlying answers,
    unchanged (udpTxRx wraps nothing) *)
Theorem C07_glue_udp_cases : forall o arx atx,
  udp_step o arx atx =
    match o with
    | OpRead n => ([(Rx, CRead n)], mkRes (an arx) (adata arx) (aerr arx))
    | OpWrite bs => ([(Tx, CWrite bs)], mkRes (an atx) [] (aerr atx))
    | OpSetDeadline t =>
        match aerr arx with
        | GNil => ([(Rx, CSetReadDeadline t); (Tx, CSetWriteDeadline t)], mkRes 0 [] (aerr atx))
        | e => ([(Rx, CSetReadDeadline t)], mkRes 0 [] e)
        end
    | OpSetReadDeadline t => ([(Rx, CSetReadDeadline t)], mkRes 0 [] (aerr arx))
    | OpSetWriteDeadline t => ([(Tx, CSetWriteDeadline t)], mkRes 0 [] (aerr atx))
    | OpClose =>
        ([(Tx, CClose); (Rx, CClose)],
         mkRes 0 [] (match aerr atx with GNil => aerr arx | e => e end))
    end.
Proof. exact udp_step_cases. Qed.
Print Assumptions C07_glue_udp_cases.

(** udpTxRx, EVERY history and both scripts: the rx side only ever sees ReadFrom / SetReadDeadline /
    Close, the tx side only WriteTo / SetWriteDeadline / Close (a write deadline never reaches the read
    side, SetDeadline is never forwarded as such); a packet conn is closed only by Close; the k-th
    operation is answered by the script entries at the positions given by the calls made on each
    side before it *)
Theorem C07_glue_udp_history : forall ops srx stx,
  length (udp_run ops srx stx) = length ops /\
  Forall (fun st => Forall (fun c => match c with
                                     | (Rx, CRead _) | (Rx, CSetReadDeadline _) | (Rx, CClose)
                                     | (Tx, CWrite _) | (Tx, CSetWriteDeadline _) | (Tx, CClose) => True
                                     | _ => False
                                     end) (fst st)) (udp_run ops srx stx) /\
  (forall k o, nth_error ops k = Some o ->
     nth_error (udp_run ops srx stx) k =
       Some (udp_step o (nth (side_calls Rx (firstn k (udp_run ops srx stx))) srx ans_ok)
                        (nth (side_calls Tx (firstn k (udp_run ops srx stx))) stx ans_ok))) /\
  (forall o arx atx s, In (s, CClose) (fst (udp_step o arx atx)) -> o = OpClose).
Proof.
  exact (fun ops srx stx => conj (udp_run_length ops srx stx) (conj (udp_run_discipline ops srx stx)
           (conj (udp_run_nth ops srx stx) udp_close_only_by_close))).
Qed.
Print Assumptions C07_glue_udp_history.

(** RECEIVER OVER fileConn. [fileconn_reads net lens script] = what the reads of a fileConn return when
    its file answers from script (lens = the buffer sizes offered, irrelevant); [read_of_result code r]
    = that result as a read result of Receiver.v ((n, nil) -> RData, (0, e) -> RErr, (n, e) -> RDataErr,
    the error value named EOther (code e) for ANY naming code); [mapped_read code net a] = the file's
    answer with its error mapped e |-> OpError{read, net, e minus one PathError level}. A Receiver
    over the fileConn sees exactly what a Receiver over the mapped script sees - so every theorem
    above applies through the glue *)
Theorem C07_glue_receiver_over_fileconn : forall code net lens script n,
  length lens = length script ->
  receive_calls n (map (read_of_result code) (fileconn_reads net lens script)) =
    receive_calls n (map (mapped_read code net) script).
Proof. exact receiver_over_fileconn. Qed.
Print Assumptions C07_glue_receiver_over_fileconn.

(** in particular: any chunking of the stream by the file, then a failing file read (error e with or
    without data; e = io.EOF = GLeaf 0 included): the frames of the bytes delivered, then Receive() =
    false and Err() = the OpError around e - through a fileConn Err() is NEVER nil after the end of the
    stream, because the scanner's `err == io.EOF` no longer recognises the wrapped io.EOF *)
Theorem C07_glue_receiver_stream : forall code net lens chunks a rest n,
  no_stall 0 chunks -> aerr a <> GNil ->
  length lens = length (map data_answer chunks ++ a :: rest) ->
  receive_calls n (map (read_of_result code)
                     (fileconn_reads net lens (map data_answer chunks ++ a :: rest))) =
    let evs := map frame_event (chunks16 (concat chunks ++ adata a)) in
    firstn n evs ++
    repeat (EvStop [] zero_frame
              (Some (EOther (code (GWrap (WOp LRead net) (unwrap_path_error (aerr a)))))))
           (n - length evs).
Proof. exact receiver_over_fileconn_stream. Qed.
Print Assumptions C07_glue_receiver_stream.

(** TRANSMITTER OVER fileConn whose file answers adl to SetWriteDeadline and awr to Write
    ([answers_via_fileconn] = the conn answers the Transmitter model then gets, [file_calls] = the
    calls its conn calls become on the file): the file sees SetWriteDeadline (iff the context has a
    deadline) and then ONE Write of the frame's bytes, unchanged (none if setting the deadline failed);
    the call succeeds iff the file's calls did; the byte count is the file's *)
Theorem C07_glue_transmitter_over_fileconn : forall code net t dl adl awr f,
  exists data, transmit_bytes f = Some data /\
  let ans := answers_via_fileconn code net t data adl awr in
  file_calls net t (fst (transmit dl ans f)) =
    (if dl then [CSetWriteDeadline t] else []) ++
    (if dl && negb (is_nil_err (aerr adl)) then [] else [CWrite data]) /\
  (snd (transmit dl ans f) = TxOk <-> (dl = true -> aerr adl = GNil) /\ aerr awr = GNil) /\
  ans_write_n ans = an awr.
Proof. exact transmitter_over_fileconn. Qed.
Print Assumptions C07_glue_transmitter_over_fileconn.

(** dialCtx as a transition system over the events [EProvider] (connProvider returned (conn non-nil?
    [pconn p], error [perr p]) and blocks in its send), [ECtxDone], [ESelect b] (the caller's select
    fires; b = the runtime's choice when both cases are ready), [ECleanup] (the cleanup goroutine
    receives). For EVERY schedule: ctx.Err() is returned only if ctx was done; otherwise the
    provider's own result is returned; the provider's conn is closed at most once, never when it was
    returned or nil; and when nothing is pending any more a conn that was produced has been returned
    XOR closed exactly once - dialCtx never leaks a connection *)
Theorem C07_glue_dial_no_leak : forall p es,
  let s := dial_run p dial0 es in
  (d_ret s = DCtxErr -> d_ctx s = true) /\
  (forall c e, d_ret s = DResult c e -> c = pconn p /\ e = perr p) /\
  (0 <= d_closes s <= 1) /\
  (dial_returned_conn s = true -> d_closes s = 0) /\
  (pconn p = false -> d_closes s = 0) /\
  (dial_finished s = true -> pconn p = true ->
     (dial_returned_conn s = true /\ d_closes s = 0) \/
     (dial_returned_conn s = false /\ d_ret s = DCtxErr /\ d_closes s = 1)).
Proof. exact dial_no_leak. Qed.
Print Assumptions C07_glue_dial_no_leak.

(** and that end is always reached once the provider returns, the select fires and the cleanup runs *)
Theorem C07_glue_dial_completes : forall p es b,
  dial_finished (dial_run p dial0 (es ++ [EProvider; ESelect b; ECleanup])) = true.
Proof. exact dial_completes. Qed.
Print Assumptions C07_glue_dial_completes.

(** non-vacuity of the glue theorems: a doubly wrapped PathError loses ONE level; a fileConn history with
    a failing Read (3 bytes AND a SyscallError(PathError(EOF))) followed by a write deadline and Close;
    a udpTxRx history where SetDeadline fails on the read side (tx untouched, its script entry kept for
    the next Write) and tx.Close fails (rx still closed, tx's error returned); a Receiver over a fileConn
    whose file delivers 16 bytes as 5 + 11 and then io.EOF; dialCtx losing the race: the late conn is
    closed once and not returned *)
Example C07_glue_nonvacuous :
  unwrap_path_error (GWrap WSyscall (GWrap WPath (GWrap WPath (GLeaf 7)))) = GWrap WPath (GLeaf 7) /\
  fileconn_run 1 [OpRead 8; OpSetWriteDeadline 5; OpClose]
     [mkAns 3 [1; 2; 3] (GWrap WSyscall (GWrap WPath (GLeaf 0))); ans_ok; mkAns 0 [] (GLeaf 9)] =
    [([CRead 8], mkRes 3 [1; 2; 3] (GWrap (WOp LRead 1) (GLeaf 0)));
     ([CSetWriteDeadline 5], mkRes 0 [] GNil);
     ([CClose], mkRes 0 [] (GWrap (WOp LClose 1) (GLeaf 9)))] /\
  udp_run [OpSetDeadline 4; OpWrite [7; 8]; OpClose]
     [mkAns 0 [] (GLeaf 3); mkAns 0 [] (GLeaf 5)] [mkAns 2 [] GNil; mkAns 0 [] (GLeaf 6)] =
    [([(Rx, CSetReadDeadline 4)], mkRes 0 [] (GLeaf 3));
     ([(Tx, CWrite [7; 8])], mkRes 2 [] GNil);
     ([(Tx, CClose); (Rx, CClose)], mkRes 0 [] (GLeaf 6))] /\
  (let bs := map Z.of_nat (seq 1 16) in
   receive_calls 2 (map (read_of_result (fun _ => 77))
                      (fileconn_reads 1 [4096; 4096; 4096]
                         [data_answer (firstn 5 bs); data_answer (skipn 5 bs); mkAns 0 [] (GLeaf 0)])) =
     [frame_event bs; EvStop [] zero_frame (Some (EOther 77))]) /\
  (let s := dial_run (mkPres true GNil) dial0 [ECtxDone; ESelect true; EProvider; ECleanup] in
   d_ret s = DCtxErr /\ d_closes s = 1 /\ dial_finished s = true /\ dial_returned_conn s = false) /\
  (let s := dial_run (mkPres true GNil) dial0 [EProvider; ECtxDone; ESelect false; ECleanup] in
   d_ret s = DResult true GNil /\ d_closes s = 0 /\ dial_finished s = true).
Proof. vm_compute. repeat split. Qed.

(** THE EMULATED BUS (Socketcan/Emulator.v; emulator.go has no fan-out code: every endpoint is a udpTxRx on
    one multicast group with loopback on, the kernel queues a datagram at every member socket - ASSUMED,
    observed by the E lines). History operations: [EConnect i] (Emulator.Receiver() or Dial("udp", Addr())
    creates endpoint i), [EDisconnect i], [ETransmit None f] (Emulator.TransmitFrame: own short-lived
    connection), [ETransmit (Some j) f] (a Transmitter on endpoint j's connection: writes only while j is
    open). [emu_run [] ops] = the bus after the history, [inbox_of i bus] = the datagrams endpoint i was
    handed, tagged with their sender. Specification without a bus: [stat_step st o] updates who is
    [CNever | COpen | CClosed]; [spec_frames i never ops] = the frames transmitted while i is open by a
    sender that can write, in history order; [bytes_of f] = the bytes Transmitter.TransmitFrame writes. *)

(** DELIVERY, every history: every endpoint connected during a transmission is handed exactly that frame's
    16 bytes, once - its own transmissions included -, nothing else, in the order of the history *)
Theorem C07_emu_delivery : forall i ops,
  inbox_of i (emu_run [] ops) =
    map (fun x => (fst x, bytes_of (snd x))) (spec_frames i never ops).
Proof. exact emu_delivery_from_empty. Qed.
Print Assumptions C07_emu_delivery.

(** the specification unfolded one step (so that it can be read here) *)
Theorem C07_emu_spec_step : forall i st o ops,
  spec_frames i st (o :: ops) =
    (match o with
     | ETransmit src f =>
         if is_open (st i) && match src with None => true | Some j => is_open (st j) end then [(src, f)] else []
     | _ => []
     end) ++ spec_frames i (stat_step st o) ops.
Proof. exact spec_frames_step. Qed.
Print Assumptions C07_emu_spec_step.

(** PER-SENDER ORDER: what endpoint i holds from sender s is what it would hold if nobody else had
    transmitted - the frames of s in the order s sent them *)
Theorem C07_emu_per_sender_order : forall i s ops st,
  filter (fun x => from_sender s (fst x)) (spec_frames i st ops) = spec_frames i st (only_sender s ops).
Proof. exact per_sender_order. Qed.
Print Assumptions C07_emu_per_sender_order.

(** END TO END with C06 and the stream theorems above: a Receiver on an endpoint that was handed the valid
    frames fs (one datagram each, then the connection is closed) returns exactly fs, in order, once each,
    the interceptor called with each, none reported as an error frame: transmit through the emulator,
    then receive, is the identity on valid frames *)
Theorem C07_emu_end_to_end : forall fs rest n,
  Forall (fun f => wf_frame f /\ validate f = true) fs ->
  receive_calls n (map RData (map bytes_of fs) ++ REOF :: rest) =
    firstn n (map (fun f => frame_event (S_layout f)) fs) ++ repeat (EvStop [] zero_frame None) (n - length fs)
  /\ Forall (fun f => bytes_of f = S_layout f /\ exists ef, frame_event (S_layout f) = EvFrame [f] f false ef) fs.
Proof. exact emu_end_to_end. Qed.
Print Assumptions C07_emu_end_to_end.

(** non-vacuity: endpoint 1 connects, the emulator transmits A, endpoint 2 connects, 1 transmits B (and gets
    it back), 1 disconnects, 2 transmits C, the closed endpoint 1 tries to transmit D: 1 holds A, B; 2
    holds B, C; and a Receiver on endpoint 2 returns B, C *)
Example C07_emu_nonvacuous :
  let fr := fun id => mkFrame id 8 [1; 2; 3; 4; 5; 6; 7; id] false false in
  let ops := [EConnect 1; ETransmit None (fr 10); EConnect 2; ETransmit (Some 1) (fr 11); EDisconnect 1;
              ETransmit (Some 2) (fr 12); ETransmit (Some 1) (fr 13)] in
  spec_frames 1 never ops = [(None, fr 10); (Some 1, fr 11)] /\
  spec_frames 2 never ops = [(Some 1, fr 11); (Some 2, fr 12)] /\
  map snd (inbox_of 2 (emu_run [] ops)) = [S_layout (fr 11); S_layout (fr 12)] /\
  receive_calls 3 (map RData (map snd (inbox_of 2 (emu_run [] ops))) ++ [REOF]) =
    [frame_event (S_layout (fr 11)); frame_event (S_layout (fr 12)); EvStop [] zero_frame None] /\
  (exists ef, frame_event (S_layout (fr 12)) = EvFrame [fr 12] (fr 12) false ef).
Proof. vm_compute. repeat split. eexists. reflexivity. Qed.

(** ACTION-SEQUENCE TIE (Socketcan/Program.v). harness/sockwire reads Receiver.Receive and
    Transmitter.TransmitFrame from the source text as programs - one node (depth, statement shape) per
    statement - and the check compares them node by node with the constants
      [receive_prog]  = ok := Scan(); frame = frame{}; if ok { unmarshalBinary(Bytes());
                        if interceptor != nil { interceptor(decodeFrame()) } }; return ok
      [transmit_prog] = var scf; encodeFrame(f); data := make(16); marshalBinary(data);
                        if deadline, ok := ctx.Deadline(); ok { if err := SetWriteDeadline; err != nil { return wrap } };
                        if _, err := Write(data); err != nil { return wrap };
                        if interceptor != nil { interceptor(f) }; return nil
    [run_receive p icpt r rs] / [run_transmit p icpt dl ans f] execute a program step by step over the
    state of Receiver.v / Transmitter.v (Scan = the bufio model, the codec nodes = Wire.v). The programs
    ARE the models, so every theorem of this file and of C06.v is about the extracted statement sequences *)
Theorem C07_receive_program_is_model : forall r rs,
  run_receive receive_prog true r rs = RDone (receive r rs) /\
  run_receive receive_prog false r rs =
    RDone (match receive r rs with (res, r', rs', _) => (res, r', rs', []) end).
Proof. exact receive_program_is_model. Qed.
Print Assumptions C07_receive_program_is_model.

Theorem C07_transmit_program_is_model : forall dl ans f,
  run_transmit transmit_prog true dl ans f = TDone (transmit dl ans f) /\
  run_transmit transmit_prog false dl ans f =
    TDone (filter (fun ev => match ev with TxIntercept _ => false | _ => true end) (fst (transmit dl ans f)),
           snd (transmit dl ans f)).
Proof. exact (fun dl ans f => conj (transmit_program_is_model dl ans f) (transmit_program_no_interceptor dl ans f)). Qed.
Print Assumptions C07_transmit_program_is_model.

(** non-vacuity: the interpreters distinguish the programs from their mutants - the interceptor before
    the Write, the frame not reset after a failed Scan *)
Example C07_program_nonvacuous :
  let f := mkFrame 0x123 2 [1; 2; 0; 0; 0; 0; 0; 0] false false in
  let early := [(0, NAct TDeclFrame); (0, NAct TEncode); (0, NAct TMakeBuf); (0, NAct TMarshal);
                (0, NIf CHasInterceptor); (1, NAct TIntercept);
                (0, NIfErr EWrite); (1, NReturn RetWrapErr); (0, NReturn RetNil)]%nat in
  run_transmit early true false (mkAnswers None (Some (EOther 7)) 0) f <>
    TDone (transmit false (mkAnswers None (Some (EOther 7)) 0) f) /\
  let noreset := [(0, NAct RScan); (0, NIf COk); (1, NAct RResetFrame); (1, NAct RUnmarshalToken);
                  (0, NReturn RetOk)]%nat in
  let r := mkReceiver new_scanner (mkSc 5 1 (repeat 9 8)) in
  run_receive noreset true r [REOF] <> RDone (receive r [REOF]).
Proof. vm_compute. split; discriminate. Qed.
