(** Property C07 - the receiver reassembles the byte stream into whole frames under any read
    chunking; interceptors; the transmitter's single write.
    Only property theorems, each closed by [exact], each followed by [Print Assumptions].

    Model: Socketcan/Receiver.v = bufio.Scanner.Scan (Go 1.23) with the split function of
    receiver.go, run against a list of READ RESULTS of the underlying connection
      [RData bs] = (len bs, nil), [RDataErr bs e] = (len bs, e), [RErr e] = (0, e), [REOF] = (0, io.EOF),
    and Receiver.Receive on top of it.
      [receive_calls n rs] = what a client sees that calls Receive() n times on a fresh receiver
        whose connection answers rs: one [event] per call,
          [EvFrame icpt f iserr ef] : Receive() = true; icpt = arguments of the interceptor calls
                                      made during the call; then Frame() = f, HasErrorFrame() = iserr,
                                      ErrorFrame() = ef
          [EvStop icpt f e]         : Receive() = false; then Frame() = f, Err() = e (None = nil)
          [EvPanic], [EvHang]       : Scan panicked / the model ran out of fuel
    Specification: Socketcan/ReceiverSpec.v
      [delivered 0 rs] = (byte stream delivered up to and including the first read that reports an
                          error or EOF - or the 101st consecutive empty read -, the error Err()
                          must report: None for io.EOF)
      [chunks16 bs]    = map (fun k => firstn 16 (skipn (16 * k) bs)) (seq 0 (length bs / 16))
      [frame_event b]  = EvFrame [f] f iserr ef  where receive16 b = Some (f, iserr, ef) (Wire.v, C06)
      [no_stall 0 chunks] = never more than 100 empty reads in a row.
    Socketcan/Transmitter.v: [transmit has_deadline answers f] = (events in order, result).
    Socketcan/Process.v: several receivers / transmitters in one process.
      [machine_run step s ops]  = one instance of a machine [step : state -> op -> state * list obs]
      [process_run step m ops]  = instances [m 0, m 1, ..] driven by operations (i, op) tagged with the
                                  instance they address; observations tagged (i, obs) the same way
      [addressed_to i l]        = map snd (filter (fun x => fst x =? i) l): the part of l tagged i
      receiver operations [ONew icpt rs] (NewReceiver on a connection answering rs, with/without an
        interceptor), [OReceive], [OClose]; observations [ObEvent event], [ObClosed]; [rstep];
        [receivers_run ops] = process_run rstep (fun _ => RNone) ops;
        [see icpt ev] = ev if icpt, else ev without its interceptor calls;
        [receives calls] = number of OReceive in calls; [is_call o] = o is not an ONew
      transmitter operations [TNew icpt], [TCall dl answers frame]; [tstep]; [transmitters_run]. *)
From Coq Require Import ZArith List Bool.
From CanVerif Require Import Socketcan.Wire Socketcan.WireSpec Socketcan.Receiver Socketcan.ReceiverSpec
  Socketcan.ReceiverProofs Socketcan.Transmitter Socketcan.TransmitterProofs
  Socketcan.Process Socketcan.ProcessProofs Socketcan.ScanBuffer Socketcan.ScanBufferProofs.
Import ListNotations.
Open Scope Z_scope.

(** every byte stream, EVERY segmentation into reads (empty reads allowed, at most 100 in a row),
    then EOF: floor(n/16) frames, in stream order, the k-th decoded from bytes 16k..16k+15; the
    interceptor called once per frame with that frame; then Receive() = false with Err() = nil for
    ever; the trailing n mod 16 bytes are dropped without error *)
Theorem C07_any_segmentation : forall chunks rest n, no_stall 0 chunks ->
  let bs := concat chunks in
  receive_calls n (map RData chunks ++ REOF :: rest) =
    firstn n (map (fun k => frame_event (firstn 16 (skipn (16 * k) bs))) (seq 0 (length bs / 16)))
    ++ repeat (EvStop [] zero_frame None) (n - length bs / 16).
Proof. exact receive_any_segmentation. Qed.
Print Assumptions C07_any_segmentation.

(** [no_stall 0 chunks] holds for every list of reads without 101 consecutive empty reads *)
Theorem C07_no_stall_meaning : forall chunks : list (list Z),
  (forall pre post, chunks <> pre ++ repeat [] 101 ++ post) -> no_stall 0 chunks.
Proof. exact no_stall_declarative. Qed.
Print Assumptions C07_no_stall_meaning.

(** in particular the result does not depend on the segmentation *)
Theorem C07_segmentation_independent : forall chunks1 chunks2 rest1 rest2 n,
  no_stall 0 chunks1 -> no_stall 0 chunks2 -> concat chunks1 = concat chunks2 ->
  receive_calls n (map RData chunks1 ++ REOF :: rest1) = receive_calls n (map RData chunks2 ++ REOF :: rest2).
Proof. exact segmentation_independent. Qed.
Print Assumptions C07_segmentation_independent.

(** the frames cover the stream up to the last complete block, in order *)
Theorem C07_frames_cover_stream : forall bs,
  length (chunks16 bs) = (length bs / 16)%nat /\
  concat (chunks16 bs) = firstn (16 * (length bs / 16)) bs /\
  (forall c, In c (chunks16 bs) -> length c = 16%nat).
Proof. exact (fun bs => conj (chunks16_length bs) (conj (chunks16_concat bs) (chunks16_block_length bs))). Qed.
Print Assumptions C07_frames_cover_stream.

(** an error at read k together with data: the frames completed by the bytes delivered up to and
    including read k are delivered first; then Receive() = false and Err() = e (nil if e = io.EOF) *)
Theorem C07_error_with_data : forall chunks bs e rest n, no_stall 0 chunks ->
  receive_calls n (map RData chunks ++ RDataErr bs e :: rest) =
    let evs := map frame_event (chunks16 (concat chunks ++ bs)) in
    firstn n evs ++ repeat (EvStop [] zero_frame (match e with EOF => None | _ => Some e end)) (n - length evs).
Proof. exact receive_error_with_data. Qed.
Print Assumptions C07_error_with_data.

Theorem C07_error_without_data : forall chunks e rest n, no_stall 0 chunks ->
  receive_calls n (map RData chunks ++ RErr e :: rest) =
    let evs := map frame_event (chunks16 (concat chunks)) in
    firstn n evs ++ repeat (EvStop [] zero_frame (match e with EOF => None | _ => Some e end)) (n - length evs).
Proof. exact receive_error_without_data. Qed.
Print Assumptions C07_error_without_data.

(** a stuck connection: 101 empty reads in a row give io.ErrNoProgress after the complete frames *)
Theorem C07_no_progress : forall chunks rest n, no_stall 0 chunks ->
  receive_calls n (map RData chunks ++ repeat (RData []) 101 ++ rest) =
    let evs := map frame_event (chunks16 (concat chunks)) in
    firstn n evs ++ repeat (EvStop [] zero_frame (Some ErrNoProgress)) (n - length evs).
Proof. exact receive_no_progress. Qed.
Print Assumptions C07_no_progress.

(** the general form, for EVERY list of read results (any mixture of data, empty reads, errors) *)
Theorem C07_every_read_list : forall n rs,
  receive_calls n rs =
    let (bs, e) := delivered 0 rs in
    let evs := map frame_event (chunks16 bs) in
    firstn n evs ++ repeat (EvStop [] zero_frame e) (n - length evs).
Proof. exact receive_calls_general. Qed.
Print Assumptions C07_every_read_list.

(** interceptor: exactly one call per delivered frame, with the delivered frame, decoded from a
    16-byte block; no call when Receive() returns false; never a panic or a hang *)
Theorem C07_interceptor_once : forall n rs,
  Forall (fun ev => (exists blk f ie ef, length blk = 16%nat /\ receive16 blk = Some (f, ie, ef)
                                         /\ ev = EvFrame [f] f ie ef)
                    \/ (exists e, ev = EvStop [] zero_frame e))
         (receive_calls n rs).
Proof. exact interceptor_once. Qed.
Print Assumptions C07_interceptor_once.

(** Scan terminates (the model never runs out of fuel), never panics, never hits the 64 KiB limit *)
Theorem C07_scan_total : forall s rs,
  exists r s' rs', scan scan_frames s rs = (r, s', rs') /\ (r = STrue \/ r = SFalse).
Proof. exact scan_total. Qed.
Print Assumptions C07_scan_total.

(** transmitter: everything one TransmitFrame call does, for every answer of the connection *)
Theorem C07_transmit_cases : forall dl ans f,
  exists data, transmit_bytes f = Some data /\
  transmit dl ans f =
    match dl, ans_deadline ans, ans_write ans with
    | true, Some e, _ => ([TxSetDeadline], TxErr e)
    | true, None, Some e => ([TxSetDeadline; TxWrite data], TxErr e)
    | true, None, None => ([TxSetDeadline; TxWrite data; TxIntercept f], TxOk)
    | false, _, Some e => ([TxWrite data], TxErr e)
    | false, _, None => ([TxWrite data; TxIntercept f], TxOk)
    end.
Proof. exact transmit_cases. Qed.
Print Assumptions C07_transmit_cases.

(** a successful call made exactly one Write, of the 16 bytes of struct can_frame (C06), and then
    called the interceptor once with the frame *)
Theorem C07_transmit_ok : forall dl ans f, wf_frame f -> validate f = true ->
  snd (transmit dl ans f) = TxOk ->
  fst (transmit dl ans f) = (if dl then [TxSetDeadline] else []) ++ [TxWrite (S_layout f); TxIntercept f]
  /\ length (S_layout f) = 16%nat.
Proof. exact transmit_ok. Qed.
Print Assumptions C07_transmit_ok.

(** at most one Write per call, always 16 bytes; exactly one when the call succeeds *)
Theorem C07_transmit_one_write : forall dl ans f, length (fdata f) = 8%nat ->
  (length (writes (fst (transmit dl ans f))) <= 1)%nat /\
  Forall (fun w => length w = 16%nat) (writes (fst (transmit dl ans f))) /\
  (snd (transmit dl ans f) = TxOk -> length (writes (fst (transmit dl ans f))) = 1%nat).
Proof. exact transmit_one_write. Qed.
Print Assumptions C07_transmit_one_write.

(** the interceptor is called iff the write succeeded, and after it *)
Theorem C07_transmit_intercept_iff : forall dl ans f,
  (intercepts (fst (transmit dl ans f)) = [f] <-> snd (transmit dl ans f) = TxOk) /\
  (snd (transmit dl ans f) <> TxOk -> intercepts (fst (transmit dl ans f)) = []) /\
  (snd (transmit dl ans f) = TxOk <->
     (ans_write ans = None /\ (dl = true -> ans_deadline ans = None))) /\
  (snd (transmit dl ans f) = TxOk ->
     exists pre data, fst (transmit dl ans f) = pre ++ [TxWrite data; TxIntercept f]
                      /\ intercepts pre = [] /\ writes pre = []).
Proof. exact transmit_intercept_iff. Qed.
Print Assumptions C07_transmit_intercept_iff.

(** the byte count n that Write answers is ignored (as in the code: `_, err := conn.Write`): never a
    second Write, and (n < 16, nil) counts as success *)
Theorem C07_transmit_ignores_write_count : forall dl d w n1 n2 f,
  transmit dl (mkAnswers d w n1) f = transmit dl (mkAnswers d w n2) f.
Proof. exact transmit_ignores_count. Qed.
Print Assumptions C07_transmit_ignores_write_count.

(** no write if setting the deadline failed *)
Theorem C07_transmit_deadline_failed : forall ans f e, ans_deadline ans = Some e ->
  transmit true ans f = ([TxSetDeadline], TxErr e).
Proof. exact transmit_deadline_failed. Qed.
Print Assumptions C07_transmit_deadline_failed.

(** SEVERAL RECEIVERS IN ONE PROCESS, operations on them interleaved in any way (creation of further
    receivers, Receive, Close - also twice, also while frames are buffered): what receiver i shows
    is what the single-receiver model shows on the sub-sequence of operations addressed to i. This
    is what justifies comparing every receiver of a process with the single-receiver theorems above.
    (In the model receivers are values and cannot share anything; that the Go objects share
    nothing is observed by the correspondence run, M lines.) *)
Theorem C07_receivers_independent : forall (ops : list (nat * rop)) (i : nat),
  addressed_to i (receivers_run ops) = machine_run rstate rop robs rstep RNone (addressed_to i ops).
Proof. exact receivers_independent. Qed.
Print Assumptions C07_receivers_independent.

(** so neither the operations addressed to other receivers nor the interleaving matter *)
Theorem C07_interleaving_irrelevant : forall (ops1 ops2 : list (nat * rop)) (i : nat),
  addressed_to i ops1 = addressed_to i ops2 ->
  addressed_to i (receivers_run ops1) = addressed_to i (receivers_run ops2).
Proof. exact receivers_interleaving_irrelevant. Qed.
Print Assumptions C07_interleaving_irrelevant.

(** receiver i created once on a connection answering rs, then Receive / Close calls: its events are
    those of C07_every_read_list for ITS OWN connection - floor(n/16) frames of its own stream, each
    with exactly one call of ITS interceptor (none if it was created without one), then the stops *)
Theorem C07_receiver_in_process : forall ops i icpt rs calls,
  addressed_to i ops = ONew icpt rs :: calls -> forallb is_call calls = true ->
  events_of (addressed_to i (receivers_run ops)) =
    map (see icpt)
      (let (bs, e) := delivered 0 rs in
       let evs := map frame_event (chunks16 bs) in
       firstn (receives calls) evs ++ repeat (EvStop [] zero_frame e) (receives calls - length evs)).
Proof. exact receiver_in_process_spec. Qed.
Print Assumptions C07_receiver_in_process.

(** the same for transmitters: transmitter i created once (with / without an interceptor) and used
    for [calls], interleaved in any way with other transmitters, does exactly [transmit_all calls],
    with the interceptor events iff IT has an interceptor *)
Theorem C07_transmitter_in_process : forall ops i icpt calls,
  addressed_to i ops = TNew icpt :: map (fun c => match c with (dl, ans, f) => TCall dl ans f end) calls ->
  addressed_to i (transmitters_run ops) = map (see_tx icpt) (transmit_all calls).
Proof. exact transmitter_in_process. Qed.
Print Assumptions C07_transmitter_in_process.

(** PACKET connections (the package's UDP transport: one datagram per Read, what does not fit the slice
    offered to Read is discarded). Socketcan/ScanBuffer.v models the geometry of bufio.Scanner's buffer
    that Receiver.v abstracts: [gstart, gend, glen] = s.start, s.end, len(s.buf); [prepare] = shift/grow
    before a Read; [offered g] = glen g - gend g = len of the slice handed to Read; [after_read g n] = n
    bytes arrived and every whole frame was handed out; [geom_inv g] = g is the empty initial buffer or
    len 4096 with fewer than 16 bytes pending. The buffer never grows beyond 4096 bytes and EVERY Read
    is offered at least 2033 bytes: a datagram of up to 127 frames is never truncated, so the stream
    theorems above apply to the concatenation of the datagrams. *)
Theorem C07_scan_offers_room : forall g, geom_inv g ->
  exists g', prepare g = Some g' /\ glen g' = 4096 /\
             gend g' - gstart g' = gend g - gstart g /\
             2033 <= offered g' /\
             forall n, 0 <= n <= offered g' -> geom_inv (after_read g' n).
Proof. exact scan_offers_room. Qed.
Print Assumptions C07_scan_offers_room.

(** along any sequence of Reads starting from a new Scanner ([run_reads geom0 ns]: the i-th Read
    returns [nth i ns] bytes, at most what it was offered) the next Read is offered >= 2033 bytes *)
Theorem C07_every_read_is_offered_room : forall ns g1,
  run_reads geom0 ns = Some g1 ->
  exists g', prepare g1 = Some g' /\ glen g' = 4096 /\ 2033 <= offered g'.
Proof. exact every_read_is_offered_room. Qed.
Print Assumptions C07_every_read_is_offered_room.

(** non-vacuity: 37 bytes (2 frames + 5 trailing) served as 1 + 0 + 20 + 16 bytes, and the same
    with an error arriving together with the last 16 bytes *)
Example C07_nonvacuous :
  let bs := map Z.of_nat (seq 1 37) in
  let chunks := [firstn 1 bs; []; firstn 20 (skipn 1 bs); skipn 21 bs] in
  no_stallb 0 chunks = true /\ concat chunks = bs /\
  receive_calls 4 (map RData chunks ++ [REOF]) =
    [frame_event (firstn 16 bs); frame_event (firstn 16 (skipn 16 bs));
     EvStop [] zero_frame None; EvStop [] zero_frame None] /\
  receive_calls 4 (map RData (firstn 3 chunks) ++ [RDataErr (skipn 21 bs) (EOther 7)]) =
    [frame_event (firstn 16 bs); frame_event (firstn 16 (skipn 16 bs));
     EvStop [] zero_frame (Some (EOther 7)); EvStop [] zero_frame (Some (EOther 7))] /\
  frame_event (firstn 16 bs) =
    EvFrame [mkFrame 0x201 5 [9; 10; 11; 12; 13; 14; 15; 16] false false]
            (mkFrame 0x201 5 [9; 10; 11; 12; 13; 14; 15; 16] false false) false
            (mkErrFrame 0x04030201 9 10 11 12 13 [14; 15; 16]).
Proof. vm_compute. repeat split. Qed.

(** non-vacuity of the process theorems: receiver 0 (interceptor, 2 frames in ONE read) is closed twice
    while a frame is still buffered, receivers 1 (no interceptor) and 2 are created afterwards and
    read interleaved with the draining of receiver 0: each shows its own stream *)
Example C07_process_nonvacuous :
  let s0 := map Z.of_nat (seq 1 32) in
  let s1 := map Z.of_nat (seq 101 16) in
  let s2 := map Z.of_nat (seq 201 16) in
  let ops := [(0, ONew true [RData s0]); (0, OReceive); (0, OClose); (0, OClose);
              (1, ONew false [RData (firstn 5 s1); RData (skipn 5 s1)]); (2, ONew true [RData s2]);
              (1, OReceive); (2, OReceive); (0, OReceive); (2, OReceive); (0, OReceive); (1, OReceive)]%nat in
  receivers_run ops =
    [(0, ObEvent (frame_event (firstn 16 s0))); (0, ObClosed); (0, ObClosed);
     (1, ObEvent (strip_icpt (frame_event s1))); (2, ObEvent (frame_event s2));
     (0, ObEvent (frame_event (skipn 16 s0))); (2, ObEvent (EvStop [] zero_frame None));
     (0, ObEvent (EvStop [] zero_frame None)); (1, ObEvent (EvStop [] zero_frame None))]%nat /\
  addressed_to 0 ops = [ONew true [RData s0]; OReceive; OClose; OClose; OReceive; OReceive] /\
  strip_icpt (frame_event s1) <> frame_event s1.
Proof. vm_compute. repeat split. discriminate. Qed.
