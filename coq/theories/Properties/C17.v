(** Property C17 - range and value checks are exact and keep the access inside the frame.
    This file contains only the property theorems, each closed by [exact], each followed by
    [Print Assumptions]. Model: Can/Data.v (check_le, check_be, check_value = data.go:276-315);
    specification: Can/DataSpec.v (ok_le, ok_be by the documented numbering; ok_val). *)
From Coq Require Import ZArith List Bool.
From CanVerif Require Import Can.Data Can.DataSpec Can.CheckProofs Can.DataProofs Can.CheckAccess.
Open Scope Z_scope.

(** little-endian check: no error exactly when every bit s+i (i < l) is below 8*fl *)
Theorem C17_check_le_exact : forall fl s l,
  0 <= fl <= 8 -> 0 <= s <= 255 -> 1 <= l <= 255 ->
  (check_le fl s l = true <-> (forall i, 0 <= i < l -> le_pos s i < 8 * fl)).
Proof. exact check_le_exact. Qed.
Print Assumptions C17_check_le_exact.

(** big-endian check: no error exactly when every bit of the saw-tooth walk from s is below 8*fl *)
Theorem C17_check_be_exact : forall fl s l,
  0 <= fl <= 8 -> 0 <= s <= 255 -> 1 <= l <= 255 ->
  (check_be fl s l = true <-> (forall j, 0 <= j < l -> be_pos s j < 8 * fl)).
Proof. exact check_be_exact. Qed.
Print Assumptions C17_check_be_exact.

Theorem C17_check_value_exact : forall v b,
  0 <= v < 2 ^ 64 -> 1 <= b <= 64 -> (check_value v b = true <-> v < 2 ^ b).
Proof. exact check_value_exact. Qed.
Print Assumptions C17_check_value_exact.

(** a checked range is read only from, and written only to, the first fl bytes *)
Theorem C17_checked_read_le : forall fl s l d d',
  0 <= fl <= 8 -> 0 <= s <= 255 -> 1 <= l <= 255 -> check_le fl s l = true ->
  valid_data d -> valid_data d' -> agree_below (8 * fl) d d' ->
  ubits_le d s l = ubits_le d' s l /\ sbits_le d s l = sbits_le d' s l.
Proof. exact checked_read_le. Qed.
Print Assumptions C17_checked_read_le.

Theorem C17_checked_read_be : forall fl s l d d',
  0 <= fl <= 8 -> 0 <= s <= 255 -> 1 <= l <= 255 -> check_be fl s l = true ->
  valid_data d -> valid_data d' -> agree_below (8 * fl) d d' ->
  ubits_be d s l = ubits_be d' s l /\ sbits_be d s l = sbits_be d' s l.
Proof. exact checked_read_be. Qed.
Print Assumptions C17_checked_read_be.

Theorem C17_checked_write_le : forall fl s l d v k,
  0 <= fl <= 8 -> 0 <= s <= 255 -> 1 <= l <= 255 -> check_le fl s l = true ->
  valid_data d -> 0 <= v < 2 ^ l -> 8 * fl <= k < 64 ->
  pbit (set_ubits_le d s l v) k = pbit d k.
Proof. exact checked_write_le. Qed.
Print Assumptions C17_checked_write_le.

Theorem C17_checked_write_be : forall fl s l d v k,
  0 <= fl <= 8 -> 0 <= s <= 255 -> 1 <= l <= 255 -> check_be fl s l = true ->
  valid_data d -> 0 <= v < 2 ^ l -> 8 * fl <= k < 64 ->
  pbit (set_ubits_be d s l v) k = pbit d k.
Proof. exact checked_write_be. Qed.
Print Assumptions C17_checked_write_be.

(** regression witnesses: the formulas before the fix commits violate the specification *)
Theorem C17_old_le_refuted : check_le_old 8 200 57 = true /\ ~ ok_le 8 200 57.
Proof. exact check_le_refuted. Qed.
Theorem C17_old_be_refuted : check_be_old 1 0 250 = true /\ ~ ok_be 1 0 250.
Proof. exact check_be_refuted. Qed.
Theorem C17_old_value_refuted : check_value_old 0 64 = false /\ ok_val 0 64.
Proof. exact check_value_refuted. Qed.

(** non-vacuity: checks pass on real ranges *)
Example C17_nonvacuous : check_le 8 29 32 = true /\ check_be 8 29 32 = true /\ check_be 2 7 16 = true
  /\ check_le 8 0 64 = true /\ check_value (2 ^ 64 - 1) 64 = true.
Proof. vm_compute. repeat split. Qed.
