(** Property C15 - Frame <-> candump text: valid frames round-trip; parsing is total and atomic.
    Only property theorems, each closed by [exact], each followed by [Print Assumptions].

    Model: Can/FrameString.v ([to_string] = frame.go String, [unmarshal_string s dst] =
    UnmarshalString on destination [dst], returning the outcome and the destination afterwards;
    every Go operation that can panic is an explicit partial operation mapped to [Panic]).
    Specification: Can/FrameStringSpec.v.  Strings are byte lists; 35 = '#', 82 = 'R'.

    The documented pattern    ( HEX{3} | HEX{8} ) '#' ( 'R' [0-8]? | (HEX HEX){0,8} ) :
      id_part_ok hexp idp  :=  (length idp = 3 \/ length idp = 8) /\ Forall hexp idp
      tail_ok hexp tail    :=  tail = [82] \/ (exists c, tail = [82; c] /\ 48 <= c <= 56) \/
                               (Forall hexp tail /\ exists n, length tail = 2 * n /\ n <= 8)
      matches_pattern_with hexp s := exists idp tail, s = idp ++ 35 :: tail /\ id_part_ok hexp idp /\ tail_ok hexp tail
      matches_pattern       = matches_pattern_with is_hex        (0-9 A-F a-f: what must be accepted)
      matches_pattern_upper = matches_pattern_with is_hex_upper  (0-9 A-F    : what is printed)
    The frame written in  idp # tail :
      frame_written idp tail = ID [hex_value idp]; extended iff 8 digits; remote iff the tail starts
      with 'R'; length = the digit after 'R' (0 if none), else the number of digit pairs; data =
      the bytes the pairs denote ([hex_bytes]) zero-padded to 8, all zero for a remote frame.
    [frame_wf f] = the fields are representable in the Go struct (uint32, uint8, [8]byte). *)
From Coq Require Import String.
From Coq Require Import ZArith List Bool.
From CanVerif Require Import Base.Dec Base.Hex Can.Data Can.Frame Can.FrameProofs
  Can.FrameString Can.FrameStringSpec Can.FrameStringProofs Can.FrameJSONSpec.
Import ListNotations.
Open Scope Z_scope.

(** Clause 1. A valid frame whose unused data bytes are zero (remote: all 8; data frame: the bytes
    from index Length on) prints to the documented pattern in upper case, with 3 ID digits iff
    standard and 8 iff extended, and parsing that text into any destination yields the frame. *)
Theorem C15_print_then_parse : forall f,
  frame_wf f ->
  validate f = true ->
  (f_remote f = true -> forall i, 0 <= i < 8 -> byte_at (f_data f) i = 0) ->
  (f_remote f = false -> forall i, f_len f <= i < 8 -> byte_at (f_data f) i = 0) ->
  exists s,
    to_string f = S_ok s /\
    matches_pattern_upper s /\ matches_pattern s /\
    (exists idp tail, s = idp ++ 35 :: tail /\ length idp = (if f_ext f then 8 else 3)%nat) /\
    forall dst, unmarshal_string s dst = (Ok, f).
Proof. intros f Hwf Hv Hr Hd. exact (string_round_trip f Hwf (conj Hv (conj Hr Hd))). Qed.
Print Assumptions C15_print_then_parse.

(** Clause 2. Every string of the documented pattern, hex digits in either letter case, is
    accepted, and ID, format, remote flag, length and data are decoded as written. *)
Theorem C15_accepts_pattern : forall idp tail dst,
  ((length idp = 3%nat \/ length idp = 8%nat) /\ Forall is_hex idp) ->
  (tail = [82] \/ (exists c, tail = [82; c] /\ 48 <= c <= 56) \/
   (Forall is_hex tail /\ exists n, length tail = (2 * n)%nat /\ (n <= 8)%nat)) ->
  unmarshal_string (idp ++ 35 :: tail) dst = (Ok, frame_written idp tail).
Proof. exact unmarshal_string_accepts. Qed.
Print Assumptions C15_accepts_pattern.

Theorem C15_accepts_matches_pattern : forall s,
  matches_pattern s ->
  exists idp tail, s = idp ++ 35 :: tail /\ forall dst, unmarshal_string s dst = (Ok, frame_written idp tail).
Proof. exact unmarshal_string_pattern. Qed.
Print Assumptions C15_accepts_matches_pattern.

(** ... and nothing else is accepted, except  id # R9  (one decimal digit after 'R' is read with
    Atoi; 9 gives a frame of length 9, which Validate rejects). *)
Theorem C15_accepts_only_pattern_or_R9 : forall s dst f,
  unmarshal_string s dst = (Ok, f) ->
  exists idp tail, s = idp ++ 35 :: tail /\ id_part_ok is_hex idp /\ (tail_ok is_hex tail \/ tail = [82; 57]).
Proof. exact unmarshal_string_accepts_only. Qed.
Print Assumptions C15_accepts_only_pattern_or_R9.

(** Clause 3. For any byte string whatsoever the parser returns a frame or an error - never the
    outcome [Panic] - and on error the destination is exactly what it was. *)
Theorem C15_total_and_atomic : forall s dst,
  (exists f, unmarshal_string s dst = (Ok, f)) \/ unmarshal_string s dst = (Error, dst).
Proof. exact unmarshal_string_total. Qed.
Print Assumptions C15_total_and_atomic.

(** ... and a successful result does not depend on what the destination held before. *)
Theorem C15_result_independent_of_destination : forall s dst dst' f,
  unmarshal_string s dst = (Ok, f) -> unmarshal_string s dst' = (Ok, f).
Proof. exact unmarshal_string_ok_indep. Qed.
Print Assumptions C15_result_independent_of_destination.

(** Clause 4. Whenever the parsed frame is valid, printing and re-parsing it is the identity. *)
Theorem C15_reparse_identity : forall s dst f,
  unmarshal_string s dst = (Ok, f) -> validate f = true ->
  exists s', to_string f = S_ok s' /\ forall dst', unmarshal_string s' dst' = (Ok, f).
Proof. exact string_reparse. Qed.
Print Assumptions C15_reparse_identity.

(** The executable recogniser the correspondence driver evaluates on the implementation's output
    is the documented pattern. *)
Theorem C15_recogniser_is_pattern : forall s,
  (matches_patternb false s = true <-> matches_pattern s) /\
  (matches_patternb true s = true <-> matches_pattern_upper s).
Proof. exact matches_patternb_spec. Qed.
Print Assumptions C15_recogniser_is_pattern.

(** The boolean frame predicates used by the driver and by the example below are the
    propositional ones of the theorems. *)
Theorem C15_frame_predicates : forall f,
  (frame_wfb f = true <-> frame_wf f) /\ (0 <= f_len f -> (canonicalb f = true <-> canonical f)).
Proof. intros f. exact (conj (frame_wfb_spec f) (canonicalb_spec f)). Qed.
Print Assumptions C15_frame_predicates.

(** non-vacuity: concrete frames and texts ([bytes] turns a string literal into its byte list) *)
Example C15_nonvacuous :
  let f1 := mkFrame 0x123 3 [1; 2; 0xAB; 0; 0; 0; 0; 0] false false in
  let f2 := mkFrame 0x1FFFFFFF 8 zero_data true true in
  frame_wfb f1 = true /\ canonicalb f1 = true /\ frame_wfb f2 = true /\ canonicalb f2 = true /\
  to_string f1 = S_ok (bytes "123#0102AB") /\ unmarshal_string (bytes "123#0102AB") f2 = (Ok, f1) /\
  to_string f2 = S_ok (bytes "1FFFFFFF#R8") /\ unmarshal_string (bytes "1FFFFFFF#R8") f1 = (Ok, f2) /\
  unmarshal_string (bytes "123#0102ab") f2 = (Ok, f1) /\
  matches_patternb false (bytes "abc#DEad") = true /\
  unmarshal_string (bytes "123#R9") f1 = (Ok, mkFrame 0x123 9 zero_data true false) /\
  validate (mkFrame 0x123 9 zero_data true false) = false /\
  unmarshal_string (bytes "123#R+") f1 = (Error, f1) /\
  unmarshal_string (bytes "+12#") f1 = (Error, f1) /\
  unmarshal_string (bytes "123#0") f1 = (Error, f1) /\
  unmarshal_string (bytes "123#00#") f1 = (Error, f1) /\
  to_string (mkFrame 1 9 zero_data false false) = S_panic.
Proof. vm_compute. repeat split; congruence. Qed.
