(** Hexadecimal text over byte lists, and the Go library routines frame.go / frame_json.go use:

      encoding/hex.EncodeToString             [hex_encode]     (lower case, hextable)
      encoding/hex.DecodeString               [hex_decode]     (hex.go:87-113, reverseHexTable)
      strings.ToUpper on ASCII text           [ascii_upper]
      fmt.Sprintf("%0wX", uint32)             [fmt_hex_upper]  (w = 3, 8)

    plus the SPECIFICATION side, written with plain range tests and independent of the above:
      [is_hex], [is_hex_upper], [is_hex_lower], [hex_val], [hex_value], [hex_bytes].

    A string is a [list Z] of bytes.  Library routines are ORACLES (modelled, not verified;
    exercised directly by the "O-" lines of harness/frametext). *)
From Coq Require Import ZArith List Bool Lia.
From CanVerif Require Import Base.Dec.
Import ListNotations.
Open Scope Z_scope.

(** * Specification vocabulary *)
Definition is_hex_upper (c : Z) : Prop := 48 <= c <= 57 \/ 65 <= c <= 70.
Definition is_hex_lower (c : Z) : Prop := 48 <= c <= 57 \/ 97 <= c <= 102.
Definition is_hex (c : Z) : Prop := 48 <= c <= 57 \/ 65 <= c <= 70 \/ 97 <= c <= 102.

Definition is_hex_upperb (c : Z) : bool := ((48 <=? c) && (c <=? 57)) || ((65 <=? c) && (c <=? 70)).
Definition is_hex_lowerb (c : Z) : bool := ((48 <=? c) && (c <=? 57)) || ((97 <=? c) && (c <=? 102)).
Definition is_hexb (c : Z) : bool := is_hex_upperb c || ((97 <=? c) && (c <=? 102)).

(** numeric value of a hex digit character ('0'..'9', 'A'..'F', 'a'..'f') *)
Definition hex_val (c : Z) : Z :=
  if c <=? 57 then c - 48 else if c <=? 70 then c - 55 else c - 87.
(** the number a hex digit string denotes *)
Definition hex_value (s : list Z) : Z := value 16 (map hex_val s).
(** the bytes a string of hex digit pairs denotes *)
Fixpoint hex_bytes (s : list Z) : list Z :=
  match s with
  | a :: b :: r => (16 * hex_val a + hex_val b) :: hex_bytes r
  | _ => []
  end.

(** * Library models *)

(** "0123456789abcdef"[d], "0123456789ABCDEF"[d] for 0 <= d < 16 *)
Definition hexdig_lower (d : Z) : Z := if d <? 10 then 48 + d else 87 + d.
Definition hexdig_upper (d : Z) : Z := if d <? 10 then 48 + d else 55 + d.

(** hex.EncodeToString: hextable[v>>4], hextable[v&0x0f] for every byte v *)
Definition hex_encode (bs : list Z) : list Z :=
  flat_map (fun v => [hexdig_lower (v / 16); hexdig_lower (v mod 16)]) bs.

(** strings.ToUpper restricted to ASCII input (its fast path): 'a'..'z' -> 'A'..'Z' *)
Definition to_upper_byte (c : Z) : Z := if (97 <=? c) && (c <=? 122) then c - 32 else c.
Definition ascii_upper (s : list Z) : list Z := map to_upper_byte s.

(** reverseHexTable: 0..15 for hex digits of either case, 0xff otherwise *)
Definition rev_hex (c : Z) : Z :=
  if (48 <=? c) && (c <=? 57) then c - 48
  else if (97 <=? c) && (c <=? 102) then c - 87
  else if (65 <=? c) && (c <=? 70) then c - 55
  else 255.

(** hex.DecodeString; [None] = any error (InvalidByteError or ErrLength): both callers discard the
    partial result.  (a << 4) | b is written a * 16 + b (a, b <= 15). *)
Fixpoint hex_decode (s : list Z) : option (list Z) :=
  match s with
  | [] => Some []
  | [_] => None
  | p :: q :: r =>
    let a := rev_hex p in
    let b := rev_hex q in
    if (15 <? a) || (15 <? b) then None
    else match hex_decode r with Some bs => Some ((a * 16 + b) :: bs) | None => None end
  end.

(** fmt %0wX of an unsigned number: minimal upper-case digits, zero padded to width w *)
Definition fmt_hex_upper (w : nat) (n : Z) : list Z := map hexdig_upper (pad_left w (digits 16 n)).

(** * Lemmas *)

Lemma is_hexb_spec c : is_hexb c = true <-> is_hex c.
Proof. unfold is_hexb, is_hex_upperb, is_hex. rewrite !orb_true_iff, !andb_true_iff, !Z.leb_le. tauto. Qed.
Lemma is_hex_upperb_spec c : is_hex_upperb c = true <-> is_hex_upper c.
Proof. unfold is_hex_upperb, is_hex_upper. rewrite !orb_true_iff, !andb_true_iff, !Z.leb_le. tauto. Qed.
Lemma is_hex_lowerb_spec c : is_hex_lowerb c = true <-> is_hex_lower c.
Proof. unfold is_hex_lowerb, is_hex_lower. rewrite !orb_true_iff, !andb_true_iff, !Z.leb_le. tauto. Qed.

Lemma is_hex_upper_hex c : is_hex_upper c -> is_hex c.
Proof. unfold is_hex_upper, is_hex. tauto. Qed.
Lemma is_hex_lower_hex c : is_hex_lower c -> is_hex c.
Proof. unfold is_hex_lower, is_hex. tauto. Qed.

Lemma is_hex_cases c : is_hex c ->
  In c [48; 49; 50; 51; 52; 53; 54; 55; 56; 57; 65; 66; 67; 68; 69; 70; 97; 98; 99; 100; 101; 102].
Proof. unfold is_hex. cbn. lia. Qed.

Ltac hex_cases H :=
  apply is_hex_cases in H; cbn [In] in H;
  repeat (destruct H as [H|H]; [subst; vm_compute; try tauto; try (split; congruence)|]);
  try contradiction.

Lemma hex_val_range c : is_hex c -> 0 <= hex_val c < 16.
Proof. intros H. hex_cases H. Qed.

Lemma pu_digit_hex c : is_hex c -> pu_digit c = Some (hex_val c).
Proof. intros H. hex_cases H. Qed.

Lemma rev_hex_hex c : is_hex c -> rev_hex c = hex_val c.
Proof. intros H. hex_cases H. Qed.

Lemma rev_hex_small c : rev_hex c <= 15 -> is_hex c.
Proof.
  unfold rev_hex, is_hex.
  destruct (Z.leb_spec 48 c), (Z.leb_spec c 57), (Z.leb_spec 97 c), (Z.leb_spec c 102),
    (Z.leb_spec 65 c), (Z.leb_spec c 70); cbn [andb]; lia.
Qed.

Lemma is_hex_not_hash c : is_hex c -> c <> 35.
Proof. unfold is_hex. lia. Qed.

(** ** value bound *)
Lemma value_from_bound b ds : forall a,
  2 <= b -> 0 <= a -> Forall (fun d => 0 <= d < b) ds ->
  0 <= value_from b ds a <= (a + 1) * b ^ Z.of_nat (length ds) - 1.
Proof.
  induction ds as [|d ds IH]; intros a Hb Ha Hds.
  - unfold value_from. cbn. lia.
  - inversion Hds; subst. unfold value_from. cbn [fold_left length].
    fold (value_from b ds (a * b + d)).
    assert (Hab : 0 <= a * b + d) by nia.
    specialize (IH (a * b + d) Hb Hab ltac:(assumption)).
    rewrite pow_of_nat_S.
    assert (0 < b ^ Z.of_nat (length ds)) by (apply Z.pow_pos_nonneg; lia).
    nia.
Qed.

Lemma hex_value_bound s : Forall is_hex s -> 0 <= hex_value s < 16 ^ Z.of_nat (length s).
Proof.
  intros Hs. unfold hex_value, value.
  pose proof (value_from_bound 16 (map hex_val s) 0 ltac:(lia) ltac:(lia)) as H.
  rewrite map_length in H. enough (Forall (fun d => 0 <= d < 16) (map hex_val s)) by (specialize (H H0); lia).
  apply Forall_forall. intros d Hin. apply in_map_iff in Hin. destruct Hin as (c & <- & Hin).
  rewrite Forall_forall in Hs. apply hex_val_range, Hs, Hin.
Qed.

(** ** ParseUint(s, 16, 32) on 1..8 hex digits of either case *)
Lemma parse_uint_hex s :
  Forall is_hex s -> s <> [] -> (length s <= 8)%nat -> parse_uint s 16 32 = PU_ok (hex_value s).
Proof.
  intros Hs Hne Hlen. unfold parse_uint. destruct s as [|c0 s0] eqn:E; [congruence|]. rewrite <- E in *.
  clear E c0 s0.
  pose proof (hex_value_bound s Hs) as Hb.
  assert (H16 : 16 ^ Z.of_nat (length s) <= 16 ^ 8) by (apply Z.pow_le_mono_r; lia).
  unfold hex_value, value in *.
  apply pu_loop_ok; try lia.
  apply Forall_forall. intros c Hin. rewrite Forall_forall in Hs. specialize (Hs c Hin).
  split; [apply pu_digit_hex|apply hex_val_range]; assumption.
Qed.

(** ** digit printers *)
Lemma hexdig_upper_spec d : 0 <= d < 16 -> is_hex_upper (hexdig_upper d) /\ hex_val (hexdig_upper d) = d.
Proof.
  intros Hd. unfold hexdig_upper, is_hex_upper, hex_val.
  destruct (Z.ltb_spec d 10).
  - destruct (Z.leb_spec (48 + d) 57); lia.
  - destruct (Z.leb_spec (55 + d) 57); [lia|]. destruct (Z.leb_spec (55 + d) 70); lia.
Qed.
Lemma hexdig_lower_spec d : 0 <= d < 16 -> is_hex_lower (hexdig_lower d) /\ hex_val (hexdig_lower d) = d.
Proof.
  intros Hd. unfold hexdig_lower, is_hex_lower, hex_val.
  destruct (Z.ltb_spec d 10).
  - destruct (Z.leb_spec (48 + d) 57); lia.
  - destruct (Z.leb_spec (87 + d) 57); [lia|]. destruct (Z.leb_spec (87 + d) 70); lia.
Qed.
Lemma to_upper_hexdig d : 0 <= d < 16 -> to_upper_byte (hexdig_lower d) = hexdig_upper d.
Proof.
  intros Hd. unfold to_upper_byte, hexdig_lower, hexdig_upper. destruct (Z.ltb_spec d 10).
  - destruct (Z.leb_spec 97 (48 + d)); [lia|reflexivity].
  - destruct (Z.leb_spec 97 (87 + d)); [|lia]. destruct (Z.leb_spec (87 + d) 122); [|lia]. cbn [andb]. lia.
Qed.

(** ** %0wX *)
Lemma fmt_hex_upper_spec w n :
  (1 <= w)%nat -> 0 <= n < 16 ^ Z.of_nat w ->
  length (fmt_hex_upper w n) = w /\ Forall is_hex_upper (fmt_hex_upper w n) /\
  hex_value (fmt_hex_upper w n) = n.
Proof.
  intros Hw Hn. unfold fmt_hex_upper.
  pose proof (digits_length 16 ltac:(lia) n w Hn Hw) as Hl.
  pose proof (digits_range 16 ltac:(lia) n ltac:(lia)) as Hr.
  assert (Hp : Forall (fun d => 0 <= d < 16) (pad_left w (digits 16 n))).
  { unfold pad_left. apply Forall_app. split; [|exact Hr].
    apply Forall_forall. intros d Hin. apply repeat_spec in Hin. lia. }
  repeat split.
  - rewrite map_length, pad_left_length. lia.
  - apply Forall_forall. intros c Hin. apply in_map_iff in Hin. destruct Hin as (d & <- & Hin).
    rewrite Forall_forall in Hp. apply hexdig_upper_spec, Hp, Hin.
  - unfold hex_value.
    rewrite (map_map_id hexdig_upper hex_val (fun d => 0 <= d < 16)); [|apply hexdig_upper_spec|exact Hp].
    rewrite value_pad_left. apply digits_value; lia.
Qed.

(** parse (print n) = n for the fixed-width upper-case ID *)
Lemma parse_uint_fmt_hex w n :
  (1 <= w <= 8)%nat -> 0 <= n < 16 ^ Z.of_nat w -> parse_uint (fmt_hex_upper w n) 16 32 = PU_ok n.
Proof.
  intros Hw Hn. destruct (fmt_hex_upper_spec w n ltac:(lia) Hn) as (Hl & Hu & Hv).
  rewrite parse_uint_hex.
  - rewrite Hv. reflexivity.
  - eapply Forall_impl; [exact is_hex_upper_hex|exact Hu].
  - intros E. rewrite E in Hl. cbn in Hl. lia.
  - lia.
Qed.

(** ** encode / decode *)
Lemma hex_encode_cons v bs :
  hex_encode (v :: bs) = hexdig_lower (v / 16) :: hexdig_lower (v mod 16) :: hex_encode bs.
Proof. reflexivity. Qed.

Lemma byte_nibbles v : 0 <= v < 256 -> 0 <= v / 16 < 16 /\ 0 <= v mod 16 < 16 /\ v / 16 * 16 + v mod 16 = v.
Proof. intros Hv. pose proof (Z.div_mod v 16 ltac:(lia)). pose proof (Z.mod_pos_bound v 16 ltac:(lia)).
  assert (0 <= v / 16) by (apply Z.div_pos; lia).
  assert (v / 16 < 16) by (apply Z.div_lt_upper_bound; lia). lia. Qed.

Lemma hex_decode_pair p q r : is_hex p -> is_hex q ->
  hex_decode (p :: q :: r) =
  match hex_decode r with Some bs => Some ((hex_val p * 16 + hex_val q) :: bs) | None => None end.
Proof.
  intros Hp Hq. cbn [hex_decode]. rewrite !rev_hex_hex by assumption.
  pose proof (hex_val_range p Hp). pose proof (hex_val_range q Hq).
  destruct (Z.ltb_spec 15 (hex_val p)); [lia|]. destruct (Z.ltb_spec 15 (hex_val q)); [lia|]. reflexivity.
Qed.

(** decode (encode bs) = bs, lower case (JSON) *)
Lemma hex_decode_encode bs : Forall (fun v => 0 <= v < 256) bs -> hex_decode (hex_encode bs) = Some bs.
Proof.
  induction 1 as [|v bs Hv _ IH]; [reflexivity|].
  rewrite hex_encode_cons. destruct (byte_nibbles v Hv) as (H1 & H2 & H3).
  destruct (hexdig_lower_spec _ H1) as [L1 V1]. destruct (hexdig_lower_spec _ H2) as [L2 V2].
  rewrite hex_decode_pair by (apply is_hex_lower_hex; assumption).
  rewrite IH, V1, V2, H3. reflexivity.
Qed.

(** upper case (candump text): ToUpper(EncodeToString bs) *)
Lemma ascii_upper_encode_cons v bs : 0 <= v < 256 ->
  ascii_upper (hex_encode (v :: bs)) = hexdig_upper (v / 16) :: hexdig_upper (v mod 16) :: ascii_upper (hex_encode bs).
Proof.
  intros Hv. destruct (byte_nibbles v Hv) as (H1 & H2 & _).
  rewrite hex_encode_cons. unfold ascii_upper. cbn [map]. rewrite !to_upper_hexdig by assumption. reflexivity.
Qed.

Lemma hex_decode_upper_encode bs :
  Forall (fun v => 0 <= v < 256) bs -> hex_decode (ascii_upper (hex_encode bs)) = Some bs.
Proof.
  induction 1 as [|v bs Hv _ IH]; [reflexivity|].
  rewrite ascii_upper_encode_cons by assumption. destruct (byte_nibbles v Hv) as (H1 & H2 & H3).
  destruct (hexdig_upper_spec _ H1) as [L1 V1]. destruct (hexdig_upper_spec _ H2) as [L2 V2].
  rewrite hex_decode_pair by (apply is_hex_upper_hex; assumption).
  rewrite IH, V1, V2, H3. reflexivity.
Qed.

Lemma upper_encode_shape bs : Forall (fun v => 0 <= v < 256) bs ->
  Forall is_hex_upper (ascii_upper (hex_encode bs)) /\
  length (ascii_upper (hex_encode bs)) = (2 * length bs)%nat.
Proof.
  induction 1 as [|v bs Hv _ [IH1 IH2]]; [split; [constructor|reflexivity]|].
  rewrite ascii_upper_encode_cons by assumption. destruct (byte_nibbles v Hv) as (H1 & H2 & _).
  split.
  - constructor; [apply hexdig_upper_spec, H1|]. constructor; [apply hexdig_upper_spec, H2|exact IH1].
  - cbn [length]. rewrite IH2. lia.
Qed.

Lemma encode_shape bs : Forall (fun v => 0 <= v < 256) bs ->
  Forall is_hex_lower (hex_encode bs) /\ length (hex_encode bs) = (2 * length bs)%nat.
Proof.
  induction 1 as [|v bs Hv _ [IH1 IH2]]; [split; [constructor|reflexivity]|].
  rewrite hex_encode_cons. destruct (byte_nibbles v Hv) as (H1 & H2 & _).
  split.
  - constructor; [apply hexdig_lower_spec, H1|]. constructor; [apply hexdig_lower_spec, H2|exact IH1].
  - cbn [length]. rewrite IH2. lia.
Qed.

(** decoding any even-length hex digit string gives the bytes it denotes *)
Lemma hex_decode_hex : forall n s,
  length s = (2 * n)%nat -> Forall is_hex s ->
  hex_decode s = Some (hex_bytes s) /\ length (hex_bytes s) = n.
Proof.
  induction n as [|n IH]; intros s Hl Hs.
  - destruct s; [split; reflexivity|discriminate].
  - destruct s as [|p [|q r]]; try (cbn in Hl; lia).
    inversion Hs as [|? ? Hp Hs']; subst. inversion Hs' as [|? ? Hq Hr]; subst.
    destruct (IH r) as [E L]; [cbn in Hl; lia|assumption|].
    rewrite hex_decode_pair, E by assumption. cbn [hex_bytes length]. rewrite L.
    split; [|reflexivity]. do 2 f_equal. lia.
Qed.

(** whatever decodes, decodes to bytes, two characters each *)
Lemma hex_decode_inv : forall n s bs, (length s <= n)%nat ->
  hex_decode s = Some bs -> Forall (fun v => 0 <= v < 256) bs /\ length s = (2 * length bs)%nat /\ Forall is_hex s.
Proof.
  induction n as [|n IH]; intros s bs Hn H.
  - destruct s; [|cbn in Hn; lia]. inversion H; subst. repeat split; constructor.
  - destruct s as [|p [|q r]].
    + inversion H; subst. repeat split; constructor.
    + discriminate.
    + cbn [hex_decode] in H.
      destruct (Z.ltb_spec 15 (rev_hex p)); [discriminate|]. destruct (Z.ltb_spec 15 (rev_hex q)); [discriminate|].
      cbn [orb] in H. destruct (hex_decode r) as [bs'|] eqn:E; [|discriminate]. inversion H; subst.
      destruct (IH r bs') as (F & L & X); [cbn in Hn; lia|exact E|].
      pose proof (rev_hex_small p ltac:(lia)) as Hp. pose proof (rev_hex_small q ltac:(lia)) as Hq.
      rewrite (rev_hex_hex p Hp), (rev_hex_hex q Hq).
      pose proof (hex_val_range p Hp). pose proof (hex_val_range q Hq).
      repeat split.
      * constructor; [lia|exact F].
      * cbn [length]. rewrite L. lia.
      * constructor; [exact Hp|]. constructor; [exact Hq|exact X].
Qed.
