(** Positional digit strings over byte lists, and the Go [strconv] integer routines that
    frame.go / frame_json.go / encoding/json use:

      strconv.Itoa / FormatUint(_,10)          [itoa]
      strconv.ParseUint(s, base, bitSize)      [parse_uint]   (strconv/atoi.go:73-175)
      strconv.Atoi(s)                          [atoi]         (strconv/atoi.go:240-282)

    A string is a [list Z] of bytes (0..255).  Digit lists are most significant digit first.
    This file holds definitions of library ORACLES (modelled, not verified - DESIGN.md section 3;
    each is exercised directly by the "O-" observation lines of harness/frametext) together with
    their round-trip lemmas (parse (print n) = n). *)
From Coq Require Import ZArith List Bool Lia.
Import ListNotations.
Open Scope Z_scope.

(** * Radix representation *)

(** value of a digit list in base [b], most significant digit first *)
Definition value_from (b : Z) (ds : list Z) (a : Z) : Z := fold_left (fun a d => a * b + d) ds a.
Definition value (b : Z) (ds : list Z) : Z := value_from b ds 0.

(** minimal digit list of [n >= 0] ("0" for 0); [fuel] bounds the number of digits *)
Fixpoint digits_fuel (b : Z) (fuel : nat) (n : Z) : list Z :=
  match fuel with
  | O => []
  | S k => if n <? b then [n] else digits_fuel b k (n / b) ++ [n mod b]
  end.
(** 2^(log2 n + 1) > n, so log2 n + 1 digits suffice in every base >= 2 *)
Definition digits (b n : Z) : list Z := digits_fuel b (S (Z.to_nat (Z.log2 n))) n.

(** left-pad with zero digits to width [w] (fmt's %0wX / %0wd for non-negative numbers) *)
Definition pad_left (w : nat) (ds : list Z) : list Z := repeat 0 (w - length ds) ++ ds.

(** * Decimal *)
Definition digit_char (d : Z) : Z := 48 + d.
Definition is_digit (c : Z) : bool := (48 <=? c) && (c <=? 57).

(** strconv.Itoa / FormatInt(n, 10) *)
Definition itoa (n : Z) : list Z :=
  if n <? 0 then 45 :: map digit_char (digits 10 (- n)) else map digit_char (digits 10 n).

(** * strconv.ParseUint *)
Inductive pu_result := PU_ok (n : Z) | PU_syntax | PU_range.

(** strconv.lower: [c | ('x' - 'X')] *)
Definition lower (c : Z) : Z := Z.lor c 32.

(** the digit switch inside ParseUint's loop (base 2..36; '_' is only special for base 0) *)
Definition pu_digit (c : Z) : option Z :=
  if (48 <=? c) && (c <=? 57) then Some (c - 48)
  else if (97 <=? lower c) && (lower c <=? 122) then Some (lower c - 97 + 10)
  else None.

(** cutoff = maxUint64/base + 1 : the smallest n with n*base > maxUint64 *)
Definition pu_cutoff (base : Z) : Z := (2 ^ 64 - 1) / base + 1.

Fixpoint pu_loop (base maxval : Z) (s : list Z) (n : Z) : pu_result :=
  match s with
  | [] => PU_ok n
  | c :: r =>
    match pu_digit c with
    | None => PU_syntax
    | Some d =>
      if base <=? d then PU_syntax
      else if pu_cutoff base <=? n then PU_range
      else
        let n' := (n * base) mod 2 ^ 64 in
        let n1 := (n' + d) mod 2 ^ 64 in
        if (n1 <? n') || (maxval <? n1) then PU_range else pu_loop base maxval r n1
    end
  end.

(** ParseUint(s, base, bitSize) for 2 <= base <= 36 and 1 <= bitSize <= 64 *)
Definition parse_uint (s : list Z) (base bitsize : Z) : pu_result :=
  match s with
  | [] => PU_syntax
  | _ => pu_loop base (2 ^ bitsize - 1) s 0
  end.

(** * strconv.Atoi (int is 64 bits): optional sign, at least one decimal digit, no other byte;
    out of the int64 range is an error.  [None] = any error. *)
Definition atoi (s : list Z) : option Z :=
  match s with
  | [] => None
  | c :: r =>
    let neg := c =? 45 in
    let ds := if (c =? 45) || (c =? 43) then r else s in
    match ds with
    | [] => None
    | _ =>
      if forallb is_digit ds then
        let v := value 10 (map (fun c => c - 48) ds) in
        if neg then (if v <=? 2 ^ 63 then Some (- v) else None)
        else (if v <? 2 ^ 63 then Some v else None)
      else None
    end
  end.

(** * Lemmas *)

Lemma value_from_app b l1 l2 a : value_from b (l1 ++ l2) a = value_from b l2 (value_from b l1 a).
Proof. unfold value_from. apply fold_left_app. Qed.

Lemma value_snoc b l d : value b (l ++ [d]) = value b l * b + d.
Proof. unfold value. rewrite value_from_app. reflexivity. Qed.

Lemma value_from_mono b ds a :
  1 <= b -> 0 <= a -> Forall (fun d => 0 <= d) ds -> a <= value_from b ds a.
Proof.
  intros Hb. revert a. induction ds as [|d ds IH]; intros a Ha Hds; cbn; [lia|].
  inversion Hds; subst. assert (Hle : a <= a * b + d) by nia.
  specialize (IH (a * b + d) ltac:(lia) ltac:(assumption)).
  unfold value_from in *. cbn [fold_left]. lia.
Qed.

Lemma value_from_zeros b k ds : value_from b (repeat 0 k ++ ds) 0 = value_from b ds 0.
Proof. induction k; cbn; [reflexivity|]. exact IHk. Qed.

Lemma value_pad_left b w ds : value b (pad_left w ds) = value b ds.
Proof. unfold value, pad_left. apply value_from_zeros. Qed.

Lemma pad_left_length w ds : length (pad_left w ds) = Nat.max w (length ds).
Proof. unfold pad_left. rewrite app_length, repeat_length. lia. Qed.

Lemma pow_of_nat_S b k : b ^ Z.of_nat (S k) = b * b ^ Z.of_nat k.
Proof. rewrite Nat2Z.inj_succ, Z.pow_succ_r by lia. reflexivity. Qed.

Section Radix.
  Variable b : Z.
  Hypothesis Hb : 2 <= b.

  Lemma div_lt_pow n k : 0 <= n < b ^ Z.of_nat (S k) -> 0 <= n / b < b ^ Z.of_nat k.
  Proof.
    intros [H0 H1]. rewrite pow_of_nat_S in H1. split.
    - apply Z.div_pos; lia.
    - apply Z.div_lt_upper_bound; lia.
  Qed.

  Lemma digits_fuel_value fuel : forall n,
    0 <= n < b ^ Z.of_nat fuel -> value b (digits_fuel b fuel n) = n.
  Proof.
    induction fuel as [|k IH]; intros n Hn.
    - change (b ^ Z.of_nat 0) with 1 in Hn. unfold value, value_from. cbn. lia.
    - cbn [digits_fuel]. destruct (Z.ltb_spec n b) as [Hlt|Hge].
      + unfold value, value_from. cbn. lia.
      + rewrite value_snoc, IH by (apply div_lt_pow; exact Hn).
        pose proof (Z.div_mod n b ltac:(lia)). lia.
  Qed.

  Lemma digits_fuel_range fuel : forall n,
    0 <= n -> Forall (fun d => 0 <= d < b) (digits_fuel b fuel n).
  Proof.
    induction fuel as [|k IH]; intros n Hn; cbn [digits_fuel]; [constructor|].
    destruct (Z.ltb_spec n b) as [Hlt|Hge].
    - constructor; [lia|constructor].
    - apply Forall_app. split.
      + apply IH. apply Z.div_pos; lia.
      + constructor; [|constructor]. apply Z.mod_pos_bound. lia.
  Qed.

  Lemma digits_fuel_length fuel : forall n w,
    0 <= n < b ^ Z.of_nat w -> (1 <= w)%nat -> (length (digits_fuel b fuel n) <= w)%nat.
  Proof.
    induction fuel as [|k IH]; intros n w Hn Hw; cbn [digits_fuel]; [cbn; lia|].
    destruct (Z.ltb_spec n b) as [Hlt|Hge]; [cbn; lia|].
    destruct w as [|w]; [lia|]. destruct w as [|w].
    - cbn in Hn. lia.
    - rewrite app_length. cbn [length].
      specialize (IH (n / b) (S w) (div_lt_pow n (S w) Hn) ltac:(lia)). lia.
  Qed.

  (** shape: non-empty, and no leading zero unless the single digit 0 *)
  Definition no_leading_zero (ds : list Z) : Prop :=
    match ds with [] => False | [_] => True | d :: _ => d <> 0 end.

  Lemma nlz_snoc ds d : no_leading_zero ds -> hd 0 ds <> 0 -> no_leading_zero (ds ++ [d]).
  Proof. destruct ds as [|x [|y r]]; cbn; intros; auto. Qed.

  Lemma digits_fuel_shape fuel : forall n,
    (1 <= fuel)%nat -> 0 <= n < b ^ Z.of_nat fuel ->
    no_leading_zero (digits_fuel b fuel n) /\ (0 < n -> hd 0 (digits_fuel b fuel n) <> 0).
  Proof.
    induction fuel as [|k IH]; intros n Hf Hn; [lia|].
    cbn [digits_fuel]. destruct (Z.ltb_spec n b) as [Hlt|Hge].
    - cbn. split; [exact I|lia].
    - assert (Hq : 0 < n / b) by (apply Z.div_str_pos; lia).
      assert (Hk : (1 <= k)%nat).
      { destruct k; [|lia]. change (b ^ Z.of_nat 1) with (b ^ 1) in Hn. rewrite Z.pow_1_r in Hn. lia. }
      destruct (IH (n / b) Hk (div_lt_pow n k Hn)) as [Hs Hh]. specialize (Hh Hq). split.
      + apply nlz_snoc; assumption.
      + intros _. destruct (digits_fuel b k (n / b)); [cbn in Hs; contradiction|exact Hh].
  Qed.

  Lemma digits_bound n : 0 <= n -> 0 <= n < b ^ Z.of_nat (S (Z.to_nat (Z.log2 n))).
  Proof.
    intros Hn. split; [exact Hn|].
    rewrite Nat2Z.inj_succ, Z2Nat.id by apply Z.log2_nonneg.
    apply Z.lt_le_trans with (2 ^ Z.succ (Z.log2 n)).
    - destruct (Z.eq_dec n 0) as [->|Hne]; [cbn; lia|]. apply Z.log2_spec. lia.
    - apply Z.pow_le_mono_l. lia.
  Qed.

  Lemma digits_value n : 0 <= n -> value b (digits b n) = n.
  Proof. intros Hn. apply digits_fuel_value, digits_bound, Hn. Qed.
  Lemma digits_range n : 0 <= n -> Forall (fun d => 0 <= d < b) (digits b n).
  Proof. intros Hn. apply digits_fuel_range, Hn. Qed.
  Lemma digits_length n w : 0 <= n < b ^ Z.of_nat w -> (1 <= w)%nat -> (length (digits b n) <= w)%nat.
  Proof. apply digits_fuel_length. Qed.
  Lemma digits_shape n : 0 <= n -> no_leading_zero (digits b n) /\ (0 < n -> hd 0 (digits b n) <> 0).
  Proof. intros Hn. apply digits_fuel_shape; [lia|apply digits_bound, Hn]. Qed.
  Lemma digits_nonempty n : 0 <= n -> digits b n <> [].
  Proof. intros Hn E. destruct (digits_shape n Hn) as [H _]. rewrite E in H. exact H. Qed.
End Radix.

(** ** ParseUint on a string of valid digits whose value fits *)
Lemma pu_loop_ok base maxval (dv : Z -> Z) : forall cs n,
  2 <= base -> maxval <= 2 ^ 64 - 1 -> 0 <= n ->
  Forall (fun c => pu_digit c = Some (dv c) /\ 0 <= dv c < base) cs ->
  value_from base (map dv cs) n <= maxval ->
  pu_loop base maxval cs n = PU_ok (value_from base (map dv cs) n).
Proof.
  intros cs. induction cs as [|c cs IH]; intros n Hb Hmax Hn Hcs Hfit; [reflexivity|].
  inversion Hcs as [|? ? [Hd Hr] Hcs']; subst.
  cbn [map] in *. unfold value_from in Hfit |- *. cbn [fold_left] in Hfit |- *.
  fold (value_from base (map dv cs) (n * base + dv c)) in Hfit |- *.
  assert (Hmono : n * base + dv c <= value_from base (map dv cs) (n * base + dv c)).
  { apply value_from_mono; [lia|nia|]. apply Forall_forall. intros d Hin.
    apply in_map_iff in Hin. destruct Hin as (c' & <- & Hin').
    rewrite Forall_forall in Hcs'. destruct (Hcs' c' Hin') as [_ ?]. lia. }
  assert (Hnb : 0 <= n * base) by nia.
  cbn [pu_loop]. rewrite Hd.
  destruct (Z.leb_spec base (dv c)); [lia|].
  assert (Hcut : n < pu_cutoff base).
  { unfold pu_cutoff. assert (n <= (2 ^ 64 - 1) / base); [|lia].
    apply Z.div_le_lower_bound; lia. }
  destruct (Z.leb_spec (pu_cutoff base) n); [lia|].
  cbv zeta. rewrite (Z.mod_small (n * base)) by lia.
  rewrite (Z.mod_small (n * base + dv c)) by lia.
  destruct (Z.ltb_spec (n * base + dv c) (n * base)); [lia|].
  destruct (Z.ltb_spec maxval (n * base + dv c)); [lia|].
  cbn [orb]. apply IH; try assumption; lia.
Qed.

Lemma pu_digit_dec d : 0 <= d < 10 -> pu_digit (digit_char d) = Some d.
Proof.
  intros Hd. unfold pu_digit, digit_char.
  destruct (Z.leb_spec 48 (48 + d)); [|lia]. destruct (Z.leb_spec (48 + d) 57); [|lia].
  cbn [andb]. f_equal. lia.
Qed.

Lemma map_map_id (f g : Z -> Z) (P : Z -> Prop) l :
  (forall x, P x -> g (f x) = x) -> Forall P l -> map g (map f l) = l.
Proof.
  intros H Hl. induction Hl; cbn; [reflexivity|]. rewrite H, IHHl by assumption. reflexivity.
Qed.

(** parse (print n) = n, decimal, as encoding/json uses it (base 10, 64 bits) *)
Lemma parse_uint_itoa n : 0 <= n < 2 ^ 64 -> parse_uint (itoa n) 10 64 = PU_ok n.
Proof.
  intros Hn. unfold itoa. destruct (Z.ltb_spec n 0); [lia|].
  pose proof (digits_range 10 ltac:(lia) n ltac:(lia)) as Hr.
  pose proof (digits_nonempty 10 ltac:(lia) n ltac:(lia)) as Hne.
  pose proof (digits_value 10 ltac:(lia) n ltac:(lia)) as Hv.
  unfold parse_uint. destruct (map digit_char (digits 10 n)) eqn:E.
  { destruct (digits 10 n); [congruence|discriminate]. }
  rewrite <- E. clear E.
  assert (Hm : map (fun c => c - 48) (map digit_char (digits 10 n)) = digits 10 n).
  { apply map_map_id with (P := fun d => 0 <= d < 10); [|exact Hr]. intros; unfold digit_char; lia. }
  rewrite (pu_loop_ok 10 (2 ^ 64 - 1) (fun c => c - 48)); try lia.
  - rewrite Hm. fold (value 10 (digits 10 n)). rewrite Hv. reflexivity.
  - apply Forall_forall. intros c Hin. apply in_map_iff in Hin. destruct Hin as (d & <- & Hin).
    rewrite Forall_forall in Hr. specialize (Hr d Hin). split.
    + replace (digit_char d - 48) with d by (unfold digit_char; lia). apply pu_digit_dec. exact Hr.
    + unfold digit_char. lia.
  - rewrite Hm. fold (value 10 (digits 10 n)). lia.
Qed.

(** decimal value of the printed number, stated without the parser *)
Lemma itoa_value n : 0 <= n -> value 10 (map (fun c => c - 48) (itoa n)) = n.
Proof.
  intros Hn. unfold itoa. destruct (Z.ltb_spec n 0); [lia|].
  rewrite (map_map_id digit_char (fun c => c - 48) (fun d => 0 <= d < 10)).
  - apply digits_value; lia.
  - intros; unfold digit_char; lia.
  - apply digits_range; lia.
Qed.

Lemma itoa_digits n : 0 <= n -> Forall (fun c => 48 <= c <= 57) (itoa n).
Proof.
  intros Hn. unfold itoa. destruct (Z.ltb_spec n 0); [lia|].
  pose proof (digits_range 10 ltac:(lia) n Hn) as Hr.
  apply Forall_forall. intros c Hin. apply in_map_iff in Hin. destruct Hin as (d & <- & Hin).
  rewrite Forall_forall in Hr. specialize (Hr d Hin). unfold digit_char. lia.
Qed.

(** shape of a printed non-negative number: "0" or a non-zero digit followed by digits
    (exactly RFC 8259's [int] production) *)
Lemma itoa_shape n : 0 <= n ->
  itoa n = [48] \/ exists c r, itoa n = c :: r /\ 49 <= c <= 57 /\ Forall (fun c => 48 <= c <= 57) r.
Proof.
  intros Hn. pose proof (itoa_digits n Hn) as Hd. unfold itoa in *.
  destruct (Z.ltb_spec n 0); [lia|].
  destruct (digits_shape 10 ltac:(lia) n Hn) as [Hs Hh].
  pose proof (digits_value 10 ltac:(lia) n Hn) as Hv.
  destruct (digits 10 n) as [|d r] eqn:E; [contradiction|].
  cbn [map] in *. inversion Hd; subst.
  destruct (Z.eq_dec d 0) as [->|Hnz].
  - left. destruct r; [reflexivity|]. cbn in Hs. contradiction.
  - right. exists (digit_char d), (map digit_char r). repeat split; try assumption;
    unfold digit_char in *; lia.
Qed.

(** Atoi of one byte: what UnmarshalString asks of it *)
Lemma atoi_single c : atoi [c] = if is_digit c then Some (c - 48) else None.
Proof.
  unfold atoi. destruct (Z.eqb_spec c 45) as [->|H45]; [reflexivity|].
  destruct (Z.eqb_spec c 43) as [->|H43]; [reflexivity|].
  cbn [orb forallb]. destruct (is_digit c) eqn:E; [|reflexivity].
  unfold is_digit in E. apply andb_true_iff in E. destruct E as [E1 E2].
  apply Z.leb_le in E1, E2. cbn [andb map]. unfold value, value_from. cbn [fold_left].
  destruct (Z.ltb_spec (0 * 10 + (c - 48)) (2 ^ 63)); [f_equal; lia|lia].
Qed.
