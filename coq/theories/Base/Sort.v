(** Model of Go's [sort.Slice(x, less)] as the insertion sort that pdqsort runs for
    n <= 12 (sort/zsortfunc.go insertionSortLessFunc):

        for i := a + 1; i < b; i++ {
            for j := i; j > a && less(data[j], data[j-1]); j-- { swap(j, j-1) }
        }

    [ins x r] inserts [x] into the already processed prefix, which is kept REVERSED
    ([r]'s head is the element just left of [x]): [x] moves left while [less x y].

    SCOPE OF THE MODEL.  Go's pdqsort is not stable and for n > 12 it is a different
    algorithm (ninther pivot, partial insertion sorts, heap sort fallback).  [sort_slice]
    equals what Go computes
      - for every [less] whatsoever when n <= 12 (same algorithm, same comparisons), and
      - for every n when [less] is a strict total order on pairwise distinct keys:
        then BOTH return THE sorted permutation ([sort_slice_sorted], [sorted_unique]),
        provided Go's result is a sorted permutation, which is sort.Slice's contract for a
        strict weak order.
    The compile class (DESIGN 4.2) guarantees pairwise distinct keys, so the theorems about
    the compiler only use the second reading.  With a [less] that is not a strict weak
    order (defect F10) the model is faithful for n <= 12 only; the refutation witness has
    n = 2.

    This file contains the definitions and the lemmas about them (shared library file). *)
From Coq Require Import List Bool Permutation Sorted.
Import ListNotations.

Section SortSlice.
  Context {A : Type}.
  Variable less : A -> A -> bool.

  Fixpoint ins (x : A) (r : list A) : list A :=
    match r with
    | [] => [x]
    | y :: r' => if less x y then y :: ins x r' else x :: r
    end.

  Definition sort_rev (l : list A) (r : list A) : list A := fold_left (fun r x => ins x r) l r.
  Definition sort_slice (l : list A) : list A := rev (sort_rev l []).

  Lemma ins_perm : forall x r, Permutation (x :: r) (ins x r).
  Proof.
    induction r as [|y r IH]; cbn; [reflexivity|].
    destruct (less x y); [|reflexivity].
    rewrite perm_swap. now apply perm_skip.
  Qed.

  Lemma sort_rev_perm : forall l r, Permutation (l ++ r) (sort_rev l r).
  Proof.
    induction l as [|x l IH]; intros r; cbn; [reflexivity|].
    unfold sort_rev in *. cbn. rewrite <- IH.
    rewrite <- ins_perm. now rewrite Permutation_middle.
  Qed.

  (** the output is a permutation of the input, for EVERY [less] *)
  Theorem sort_slice_perm : forall l, Permutation l (sort_slice l).
  Proof.
    intros l. unfold sort_slice. rewrite <- Permutation_rev.
    rewrite <- sort_rev_perm. now rewrite app_nil_r.
  Qed.

  Lemma sort_slice_in : forall l x, In x (sort_slice l) <-> In x l.
  Proof.
    intros l x; split; intro H.
    - eapply Permutation_in; [symmetry; apply sort_slice_perm|exact H].
    - eapply Permutation_in; [apply sort_slice_perm|exact H].
  Qed.

  Lemma sort_slice_length : forall l, length (sort_slice l) = length l.
  Proof. intros l. symmetry. apply Permutation_length, sort_slice_perm. Qed.

  Lemma sort_slice_nil : sort_slice [] = [].
  Proof. reflexivity. Qed.

  (** ** Strict total order on pairwise distinct keys *)
  Section Ordered.
    Context {K : Type}.
    Variable key : A -> K.
    Hypothesis less_trans : forall a b c, less a b = true -> less b c = true -> less a c = true.
    Hypothesis less_asym : forall a b, less a b = true -> less b a = false.
    Hypothesis less_total : forall a b, key a <> key b -> less a b = true \/ less b a = true.

    Definition lt (a b : A) : Prop := less a b = true.
    Definition gt (a b : A) : Prop := less b a = true.

    Lemma ins_sorted : forall x r,
      StronglySorted gt r -> ~ In (key x) (map key r) -> StronglySorted gt (ins x r).
    Proof.
      induction r as [|y r IH]; intros Hs Hn; cbn.
      - constructor; constructor.
      - inversion Hs as [|? ? Hs' Hall]; subst.
        destruct (less x y) eqn:E.
        + constructor.
          * apply IH; [exact Hs'|]. intro Hin; apply Hn; now right.
          * rewrite Forall_forall in *. intros z Hz.
            apply (Permutation_in _ (Permutation_sym (ins_perm x r))) in Hz.
            destruct Hz as [<-|Hz]; [exact E|now apply Hall].
        + constructor; [exact Hs|].
          assert (Hyx : less y x = true).
          { destruct (less_total x y) as [H|H]; [|congruence|exact H].
            intro Hk. apply Hn. left. now symmetry. }
          constructor; [exact Hyx|].
          rewrite Forall_forall in *. intros z Hz. unfold gt.
          eapply less_trans; [apply Hall, Hz|exact Hyx].
    Qed.

    Lemma sort_rev_sorted : forall l r,
      StronglySorted gt r -> NoDup (map key (l ++ r)) -> StronglySorted gt (sort_rev l r).
    Proof.
      induction l as [|x l IH]; intros r Hs Hn; [exact Hs|].
      unfold sort_rev in *. cbn. apply IH.
      - apply ins_sorted; [exact Hs|].
        cbn in Hn. inversion Hn as [|? ? Hx _]; subst.
        intro Hin. apply Hx. rewrite map_app. apply in_or_app. now right.
      - eapply Permutation_NoDup; [|exact Hn].
        apply Permutation_map. cbn.
        rewrite Permutation_middle. apply Permutation_app_head. apply ins_perm.
    Qed.

    Lemma sorted_rev : forall r, StronglySorted gt r -> StronglySorted lt (rev r).
    Proof.
      induction r as [|y r IH]; intros Hs; cbn; [constructor|].
      inversion Hs as [|? ? Hs' Hall]; subst.
      specialize (IH Hs').
      assert (G : forall l, StronglySorted lt l -> Forall (fun z => lt z y) l -> StronglySorted lt (l ++ [y])).
      { induction l as [|a l IHl]; intros Hl Hf; cbn.
        - constructor; constructor.
        - inversion Hl; subst. inversion Hf; subst. constructor; [now apply IHl|].
          apply Forall_app; split; [assumption|]. constructor; [assumption|constructor]. }
      apply G; [exact IH|].
      rewrite Forall_forall in *. intros z Hz. apply in_rev in Hz. now apply Hall.
    Qed.

    (** with pairwise distinct keys the output is sorted *)
    Theorem sort_slice_sorted : forall l, NoDup (map key l) -> StronglySorted lt (sort_slice l).
    Proof.
      intros l Hn. unfold sort_slice. apply sorted_rev.
      apply sort_rev_sorted; [constructor|now rewrite app_nil_r].
    Qed.

    (** a list has at most one sorted permutation *)
    Theorem sorted_unique : forall l1 l2,
      StronglySorted lt l1 -> StronglySorted lt l2 -> Permutation l1 l2 -> l1 = l2.
    Proof.
      induction l1 as [|a l1 IH]; intros l2 H1 H2 Hp.
      - apply Permutation_nil in Hp. now subst.
      - destruct l2 as [|b l2]; [apply Permutation_sym, Permutation_nil in Hp; discriminate|].
        inversion H1 as [|? ? H1' Ha]; subst. inversion H2 as [|? ? H2' Hb]; subst.
        assert (a = b) as ->.
        { assert (Hina : In a (b :: l2)) by (eapply Permutation_in; [exact Hp|now left]).
          assert (Hinb : In b (a :: l1)) by (eapply Permutation_in; [symmetry; exact Hp|now left]).
          destruct Hina as [->|Hina]; [reflexivity|].
          destruct Hinb as [->|Hinb]; [reflexivity|].
          rewrite Forall_forall in Ha, Hb.
          specialize (Ha _ Hinb). specialize (Hb _ Hina). unfold lt in *.
          apply less_asym in Ha. congruence. }
        f_equal. apply IH; [assumption|assumption|].
        eapply Permutation_cons_inv; exact Hp.
    Qed.

    (** hence sorting is a function of the multiset: this is what makes the result of
        [sort.Slice] independent of the algorithm and of the input order *)
    Theorem sort_slice_perm_eq : forall l l',
      NoDup (map key l) -> Permutation l l' -> sort_slice l = sort_slice l'.
    Proof.
      intros l l' Hn Hp. apply sorted_unique.
      - now apply sort_slice_sorted.
      - apply sort_slice_sorted. eapply Permutation_NoDup; [|exact Hn]. now apply Permutation_map.
      - rewrite <- (sort_slice_perm l), <- (sort_slice_perm l'). exact Hp.
    Qed.

    Theorem sort_slice_is_the_sorted : forall l s,
      NoDup (map key l) -> Permutation l s -> StronglySorted lt s -> sort_slice l = s.
    Proof.
      intros l s Hn Hp Hs. apply sorted_unique; [now apply sort_slice_sorted|exact Hs|].
      now rewrite <- (sort_slice_perm l).
    Qed.
  End Ordered.
End SortSlice.

(** sorting commutes with a map that does not change what [less] sees *)
Lemma ins_map : forall {A} (less : A -> A -> bool) (f : A -> A),
  (forall a b, less (f a) (f b) = less a b) ->
  forall x r, ins less (f x) (map f r) = map f (ins less x r).
Proof.
  intros A less f Hf x r. induction r as [|y r IH]; cbn; [reflexivity|].
  rewrite Hf. destruct (less x y); cbn; [now rewrite IH|reflexivity].
Qed.

Lemma sort_slice_map : forall {A} (less : A -> A -> bool) (f : A -> A),
  (forall a b, less (f a) (f b) = less a b) ->
  forall l, sort_slice less (map f l) = map f (sort_slice less l).
Proof.
  intros A less f Hf l. unfold sort_slice. rewrite map_rev. f_equal.
  change (@nil A) with (map f (@nil A)) at 1. generalize (@nil A).
  induction l as [|x l IH]; intros r; [reflexivity|].
  unfold sort_rev in *. cbn. rewrite (ins_map less f Hf). apply IH.
Qed.
