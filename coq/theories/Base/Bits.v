(** Shared lemmas about [Z.testbit] and machine words. *)
From Coq Require Import ZArith Bool Lia.
Open Scope Z_scope.

Lemma testbit_small a n m : 0 <= a < 2 ^ n -> n <= m -> Z.testbit a m = false.
Proof.
  intros [Ha Hlt] Hnm.
  destruct (Z.eq_dec a 0) as [->|Hne]; [apply Z.bits_0|].
  apply Z.bits_above_log2; [lia|].
  assert (0 <= n) by (destruct (Z_lt_le_dec n 0) as [Hn|]; [rewrite Z.pow_neg_r in Hlt by lia; lia|lia]).
  assert (Z.log2 a < n) by (apply Z.log2_lt_pow2; lia). lia.
Qed.

Lemma bounded_of_bits a n :
  0 <= n -> 0 <= a -> (forall m, n <= m -> Z.testbit a m = false) -> a < 2 ^ n.
Proof.
  intros Hn Ha H.
  destruct (Z_lt_le_dec a (2 ^ n)) as [|Hge]; [assumption|exfalso].
  assert (Hpos : 0 < a) by (pose proof (Z.pow_pos_nonneg 2 n ltac:(lia) Hn); lia).
  pose proof (Z.bit_log2 a Hpos) as Hb.
  rewrite H in Hb; [discriminate|].
  apply Z.log2_le_pow2; lia.
Qed.

Lemma mod_pow2_bits a n m :
  0 <= n -> Z.testbit (a mod 2 ^ n) m = (m <? n) && Z.testbit a m.
Proof.
  intros Hn. destruct (m <? n) eqn:E.
  - apply Z.ltb_lt in E. rewrite Z.mod_pow2_bits_low by lia. reflexivity.
  - apply Z.ltb_ge in E. rewrite Z.mod_pow2_bits_high by lia. reflexivity.
Qed.

Lemma land_pow2 u n : 0 <= n -> Z.land u (2 ^ n) = if Z.testbit u n then 2 ^ n else 0.
Proof.
  intros Hn. apply Z.bits_inj'. intros m Hm.
  rewrite Z.land_spec, Z.pow2_bits_eqb by lia.
  destruct (Z.eqb_spec n m) as [->|Hne].
  - destruct (Z.testbit u m); [rewrite Z.pow2_bits_eqb, Z.eqb_refl by lia; reflexivity|].
    rewrite Z.bits_0. reflexivity.
  - rewrite andb_false_r. destruct (Z.testbit u n).
    + rewrite Z.pow2_bits_eqb by lia. symmetry. apply Z.eqb_neq. exact Hne.
    + rewrite Z.bits_0. reflexivity.
Qed.

(** the top bit of an [l]-bit word *)
Lemma testbit_top u l : 1 <= l -> 0 <= u < 2 ^ l -> Z.testbit u (l - 1) = (2 ^ (l - 1) <=? u).
Proof.
  intros Hl Hu.
  assert (E : 2 ^ l = 2 * 2 ^ (l - 1)).
  { replace l with (Z.succ (l - 1)) at 1 by lia. rewrite Z.pow_succ_r by lia. reflexivity. }
  assert (Hp : 0 < 2 ^ (l - 1)) by (apply Z.pow_pos_nonneg; lia).
  rewrite Z.testbit_odd, Z.shiftr_div_pow2 by lia.
  destruct (Z.leb_spec (2 ^ (l - 1)) u) as [Hge|Hlt].
  - assert (u / 2 ^ (l - 1) = 1) by (symmetry; apply Z.div_unique with (r := u - 2 ^ (l - 1)); lia).
    rewrite H. reflexivity.
  - rewrite Z.div_small by lia. reflexivity.
Qed.

(** complement inside a 64-bit word *)
Lemma not_bits x k :
  0 <= x < 2 ^ 64 -> 0 <= k -> Z.testbit (2 ^ 64 - 1 - x) k = (k <? 64) && negb (Z.testbit x k).
Proof.
  intros Hx Hk.
  assert (E : 2 ^ 64 - 1 - x = (Z.lnot x) mod 2 ^ 64).
  { unfold Z.lnot. apply Z.mod_unique with (q := -1); [left|]; lia. }
  rewrite E, mod_pow2_bits by lia.
  destruct (k <? 64); [|reflexivity]. rewrite Z.lnot_spec by lia. reflexivity.
Qed.

Lemma byte_bits_high b k : 0 <= b < 256 -> 8 <= k -> Z.testbit b k = false.
Proof. intros. apply testbit_small with (n := 8); [change (2 ^ 8) with 256|]; lia. Qed.

Lemma not_bits_w n x k :
  0 <= n -> 0 <= x < 2 ^ n -> 0 <= k -> Z.testbit (2 ^ n - 1 - x) k = (k <? n) && negb (Z.testbit x k).
Proof.
  intros Hn Hx Hk.
  assert (E : 2 ^ n - 1 - x = (Z.lnot x) mod 2 ^ n).
  { unfold Z.lnot. apply Z.mod_unique with (q := -1); [left|]; lia. }
  rewrite E, mod_pow2_bits by lia.
  destruct (k <? n); [|reflexivity]. rewrite Z.lnot_spec by lia. reflexivity.
Qed.

Lemma ones_bits l m : 0 <= l -> Z.testbit (Z.ones l) m = (0 <=? m) && (m <? l).
Proof.
  intros Hl. destruct (Z.leb_spec 0 m).
  - rewrite Z.testbit_ones_nonneg by lia. reflexivity.
  - rewrite Z.testbit_neg_r by lia. reflexivity.
Qed.

Lemma mod_mod_pow2 w a b : 0 <= a <= b -> (w mod 2 ^ b) mod 2 ^ a = w mod 2 ^ a.
Proof.
  intros H. apply Z.bits_inj'. intros m Hm. rewrite !mod_pow2_bits by lia.
  destruct (Z.ltb_spec m a), (Z.ltb_spec m b); cbn; try reflexivity; lia.
Qed.
