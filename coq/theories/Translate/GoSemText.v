(** GoSemText: the reading of Go's string operations and of the text-conversion library functions
    used by /repo/frame.go (String, UnmarshalString) and /repo/frame_json.go (JSON), against which
    harness/translate/main.go emits the functions of group [frametext] of coq/translate/Equiv.v.

    TRUSTED (added to the trusted base of the translation tie by this file; the numeric / text
    definitions themselves are the ones of Base/Dec.v and Base/Hex.v that the hand models use, so
    what is trusted here is WHICH Go library behaviour each name stands for):

    strings (Go spec "String types", "Index expressions", "Slice expressions")
      - a [string] is the [list Z] of its bytes; [len(s)] = [bytes_len]; [s + t] = [s ++ t];
        [s[i]] = [bytes_get s i] and [s[lo:hi]] / [s[lo:]] / [s[:hi]] = [bytes_slice s lo hi]
        (GoSem.v).  THE RUN-TIME PANICS of these two operations and of [a[lo:hi]] on a [N]byte ARRAY
        with non-constant bounds ARE MODELLED in the functions of this group: the translator emits,
        in front of the statement that contains the operation, the test
            [if negb (guard) then None (* panic *) else ...]
        with guard [go_index_ok i (len s)] = 0 <= i < len s, resp. [go_slice_ok lo hi cap] =
        0 <= lo <= hi <= cap (cap = len s for a string, N for an array), and the function returns
        [option] ([None] = run-time panic, every [return] is [Some]).  An operation with a guard
        inside the right operand of [&&] / [||] (evaluated conditionally) or inside a loop is
        rejected by the translator.
    library functions (Go 1.23 standard library)
      - [go_fmt_hex_upper w n] / [go_fmt_hex_lower w n]: [fmt.Sprintf("%0wX", n)] / [("%0wx", n)]
        for an UNSIGNED integer n and a constant width w: the minimal hexadecimal digits of n,
        upper / lower case, left-padded with '0' to at least w characters (Hex.fmt_hex_upper).
        Only these two verb shapes with exactly one unsigned integer operand are accepted.
      - [go_strconv_Itoa n]: [strconv.Itoa(n)] = minimal decimal digits, '-' for negatives (Dec.itoa).
      - [go_hex_EncodeToString b]: [encoding/hex.EncodeToString] = two LOWER-case digits per byte.
      - [go_strings_ToUpper s]: [strings.ToUpper(s)] READ ONLY FOR ASCII ARGUMENTS (every byte < 128:
        'a'..'z' -> 'A'..'Z', everything else unchanged - the function's ASCII fast path).  For a
        string with a byte >= 128 this reading is NOT what Go computes (Unicode case mapping); the
        only call site (Frame.String) applies it to the output of hex.EncodeToString, which is ASCII
        (Equiv.v, lemma [hex_encode_ascii], discharges that side condition for all inputs).
      - [go_strings_Split1 s c]: [strings.Split(s, sep)] for a CONSTANT ONE-BYTE separator sep = [c]:
        the pieces of s between the occurrences of c, in order; always at least one piece
        ([Split("", "#")] = [""]); n occurrences give n+1 pieces.  The result ([]string) is the
        list of the pieces; [len(parts)] = [list_len], [parts[k]] = [go_strlist_get] with the index
        panic modelled by the guard [go_index_ok k (len parts)].
      - [go_strconv_ParseUint s base bits]: [strconv.ParseUint(s, base, bits)] for constant
        2 <= base <= 36, 1 <= bits <= 64 as the pair (value, error): (n, nil) on success;
        (0, non-nil) on a syntax error; (2^bits-1, non-nil) on a range error (Dec.parse_uint is the
        transcription of the library loop).
      - [go_strconv_Atoi s]: [strconv.Atoi(s)] (int = 64 bit) as (value, error); (n, nil) on success.
        THE VALUE RETURNED TOGETHER WITH A NON-NIL ERROR IS NOT MODELLED (0 stands for it; Go returns
        0 for a syntax error and the clamped value for a range error): a function that used it would
        be tied only up to that identification (frame.go does not use it).
      - [go_hex_DecodeString s]: [encoding/hex.DecodeString(s)] as (bytes, error): all bytes and nil
        iff s has even length and only hex digits of either case.  THE PARTIAL RESULT RETURNED
        TOGETHER WITH A NON-NIL ERROR IS NOT MODELLED (the empty slice stands for it); frame.go and
        frame_json.go discard it.  The returned slice is freshly allocated (no aliasing).
      - errors are nil / non-nil (GoSem.v); [err != nil] on a local error variable is [negb err].
    append-style byte building (group [render]: pkg/cantext/encode.go, pkg/canjson/encode.go)
      - [go_append a x]: the CONTENTS of [append(a, x...)] (x a string or a []byte) and of
        [append(a, b1, .., bn)] (bytes): a ++ x.  Accepted only in the shape [v = append(v, ...)] /
        [v = strconv.AppendXxx(v, ...)] / [v = F(v, ...)] (F a translated function returning []byte) on a
        []byte variable v - a local bound to make(...) or a []byte PARAMETER, which is then a rebound
        local: the function returns the final contents.  Whether the result shares the argument's
        backing array (it does when the capacity suffices) is NOT represented: a caller that keeps
        using the old slice header could observe it; Gen/Render.v says the same about its buffers.
      - [go_strconv_FormatUint_10 / _16 n]: [strconv.FormatUint(n, 10 / 16)] = the printers
        [RenderNum.dec_u] / [RenderNum.hex_u] THE HAND MODEL Gen/Render.v USES (minimal digits, lower
        case); [go_strconv_FormatInt_10] = [RenderNum.dec_s]; [go_strconv_FormatBool] =
        [RenderNum.bool_text] ("true" / "false"); [strconv.AppendUint(buf, n, b)] =
        [go_append buf (FormatUint n b)], likewise AppendInt / AppendBool.  Other bases are rejected.
      - [strconv.FormatFloat(f, 'g' | 'f', -1, 64)] and [strconv.AppendFloat(buf, f, 'g' | 'f', -1, 64)]
        (shortest text that parses back to f) HAVE NO MODEL: they are ORACLES.  Every translated
        function that uses one takes [o_strconv_FormatFloat_g] / [o_strconv_FormatFloat_f : Z -> go_string]
        as a leading parameter, applied to the BIT PATTERN [go_math_Float64bits f] (one NaN pattern) -
        exactly as Gen/Render.v carries them (segments [FloatG bits] / [FloatF bits], rendered by the
        Section variables [rG] / [rF] of Gen/RenderSpec.v).  The T_ lemmas hold for every such function.
        Any other format, precision or bit size is rejected.
      - [string(b)], [[]byte(s)] and conversions between string types (json.Number) keep the bytes.

    DEFINITIONS ONLY. *)
From Coq Require Import ZArith List Bool.
From CanVerif Require Import Base.Dec Base.Hex Translate.GoSem Gen.RenderNum.
Import ListNotations.
Open Scope Z_scope.

(** * guards of the modelled run-time panics *)
Definition go_index_ok (i n : Z) : bool := (0 <=? i) && (i <? n).
Definition go_slice_ok (lo hi cap : Z) : bool := (0 <=? lo) && (lo <=? hi) && (hi <=? cap).

(** * string concatenation *)
Definition go_string_cat (a b : go_string) : go_string := a ++ b.

(** * formatting *)
Definition go_fmt_hex_upper (w n : Z) : go_string := fmt_hex_upper (Z.to_nat w) n.
Definition go_fmt_hex_lower (w n : Z) : go_string := map hexdig_lower (pad_left (Z.to_nat w) (digits 16 n)).
Definition go_strconv_Itoa (n : Z) : go_string := itoa n.
Definition go_hex_EncodeToString (b : go_bytes) : go_string := hex_encode b.
Definition go_strings_ToUpper (s : go_string) : go_string := ascii_upper s.

(** * strings.Split with a one-byte separator; []string as the list of the pieces *)
Fixpoint go_strings_Split1 (s : go_string) (c : Z) : list go_string :=
  match s with
  | [] => [[]]
  | x :: r =>
    if x =? c then [] :: go_strings_Split1 r c
    else match go_strings_Split1 r c with
         | h :: t => (x :: h) :: t
         | [] => [[x]]
         end
  end.
Definition go_strlist_get (l : list go_string) (i : Z) : go_string := nth (Z.to_nat i) l [].

(** * parsing: (value, error) pairs *)
Definition go_strconv_ParseUint (s : go_string) (base bits : Z) : Z * err :=
  match parse_uint s base bits with
  | PU_ok n => (n, err_nil)
  | PU_syntax => (0, err_nonnil)
  | PU_range => (2 ^ bits - 1, err_nonnil)
  end.
Definition go_strconv_Atoi (s : go_string) : Z * err :=
  match atoi s with
  | Some n => (n, err_nil)
  | None => (0, err_nonnil)
  end.
Definition go_hex_DecodeString (s : go_string) : go_bytes * err :=
  match hex_decode s with
  | Some b => (b, err_nil)
  | None => (bytes_nil, err_nonnil)
  end.

(** * append-style byte building and the strconv printers of the renderers (group render) *)
Definition go_append (a x : list Z) : go_bytes := a ++ x.
Definition go_strconv_FormatUint_10 (n : Z) : go_string := dec_u n.
Definition go_strconv_FormatUint_16 (n : Z) : go_string := hex_u n.
Definition go_strconv_FormatInt_10 (n : Z) : go_string := dec_s n.
Definition go_strconv_FormatBool (b : bool) : go_string := bool_text b.

(** * [*string] / [*uint8] / [*bool] struct members (filled by json.Unmarshal): [option] of the base
    type, nil = [None]; [p != nil] is [go_notnil p], [*p] is [go_deref zero p] (GoSem.v; the
    nil-dereference panic is NOT modelled: the zero value is read).  [json.Unmarshal(b, &x)] itself has
    no model here: it is an ORACLE parameter [o_json_Unmarshal_S : go_bytes -> S -> err * S] of the
    translated function (document, x before -> error, x after); Equiv.v states the lemma for every
    oracle that agrees with the hand model's [FrameJSON.read_doc]. *)
Definition go_notnil {A : Type} (p : option A) : bool := match p with Some _ => true | None => false end.
