(** GoSemFloat: the reading of Go's float64 / float32 semantics against which
    harness/translate/main.go emits the floating-point parts of [Translated.v]
    (continuation of Translate/GoSem.v; imported by Translated.v only when a translated function
    mentions a float type).

    Self-contained on Flocq 4.1 (it does NOT import the hand model Descriptor/Physical.v; the two
    are written against the same Flocq operations, so coq/translate/Equiv.v relates them by
    unfolding).

    TRUSTED (additions to the list in GoSem.v; reference: The Go Programming Language
    Specification, "Numeric types", "Arithmetic operators / Floating-point operators",
    "Comparison operators", "Conversions between numeric types", "Constant expressions";
    package math; GOARCH=amd64):

      - float64 is IEEE-754 binary64 = Flocq [binary_float 53 1024], float32 is binary32 =
        [binary_float 24 128], in the [BinarySingleNaN] presentation: ONE NaN.  NaN sign and
        payload are not modelled: [go_math_Float32bits]/[go_math_Float64bits] of a NaN give the
        canonical quiet NaN (0x7fc00000 / 0x7ff8000000000000), [go_math_Float32frombits] maps
        every NaN pattern to the one NaN.  This is the only place where the model identifies
        values that Go distinguishes.
      - each of [+ - * /] on float64 is ONE IEEE operation rounded to nearest, ties to even
        ([Bplus/Bminus/Bmult/Bdiv mode_NE]): amd64 ADDSD/SUBSD/MULSD/DIVSD.  NO FUSION: the Go
        specification allows an implementation to fuse [x*y + z] (and only across operations that
        are not separated by an assignment or an explicit conversion); the gc compiler does not
        fuse on amd64.  On arm64/ppc64/s390x a statement like [x*y + z] WOULD be fused; the
        translated functions of signal.go put every operation in its own assignment statement
        ([result *= s.Scale; result += s.Offset]), which forbids fusion on every architecture.
        float32 arithmetic is outside the translator's subset.
      - unary [-] flips the sign bit ([Bopp]; NaN stays the NaN).
      - comparisons are IEEE: [==] [<] [<=] are [Beqb] [Bltb] [Bleb] (false when an operand is
        NaN; -0 == +0); [a != b] is printed as [negb (go_feq64 a b)] (true on NaN), [a > b] as
        [go_flt64 b a], [a >= b] as [go_fle64 b a].
      - a float constant is the IEEE bit pattern of the value go/types' exact constant arithmetic
        gives after rounding to the constant's type (go/constant.Float64Val / Float32Val: nearest,
        ties to even); the translator prints the pattern in hexadecimal ([go_f64_const]); Go
        constants are never -0, infinite or NaN.
      - float64(i) for an int64/uint64 (any integer type) [i]: the integer correctly rounded to
        nearest-even ([binary_normalize]; CVTSQ2SD and the uint64 sequence of the gc compiler);
        0 gives +0.
      - float32(x) for a float64 [x]: IEEE rounding to binary32 (CVTSD2SS: nearest-even, overflow
        to infinity, zeros and infinities keep their sign); float64(f) for a float32: exact.
        T(x) with x already of type T is the identity (every operation is already rounded to its
        static type).  Conversions float -> integer are outside the subset.
      - math.Max / math.Min: the special cases of /usr/lib/go/src/math/dim.go IN THAT ORDER
        (Max: +Inf first, then NaN, then the two zeros, then [x > y]; Min: -Inf, NaN, zeros,
        [x < y]); dim_amd64.s computes the same function.  math.IsNaN(x) = [x != x].
      - math.Float32bits/Float32frombits/Float64bits/Float64frombits: the IEEE interchange
        encodings (Flocq [Bits]), modulo the NaN remark above.
      - the load through a reinterpreted pointer, Go: star ( star T )( unsafe.Pointer( &x ) ), for a local variable [x] (the translator accepts exactly:
        uint64 -> float32, uint32 -> float32, uint64 -> float64, float32 -> uint32,
        float64 -> uint64): amd64 is little-endian, so the first sizeof(T) bytes of [x] are its
        LOW bits: [go_unsafe_low 32 x = x mod 2^32], then the frombits/bits functions above.

    DEFINITIONS ONLY; sanity lemmas are in GoSemFloatProofs.v. *)
From Coq Require Import ZArith Bool.
From Flocq Require Import Core BinarySingleNaN.
From Flocq Require Binary Bits.
Open Scope Z_scope.

Definition go_f64 := binary_float 53 1024.
Definition go_f32 := binary_float 24 128.

#[global] Instance go_Hprec64 : FLX.Prec_gt_0 53 := eq_refl.
#[global] Instance go_Hmax64 : Prec_lt_emax 53 1024 := eq_refl.
#[global] Instance go_Hprec32 : FLX.Prec_gt_0 24 := eq_refl.
#[global] Instance go_Hmax32 : Prec_lt_emax 24 128 := eq_refl.

(** * Bit patterns *)
Definition go_math_Float64frombits (z : Z) : go_f64 := Binary.B2BSN 53 1024 (Bits.b64_of_bits z).
Definition go_math_Float64bits (x : go_f64) : Z :=
  Bits.bits_of_b64 (Binary.BSN2B 53 1024 Bits.default_nan_pl64 x).
Definition go_math_Float32frombits (z : Z) : go_f32 := Binary.B2BSN 24 128 (Bits.b32_of_bits z).
Definition go_math_Float32bits (x : go_f32) : Z :=
  Bits.bits_of_b32 (Binary.BSN2B 24 128 Bits.default_nan_pl32 x).

(** constants, printed by the translator as their bit pattern *)
Definition go_f64_const (bits : Z) : go_f64 := go_math_Float64frombits bits.
Definition go_f32_const (bits : Z) : go_f32 := go_math_Float32frombits bits.

(** the low [n] bits of an unsigned integer (first n/8 bytes on a little-endian host) *)
Definition go_unsafe_low (n x : Z) : Z := x mod 2 ^ n.

(** * Arithmetic, one correctly rounded operation each *)
Definition go_fadd64 (x y : go_f64) : go_f64 := Bplus mode_NE x y.
Definition go_fsub64 (x y : go_f64) : go_f64 := Bminus mode_NE x y.
Definition go_fmul64 (x y : go_f64) : go_f64 := Bmult mode_NE x y.
Definition go_fdiv64 (x y : go_f64) : go_f64 := Bdiv mode_NE x y.
Definition go_fneg64 (x : go_f64) : go_f64 := Bopp x.

(** * Comparisons *)
Definition go_feq64 (x y : go_f64) : bool := Beqb x y.
Definition go_flt64 (x y : go_f64) : bool := Bltb x y.
Definition go_fle64 (x y : go_f64) : bool := Bleb x y.

(** * Conversions *)
Definition go_f64_of_int (z : Z) : go_f64 := binary_normalize 53 1024 _ _ mode_NE z 0 false.

Definition go_f32_of_f64 (x : go_f64) : go_f32 :=
  match x with
  | B754_zero s => B754_zero s
  | B754_infinity s => B754_infinity s
  | B754_nan => B754_nan
  | B754_finite s m e _ => binary_normalize 24 128 _ _ mode_NE (cond_Zopp s (Zpos m)) e s
  end.

Definition go_f64_of_f32 (x : go_f32) : go_f64 :=
  match x with
  | B754_zero s => B754_zero s
  | B754_infinity s => B754_infinity s
  | B754_nan => B754_nan
  | B754_finite s m e _ => binary_normalize 53 1024 _ _ mode_NE (cond_Zopp s (Zpos m)) e s
  end.

(** * package math *)
Definition go_is_pinf (x : go_f64) : bool := match x with B754_infinity false => true | _ => false end.
Definition go_is_ninf (x : go_f64) : bool := match x with B754_infinity true => true | _ => false end.
Definition go_is_zero (x : go_f64) : bool := match x with B754_zero _ => true | _ => false end.

Definition go_math_IsNaN (x : go_f64) : bool := is_nan x.

(** math.Max (dim.go: func max) *)
Definition go_math_Max (x y : go_f64) : go_f64 :=
  if go_is_pinf x || go_is_pinf y then B754_infinity false
  else if is_nan x || is_nan y then B754_nan
  else if go_is_zero x && go_is_zero y then (if Bsign x then y else x)
  else if Bltb y x then x else y.

(** math.Min (dim.go: func min) *)
Definition go_math_Min (x y : go_f64) : go_f64 :=
  if go_is_ninf x || go_is_ninf y then B754_infinity true
  else if is_nan x || is_nan y then B754_nan
  else if go_is_zero x && go_is_zero y then (if Bsign x then x else y)
  else if Bltb x y then x else y.
