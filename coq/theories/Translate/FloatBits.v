(** FloatBits: Go's float64 comparisons [==] and [<] computed on IEEE-754 binary64 BIT PATTERNS
    (sign-magnitude key order; +0 = -0; NaN unordered) agree with Flocq's [Beqb]/[Bltb] on the
    decoded floats.  Used by coq/translate/Equiv.v (group apidecide) to relate the Flocq-free
    decision functions of Gen/Api.v to the translated Go source. *)
From Coq Require Import ZArith Bool Lia.
From Flocq Require Import Core BinarySingleNaN.
From Flocq Require Binary Bits.
From CanVerif Require Import Translate.GoSemFloat.
Open Scope Z_scope.

Definition bits_sign (b : Z) : bool := 2 ^ 63 <=? b.
Definition bits_mag (b : Z) : Z := b mod 2 ^ 63.
Definition bits_inf_mag : Z := 0x7FF0000000000000.
Definition bits_is_nan (b : Z) : bool := bits_inf_mag <? bits_mag b.
Definition bits_key (b : Z) : Z := if bits_sign b then - bits_mag b else bits_mag b.
Definition bits_eqb (a b : Z) : bool :=
  negb (bits_is_nan a) && negb (bits_is_nan b) && (bits_key a =? bits_key b).
Definition bits_ltb (a b : Z) : bool :=
  negb (bits_is_nan a) && negb (bits_is_nan b) && (bits_key a <? bits_key b).

(** * Decoding a bit pattern: the [spec_float] behind [go_math_Float64frombits] *)

Lemma B2SF_frombits z :
  B2SF (go_math_Float64frombits z) = Binary.FF2SF (Bits.binary_float_of_bits_aux 52 11 z).
Proof.
  unfold go_math_Float64frombits, Bits.b64_of_bits, Bits.binary_float_of_bits.
  rewrite Binary.B2SF_B2BSN, Binary.B2SF_FF2B. reflexivity.
Qed.

(** The decoded value, classified; [g] is the magnitude (low 63 bits) of the pattern.  A finite
    value [p * 2^ex] (subnormal: [ex = -1074], [p < 2^52]; normal: [2^52 <= p < 2^53]) has
    magnitude [(ex + 1074) * 2^52 + p]: this is what makes the integer order of the magnitudes
    the order of the values. *)
Inductive dec_class (s : bool) (g : Z) : SpecFloat.spec_float -> Prop :=
  | DC_zero : g = 0 -> dec_class s g (SpecFloat.S754_zero s)
  | DC_fin p ex :
      -1074 <= ex <= 971 -> Z.pos p < 9007199254740992 ->
      (-1074 < ex -> 4503599627370496 <= Z.pos p) ->
      g = (ex + 1074) * 4503599627370496 + Z.pos p ->
      dec_class s g (SpecFloat.S754_finite s p ex)
  | DC_inf : g = 9218868437227405312 -> dec_class s g (SpecFloat.S754_infinity s)
  | DC_nan : 9218868437227405312 < g < 9223372036854775808 ->
      dec_class s g SpecFloat.S754_nan.

Lemma pow2_52 : 2 ^ 52 = 4503599627370496. Proof. reflexivity. Qed.
Lemma pow2_11 : 2 ^ 11 = 2048. Proof. reflexivity. Qed.
Lemma pow2_63 : 2 ^ 63 = 9223372036854775808. Proof. reflexivity. Qed.
Lemma pow2_64 : 2 ^ 64 = 18446744073709551616. Proof. reflexivity. Qed.
Lemma emin64 : SpecFloat.emin (52 + 1) (2 ^ (11 - 1)) = -1074. Proof. reflexivity. Qed.

#[local] Ltac Zify.zify_post_hook ::= Z.div_mod_to_equations.

Lemma frombits_class z : 0 <= z < 2 ^ 64 ->
  dec_class (bits_sign z) (bits_mag z) (B2SF (go_math_Float64frombits z)).
Proof.
  intros Hz. rewrite B2SF_frombits.
  unfold Bits.binary_float_of_bits_aux, Bits.split_bits, bits_sign, bits_mag.
  rewrite emin64. rewrite pow2_64 in Hz. rewrite !pow2_52, !pow2_11, !pow2_63.
  change (4503599627370496 * 2048) with 9223372036854775808.
  change (2048 - 1) with 2047.
  set (s := 9223372036854775808 <=? z).
  assert (He : 0 <= (z / 4503599627370496) mod 2048 < 2048) by (apply Z.mod_pos_bound; lia).
  assert (Hm : 0 <= z mod 4503599627370496 < 4503599627370496) by (apply Z.mod_pos_bound; lia).
  assert (Hg : z mod 9223372036854775808 =
               (z / 4503599627370496) mod 2048 * 4503599627370496 + z mod 4503599627370496).
  { clear s. lia. }
  revert He Hm Hg.
  generalize ((z / 4503599627370496) mod 2048) (z mod 4503599627370496) (z mod 9223372036854775808).
  clear Hz. intros e m g He Hm Hg.
  destruct (Zeq_bool_spec e 0) as [E0|E0].
  - destruct m as [|p|p]; cbn [Binary.FF2SF].
    + apply DC_zero. lia.
    + apply DC_fin; lia.
    + lia.
  - destruct (Zeq_bool_spec e 2047) as [E1|E1].
    + destruct m as [|p|p]; cbn [Binary.FF2SF].
      * apply DC_inf. lia.
      * apply DC_nan. lia.
      * lia.
    + destruct (m + 4503599627370496) as [|p|p] eqn:Ep; cbn [Binary.FF2SF]; try lia.
      apply DC_fin; lia.
Qed.

(** * The comparisons *)

Lemma Pcompare_Eq p q : Pos.compare_cont Eq p q = Pos.compare p q.
Proof. reflexivity. Qed.

Lemma class_cmp sa ga fa sb gb fb :
  dec_class sa ga fa -> dec_class sb gb fb ->
  SpecFloat.SFcompare fa fb =
    if (9218868437227405312 <? ga) || (9218868437227405312 <? gb) then None
    else Some ((if sa then - ga else ga) ?= (if sb then - gb else gb)).
Proof.
  intros [Ha|pa ea Ha1 Ha2 Ha3 Ha|Ha|Ha] [Hb|pb eb Hb1 Hb2 Hb3 Hb|Hb|Hb];
    cbn [SpecFloat.SFcompare];
    repeat match goal with
    | |- context [?x <? ?y] => destruct (Z.ltb_spec x y); try lia
    end; cbn [orb]; try reflexivity.
  all: try (destruct sa, sb; f_equal; symmetry;
            first [ apply Z.compare_eq_iff; lia
                  | apply Z.compare_lt_iff; lia
                  | apply Z.compare_gt_iff; lia ]).
  (* finite / finite *)
  destruct sa, sb; f_equal; symmetry.
  - destruct (Z.compare_spec ea eb) as [E|E|E].
    + subst eb. rewrite Pcompare_Eq.
      destruct (Pos.compare_spec pa pb) as [P|P|P]; cbn [CompOpp].
      * apply Z.compare_eq_iff; subst; lia.
      * apply Z.compare_gt_iff; lia.
      * apply Z.compare_lt_iff; lia.
    + apply Z.compare_gt_iff; lia.
    + apply Z.compare_lt_iff; lia.
  - apply Z.compare_lt_iff; lia.
  - apply Z.compare_gt_iff; lia.
  - destruct (Z.compare_spec ea eb) as [E|E|E].
    + subst eb. rewrite Pcompare_Eq.
      destruct (Pos.compare_spec pa pb) as [P|P|P].
      * apply Z.compare_eq_iff; subst; lia.
      * apply Z.compare_lt_iff; lia.
      * apply Z.compare_gt_iff; lia.
    + apply Z.compare_lt_iff; lia.
    + apply Z.compare_gt_iff; lia.
Qed.

Lemma frombits_cmp a b : 0 <= a < 2 ^ 64 -> 0 <= b < 2 ^ 64 ->
  SpecFloat.SFcompare (B2SF (go_math_Float64frombits a)) (B2SF (go_math_Float64frombits b)) =
    if bits_is_nan a || bits_is_nan b then None
    else Some (bits_key a ?= bits_key b).
Proof.
  intros Ha Hb.
  exact (class_cmp _ _ _ _ _ _ (frombits_class a Ha) (frombits_class b Hb)).
Qed.

Theorem bits_eqb_correct a b : 0 <= a < 2 ^ 64 -> 0 <= b < 2 ^ 64 ->
  go_feq64 (go_math_Float64frombits a) (go_math_Float64frombits b) = bits_eqb a b.
Proof.
  intros Ha Hb. unfold go_feq64, Beqb, SpecFloat.SFeqb. rewrite (frombits_cmp a b Ha Hb).
  unfold bits_eqb. rewrite Z.eqb_compare.
  destruct (bits_is_nan a), (bits_is_nan b); cbn [orb negb andb]; try reflexivity.
Qed.

Theorem bits_ltb_correct a b : 0 <= a < 2 ^ 64 -> 0 <= b < 2 ^ 64 ->
  go_flt64 (go_math_Float64frombits a) (go_math_Float64frombits b) = bits_ltb a b.
Proof.
  intros Ha Hb. unfold go_flt64, Bltb, SpecFloat.SFltb. rewrite (frombits_cmp a b Ha Hb).
  unfold bits_ltb. rewrite Z.ltb_compare.
  destruct (bits_is_nan a), (bits_is_nan b); cbn [orb negb andb]; try reflexivity.
Qed.
