(** GoSem: the reading of Go's integer / bool / fixed-array semantics against which
    harness/translate/main.go emits [Translated.v].

    WHAT THIS IS FOR.  The models under coq/theories/{Can,Descriptor,Socketcan} are written by
    hand.  On every run of a check, harness/translate (a Go program compiled into /repo's working
    tree) type-checks the CURRENT source of the whitelisted functions with go/types and prints
    them as Gallina definitions over the operators below ([Translated.v], logical path
    [CanTranslated.Translated]).  coq/translate/Equiv.v then proves, for ALL inputs in the range
    of the Go parameter types, that each regenerated definition equals the hand-written model.
    A semantic change of a translated function therefore breaks a proof obligation on that run,
    whether or not the sampled correspondence run happens to hit a failing input.

    TRUSTED BASE ADDED BY THIS TIE (exactly two things; nothing else is new):

    (1) THE TRANSLATOR, harness/translate/main.go - an unverified Go program (~1500 lines).  It is
        trusted to print the function it read: the statement/expression subset listed in its file
        header, the static type of every expression as reported by go/types (so the typing rules of
        the Go specification, incl. the rule for untyped constant operands of non-constant shifts,
        are go/types', not re-implemented), constant expressions folded by go/types' exact
        arithmetic, and a LOUD failure (file:line, exit status 2, no output file) on every construct
        outside the subset.  go/parser, go/types and golang.org/x/tools/go/packages are part of this
        item.  Sequencing is rendered as nested [let] with the continuation duplicated into both
        arms of an [if]/[switch] whose arms fall through; every Go variable (types.Object) has its
        own Coq name, so Go block scoping is kept.

    (2) THIS FILE's reading of Go (The Go Programming Language Specification, "Arithmetic
        operators", "Integer overflow", "Conversions", "Comparison operators"):
          - an integer of type uintN / intN is the mathematical integer it denotes
            (0 .. 2^N-1, resp. -2^(N-1) .. 2^(N-1)-1); [int]/[uint] are 64 bit (amd64, as everywhere
            in this development);
          - [+ - *] and unary [-] wrap: the translator emits [wrap_u N (a + b)] / [wrap_s N (a + b)];
          - a conversion T(x) between integer types is [wrap_u N x] / [wrap_s N x] for T of width N
            ("sign extended to implicit infinite precision, then truncated"): ALWAYS emitted, also
            for widening conversions;
          - [x << n], [x >> n]: the count is an unsigned integer (or a non-negative constant);
            a count >= N gives 0 for [<<] and for unsigned [>>], and the sign fill (0 or -1) for
            signed [>>]; the result of [<<] is wrapped inside [go_shl_u]/[go_shl_s];
          - [& | ^ &^] are the bitwise operations of the two's-complement reading, which on [Z] are
            [Z.land], [Z.lor], [Z.lxor], [Z.ldiff] (infinite sign extension); unary [^x] is
            [2^N-1-x] for unsigned and [-1-x] for signed operands.  These, [>>], unsigned [/] and
            [%] are NOT wrapped, because they cannot leave the range of the operand type:
            GoSemProofs.v proves that for each of them ([*_range_u], [*_range_s]);
          - [/] and [%] truncate towards zero; the translator only accepts NON-ZERO CONSTANT
            divisors; for unsigned operands truncation and flooring coincide, so [go_div_u] is
            [Z.div] and [go_rem_u] is [Z.modulo]; signed: [Z.quot] (wrapped: MinInt / -1) and [Z.rem];
          - comparisons are [Z.eqb], [Z.ltb], [Z.leb] ([a > b] is printed as [b <? a], [a >= b] as
            [b <=? a]); [&&], [||], [!] are [andb], [orb], [negb] (all expressions of the subset are
            pure and total, so short-circuit evaluation is not observable);
          - a [N]byte array (can.Data) is a [list Z] of N bytes; [d[i]] is [data_get], [d[i] = v] the
            functional update [data_set].  INDEX PANICS ARE NOT MODELLED: constant indices are
            bounds-checked by go/types; for a non-constant index >= N, [data_get] yields 0 and
            [data_set] changes nothing (exactly as [byte_at]/[set_nth] of Can/Data.v), whereas Go
            panics.  The same holds for nothing else: division is by non-zero constants only and
            negative constant shift counts are rejected by go/types;
          - a pointer parameter [*T] (T an array or struct of the subset) is the value it points to;
            a function without results returns the final value of the one pointer parameter it
            writes through (no aliasing is possible: at most one written pointer per function);
          - an [error] result is reduced to [err_nil] / [err_nonnil] ([fmt.Errorf(...)] is
            [err_nonnil]; its arguments are ignored).

    What is NOT trusted: the hand-written models (they are now checked against (1)+(2) by Equiv.v
    for all inputs), and Equiv.v itself (kernel-checked, no axioms).

    DEFINITIONS ONLY; sanity lemmas are in GoSemProofs.v. *)
From Coq Require Import ZArith List Bool.
Import ListNotations.
Open Scope Z_scope.

(** * Wrap-around to a Go integer type of width [w] *)
Definition wrap_u (w x : Z) : Z := x mod 2 ^ w.
Definition wrap_s (w x : Z) : Z :=
  let m := x mod 2 ^ w in if m <? 2 ^ (w - 1) then m else m - 2 ^ w.

(** value ranges of the Go types (used by the statements of Equiv.v and GoSemProofs.v) *)
Definition in_u (w x : Z) : Prop := 0 <= x < 2 ^ w.
Definition in_s (w x : Z) : Prop := - 2 ^ (w - 1) <= x < 2 ^ (w - 1).

(** * Shifts: [x << n], [x >> n] at operand width [w]; [n] is an unsigned count *)
Definition go_shl_u (w x n : Z) : Z := if n <? w then wrap_u w (Z.shiftl x n) else 0.
Definition go_shl_s (w x n : Z) : Z := if n <? w then wrap_s w (Z.shiftl x n) else 0.
Definition go_shr_u (w x n : Z) : Z := if n <? w then Z.shiftr x n else 0.
Definition go_shr_s (w x n : Z) : Z :=
  if n <? w then Z.shiftr x n else if x <? 0 then -1 else 0.

(** * Bitwise operators (two's complement = [Z]'s infinite sign extension) *)
Definition go_and (x y : Z) : Z := Z.land x y.
Definition go_or (x y : Z) : Z := Z.lor x y.
Definition go_xor (x y : Z) : Z := Z.lxor x y.
Definition go_andnot (x y : Z) : Z := Z.ldiff x y.
Definition go_not_u (w x : Z) : Z := 2 ^ w - 1 - x.
Definition go_not_s (x : Z) : Z := - 1 - x.

(** * Division by a non-zero constant *)
Definition go_div_u (x y : Z) : Z := x / y.
Definition go_rem_u (x y : Z) : Z := x mod y.
Definition go_div_s (w x y : Z) : Z := wrap_s w (Z.quot x y).
Definition go_rem_s (x y : Z) : Z := Z.rem x y.

(** * Fixed-size byte arrays *)
Definition data := list Z.
Definition data_get (d : data) (i : Z) : Z := nth (Z.to_nat i) d 0.
Fixpoint list_set (n : nat) (v : Z) (d : data) : data :=
  match d, n with
  | [], _ => []
  | _ :: t, O => v :: t
  | h :: t, S n' => h :: list_set n' v t
  end.
Definition data_set (d : data) (i v : Z) : data := list_set (Z.to_nat i) v d.
(** [var a [n]byte] *)
Definition data_zero (n : Z) : data := repeat 0 (Z.to_nat n).
Definition in_data (n : Z) (d : data) : Prop :=
  length d = Z.to_nat n /\ Forall (in_u 8) d.

(** * Errors, reduced to nil / non-nil *)
Definition err := bool.
Definition err_nil : err := true.
Definition err_nonnil : err := false.
