(** GoSem: the reading of Go's integer / bool / fixed-array / byte-slice semantics against which
    harness/translate/main.go emits [Translated.v].

    WHAT THIS IS FOR.  The models under coq/theories/{Can,Descriptor,Socketcan} are written by
    hand.  On every run of a check, harness/translate (a Go program compiled into /repo's working
    tree) type-checks the CURRENT source of the whitelisted functions with go/types and prints
    them as Gallina definitions over the operators below ([Translated.v], logical path
    [CanTranslated.Translated]).  coq/translate/Equiv.v then proves, for ALL inputs in the range
    of the Go parameter types, that each regenerated definition equals the hand-written model.
    A semantic change of a translated function therefore breaks a proof obligation on that run,
    whether or not the sampled correspondence run happens to hit a failing input.

    TRUSTED BASE ADDED BY THIS TIE (exactly two things; nothing else is new; the floating-point
    part of (2) is in Translate/GoSemFloat.v):

    (1) THE TRANSLATOR, harness/translate/main.go - an unverified Go program (~2200 lines).  It is
        trusted to print the function it read: the statement/expression subset listed in its file
        header, the static type of every expression as reported by go/types (so the typing rules of
        the Go specification, incl. the rule for untyped constant operands of non-constant shifts,
        are go/types', not re-implemented), constant expressions folded by go/types' exact
        arithmetic, and a LOUD failure (file:line, exit status 2, no output file) on every construct
        outside the subset.  go/parser, go/types and golang.org/x/tools/go/packages are part of this
        item.  Sequencing is rendered as nested [let] with the continuation duplicated into both
        arms of an [if]/[switch] whose arms fall through; every Go variable (types.Object) has its
        own Coq name, so Go block scoping is kept.

    (2) THIS FILE's reading of Go (The Go Programming Language Specification, "Arithmetic
        operators", "Integer overflow", "Conversions", "Comparison operators"):
          - an integer of type uintN / intN is the mathematical integer it denotes
            (0 .. 2^N-1, resp. -2^(N-1) .. 2^(N-1)-1); [int]/[uint] are 64 bit (amd64, as everywhere
            in this development);
          - [+ - *] and unary [-] wrap: the translator emits [wrap_u N (a + b)] / [wrap_s N (a + b)];
          - a conversion T(x) between integer types is [wrap_u N x] / [wrap_s N x] for T of width N
            ("sign extended to implicit infinite precision, then truncated"): ALWAYS emitted, also
            for widening conversions;
          - [x << n], [x >> n]: the count is an unsigned integer (or a non-negative constant);
            a count >= N gives 0 for [<<] and for unsigned [>>], and the sign fill (0 or -1) for
            signed [>>]; the result of [<<] is wrapped inside [go_shl_u]/[go_shl_s];
          - [& | ^ &^] are the bitwise operations of the two's-complement reading, which on [Z] are
            [Z.land], [Z.lor], [Z.lxor], [Z.ldiff] (infinite sign extension); unary [^x] is
            [2^N-1-x] for unsigned and [-1-x] for signed operands.  These, [>>], unsigned [/] and
            [%] are NOT wrapped, because they cannot leave the range of the operand type:
            GoSemProofs.v proves that for each of them ([*_range_u], [*_range_s]);
          - [/] and [%] truncate towards zero; the translator only accepts NON-ZERO CONSTANT
            divisors; for unsigned operands truncation and flooring coincide, so [go_div_u] is
            [Z.div] and [go_rem_u] is [Z.modulo]; signed: [Z.quot] (wrapped: MinInt / -1) and [Z.rem];
          - comparisons are [Z.eqb], [Z.ltb], [Z.leb] ([a > b] is printed as [b <? a], [a >= b] as
            [b <=? a]); [&&], [||], [!] are [andb], [orb], [negb] (all expressions of the subset are
            pure and total, so short-circuit evaluation is not observable);
          - a [N]byte array (can.Data) is a [list Z] of N bytes; [d[i]] is [data_get], [d[i] = v] the
            functional update [data_set].  INDEX PANICS ARE NOT MODELLED: constant indices are
            bounds-checked by go/types; for a non-constant index >= N, [data_get] yields 0 and
            [data_set] changes nothing (exactly as [byte_at]/[set_nth] of Can/Data.v), whereas Go
            panics.  The same holds for nothing else: division is by non-zero constants only and
            negative constant shift counts are rejected by go/types;
          - a pointer parameter [*T] (T an array or struct of the subset) is the value it points to;
            a function without results returns the final value of the one pointer parameter it
            writes through (no aliasing is possible: at most one written pointer per function);
          - an [error] result is reduced to [err_nil] / [err_nonnil] ([fmt.Errorf(...)] is
            [err_nonnil]; its arguments are ignored);
          - a function with several results returns the tuple of them; a function that has results
            AND writes through its one pointer parameter returns (final value of that parameter,
            results...); struct fields promoted through EMBEDDED struct fields are the nested
            field ([x.f] is [x.E.f], the path is go/types' [Selection.Index]);
          - a [[]byte] is the [list Z] of its bytes: length and contents only.  NOT modelled:
            capacity, the nil / empty distinction ([bytes_nil] is [[]]; a function whose result
            distinguishes them is tied up to that identification), and ALIASING in general.  The
            one aliasing pattern that is accepted is written out as a functional update of the
            variable at the root: [b[i] = v] is [bytes_set], [nlenc.PutXxx(b[lo:hi], v)] (a store
            THROUGH the sub-slice, which shares b's array) is [nlenc_PutXxx b lo v], and
            [copy(a[lo:hi], src)] is [bytes_copy_at a lo hi src]; the translator accepts slice
            expressions only with CONSTANT bounds, only as operands of these statements, of [len],
            of the nlenc readers, of [copy]'s source and as returned values, so no second live
            reference to a written array exists inside a translated function.
            [make([]byte, n)] (constant n) is n zero bytes; [len] is the length.
            SLICE-BOUND AND INDEX PANICS ARE NOT MODELLED: [bytes_slice b lo hi] past the end is
            the shorter list, [bytes_get] past the end is 0, [bytes_set]/[nlenc_PutXxx] past the
            end change nothing/only the bytes that exist (Go panics in all these cases; the hand
            models of Netlink/Layout.v do model them, as [OutOfBounds], and the T_ lemmas of group
            netlink show that outcome never arises);
          - package github.com/mdlayher/netlink/nlenc stores and loads integers in HOST byte order
            through an unsafe pointer; amd64 (and every other port this development considers) is
            LITTLE-ENDIAN: [nlenc.PutUint16/32/64(b, v)] write the 2/4/8 little-endian bytes of v
            ([le_byte v k] = bits 8k..8k+7 of the two's-complement word), [nlenc.PutInt32] those of
            the int32's bit pattern [wrap_u 32 v], [nlenc.Uint8/16/32/64(b)] read them back,
            [nlenc.Int32] reinterprets the 32-bit word as int32.  These functions PANIC unless
            [len b] is exactly 1/2/4/8: for a constant sub-slice the translator checks the length
            statically (and rejects the program otherwise); for any other argument the panic is not
            modelled (the readers then yield 0);
          - package encoding/binary: [binary.LittleEndian.Uint16/32/64(b)] read the first 2/4/8 bytes
            of [b] as a little-endian word, [binary.LittleEndian.PutUint16/32/64(b[lo:hi], v)] write
            them at offset [lo]; a longer slice is accepted (unlike nlenc), the panic on a shorter one
            is checked statically for constant sub-slices and not modelled otherwise;
          - a WRITTEN [[]byte] PARAMETER (fourth round; e.g. method [marshalBinary(b []byte)] of socketcan.frame) is
            treated like the one written pointer parameter: the function returns the final contents
            of that slice (its length never changes: only [b[i] = v], [PutUintNN(b[lo:hi], v)] and
            [copy(b[lo:hi] / b[lo:], src)] are accepted).  ASSUMPTION: the written slice does not
            overlap the memory of any other parameter (array fields of a pointer receiver, other
            slices).  The call sites in /repo satisfy it (transmitter.go: a fresh [make([]byte, 16)];
            receiver.go: the receiver's own scratch array and its own [frame] field);
          - [x[lo:hi]] in a READ position (source of [copy], argument of a library reader, operand of
            [len], returned value) may have non-constant integer bounds and may slice a [N]byte array
            ([a[lo:hi]] of an array only as the source of [copy] / argument of a reader, so that no
            alias of the array survives the statement): [bytes_slice x lo hi]; [b[lo:]] is
            [b[lo:len(b)]].  Slice-bound panics (hi > cap, lo > hi, negative) are not modelled, as
            before;
          - THE ONE MODELLED PANIC: the explicit bounds-check statement [_ = b[k]] (k a constant, b a
            []byte).  A function containing one is translated to a function into [option]:
            [if bytes_len b <=? k then None else ...], every [return] wrapped in [Some].  Such a
            function cannot be called from another translated function;
          - STRING indexing / slicing / concatenation, array slices with non-constant bounds WITH their
            run-time panics modelled, and the text library functions of the frame text family
            (fmt.Sprintf %0wX, strconv.Itoa/ParseUint/Atoi, encoding/hex, strings.Split/ToUpper): see
            Translate/GoSemText.v (its header lists the trusted readings);
          - LOOPS, slices of structs, [*S] results, [range] over strings: see the comments at
            [go_loop] / [go_range], [go_utf8_decode] / [go_range_string], [list_len] / [go_deref] below;
          - library functions WITHOUT a model ([unicode.IsDigit], [unicode.IsUpper], ...) are not
            defined here: a translated function that uses one takes it as a leading parameter
            [Z -> bool], and its lemma in Equiv.v is stated for every such function;
          - a named result that the body never mentions is an ordinary result; the statement
            [defer func() { if err != nil { err = fmt.Errorf(...) } }()] (err the named error result)
            replaces a non-nil error by a non-nil error: under the reduction of errors to nil / non-nil
            it has no effect and is skipped; every other [defer] is rejected;
          - a slice whose element type is outside the subset (e.g. [[]string]) is kept
            as its LENGTH only ([go_len], a non-negative integer; the only operation is [len]);
          - a [string] is the [list Z] of its bytes (constants, locals, parameters and results);
            [==], [!=] and [switch] on strings compare the byte sequences ([go_string_eqb]);
          - [go/types.Typ[k]] (the table of predeclared basic types indexed by [types.BasicKind]) is
            represented by the kind [k] itself ([go_types_Typ]); named constants of a defined type
            such as [types.Float32] are printed as their value with the name as a comment.

    What is NOT trusted: the hand-written models (they are now checked against (1)+(2) by Equiv.v
    for all inputs), and Equiv.v itself (kernel-checked, no axioms).

    DEFINITIONS ONLY; sanity lemmas are in GoSemProofs.v. *)
From Coq Require Import ZArith List Bool.
Import ListNotations.
Open Scope Z_scope.

(** * Wrap-around to a Go integer type of width [w] *)
Definition wrap_u (w x : Z) : Z := x mod 2 ^ w.
Definition wrap_s (w x : Z) : Z :=
  let m := x mod 2 ^ w in if m <? 2 ^ (w - 1) then m else m - 2 ^ w.

(** value ranges of the Go types (used by the statements of Equiv.v and GoSemProofs.v) *)
Definition in_u (w x : Z) : Prop := 0 <= x < 2 ^ w.
Definition in_s (w x : Z) : Prop := - 2 ^ (w - 1) <= x < 2 ^ (w - 1).

(** * Shifts: [x << n], [x >> n] at operand width [w]; [n] is an unsigned count *)
Definition go_shl_u (w x n : Z) : Z := if n <? w then wrap_u w (Z.shiftl x n) else 0.
Definition go_shl_s (w x n : Z) : Z := if n <? w then wrap_s w (Z.shiftl x n) else 0.
Definition go_shr_u (w x n : Z) : Z := if n <? w then Z.shiftr x n else 0.
Definition go_shr_s (w x n : Z) : Z :=
  if n <? w then Z.shiftr x n else if x <? 0 then -1 else 0.

(** * Bitwise operators (two's complement = [Z]'s infinite sign extension) *)
Definition go_and (x y : Z) : Z := Z.land x y.
Definition go_or (x y : Z) : Z := Z.lor x y.
Definition go_xor (x y : Z) : Z := Z.lxor x y.
Definition go_andnot (x y : Z) : Z := Z.ldiff x y.
Definition go_not_u (w x : Z) : Z := 2 ^ w - 1 - x.
Definition go_not_s (x : Z) : Z := - 1 - x.

(** * Division by a non-zero constant *)
Definition go_div_u (x y : Z) : Z := x / y.
Definition go_rem_u (x y : Z) : Z := x mod y.
Definition go_div_s (w x y : Z) : Z := wrap_s w (Z.quot x y).
Definition go_rem_s (x y : Z) : Z := Z.rem x y.

(** * Fixed-size byte arrays *)
Definition data := list Z.
Definition data_get (d : data) (i : Z) : Z := nth (Z.to_nat i) d 0.
Fixpoint list_set (n : nat) (v : Z) (d : data) : data :=
  match d, n with
  | [], _ => []
  | _ :: t, O => v :: t
  | h :: t, S n' => h :: list_set n' v t
  end.
Definition data_set (d : data) (i v : Z) : data := list_set (Z.to_nat i) v d.
(** [var a [n]byte] *)
Definition data_zero (n : Z) : data := repeat 0 (Z.to_nat n).
Definition in_data (n : Z) (d : data) : Prop :=
  length d = Z.to_nat n /\ Forall (in_u 8) d.

(** * Errors, reduced to nil / non-nil *)
Definition err := bool.
Definition err_nil : err := true.
Definition err_nonnil : err := false.

(** * Byte slices ([]byte): contents only *)
Definition go_bytes := list Z.
Definition bytes_nil : go_bytes := [].
Definition bytes_len (b : go_bytes) : Z := Z.of_nat (length b).
Definition bytes_make (n : Z) : go_bytes := repeat 0 (Z.to_nat n).
Definition bytes_get (b : go_bytes) (i : Z) : Z := nth (Z.to_nat i) b 0.
Definition bytes_set (b : go_bytes) (i v : Z) : go_bytes := list_set (Z.to_nat i) v b.
(** [b[lo:hi]] *)
Definition bytes_slice (b : go_bytes) (lo hi : Z) : go_bytes :=
  firstn (Z.to_nat hi - Z.to_nat lo) (skipn (Z.to_nat lo) b).
(** overwrite [b] from offset [lo] with the bytes [src] (as far as [b] reaches) *)
Fixpoint list_splice (n : nat) (src b : list Z) : list Z :=
  match n, b with
  | _, [] => []
  | O, h :: t => match src with [] => h :: t | s :: src' => s :: list_splice O src' t end
  | S n', h :: t => h :: list_splice n' src t
  end.
Definition bytes_splice (b : go_bytes) (lo : Z) (src : list Z) : go_bytes := list_splice (Z.to_nat lo) src b.
(** [copy(a[lo:hi], src)]: min(hi-lo, len src) bytes *)
Definition bytes_copy_at (a : list Z) (lo hi : Z) (src : go_bytes) : list Z :=
  bytes_splice a lo (firstn (Z.to_nat hi - Z.to_nat lo) src).

(** * github.com/mdlayher/netlink/nlenc on a little-endian host *)
(** byte k (k = 0 least significant) of the two's-complement word v *)
Definition le_byte (v k : Z) : Z := Z.land (Z.shiftr v (8 * k)) 255.
Definition le_bytes2 (v : Z) : list Z := [le_byte v 0; le_byte v 1].
Definition le_bytes4 (v : Z) : list Z := [le_byte v 0; le_byte v 1; le_byte v 2; le_byte v 3].
Definition le_bytes8 (v : Z) : list Z :=
  [le_byte v 0; le_byte v 1; le_byte v 2; le_byte v 3; le_byte v 4; le_byte v 5; le_byte v 6; le_byte v 7].
Definition nlenc_PutUint8 (b : go_bytes) (lo v : Z) : go_bytes := bytes_splice b lo [le_byte v 0].
Definition nlenc_PutUint16 (b : go_bytes) (lo v : Z) : go_bytes := bytes_splice b lo (le_bytes2 v).
Definition nlenc_PutUint32 (b : go_bytes) (lo v : Z) : go_bytes := bytes_splice b lo (le_bytes4 v).
Definition nlenc_PutUint64 (b : go_bytes) (lo v : Z) : go_bytes := bytes_splice b lo (le_bytes8 v).
Definition nlenc_PutInt32 (b : go_bytes) (lo v : Z) : go_bytes := bytes_splice b lo (le_bytes4 (wrap_u 32 v)).
Definition nlenc_Uint8 (b : go_bytes) : Z := match b with [b0] => b0 | _ => 0 end.
Definition nlenc_Uint16 (b : go_bytes) : Z := match b with [b0; b1] => b0 + 256 * b1 | _ => 0 end.
Definition nlenc_Uint32 (b : go_bytes) : Z :=
  match b with [b0; b1; b2; b3] => b0 + 256 * b1 + 65536 * b2 + 16777216 * b3 | _ => 0 end.
Definition nlenc_Uint64 (b : go_bytes) : Z :=
  match b with
  | [b0; b1; b2; b3; b4; b5; b6; b7] =>
      b0 + 256 * b1 + 65536 * b2 + 16777216 * b3 + 2 ^ 32 * (b4 + 256 * b5 + 65536 * b6 + 16777216 * b7)
  | _ => 0
  end.
(** the 32-bit word (0 <= u < 2^32, the elements being bytes) read as two's complement *)
Definition nlenc_Int32 (b : go_bytes) : Z :=
  let u := nlenc_Uint32 b in if u <? 2 ^ 31 then u else u - 2 ^ 32.

(** * encoding/binary: binary.LittleEndian.UintNN / PutUintNN
    (byte order fixed by the package, not by the host).  Unlike nlenc these accept a slice that is
    LONGER than the word: they read / write its first 2/4/8 bytes ([_ = b[N-1]] is their bounds
    check).  The translator checks a constant sub-slice to have at least that length; for any other
    argument the panic on a short slice is not modelled (the readers then yield 0, the writers write
    the bytes that exist). *)
Definition binary_le_Uint16 (b : go_bytes) : Z := match b with b0 :: b1 :: _ => b0 + 256 * b1 | _ => 0 end.
Definition binary_le_Uint32 (b : go_bytes) : Z :=
  match b with b0 :: b1 :: b2 :: b3 :: _ => b0 + 256 * b1 + 65536 * b2 + 16777216 * b3 | _ => 0 end.
Definition binary_le_Uint64 (b : go_bytes) : Z :=
  match b with
  | b0 :: b1 :: b2 :: b3 :: b4 :: b5 :: b6 :: b7 :: _ =>
      b0 + 256 * b1 + 65536 * b2 + 16777216 * b3 + 2 ^ 32 * (b4 + 256 * b5 + 65536 * b6 + 16777216 * b7)
  | _ => 0
  end.
(** [binary.LittleEndian.PutUintNN(b[lo:hi], v)]: a store THROUGH the sub-slice, at offset [lo] of [b] *)
Definition binary_le_PutUint16 (b : go_bytes) (lo v : Z) : go_bytes := bytes_splice b lo (le_bytes2 v).
Definition binary_le_PutUint32 (b : go_bytes) (lo v : Z) : go_bytes := bytes_splice b lo (le_bytes4 v).
Definition binary_le_PutUint64 (b : go_bytes) (lo v : Z) : go_bytes := bytes_splice b lo (le_bytes8 v).

(** * Loops (fourth round): [for i, x := range l { body }] and [for i := 0; i < len(l); i++ { body }]
    whose body assigns locals, [continue]s or [return]s.  One iteration maps the state (the tuple of
    the locals declared before the loop that the body assigns) to [LoopNext state'] (end of the body,
    or [continue]) or to [LoopReturn r] (a [return r] inside the body: the FUNCTION returns r).
    [go_range body i l s] runs the iterations over the elements of [l] from index [i], stopping at
    the first [LoopReturn].  The translator prints
        match go_range (fun i x state => body) 0 l state with
        | LoopReturn r => r | LoopNext state => (the statements after the loop) end.
    The range expression is evaluated once (Go: "the range expression is evaluated once before
    beginning the loop"); the iteration variables are fresh in each iteration (the body cannot
    change which elements are visited: it cannot assign the slice, which is not a local it may
    store through, and a []byte it writes through is not ranged over in /repo's translated code).
    [break], labels and [goto] are outside the subset. *)
Inductive go_loop (S R : Type) : Type :=
| LoopNext (s : S)
| LoopReturn (r : R).
Arguments LoopNext {S R} s.
Arguments LoopReturn {S R} r.

Fixpoint go_range {A S R : Type} (body : Z -> A -> S -> go_loop S R) (i : Z) (l : list A) (s : S) : go_loop S R :=
  match l with
  | [] => LoopNext s
  | x :: tl =>
      match body i x s with
      | LoopNext s' => go_range body (i + 1) tl s'
      | LoopReturn r => LoopReturn r
      end
  end.

(** [for i, r := range s] over a STRING: "iterates over the Unicode code points in the string starting
    at byte index 0; the index is the index of the first byte of the code point, the second value the
    code point; an invalid UTF-8 sequence yields 0xFFFD and advances a single byte" (Go spec, For
    statements with range clause).  [go_utf8_decode] is the decoding of the first code point by the
    table of RFC 3629 / unicode/utf8 (shortest form only, no surrogates, at most U+10FFFF):
      00..7F | C2..DF 80..BF | E0 A0..BF 80..BF | E1..EC,EE,EF 80..BF 80..BF | ED 80..9F 80..BF |
      F0 90..BF 80..BF 80..BF | F1..F3 80..BF 80..BF 80..BF | F4 80..8F 80..BF 80..BF.
    The fuel of the iteration is the number of bytes (every step consumes at least one). *)
Definition utf8_cont (b : Z) : bool := (128 <=? b) && (b <=? 191).
Definition go_utf8_decode (s : list Z) : Z * Z :=
  let bad := (65533, 1) in
  match s with
  | [] => (65533, 0)
  | b0 :: t =>
    if b0 <? 128 then (b0, 1)
    else if (194 <=? b0) && (b0 <=? 223) then
      match t with
      | b1 :: _ => if utf8_cont b1 then ((b0 mod 32) * 64 + b1 mod 64, 2) else bad
      | _ => bad
      end
    else if (224 <=? b0) && (b0 <=? 239) then
      match t with
      | b1 :: b2 :: _ =>
        let lo := if b0 =? 224 then 160 else 128 in
        let hi := if b0 =? 237 then 159 else 191 in
        if (lo <=? b1) && (b1 <=? hi) && utf8_cont b2
        then ((b0 mod 16) * 4096 + (b1 mod 64) * 64 + b2 mod 64, 3) else bad
      | _ => bad
      end
    else if (240 <=? b0) && (b0 <=? 244) then
      match t with
      | b1 :: b2 :: b3 :: _ =>
        let lo := if b0 =? 240 then 144 else 128 in
        let hi := if b0 =? 244 then 143 else 191 in
        if (lo <=? b1) && (b1 <=? hi) && utf8_cont b2 && utf8_cont b3
        then ((b0 mod 8) * 262144 + (b1 mod 64) * 4096 + (b2 mod 64) * 64 + b3 mod 64, 4) else bad
      | _ => bad
      end
    else bad
  end.
Fixpoint go_range_string_fuel {S R : Type} (fuel : nat) (body : Z -> Z -> S -> go_loop S R)
    (i : Z) (bs : list Z) (s : S) : go_loop S R :=
  match fuel with
  | O => LoopNext s
  | Datatypes.S fuel' =>
    match bs with
    | [] => LoopNext s
    | _ =>
      let '(r, w) := go_utf8_decode bs in
      match body i r s with
      | LoopNext s' => go_range_string_fuel fuel' body (i + w) (skipn (Z.to_nat w) bs) s'
      | LoopReturn x => LoopReturn x
      end
    end
  end.
Definition go_range_string {S R : Type} (body : Z -> Z -> S -> go_loop S R) (i : Z) (bs : list Z) (s : S) : go_loop S R :=
  go_range_string_fuel (length bs) body i bs s.

(** the indices of [for i := 0; i < n; i++]: n iterations, the element is not looked at *)
Definition go_iota (n : Z) : list unit := repeat tt (Z.to_nat n).

(** * Slices of structs / of pointers to structs: the list of the element values.
    A [[]*S] is read as the list of the structs its elements point to: the elements are ASSUMED
    non-nil and the identity of the pointers (aliasing between elements, or with other pointers) is
    not represented - sound for functions that only READ through them.  A RESULT or LOCAL of type
    [*S] is [option S] ([nil] = [None]); [p.f] on such a local is [S_f (go_deref zero_S p)]: the
    nil-dereference panic is not modelled (the zero value is read).  Parameters and receivers of
    type [*S] are the value pointed to, as before. *)
Definition list_len {A : Type} (l : list A) : Z := Z.of_nat (length l).
Definition go_deref {A : Type} (zero : A) (p : option A) : A := match p with Some x => x | None => zero end.

(** * Slices kept as their length; strings; go/types.Typ *)
Definition go_len := Z.
Definition go_string := list Z.
(** [s == t] on strings: same length and the same bytes *)
Fixpoint go_string_eqb (a b : go_string) : bool :=
  match a, b with
  | [], [] => true
  | x :: a', y :: b' => (x =? y) && go_string_eqb a' b'
  | _, _ => false
  end.
Definition go_basic_type := Z.
Definition go_types_Typ (kind : Z) : go_basic_type := kind.
