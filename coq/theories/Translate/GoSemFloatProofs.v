(** Sanity lemmas for Translate/GoSemFloat.v.

    1. The encodings are in the range of the Go result type and round-trip on non-NaN values.
    2. Constants: the bit patterns decode to the expected values.
    3. Concrete results checked by computation against what Go (go1.23, amd64) prints for the same
       expressions: rounding of + and /, int -> float64 rounding at 2^53, float32 rounding,
       math.Max/Min on signed zeros, NaN and infinities, comparisons on NaN. *)
From Coq Require Import ZArith Bool Lia.
From Flocq Require Import Core BinarySingleNaN.
From Flocq Require Binary Bits.
From CanVerif Require Import Translate.GoSem Translate.GoSemFloat.
Open Scope Z_scope.

(** * 1. encodings *)
Lemma go_math_Float32bits_range x : in_u 32 (go_math_Float32bits x).
Proof.
  unfold in_u, go_math_Float32bits, Bits.bits_of_b32.
  apply (Bits.bits_of_binary_float_range 23 8); reflexivity.
Qed.

Lemma go_math_Float64bits_range x : in_u 64 (go_math_Float64bits x).
Proof.
  unfold in_u, go_math_Float64bits, Bits.bits_of_b64.
  apply (Bits.bits_of_binary_float_range 52 11); reflexivity.
Qed.

(** decoding the encoding gives the value back (the one NaN is encoded as the canonical NaN) *)
Lemma go_frombits_bits64 x : go_math_Float64frombits (go_math_Float64bits x) = x.
Proof.
  unfold go_math_Float64frombits, go_math_Float64bits, Bits.b64_of_bits, Bits.bits_of_b64.
  rewrite Bits.binary_float_of_bits_of_binary_float. apply Binary.B2BSN_BSN2B.
Qed.

Lemma go_frombits_bits32 x : go_math_Float32frombits (go_math_Float32bits x) = x.
Proof.
  unfold go_math_Float32frombits, go_math_Float32bits, Bits.b32_of_bits, Bits.bits_of_b32.
  rewrite Bits.binary_float_of_bits_of_binary_float. apply Binary.B2BSN_BSN2B.
Qed.

Lemma go_unsafe_low_range n x : 0 <= n -> in_u n (go_unsafe_low n x).
Proof. intros Hn. unfold in_u, go_unsafe_low. apply Z.mod_pos_bound. apply Z.pow_pos_nonneg; lia. Qed.

Lemma go_unsafe_low_small n x : in_u n x -> go_unsafe_low n x = x.
Proof. unfold in_u, go_unsafe_low. intros H. now apply Z.mod_small. Qed.

(** * 2. constants *)
Lemma go_f64_const_zero : go_f64_const 0 = B754_zero false.
Proof. reflexivity. Qed.

Lemma go_f32_const_zero : go_f32_const 0 = B754_zero false.
Proof. reflexivity. Qed.

(** two floats with the same sign/mantissa/exponent are equal (the boundedness proofs are proofs
    of a boolean equation) *)
Lemma go_f64_eq (x y : go_f64) : B2SF x = B2SF y -> x = y.
Proof. apply B2SF_inj. Qed.

Lemma go_f64_const_one : go_f64_const 0x3ff0000000000000 = go_f64_of_int 1.
Proof. apply go_f64_eq. vm_compute. reflexivity. Qed.

(** * 3. concrete values *)
Definition b64 (x : go_f64) : Z := go_math_Float64bits x.

(** 0.1 + 0.2 = 0.30000000000000004 *)
Example add_01_02 : b64 (go_fadd64 (go_f64_const 0x3fb999999999999a) (go_f64_const 0x3fc999999999999a))
                    = 0x3fd3333333333334.
Proof. vm_compute. reflexivity. Qed.

(** 1.0 / 3.0 *)
Example div_1_3 : b64 (go_fdiv64 (go_f64_of_int 1) (go_f64_of_int 3)) = 0x3fd5555555555555.
Proof. vm_compute. reflexivity. Qed.

(** float64(int64(1<<53 + 1)) rounds to even: 2^53; float64(1<<53 + 3) = 2^53 + 4 *)
Example of_int_2p53_1 : b64 (go_f64_of_int (2 ^ 53 + 1)) = 0x4340000000000000.
Proof. vm_compute. reflexivity. Qed.
Example of_int_2p53_3 : b64 (go_f64_of_int (2 ^ 53 + 3)) = 0x4340000000000002.
Proof. vm_compute. reflexivity. Qed.
(** float64(uint64(math.MaxUint64)) = 2^64; float64(int64(math.MinInt64)) = -2^63 *)
Example of_int_maxu64 : b64 (go_f64_of_int (2 ^ 64 - 1)) = 0x43f0000000000000.
Proof. vm_compute. reflexivity. Qed.
Example of_int_mini64 : b64 (go_f64_of_int (- 2 ^ 63)) = 0xc3e0000000000000.
Proof. vm_compute. reflexivity. Qed.
Example of_int_zero : go_f64_of_int 0 = B754_zero false.
Proof. reflexivity. Qed.

(** float32(0.1) = 0x3dcccccd; float32(1e40) = +Inf; float32(-0.0) = -0; float64(float32) exact *)
Example f32_of_01 : go_math_Float32bits (go_f32_of_f64 (go_f64_const 0x3fb999999999999a)) = 0x3dcccccd.
Proof. vm_compute. reflexivity. Qed.
Example f32_of_1e40 : go_math_Float32bits (go_f32_of_f64 (go_f64_const 0x483d6329f1c35ca5)) = 0x7f800000.
Proof. vm_compute. reflexivity. Qed.
Example f32_of_negzero : go_math_Float32bits (go_f32_of_f64 (go_f64_const 0x8000000000000000)) = 0x80000000.
Proof. vm_compute. reflexivity. Qed.
Example f64_of_f32_01 : b64 (go_f64_of_f32 (go_f32_const 0x3dcccccd)) = 0x3fb99999a0000000.
Proof. vm_compute. reflexivity. Qed.
(** math.MaxFloat32 as a float64 constant *)
Example maxfloat32 : b64 (go_f64_of_f32 (go_f32_const 0x7f7fffff)) = 0x47efffffe0000000.
Proof. vm_compute. reflexivity. Qed.

Definition pz : go_f64 := go_f64_const 0.
Definition nz : go_f64 := go_f64_const 0x8000000000000000.
Definition pinf : go_f64 := go_f64_const 0x7ff0000000000000.
Definition ninf : go_f64 := go_f64_const 0xfff0000000000000.
Definition nan : go_f64 := go_f64_const 0x7ff8000000000001.
Definition one : go_f64 := go_f64_of_int 1.

(** math.Max(+0,-0) = math.Max(-0,+0) = +0; math.Max(-0,-0) = -0; math.Min(+0,-0) = -0 *)
Example max_pz_nz : b64 (go_math_Max pz nz) = 0 /\ b64 (go_math_Max nz pz) = 0
                    /\ b64 (go_math_Max nz nz) = 0x8000000000000000.
Proof. repeat split; vm_compute; reflexivity. Qed.
Example min_pz_nz : b64 (go_math_Min pz nz) = 0x8000000000000000
                    /\ b64 (go_math_Min nz pz) = 0x8000000000000000 /\ b64 (go_math_Min pz pz) = 0.
Proof. repeat split; vm_compute; reflexivity. Qed.
(** math.Max(NaN, +Inf) = +Inf but math.Max(NaN, 1) = NaN; math.Min(NaN, -Inf) = -Inf *)
Example max_nan_inf : go_math_Max nan pinf = pinf /\ go_math_Max one nan = B754_nan
                      /\ go_math_Min ninf nan = ninf /\ go_math_Min nan pinf = B754_nan.
Proof. repeat split; vm_compute; reflexivity. Qed.
(** NaN compares false with everything, != is true; -0 == +0 *)
Example cmp_nan : go_feq64 nan nan = false /\ go_flt64 nan one = false /\ go_fle64 one nan = false
                  /\ negb (go_feq64 nan nan) = true /\ go_feq64 nz pz = true /\ go_flt64 nz pz = false.
Proof. repeat split; vm_compute; reflexivity. Qed.
Example isnan : go_math_IsNaN nan = true /\ go_math_IsNaN pinf = false.
Proof. repeat split; vm_compute; reflexivity. Qed.
(** the canonical NaN patterns *)
Example nan_bits : b64 nan = 0x7ff8000000000000 /\ go_math_Float32bits (go_f32_of_f64 nan) = 0x7fc00000.
Proof. repeat split; vm_compute; reflexivity. Qed.
(** unsafe read of the low half: 0xdeadbeef3f800000 -> float32 1.0 -> float64 *)
Example unsafe_low : b64 (go_f64_of_f32 (go_math_Float32frombits (go_unsafe_low 32 0xdeadbeef3f800000)))
                     = 0x3ff0000000000000.
Proof. vm_compute. reflexivity. Qed.
