(** Sanity lemmas for Translate/GoSem.v.

    1. [wrap_u]/[wrap_s] land in the range of the type, are the identity on it and are congruent to
       their argument modulo 2^w (that IS Go's "wrap around" / conversion rule).
    2. Every operator that the translator emits WITHOUT an explicit wrap maps operands in the range
       of the type to a result in the range of the type ([*_range_u], [*_range_s]); the wrapped ones
       do so trivially.  Hence, by induction over the expression, every value in a translated
       function is in the range of its Go type whenever the parameters are.
    3. Unsigned [/] and [%] as emitted ([Z.div], [Z.modulo]) are Go's truncating operators on
       non-negative operands; [go_not_u]/[go_not_s] are the bitwise complement.
    4. [data_get]/[data_set] are array read / functional update.
    5. Concrete values checked by computation against what Go prints for the same expressions. *)
From Coq Require Import ZArith List Bool Lia.
From CanVerif Require Import Translate.GoSem.
Import ListNotations.
Open Scope Z_scope.

(** * 1. wrap *)
Lemma pow2_pos w : 0 < 2 ^ w \/ (w < 0 /\ 2 ^ w = 0).
Proof.
  destruct (Z_lt_le_dec w 0) as [H | H].
  - right. split; [exact H | now apply Z.pow_neg_r].
  - left. apply Z.pow_pos_nonneg; lia.
Qed.

Lemma wrap_u_range w x : 0 <= w -> in_u w (wrap_u w x).
Proof. intros Hw. unfold in_u, wrap_u. apply Z.mod_pos_bound. apply Z.pow_pos_nonneg; lia. Qed.

Lemma wrap_u_small w x : in_u w x -> wrap_u w x = x.
Proof. unfold in_u, wrap_u. intros H. now apply Z.mod_small. Qed.

Lemma wrap_u_mod w x : wrap_u w x mod 2 ^ w = x mod 2 ^ w.
Proof. unfold wrap_u. destruct (Z.eq_dec (2 ^ w) 0) as [E | E]; [now rewrite E, !Zmod_0_r | now apply Z.mod_mod]. Qed.

Lemma wrap_u_idem w x : wrap_u w (wrap_u w x) = wrap_u w x.
Proof. apply wrap_u_mod. Qed.

Lemma pow2_half w : 1 <= w -> 2 ^ w = 2 * 2 ^ (w - 1).
Proof. intros H. replace w with (Z.succ (w - 1)) at 1 by lia. rewrite Z.pow_succ_r by lia. reflexivity. Qed.

Lemma wrap_s_range w x : 1 <= w -> in_s w (wrap_s w x).
Proof.
  intros Hw. unfold in_s, wrap_s. cbv zeta.
  assert (Hp : 0 < 2 ^ (w - 1)) by (apply Z.pow_pos_nonneg; lia).
  pose proof (pow2_half w Hw) as Hh.
  pose proof (Z.mod_pos_bound x (2 ^ w) ltac:(lia)) as Hm.
  destruct (Z.ltb_spec (x mod 2 ^ w) (2 ^ (w - 1))); lia.
Qed.

Lemma wrap_s_small w x : 1 <= w -> in_s w x -> wrap_s w x = x.
Proof.
  intros Hw [Hl Hh]. unfold wrap_s. cbv zeta.
  assert (Hp : 0 < 2 ^ (w - 1)) by (apply Z.pow_pos_nonneg; lia).
  pose proof (pow2_half w Hw) as Hhalf.
  destruct (Z_lt_le_dec x 0) as [Hn | Hn].
  - assert (E : x mod 2 ^ w = x + 2 ^ w).
    { symmetry. apply (Z.mod_unique x (2 ^ w) (-1)); lia. }
    rewrite E. destruct (Z.ltb_spec (x + 2 ^ w) (2 ^ (w - 1))); lia.
  - rewrite Z.mod_small by lia. destruct (Z.ltb_spec x (2 ^ (w - 1))); lia.
Qed.

Lemma wrap_s_mod w x : 1 <= w -> wrap_s w x mod 2 ^ w = x mod 2 ^ w.
Proof.
  intros Hw. unfold wrap_s. cbv zeta.
  assert (Hp : 0 < 2 ^ w) by (apply Z.pow_pos_nonneg; lia).
  destruct (x mod 2 ^ w <? 2 ^ (w - 1)).
  - apply Z.mod_mod. lia.
  - replace (x mod 2 ^ w - 2 ^ w) with (x mod 2 ^ w + (-1) * 2 ^ w) by lia.
    rewrite Z.mod_add by lia. apply Z.mod_mod. lia.
Qed.

(** conversions between the signed and the unsigned type of the same width are bijections that
    keep the bit pattern (= the residue modulo 2^w) *)
Lemma wrap_s_wrap_u w x : wrap_s w (wrap_u w x) = wrap_s w x.
Proof. unfold wrap_s. now rewrite wrap_u_mod. Qed.

Lemma wrap_u_wrap_s w x : 1 <= w -> wrap_u w (wrap_s w x) = wrap_u w x.
Proof. intros Hw. unfold wrap_u. now apply wrap_s_mod. Qed.

(** widening: a narrower wrap survives a wider one *)
Lemma in_u_mono w w' x : 0 <= w <= w' -> in_u w x -> in_u w' x.
Proof.
  unfold in_u. intros Hw H. split; [lia |].
  apply Z.lt_le_trans with (2 ^ w); [lia | apply Z.pow_le_mono_r; lia].
Qed.

Lemma in_s_mono w w' x : 1 <= w <= w' -> in_s w x -> in_s w' x.
Proof.
  unfold in_s. intros Hw H.
  assert (2 ^ (w - 1) <= 2 ^ (w' - 1)) by (apply Z.pow_le_mono_r; lia). lia.
Qed.

Lemma in_u_in_s w w' x : 0 <= w < w' -> in_u w x -> in_s w' x.
Proof.
  unfold in_u, in_s. intros Hw H.
  assert (2 ^ w <= 2 ^ (w' - 1)) by (apply Z.pow_le_mono_r; lia).
  assert (0 < 2 ^ (w' - 1)) by (apply Z.pow_pos_nonneg; lia). lia.
Qed.

(** * 2. ranges of the operators emitted without a wrap *)
Lemma in_u_bits w x : 0 <= w -> (in_u w x <-> 0 <= x /\ Z.shiftr x w = 0).
Proof.
  intros Hw. unfold in_u. rewrite Z.shiftr_div_pow2 by lia.
  assert (Hp : 0 < 2 ^ w) by (apply Z.pow_pos_nonneg; lia).
  split.
  - intros H. split; [lia | now apply Z.div_small].
  - intros [H0 H]. split; [lia |]. apply Z.div_small_iff in H; lia.
Qed.

Lemma in_s_bits w x : 1 <= w -> (in_s w x <-> Z.shiftr x (w - 1) = 0 \/ Z.shiftr x (w - 1) = -1).
Proof.
  intros Hw. unfold in_s. rewrite Z.shiftr_div_pow2 by lia.
  assert (Hp : 0 < 2 ^ (w - 1)) by (apply Z.pow_pos_nonneg; lia).
  set (p := 2 ^ (w - 1)) in *.
  split.
  - intros H. destruct (Z_lt_le_dec x 0).
    + right. symmetry. apply (Z.div_unique x p (-1) (x + p)); lia.
    + left. apply Z.div_small. lia.
  - pose proof (Z.div_mod x p ltac:(lia)) as E. pose proof (Z.mod_pos_bound x p Hp) as B.
    intros [H | H]; rewrite H in E; lia.
Qed.

Lemma go_and_range_u w x y : 0 <= w -> in_u w x -> in_u w y -> in_u w (go_and x y).
Proof.
  intros Hw Hx Hy. apply in_u_bits in Hx, Hy; try lia. apply in_u_bits; [lia |]. unfold go_and.
  split; [apply Z.land_nonneg; lia |]. rewrite Z.shiftr_land. destruct Hx as [_ ->]. apply Z.land_0_l.
Qed.

Lemma go_or_range_u w x y : 0 <= w -> in_u w x -> in_u w y -> in_u w (go_or x y).
Proof.
  intros Hw Hx Hy. apply in_u_bits in Hx, Hy; try lia. apply in_u_bits; [lia |]. unfold go_or.
  split; [apply Z.lor_nonneg; lia |]. rewrite Z.shiftr_lor. destruct Hx as [_ ->], Hy as [_ ->]. reflexivity.
Qed.

Lemma go_xor_range_u w x y : 0 <= w -> in_u w x -> in_u w y -> in_u w (go_xor x y).
Proof.
  intros Hw Hx Hy. apply in_u_bits in Hx, Hy; try lia. apply in_u_bits; [lia |]. unfold go_xor.
  split; [apply Z.lxor_nonneg; lia |]. rewrite Z.shiftr_lxor. destruct Hx as [_ ->], Hy as [_ ->]. reflexivity.
Qed.

Lemma go_andnot_range_u w x y : 0 <= w -> in_u w x -> in_u w y -> in_u w (go_andnot x y).
Proof.
  intros Hw Hx Hy. apply in_u_bits in Hx, Hy; try lia. apply in_u_bits; [lia |]. unfold go_andnot.
  split; [apply Z.ldiff_nonneg; lia |]. rewrite Z.shiftr_ldiff. destruct Hx as [_ ->]. apply Z.ldiff_0_l.
Qed.

Lemma go_not_u_range w x : in_u w x -> in_u w (go_not_u w x).
Proof. unfold in_u, go_not_u. lia. Qed.

Lemma bitop_s (f : Z -> Z -> Z) w x y :
  1 <= w ->
  (forall a b n, 0 <= n -> Z.shiftr (f a b) n = f (Z.shiftr a n) (Z.shiftr b n)) ->
  (forall a b, (a = 0 \/ a = -1) -> (b = 0 \/ b = -1) -> f a b = 0 \/ f a b = -1) ->
  in_s w x -> in_s w y -> in_s w (f x y).
Proof.
  intros Hw Hsh Hv Hx Hy. apply in_s_bits in Hx, Hy; try lia. apply in_s_bits; [lia |].
  rewrite Hsh by lia. now apply Hv.
Qed.

Lemma go_and_range_s w x y : 1 <= w -> in_s w x -> in_s w y -> in_s w (go_and x y).
Proof.
  intros Hw. apply bitop_s; [lia | intros; apply Z.shiftr_land |].
  intros a b [-> | ->] [-> | ->]; cbn; auto.
Qed.

Lemma go_or_range_s w x y : 1 <= w -> in_s w x -> in_s w y -> in_s w (go_or x y).
Proof.
  intros Hw. apply bitop_s; [lia | intros; apply Z.shiftr_lor |].
  intros a b [-> | ->] [-> | ->]; cbn; auto.
Qed.

Lemma go_xor_range_s w x y : 1 <= w -> in_s w x -> in_s w y -> in_s w (go_xor x y).
Proof.
  intros Hw. apply bitop_s; [lia | intros; apply Z.shiftr_lxor |].
  intros a b [-> | ->] [-> | ->]; cbn; auto.
Qed.

Lemma go_andnot_range_s w x y : 1 <= w -> in_s w x -> in_s w y -> in_s w (go_andnot x y).
Proof.
  intros Hw. apply bitop_s; [lia | intros; apply Z.shiftr_ldiff |].
  intros a b [-> | ->] [-> | ->]; cbn; auto.
Qed.

Lemma go_not_s_range w x : in_s w x -> in_s w (go_not_s x).
Proof. unfold in_s, go_not_s. lia. Qed.

Lemma go_shl_u_range w x n : 0 <= w -> in_u w (go_shl_u w x n).
Proof.
  intros Hw. unfold go_shl_u. destruct (n <? w); [now apply wrap_u_range |].
  unfold in_u. split; [lia | apply Z.pow_pos_nonneg; lia].
Qed.

Lemma go_shl_s_range w x n : 1 <= w -> in_s w (go_shl_s w x n).
Proof.
  intros Hw. unfold go_shl_s. destruct (n <? w); [now apply wrap_s_range |].
  unfold in_s. assert (0 < 2 ^ (w - 1)) by (apply Z.pow_pos_nonneg; lia). lia.
Qed.

Lemma go_shr_u_range w x n : 0 <= w -> 0 <= n -> in_u w x -> in_u w (go_shr_u w x n).
Proof.
  intros Hw Hn [H0 H1]. unfold go_shr_u, in_u.
  assert (Hp : 0 < 2 ^ w) by (apply Z.pow_pos_nonneg; lia).
  destruct (n <? w); [| lia].
  rewrite Z.shiftr_div_pow2 by lia.
  assert (Hq : 0 < 2 ^ n) by (apply Z.pow_pos_nonneg; lia).
  split; [apply Z.div_pos; lia |].
  apply Z.le_lt_trans with x; [| lia]. apply Z.div_le_upper_bound; [lia | nia].
Qed.

Lemma go_shr_s_range w x n : 1 <= w -> 0 <= n -> in_s w x -> in_s w (go_shr_s w x n).
Proof.
  intros Hw Hn Hx. unfold go_shr_s.
  assert (Hp : 0 < 2 ^ (w - 1)) by (apply Z.pow_pos_nonneg; lia).
  destruct (n <? w).
  - apply in_s_bits in Hx; [| lia]. apply in_s_bits; [lia |].
    rewrite Z.shiftr_shiftr by lia. rewrite Z.add_comm, <- Z.shiftr_shiftr by lia.
    destruct Hx as [-> | ->].
    + left. apply Z.shiftr_0_l.
    + right. rewrite Z.shiftr_div_pow2 by lia.
      assert (Hq : 0 < 2 ^ n) by (apply Z.pow_pos_nonneg; lia).
      symmetry. apply (Z.div_unique (-1) (2 ^ n) (-1) (2 ^ n - 1)); lia.
  - unfold in_s. destruct (x <? 0); lia.
Qed.

(** a shift count >= the width really shifts every bit out (so the [if] in [go_shr_*] only spells
    out what [Z.shiftr] does anyway) *)
Lemma go_shr_u_all w x n : 0 <= w <= n -> in_u w x -> Z.shiftr x n = 0.
Proof.
  intros Hw [H0 H1]. rewrite Z.shiftr_div_pow2 by lia. apply Z.div_small. split; [lia |].
  apply Z.lt_le_trans with (2 ^ w); [lia | apply Z.pow_le_mono_r; lia].
Qed.

Lemma go_shr_s_all w x n : 1 <= w <= n -> in_s w x -> Z.shiftr x n = if x <? 0 then -1 else 0.
Proof.
  intros Hw [H0 H1]. rewrite Z.shiftr_div_pow2 by lia.
  assert (2 ^ (w - 1) <= 2 ^ n) by (apply Z.pow_le_mono_r; lia).
  assert (0 < 2 ^ (w - 1)) by (apply Z.pow_pos_nonneg; lia).
  destruct (Z.ltb_spec x 0).
  - symmetry. apply (Z.div_unique x (2 ^ n) (-1) (x + 2 ^ n)); lia.
  - apply Z.div_small. lia.
Qed.

(** * 3. division, complement *)
Lemma go_div_u_quot x y : 0 <= x -> 0 < y -> go_div_u x y = Z.quot x y.
Proof. intros. unfold go_div_u. symmetry. apply Z.quot_div_nonneg; lia. Qed.

Lemma go_rem_u_rem x y : 0 <= x -> 0 < y -> go_rem_u x y = Z.rem x y.
Proof. intros. unfold go_rem_u. symmetry. apply Z.rem_mod_nonneg; lia. Qed.

Lemma go_div_u_range w x y : 0 < y -> in_u w x -> in_u w (go_div_u x y).
Proof.
  unfold in_u, go_div_u. intros Hy [H0 H1]. split; [apply Z.div_pos; lia |].
  apply Z.le_lt_trans with x; [| lia]. apply Z.div_le_upper_bound; [lia | nia].
Qed.

Lemma go_rem_u_range w x y : 0 < y -> in_u w x -> in_u w (go_rem_u x y).
Proof.
  unfold in_u, go_rem_u. intros Hy [H0 H1]. pose proof (Z.mod_pos_bound x y Hy).
  split; [lia |]. apply Z.le_lt_trans with x; [| lia]. apply Z.mod_le; lia.
Qed.

Lemma go_div_s_range w x y : 1 <= w -> in_s w (go_div_s w x y).
Proof. intros. now apply wrap_s_range. Qed.

Lemma go_rem_s_range w x y : y <> 0 -> in_s w x -> in_s w (go_rem_s x y).
Proof.
  unfold in_s, go_rem_s. intros Hy [H0 H1].
  destruct (Z_lt_le_dec x 0).
  - pose proof (Z.rem_nonpos x y ltac:(lia) ltac:(lia)).
    assert (x <= Z.rem x y).
    { rewrite <- (Z.opp_involutive x) at 2. rewrite Z.rem_opp_l by lia.
      pose proof (Z.rem_le (- x) (Z.abs y) ltac:(lia) ltac:(lia)) as R.
      rewrite Z.rem_abs_r in R by lia. lia. }
    lia.
  - pose proof (Z.rem_nonneg x y ltac:(lia) ltac:(lia)).
    pose proof (Z.rem_le x (Z.abs y) ltac:(lia) ltac:(lia)) as R.
    rewrite Z.rem_abs_r in R by lia. lia.
Qed.

Lemma go_not_s_lnot x : go_not_s x = Z.lnot x.
Proof. unfold go_not_s, Z.lnot. lia. Qed.

(** [^x] on uintN flips exactly the N low bits *)
Lemma go_not_u_bits w x i : 0 <= i < w -> in_u w x ->
  Z.testbit (go_not_u w x) i = negb (Z.testbit x i).
Proof.
  intros Hi Hx. unfold go_not_u.
  replace (2 ^ w - 1 - x) with (Z.lnot x + 2 ^ w) by (unfold Z.lnot; lia).
  replace (Z.lnot x + 2 ^ w) with (Z.lnot x + 1 * 2 ^ w) by lia.
  rewrite <- (Z.mod_pow2_bits_low _ w i) by lia.
  rewrite Z.mod_add by (apply Z.pow_nonzero; lia).
  rewrite Z.mod_pow2_bits_low by lia. apply Z.lnot_spec. lia.
Qed.

(** * 4. arrays *)
Lemma list_set_length n v d : length (list_set n v d) = length d.
Proof. revert n; induction d as [| h t IH]; intros [| n]; cbn; auto. Qed.

Lemma list_set_nth_same n v d : (n < length d)%nat -> nth n (list_set n v d) 0 = v.
Proof. revert n; induction d as [| h t IH]; intros [| n] H; cbn in *; try lia; auto. apply IH. lia. Qed.

Lemma list_set_nth_other n m v d : n <> m -> nth m (list_set n v d) 0 = nth m d 0.
Proof.
  revert n m; induction d as [| h t IH]; intros [| n] [| m] H; cbn; auto; try congruence.
Qed.

Lemma data_get_set_same n d i v : in_data n d -> 0 <= i < n -> data_get (data_set d i v) i = v.
Proof. intros [Hl _] Hi. unfold data_get, data_set. apply list_set_nth_same. lia. Qed.

Lemma data_get_set_other d i j v : 0 <= i -> 0 <= j -> i <> j -> data_get (data_set d i v) j = data_get d j.
Proof. intros Hi Hj Hn. unfold data_get, data_set. apply list_set_nth_other. lia. Qed.

Lemma data_set_in_data n d i v : in_data n d -> in_u 8 v -> in_data n (data_set d i v).
Proof.
  intros [Hl Hf] Hv. unfold data_set. split; [now rewrite list_set_length |].
  clear Hl. revert Hf. generalize (Z.to_nat i) as k. induction d as [| h t IH]; intros [| k] Hf; cbn; auto.
  - inversion Hf; subst. now constructor.
  - inversion Hf; subst. constructor; auto.
Qed.

Lemma data_get_range n d i : in_data n d -> in_u 8 (data_get d i).
Proof.
  intros [_ Hf]. unfold data_get. generalize (Z.to_nat i) as k.
  induction Hf as [| h t Hh Ht IH]; intros [| k]; cbn; auto; unfold in_u; lia.
Qed.

Lemma data_zero_in_data n : 0 <= n -> in_data n (data_zero n).
Proof.
  intros Hn. unfold data_zero. split; [apply repeat_length |].
  apply Forall_forall. intros x Hx. apply repeat_spec in Hx. subst. unfold in_u. lia.
Qed.

(** * 5. concrete values (what the Go expressions in the comments evaluate to) *)
Example ex_conv_int8 : wrap_s 8 200 = -56.                      (* int8(uint8(200)) *)
Proof. reflexivity. Qed.
Example ex_conv_uint8 : wrap_u 8 (-1) = 255.                    (* uint8(int8(-1)) *)
Proof. reflexivity. Qed.
Example ex_conv_u64 : wrap_u 64 (-1) = 18446744073709551615.    (* uint64(int64(-1)) *)
Proof. reflexivity. Qed.
Example ex_sub_u8 : wrap_u 8 (3 - 5) = 254.                     (* uint8(3) - uint8(5) *)
Proof. reflexivity. Qed.
Example ex_add_i64 : wrap_s 64 (9223372036854775807 + 1) = -9223372036854775808.  (* MaxInt64 + 1 *)
Proof. reflexivity. Qed.
Example ex_neg_min : wrap_s 64 (- (-9223372036854775808)) = -9223372036854775808. (* -MinInt64 *)
Proof. reflexivity. Qed.
Example ex_shl_64 : go_shl_u 64 1 64 = 0.                       (* uint64(1) << 64 *)
Proof. reflexivity. Qed.
Example ex_shl_63 : go_shl_s 64 1 63 = -9223372036854775808.    (* int64(1) << 63 *)
Proof. reflexivity. Qed.
Example ex_shl_u8 : go_shl_u 8 255 1 = 254.                     (* uint8(255) << 1 *)
Proof. reflexivity. Qed.
Example ex_shr_s : go_shr_s 64 (-8) 1 = -4 /\ go_shr_s 64 (-8) 70 = -1 /\ go_shr_s 64 8 70 = 0.
Proof. repeat split. Qed.                                        (* int64(-8) >> 1, >> 70 *)
Example ex_shr_u : go_shr_u 64 18446744073709551615 63 = 1 /\ go_shr_u 64 18446744073709551615 64 = 0.
Proof. repeat split. Qed.
Example ex_not : go_not_u 8 1 = 254 /\ go_not_s 5 = -6.         (* ^uint8(1), ^int64(5) *)
Proof. repeat split. Qed.
Example ex_bits_s : go_and (-2) 7 = 6 /\ go_or (-8) 3 = -5 /\ go_xor (-1) 5 = -6 /\ go_andnot 15 (-4) = 3.
Proof. repeat split. Qed.                                        (* int64 operands *)
Example ex_div : go_div_s 64 (-7) 2 = -3 /\ go_rem_s (-7) 2 = -1 /\ go_div_u 7 2 = 3 /\ go_rem_u 7 2 = 1.
Proof. repeat split. Qed.                                        (* -7/2, -7%2 truncate towards zero *)
Example ex_div_min : go_div_s 64 (-9223372036854775808) (-1) = -9223372036854775808.
Proof. reflexivity. Qed.                                         (* MinInt64 / -1 wraps *)
Example ex_data : data_get (data_set (data_zero 8) 3 7) 3 = 7 /\ data_get (data_zero 8) 9 = 0
                  /\ data_set (data_zero 8) 9 1 = data_zero 8.
Proof. repeat split. Qed.

(** * 6. byte slices written through (fourth round): the stores keep the length; encoding/binary *)
Lemma list_splice_length n src b : length (list_splice n src b) = length b.
Proof.
  revert n src; induction b as [| h t IH]; intros [| n] src; cbn; auto.
  destruct src; cbn; auto.
Qed.
Lemma list_splice_nil n b : list_splice n [] b = b.
Proof. revert n; induction b as [| h t IH]; intros [| n]; cbn; auto. now rewrite IH. Qed.
Lemma bytes_set_len b i v : bytes_len (bytes_set b i v) = bytes_len b.
Proof. unfold bytes_len, bytes_set. now rewrite list_set_length. Qed.
Lemma bytes_splice_len b lo src : bytes_len (bytes_splice b lo src) = bytes_len b.
Proof. unfold bytes_len, bytes_splice. now rewrite list_splice_length. Qed.
Lemma bytes_copy_at_len a lo hi src : bytes_len (bytes_copy_at a lo hi src) = bytes_len a.
Proof. unfold bytes_copy_at. apply bytes_splice_len. Qed.
Lemma binary_le_PutUint16_len b lo v : bytes_len (binary_le_PutUint16 b lo v) = bytes_len b.
Proof. apply bytes_splice_len. Qed.
Lemma binary_le_PutUint32_len b lo v : bytes_len (binary_le_PutUint32 b lo v) = bytes_len b.
Proof. apply bytes_splice_len. Qed.
Lemma binary_le_PutUint64_len b lo v : bytes_len (binary_le_PutUint64 b lo v) = bytes_len b.
Proof. apply bytes_splice_len. Qed.

(** [le_byte v k] is a byte, and the four of them are the little-endian digits of a uint32 *)
Lemma le_byte_mod v k : 0 <= k -> le_byte v k = Z.shiftr v (8 * k) mod 256.
Proof. intros Hk. unfold le_byte. change 255 with (Z.ones 8). rewrite Z.land_ones by lia. reflexivity. Qed.
Lemma le_byte_range v k : 0 <= k -> in_u 8 (le_byte v k).
Proof. intros Hk. rewrite le_byte_mod by exact Hk. unfold in_u. change (2 ^ 8) with 256. apply Z.mod_pos_bound. lia. Qed.
Lemma binary_le_Uint32_Put b v : in_u 32 v -> (4 <= length b)%nat ->
  binary_le_Uint32 (binary_le_PutUint32 b 0 v) = v.
Proof.
  intros Hv Hb. do 4 (destruct b as [| ? b]; [cbn in Hb; lia |]).
  unfold binary_le_PutUint32, bytes_splice, le_bytes4. cbn [Z.to_nat list_splice binary_le_Uint32].
  rewrite !le_byte_mod by lia. rewrite !Z.shiftr_div_pow2 by lia.
  change (8 * 0) with 0. change (8 * 1) with 8. change (8 * 2) with 16. change (8 * 3) with 24.
  change (2 ^ 0) with 1. change (2 ^ 8) with 256. change (2 ^ 16) with 65536. change (2 ^ 24) with 16777216.
  unfold in_u in Hv. change (2 ^ 32) with 4294967296 in Hv.
  Z.div_mod_to_equations. lia.
Qed.
Example ex_binary_le : binary_le_Uint32 [0x78; 0x56; 0x34; 0x12; 0xff] = 0x12345678
  /\ binary_le_PutUint32 [1; 2; 3; 4; 5; 6] 1 0x12345678 = [1; 0x78; 0x56; 0x34; 0x12; 6]
  /\ binary_le_Uint16 [0x34; 0x12] = 0x1234 /\ binary_le_Uint32 [1; 2; 3] = 0.
Proof. repeat split. Qed.

(** * 7. loops (fourth round): what [go_range] computes *)
Lemma go_range_nil {A St R} (body : Z -> A -> St -> go_loop St R) i s : go_range body i [] s = LoopNext s.
Proof. reflexivity. Qed.
Lemma go_range_cons {A St R} (body : Z -> A -> St -> go_loop St R) i x l s :
  go_range body i (x :: l) s =
    match body i x s with LoopNext s' => go_range body (i + 1) l s' | LoopReturn r => LoopReturn r end.
Proof. reflexivity. Qed.
(** iterations are run in order; a return in the first part skips the second *)
Lemma go_range_app {A St R} (body : Z -> A -> St -> go_loop St R) i l1 l2 s :
  go_range body i (l1 ++ l2) s =
    match go_range body i l1 s with
    | LoopNext s' => go_range body (i + Z.of_nat (length l1)) l2 s'
    | LoopReturn r => LoopReturn r
    end.
Proof.
  revert i s. induction l1 as [| x l1 IH]; intros i s.
  - cbn. now rewrite Z.add_0_r.
  - cbn [app go_range length]. destruct (body i x s); [| reflexivity].
    rewrite IH. replace (i + 1 + Z.of_nat (length l1)) with (i + Z.of_nat (S (length l1))) by lia. reflexivity.
Qed.
(** a body that never returns: the loop is the left fold of the state over (index, element) *)
Lemma go_range_fold {A St R} (step : Z -> A -> St -> St) i l s :
  go_range (fun i x s => @LoopNext St R (step i x s)) i l s =
    LoopNext (snd (fold_left (fun '(i, s) x => (i + 1, step i x s)) l (i, s))).
Proof. revert i s. induction l as [| x l IH]; intros i s; cbn; [reflexivity | apply IH]. Qed.
(** a search loop [if p x { return f x }]: the first element satisfying p *)
Lemma go_range_find {A St R} (p : A -> bool) (f : A -> R) i l (s : St) :
  go_range (fun _ x s => if p x then LoopReturn (f x) else LoopNext s) i l s =
    match find p l with Some x => LoopReturn (f x) | None => LoopNext s end.
Proof. revert i. induction l as [| x l IH]; intros i; cbn; [reflexivity |]. destruct (p x); [reflexivity | apply IH]. Qed.
Lemma go_iota_length n : length (go_iota n) = Z.to_nat n.
Proof. apply repeat_length. Qed.
Example ex_range_sum : go_range (fun i x s => if x =? 0 then @LoopReturn Z Z (- i) else LoopNext (s + x)) 0 [3; 4; 5] 0 = LoopNext 12
  /\ go_range (fun i x s => if x =? 0 then @LoopReturn Z Z (- i) else LoopNext (s + x)) 0 [3; 0; 5] 0 = LoopReturn (-1)
  /\ go_range (fun i _ s => @LoopNext Z Z (s + i)) 0 (go_iota 4) 0 = LoopNext 6.
Proof. repeat split. Qed.
Example ex_deref : go_deref 7 (Some 3) = 3 /\ go_deref 7 None = 7 /\ list_len [1; 2; 3] = 3.
Proof. repeat split. Qed.

(** * 8. range over a string: the first code point *)
(** an ASCII byte is its own code point; every other first byte gives a code point >= 128 (RuneError
    included) and a width of 1..4 *)
Ltac boolprops := repeat match goal with
  | H : _ && _ = true |- _ => apply andb_true_iff in H; destruct H
  | H : (_ <=? _) = true |- _ => apply Z.leb_le in H
  end.
Lemma go_utf8_decode_cases b0 t :
  (b0 < 128 /\ go_utf8_decode (b0 :: t) = (b0, 1))
  \/ (128 <= b0 /\ exists r w, go_utf8_decode (b0 :: t) = (r, w) /\ 128 <= r /\ 1 <= w <= 4).
Proof.
  destruct (Z_lt_le_dec b0 128) as [Hl | Hg].
  - left. split; [exact Hl |]. unfold go_utf8_decode. apply Z.ltb_lt in Hl. now rewrite Hl.
  - right. split; [exact Hg |]. unfold go_utf8_decode, utf8_cont. cbv zeta.
    assert (E : (b0 <? 128) = false) by (apply Z.ltb_ge; exact Hg). rewrite E.
    destruct ((194 <=? b0) && (b0 <=? 223)) eqn:C2.
    { destruct t as [| b1 t]; [eexists _, _; repeat split; lia |].
      destruct ((128 <=? b1) && (b1 <=? 191)) eqn:C; [| eexists _, _; repeat split; lia].
      eexists _, _. split; [reflexivity |]. split; [| lia]. boolprops. Z.div_mod_to_equations. lia. }
    destruct ((224 <=? b0) && (b0 <=? 239)) eqn:C3.
    { destruct t as [| b1 [| b2 t]]; try (eexists _, _; repeat split; lia).
      destruct (Z.eqb_spec b0 224), (Z.eqb_spec b0 237);
        (match goal with |- context [if ?c then _ else _] => destruct c eqn:C end; [| eexists _, _; repeat split; lia]);
        (eexists _, _; split; [reflexivity |]; split; [| lia]; boolprops; Z.div_mod_to_equations; lia). }
    destruct ((240 <=? b0) && (b0 <=? 244)) eqn:C4.
    { destruct t as [| b1 [| b2 [| b3 t]]]; try (eexists _, _; repeat split; lia).
      destruct (Z.eqb_spec b0 240), (Z.eqb_spec b0 244);
        (match goal with |- context [if ?c then _ else _] => destruct c eqn:C end; [| eexists _, _; repeat split; lia]);
        (eexists _, _; split; [reflexivity |]; split; [| lia]; boolprops; Z.div_mod_to_equations; lia). }
    eexists _, _. repeat split; lia.
Qed.
Example ex_utf8 : go_utf8_decode [0x41; 0x42] = (0x41, 1) /\ go_utf8_decode [0xC3; 0xA9] = (0xE9, 2)
  /\ go_utf8_decode [0xE2; 0x82; 0xAC] = (0x20AC, 3) /\ go_utf8_decode [0xF0; 0x9F; 0x98; 0x80] = (0x1F600, 4)
  /\ go_utf8_decode [0xC0; 0x80] = (0xFFFD, 1) /\ go_utf8_decode [0xED; 0xA0; 0x80] = (0xFFFD, 1)
  /\ go_utf8_decode [0xE2; 0x82] = (0xFFFD, 1) /\ go_utf8_decode [0xF4; 0x90; 0x80; 0x80] = (0xFFFD, 1).
Proof. repeat split. Qed.
Example ex_range_string :
  go_range_string (fun i r s => @LoopNext (list (Z * Z)) unit (s ++ [(i, r)])) 0 [0x61; 0xC3; 0xA9; 0xFF; 0x62] []
  = LoopNext [(0, 0x61); (1, 0xE9); (3, 0xFFFD); (4, 0x62)].
Proof. reflexivity. Qed.
Lemma go_utf8_decode_width b0 t : 1 <= snd (go_utf8_decode (b0 :: t)) <= 4.
Proof.
  destruct (go_utf8_decode_cases b0 t) as [[_ E] | [_ (r & w & E & _ & Hw)]]; rewrite E; cbn [snd]; lia.
Qed.
