(** Proofs for C07: the receiver model (Receiver.v) delivers exactly what ReceiverSpec.v says,
    for every list of read results. Induction over the read list with the invariant
    "what is buffered ++ what the remaining reads will deliver = the rest of the stream". *)
From Coq Require Import ZArith List Bool Lia Arith PeanoNat.
From CanVerif Require Import Socketcan.Wire Socketcan.Receiver Socketcan.ReceiverSpec.
Import ListNotations.
Open Scope Z_scope.

(** * chunks16 *)
Lemma skipn_add {A} (a b : nat) : forall l : list A, skipn (a + b) l = skipn b (skipn a l).
Proof.
  induction a as [|a IH]; intros l; [reflexivity|].
  destruct l; [cbn; rewrite skipn_nil; reflexivity|]. cbn [Nat.add skipn]. apply IH.
Qed.

Lemma chunks16_short l : (length l < 16)%nat -> chunks16 l = [].
Proof. intros H. unfold chunks16. rewrite Nat.div_small by exact H. reflexivity. Qed.

Lemma chunks16_cons l : (16 <= length l)%nat ->
  chunks16 l = firstn 16 l :: chunks16 (skipn 16 l).
Proof.
  intros H. unfold chunks16.
  assert (E : (length l / 16 = S (length (skipn 16 l) / 16))%nat).
  { rewrite skipn_length.
    replace (length l) with ((length l - 16) + 1 * 16)%nat at 1 by lia.
    rewrite Nat.div_add by lia. lia. }
  rewrite E. cbn [seq map]. f_equal.
  rewrite <- seq_shift, map_map. apply map_ext. intros k.
  replace (16 * S k)%nat with (16 + 16 * k)%nat by lia.
  rewrite skipn_add. reflexivity.
Qed.

Lemma chunks16_length l : length (chunks16 l) = (length l / 16)%nat.
Proof. unfold chunks16. rewrite map_length, seq_length. reflexivity. Qed.

Lemma chunks16_nth l k : (k < length l / 16)%nat ->
  nth k (chunks16 l) [] = firstn 16 (skipn (16 * k) l).
Proof.
  intros H. unfold chunks16.
  set (f := fun k => firstn 16 (skipn (16 * k) l)).
  rewrite nth_indep with (d' := f 0%nat) by (rewrite map_length, seq_length; exact H).
  rewrite map_nth, seq_nth by exact H. reflexivity.
Qed.

Lemma chunks16_block_length l c : In c (chunks16 l) -> length c = 16%nat.
Proof.
  unfold chunks16. rewrite in_map_iff. intros (k & <- & Hk). apply in_seq in Hk.
  rewrite firstn_length, skipn_length.
  assert (16 * (length l / 16) <= length l)%nat by (apply Nat.mul_div_le; lia).
  nia.
Qed.

(** the frames cover the stream up to the trailing partial block, which is dropped *)
Lemma chunks16_concat l : concat (chunks16 l) = firstn (16 * (length l / 16)) l.
Proof.
  remember (length l / 16)%nat as q eqn:Eq. revert l Eq.
  induction q as [|q IH]; intros l Eq.
  - rewrite chunks16_short; [reflexivity|].
    destruct (Nat.lt_ge_cases (length l) 16) as [|Hge]; [assumption|exfalso].
    assert (1 <= length l / 16)%nat by (apply Nat.div_le_lower_bound; lia). lia.
  - assert (Hl : (16 <= length l)%nat).
    { destruct (Nat.lt_ge_cases (length l) 16) as [Hlt|]; [|assumption].
      rewrite Nat.div_small in Eq by exact Hlt. discriminate. }
    rewrite chunks16_cons by exact Hl. cbn [concat].
    rewrite IH.
    + replace (16 * S q)%nat with (16 + 16 * q)%nat by lia.
      rewrite <- (firstn_skipn 16 l) at 3.
      rewrite firstn_app, firstn_firstn, firstn_length.
      replace (Nat.min (16 + 16 * q) 16) with 16%nat by lia.
      replace (16 + 16 * q - Nat.min 16 (length l))%nat with (16 * q)%nat by lia.
      reflexivity.
    + rewrite skipn_length.
      replace (length l) with ((length l - 16) + 1 * 16)%nat in Eq by lia.
      rewrite Nat.div_add in Eq by lia. lia.
Qed.

(** * The read loop against the delivered stream *)
Lemma fill_spec rs : forall loop,
  match fill loop rs with
  | (bs, None, rs') =>
      bs <> [] /\ (length rs' < length rs)%nat /\
      delivered loop rs = (bs ++ fst (delivered 0 rs'), snd (delivered 0 rs'))
  | (bs, Some e, rs') => delivered loop rs = (bs, err_public e)
  end.
Proof.
  induction rs as [|r rs IH]; intros loop; cbn [fill delivered].
  - reflexivity.
  - destruct r as [bs|bs e|e|]; try reflexivity.
    destruct bs as [|b bs].
    + unfold maxConsecutiveEmptyReads.
      destruct (Z.ltb_spec 100 (loop + 1)); destruct (Z.leb_spec 100 loop); try lia.
      * reflexivity.
      * specialize (IH (loop + 1)). destruct (fill (loop + 1) rs) as [[bs' [e'|]] rs'].
        -- exact IH.
        -- destruct IH as (H1 & H2 & H3). repeat split; [exact H1|cbn [length]; lia|exact H3].
    + split; [discriminate|]. split; [cbn [length]; lia|].
      destruct (delivered 0 rs) as [b' e']. reflexivity.
Qed.

(** * One Scan *)
(** the rest of the stream as seen from a scanner state: what is buffered, then what the
    remaining reads deliver (nothing more once an error is recorded) *)
Definition pending (s : scanner) (rs : list read) : list Z * option error :=
  match serr s with
  | Some e => (sbuf s, err_public e)
  | None => (sbuf s ++ fst (delivered 0 rs), snd (delivered 0 rs))
  end.

Lemma try_split_short buf err dn emp tok : (length buf < 16)%nat ->
  exists tok', try_split scan_frames (mkScanner buf err dn emp tok) = Continue (mkScanner buf err dn emp tok').
Proof.
  intros H. unfold try_split, scan_frames, lengthOfFrame. cbn [sbuf serr].
  destruct (negb (is_nil buf) || is_some err); [|eexists; reflexivity].
  destruct (Z.ltb_spec (Z.of_nat (length buf)) 16); [|lia].
  cbn [Z.ltb Z.compare]. destruct (Z.ltb_spec (Z.of_nat (length buf)) 0); [lia|].
  eexists. unfold set_token, set_buf. cbn. reflexivity.
Qed.

Lemma try_split_long buf err dn emp tok : (16 <= length buf)%nat ->
  try_split scan_frames (mkScanner buf err dn emp tok)
  = Return STrue (mkScanner (skipn 16 buf) err dn 0 (Some (firstn 16 buf))).
Proof.
  intros H. unfold try_split, scan_frames, lengthOfFrame. cbn [sbuf serr].
  destruct buf as [|b0 buf']; [cbn in H; lia|]. cbn [is_nil negb orb].
  set (buf := b0 :: buf') in *.
  destruct (Z.ltb_spec (Z.of_nat (length buf)) 16); [lia|].
  change (16 <? 0) with false. cbv iota.
  destruct (Z.ltb_spec (Z.of_nat (length buf)) 16); [lia|].
  change (0 <? 16) with true. rewrite orb_true_r.
  unfold set_empties, set_token, set_buf. cbn. reflexivity.
Qed.

(** fuel needed by the outer loop *)
Definition need (s : scanner) (rs : list read) : nat :=
  match serr s with None => length rs + 2 | Some _ => 1 end.

Lemma scan_loop_spec : forall fuel s rs, (need s rs <= fuel)%nat ->
  let P := fst (pending s rs) in
  let E := snd (pending s rs) in
  if (16 <=? length P)%nat then
    exists s' rs', scan_loop scan_frames fuel s rs = (STrue, s', rs')
      /\ stoken s' = Some (firstn 16 P) /\ pending s' rs' = (skipn 16 P, E) /\ sdone s' = sdone s
  else
    exists s' rs', scan_loop scan_frames fuel s rs = (SFalse, s', rs')
      /\ sbuf s' = [] /\ (exists e, serr s' = Some e /\ err_public e = E) /\ sdone s' = sdone s.
Proof.
  induction fuel as [|fuel IH]; intros s rs Hfuel.
  { unfold need in Hfuel. destruct (serr s); lia. }
  destruct s as [buf err dn emp tok]. cbn zeta.
  destruct err as [e|].
  - (* an error is recorded: only the buffered bytes are left *)
    unfold pending. cbn [serr sbuf fst snd].
    destruct (Nat.leb_spec 16 (length buf)) as [Hlong|Hshort].
    + cbn [scan_loop]. rewrite try_split_long by exact Hlong.
      do 2 eexists. split; [reflexivity|]. cbn [stoken serr sbuf sdone]. repeat split.
    + cbn [scan_loop]. destruct (try_split_short buf (Some e) dn emp tok Hshort) as [tok' ->].
      cbn [serr]. do 2 eexists. split; [reflexivity|]. cbn [sbuf serr sdone set_buf].
      repeat split. eexists. split; reflexivity.
  - (* no error yet *)
    unfold pending. cbn [serr sbuf fst snd].
    destruct (Nat.leb_spec 16 (length buf)) as [Hlong|Hshort].
    + (* a whole frame is already buffered *)
      assert (Hl : (16 <=? length (buf ++ fst (delivered 0 rs)))%nat = true).
      { apply Nat.leb_le. rewrite app_length. lia. }
      rewrite Hl. cbn [scan_loop]. rewrite try_split_long by exact Hlong.
      do 2 eexists. split; [reflexivity|]. cbn [stoken serr sbuf sdone fst snd]. repeat split.
      * rewrite firstn_app. replace (16 - length buf)%nat with 0%nat by lia.
        cbn [firstn]. rewrite app_nil_r. reflexivity.
      * rewrite skipn_app. replace (16 - length buf)%nat with 0%nat by lia. reflexivity.
    + (* must read *)
      cbn [scan_loop]. destruct (try_split_short buf None dn emp tok Hshort) as [tok' ->].
      cbn [serr sbuf]. unfold maxScanTokenSize.
      destruct (Z.leb_spec 65536 (Z.of_nat (length buf))); [lia|].
      pose proof (fill_spec rs 0) as Hfill.
      destruct (fill 0 rs) as [[bs [e'|]] rs'].
      * (* the read loop ended with an error *)
        rewrite Hfill. cbn [fst snd].
        specialize (IH (mkScanner (buf ++ bs) (Some e') dn emp tok') rs').
        unfold set_serr, set_buf, set_err. cbn [serr sbuf sdone sempties stoken].
        unfold need in IH, Hfuel. cbn [serr] in IH, Hfuel.
        specialize (IH ltac:(lia)). unfold pending in IH. cbn [serr sbuf fst snd] in IH.
        exact IH.
      * (* a non-empty read: the invariant carries over *)
        destruct Hfill as (Hne & Hlen & Hdel). rewrite Hdel. cbn [fst snd].
        specialize (IH (mkScanner (buf ++ bs) None dn 0 tok') rs').
        unfold set_empties, set_buf. cbn [serr sbuf sdone sempties stoken].
        unfold need in IH, Hfuel. cbn [serr] in IH, Hfuel.
        specialize (IH ltac:(lia)). unfold pending in IH. cbn [serr sbuf fst snd] in IH.
        rewrite <- app_assoc in IH. exact IH.
Qed.

(** Scan never runs out of fuel and never panics with the receiver's split function;
    the 64 KiB token limit is unreachable *)
Corollary scan_total s rs :
  exists r s' rs', scan scan_frames s rs = (r, s', rs') /\ (r = STrue \/ r = SFalse).
Proof.
  unfold scan. destruct (sdone s); [do 3 eexists; split; [reflexivity|right; reflexivity]|].
  pose proof (scan_loop_spec (S (S (length rs))) s rs) as H. cbn zeta in H.
  assert (Hn : (need s rs <= S (S (length rs)))%nat) by (unfold need; destruct (serr s); lia).
  specialize (H Hn).
  destruct (16 <=? length (fst (pending s rs)))%nat;
    destruct H as (s' & rs' & -> & _); do 3 eexists; split; try reflexivity; auto.
Qed.

(** * A client calling Receive n times *)
Lemma zero_frame_decode : decode_frame zero_scframe = zero_frame.
Proof. reflexivity. Qed.

Lemma frame_event_unmarshal blk sc : unmarshal16 blk = Some sc ->
  frame_event blk = EvFrame [decode_frame sc] (decode_frame sc) (is_error sc) (decode_error_frame sc).
Proof. intros H. unfold frame_event, receive16. rewrite H. reflexivity. Qed.

Lemma unmarshal16_some blk : (16 <= length blk)%nat -> exists sc, unmarshal16 blk = Some sc.
Proof.
  intros H. unfold unmarshal16, lengthOfFrame.
  destruct (Z.ltb_spec (Z.of_nat (length blk)) 16); [lia|]. eexists. reflexivity.
Qed.

Lemma receive_n_spec : forall n r rs, sdone (rsc r) = false ->
  receive_n n r rs =
    let evs := map frame_event (chunks16 (fst (pending (rsc r) rs))) in
    firstn n evs ++ repeat (stop_event (snd (pending (rsc r) rs))) (n - length evs).
Proof.
  induction n as [|n IH]; intros r rs Hdone; [reflexivity|].
  cbn zeta. cbn [receive_n]. unfold receive, scan. rewrite Hdone.
  pose proof (scan_loop_spec (S (S (length rs))) (rsc r) rs) as H. cbn zeta in H.
  assert (Hn : (need (rsc r) rs <= S (S (length rs)))%nat) by (unfold need; destruct (serr (rsc r)); lia).
  specialize (H Hn).
  set (P := fst (pending (rsc r) rs)) in *. set (E := snd (pending (rsc r) rs)) in *.
  destruct (Nat.leb_spec 16 (length P)) as [Hlong|Hshort].
  - destruct H as (s' & rs' & -> & Htok & Hpend & Hd). rewrite Htok.
    destruct (unmarshal16_some (firstn 16 P)) as [sc Hsc]; [rewrite firstn_length; lia|].
    rewrite Hsc. rewrite chunks16_cons by exact Hlong.
    pose proof (frame_event_unmarshal _ _ Hsc) as Hev.
    set (blk := firstn 16 P) in *. cbn [map length firstn Nat.sub app].
    rewrite Hev. unfold frame_of, has_error_frame, error_frame. cbn [rframe].
    f_equal. rewrite IH by (cbn [rsc]; congruence). cbn [rsc]. rewrite Hpend. reflexivity.
  - destruct H as (s' & rs' & -> & Hbuf & (e & Herr & HE) & Hd).
    rewrite chunks16_short by exact Hshort. cbn [map length firstn Nat.sub app repeat].
    unfold frame_of, receiver_err, scanner_err. cbn [rframe rsc]. rewrite Herr.
    f_equal.
    + unfold stop_event. rewrite zero_frame_decode. f_equal.
      rewrite <- HE. destruct e; reflexivity.
    + rewrite IH by (cbn [rsc]; congruence). cbn [rsc]. unfold pending. rewrite Herr, Hbuf.
      cbn [fst snd]. rewrite chunks16_short by (cbn; lia). cbn [map length firstn].
      rewrite firstn_nil, Nat.sub_0_r, HE. reflexivity.
Qed.

(** ** Main theorem: model = specification, for every list of read results and every n *)
Theorem receive_calls_spec n rs : receive_calls n rs = spec_calls n rs.
Proof.
  unfold receive_calls, spec_calls. rewrite receive_n_spec by reflexivity.
  unfold pending, new_receiver, new_scanner. cbn [rsc serr sbuf app].
  destruct (delivered 0 rs) as [bs e]. reflexivity.
Qed.

(** * The delivered stream of the read lists the property talks about *)
Lemma trailing_range chunks : forall k, 0 <= k <= 100 -> no_stall k chunks -> 0 <= trailing k chunks <= 100.
Proof.
  induction chunks as [|c cs IH]; intros k Hk Hs; cbn [trailing]; [exact Hk|].
  destruct c; cbn [no_stall] in Hs.
  - destruct Hs as [Hlt Hs]. apply IH; [lia|exact Hs].
  - apply IH; [lia|exact Hs].
Qed.

Lemma delivered_app chunks tail : forall k, no_stall k chunks ->
  delivered k (map RData chunks ++ tail) =
    (concat chunks ++ fst (delivered (trailing k chunks) tail), snd (delivered (trailing k chunks) tail)).
Proof.
  induction chunks as [|c cs IH]; intros k Hs; cbn [map app concat trailing].
  - destruct (delivered k tail); reflexivity.
  - destruct c as [|b c]; cbn [no_stall] in Hs; cbn [delivered].
    + destruct Hs as [Hlt Hs]. destruct (Z.leb_spec 100 k); [lia|]. rewrite IH by exact Hs. reflexivity.
    + rewrite IH by exact Hs. cbn [fst snd]. rewrite <- app_assoc. reflexivity.
Qed.

Lemma delivered_empties m tail : forall k, 0 <= k <= 100 -> 100 - k < Z.of_nat m ->
  delivered k (repeat (RData []) m ++ tail) = ([], Some ErrNoProgress).
Proof.
  induction m as [|m IH]; intros k Hk Hm; [lia|].
  cbn [repeat app delivered]. destruct (Z.leb_spec 100 k); [reflexivity|]. apply IH; lia.
Qed.

Lemma no_stallb_spec chunks : forall k, no_stallb k chunks = true <-> no_stall k chunks.
Proof.
  induction chunks as [|c cs IH]; intros k; cbn [no_stall no_stallb]; [tauto|].
  destruct c; [|apply IH]. rewrite andb_true_iff, Z.ltb_lt, IH. tauto.
Qed.

(** a declarative sufficient condition: no empty read at all *)
Lemma no_stall_nonempty chunks k : Forall (fun c => c <> []) chunks -> no_stall k chunks.
Proof.
  intros H. revert k. induction H as [|c cs Hc _ IH]; intros k; cbn [no_stall]; [exact I|].
  destruct c; [contradiction|apply IH].
Qed.

(** ** clean end of stream *)
Theorem receive_clean chunks rest n : no_stall 0 chunks ->
  receive_calls n (map RData chunks ++ REOF :: rest) =
    let evs := map frame_event (chunks16 (concat chunks)) in
    firstn n evs ++ repeat (stop_event None) (n - length evs).
Proof.
  intros Hs. rewrite receive_calls_spec. unfold spec_calls.
  rewrite delivered_app by exact Hs. cbn [delivered fst snd]. rewrite app_nil_r. reflexivity.
Qed.

Theorem receive_clean_exhausted chunks n : no_stall 0 chunks ->
  receive_calls n (map RData chunks) =
    let evs := map frame_event (chunks16 (concat chunks)) in
    firstn n evs ++ repeat (stop_event None) (n - length evs).
Proof.
  intros Hs. rewrite receive_calls_spec. unfold spec_calls.
  rewrite <- (app_nil_r (map RData chunks)).
  rewrite delivered_app by exact Hs. cbn [delivered fst snd]. rewrite app_nil_r. reflexivity.
Qed.

(** ** an error at read k (with or without data): everything delivered up to and including that
    read is framed and delivered first, then the error is reported *)
Theorem receive_error_with_data chunks bs e rest n : no_stall 0 chunks ->
  receive_calls n (map RData chunks ++ RDataErr bs e :: rest) =
    let evs := map frame_event (chunks16 (concat chunks ++ bs)) in
    firstn n evs ++ repeat (stop_event (err_public e)) (n - length evs).
Proof.
  intros Hs. rewrite receive_calls_spec. unfold spec_calls.
  rewrite delivered_app by exact Hs. cbn [delivered fst snd]. reflexivity.
Qed.

Theorem receive_error_without_data chunks e rest n : no_stall 0 chunks ->
  receive_calls n (map RData chunks ++ RErr e :: rest) =
    let evs := map frame_event (chunks16 (concat chunks)) in
    firstn n evs ++ repeat (stop_event (err_public e)) (n - length evs).
Proof.
  intros Hs. rewrite receive_calls_spec. unfold spec_calls.
  rewrite delivered_app by exact Hs. cbn [delivered fst snd]. rewrite app_nil_r. reflexivity.
Qed.

(** ** a stuck reader: 101 empty reads in a row give io.ErrNoProgress after the complete frames *)
Theorem receive_no_progress chunks rest n : no_stall 0 chunks ->
  receive_calls n (map RData chunks ++ repeat (RData []) 101 ++ rest) =
    let evs := map frame_event (chunks16 (concat chunks)) in
    firstn n evs ++ repeat (stop_event (Some ErrNoProgress)) (n - length evs).
Proof.
  intros Hs. rewrite receive_calls_spec. unfold spec_calls.
  rewrite delivered_app by exact Hs.
  pose proof (trailing_range chunks 0 ltac:(lia) Hs) as Ht.
  rewrite delivered_empties by lia. cbn [fst snd]. rewrite app_nil_r. reflexivity.
Qed.

(** ** shape of the event list: counts and order, spelled out *)
Lemma spec_calls_length n rs : length (spec_calls n rs) = n.
Proof.
  unfold spec_calls. destruct (delivered 0 rs) as [bs e].
  rewrite app_length, firstn_length, repeat_length. lia.
Qed.

Lemma nth_firstn_lt {A} (d : A) : forall n k (l : list A), (k < n)%nat -> nth k (firstn n l) d = nth k l d.
Proof.
  induction n as [|n IH]; intros k l Hk; [lia|].
  destruct l as [|x l]; [reflexivity|]. destruct k as [|k]; [reflexivity|].
  cbn [firstn nth]. apply IH. lia.
Qed.

Lemma spec_calls_nth_frame n rs k :
  (k < n)%nat -> (k < length (fst (delivered 0 rs)) / 16)%nat ->
  nth k (spec_calls n rs) EvHang = frame_event (firstn 16 (skipn (16 * k) (fst (delivered 0 rs)))).
Proof.
  intros Hn Hk. unfold spec_calls. destruct (delivered 0 rs) as [bs e]. cbn [fst] in *.
  assert (Hl : length (map frame_event (chunks16 bs)) = (length bs / 16)%nat)
    by (rewrite map_length; apply chunks16_length).
  rewrite app_nth1 by (rewrite firstn_length; lia).
  rewrite nth_firstn_lt by exact Hn.
  rewrite nth_indep with (d' := frame_event []) by lia.
  rewrite map_nth, chunks16_nth by exact Hk. reflexivity.
Qed.

Lemma spec_calls_nth_stop n rs k :
  (k < n)%nat -> (length (fst (delivered 0 rs)) / 16 <= k)%nat ->
  nth k (spec_calls n rs) EvHang = stop_event (snd (delivered 0 rs)).
Proof.
  intros Hn Hk. unfold spec_calls. destruct (delivered 0 rs) as [bs e]. cbn [fst snd] in *.
  assert (Hl : length (map frame_event (chunks16 bs)) = (length bs / 16)%nat)
    by (rewrite map_length; apply chunks16_length).
  rewrite app_nth2 by (rewrite firstn_length; lia).
  rewrite firstn_length, Hl.
  rewrite nth_indep with (d' := stop_event e) by (rewrite repeat_length; lia).
  apply nth_repeat.
Qed.

(** * Statements in the form used by Properties/C07.v *)
Theorem receive_calls_general n rs :
  receive_calls n rs =
    let (bs, e) := delivered 0 rs in
    let evs := map frame_event (chunks16 bs) in
    firstn n evs ++ repeat (EvStop [] zero_frame e) (n - length evs).
Proof. exact (receive_calls_spec n rs). Qed.

(** the result does not depend on how the stream is cut into reads *)
Theorem segmentation_independent chunks1 chunks2 rest1 rest2 n :
  no_stall 0 chunks1 -> no_stall 0 chunks2 -> concat chunks1 = concat chunks2 ->
  receive_calls n (map RData chunks1 ++ REOF :: rest1) = receive_calls n (map RData chunks2 ++ REOF :: rest2).
Proof.
  intros H1 H2 E. rewrite !receive_clean by assumption. rewrite E. reflexivity.
Qed.

(** exactly one interceptor call per delivered frame, with that frame; none otherwise *)
Lemma frame_event_shape blk : length blk = 16%nat ->
  exists f ie ef, receive16 blk = Some (f, ie, ef) /\ frame_event blk = EvFrame [f] f ie ef.
Proof.
  intros H. destruct (unmarshal16_some blk ltac:(lia)) as [sc Hsc].
  exists (decode_frame sc), (is_error sc), (decode_error_frame sc).
  split; [unfold receive16; rewrite Hsc; reflexivity|apply frame_event_unmarshal; exact Hsc].
Qed.

Theorem interceptor_once n rs :
  Forall (fun ev => (exists blk f ie ef, length blk = 16%nat /\ receive16 blk = Some (f, ie, ef)
                                         /\ ev = EvFrame [f] f ie ef)
                    \/ (exists e, ev = EvStop [] zero_frame e))
         (receive_calls n rs).
Proof.
  rewrite receive_calls_spec. unfold spec_calls. destruct (delivered 0 rs) as [bs e].
  apply Forall_app. split.
  - apply Forall_forall. intros ev Hin. apply (In_nth _ _ EvHang) in Hin. destruct Hin as (k & Hk & <-).
    rewrite firstn_length in Hk.
    rewrite nth_firstn_lt by lia.
    rewrite nth_indep with (d' := frame_event []) by lia. rewrite map_nth.
    assert (Hin : In (nth k (chunks16 bs) []) (chunks16 bs))
      by (apply nth_In; rewrite map_length in Hk; lia).
    pose proof (chunks16_block_length _ _ Hin) as H16.
    destruct (frame_event_shape _ H16) as (f & ie & ef & Hr & He).
    left. exists (nth k (chunks16 bs) []), f, ie, ef. auto.
  - apply Forall_forall. intros ev Hin. apply repeat_spec in Hin. right. exists e. exact Hin.
Qed.

(** the whole event list in one formula, for a stream cut into reads in any way *)
Theorem receive_any_segmentation chunks rest n : no_stall 0 chunks ->
  let bs := concat chunks in
  receive_calls n (map RData chunks ++ REOF :: rest) =
    firstn n (map (fun k => frame_event (firstn 16 (skipn (16 * k) bs))) (seq 0 (length bs / 16)))
    ++ repeat (EvStop [] zero_frame None) (n - length bs / 16).
Proof.
  intros Hs bs. rewrite receive_clean by exact Hs. cbn zeta. fold bs.
  rewrite map_length, chunks16_length. unfold chunks16. rewrite map_map. reflexivity.
Qed.

(** * What [no_stall] means *)
Lemma repeat_snoc {A} (x : A) k : repeat x (S k) = repeat x k ++ [x].
Proof. induction k as [|k IH]; [reflexivity|]. cbn [repeat app] in *. rewrite <- IH. reflexivity. Qed.

(** declarative reading of [no_stall]: the list of reads contains no 101 consecutive empty reads *)
Lemma no_stall_declarative_gen chunks : forall k : nat,
  (forall pre post, repeat [] k ++ chunks <> pre ++ repeat [] 101 ++ post) ->
  no_stall (Z.of_nat k) chunks.
Proof.
  induction chunks as [|c cs IH]; intros k H; cbn [no_stall]; [exact I|].
  destruct c as [|b c].
  - split.
    + destruct (Nat.lt_ge_cases k 100) as [|Hge]; [lia|exfalso].
      apply (H (repeat [] (k - 100)) cs).
      change ([] :: cs) with ([[]] ++ cs). rewrite app_assoc, <- repeat_snoc.
      rewrite app_assoc, <- repeat_app. f_equal. f_equal. lia.
    + replace (Z.of_nat k + 1) with (Z.of_nat (S k)) by lia. apply IH.
      intros pre post E. apply (H pre post). rewrite <- E.
      rewrite repeat_snoc, <- app_assoc. reflexivity.
  - apply (IH 0%nat). intros pre post E. cbn [repeat app] in E.
    apply (H (repeat [] k ++ (b :: c) :: pre) post). rewrite E, <- app_assoc. reflexivity.
Qed.

Theorem no_stall_declarative chunks :
  (forall pre post, chunks <> pre ++ repeat [] 101 ++ post) -> no_stall 0 chunks.
Proof. intros H. apply (no_stall_declarative_gen chunks 0). exact H. Qed.
