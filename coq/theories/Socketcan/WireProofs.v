(** Proofs: the model of the SocketCAN codec (Wire.v) meets the ABI specification (WireSpec.v). *)
From Coq Require Import ZArith List Bool Lia.
From CanVerif Require Import Base.Bits Socketcan.Wire Socketcan.WireSpec.
Import ListNotations.
Open Scope Z_scope.

(** * Bits and arithmetic *)
Lemma wbit_testbit w k : 0 <= k -> wbit w k = Z.testbit w k.
Proof.
  intros Hk. unfold wbit. rewrite <- Z.testbit_spec' by exact Hk.
  destruct (Z.testbit w k); reflexivity.
Qed.

Lemma flag_test w k : 0 <= k -> (0 <? Z.land w (2 ^ k)) = Z.testbit w k.
Proof.
  intros Hk. rewrite land_pow2 by exact Hk.
  destruct (Z.testbit w k); [|reflexivity].
  apply Z.ltb_lt. apply Z.pow_pos_nonneg; lia.
Qed.

Lemma lor_disjoint_add a b : Z.land a b = 0 -> Z.lor a b = a + b.
Proof.
  intros H. rewrite Z.add_nocarry_lxor by exact H. symmetry. apply Z.lxor_lor. exact H.
Qed.

Lemma lor_pow2_add w k : 0 <= k -> Z.testbit w k = false -> Z.lor w (2 ^ k) = w + 2 ^ k.
Proof.
  intros Hk Hb. apply lor_disjoint_add. rewrite land_pow2 by exact Hk. rewrite Hb. reflexivity.
Qed.

Lemma ldiff_pow2 w k : 0 <= k -> Z.ldiff w (2 ^ k) = if Z.testbit w k then w - 2 ^ k else w.
Proof.
  intros Hk.
  assert (E : w = Z.ldiff w (2 ^ k) + Z.land w (2 ^ k)).
  { rewrite <- lor_disjoint_add.
    - symmetry. apply Z.lor_ldiff_and.
    - apply Z.bits_inj'. intros m Hm. rewrite !Z.land_spec, Z.ldiff_spec, Z.bits_0.
      destruct (Z.testbit w m), (Z.testbit (2 ^ k) m); reflexivity. }
  rewrite land_pow2 in E by exact Hk. destruct (Z.testbit w k); lia.
Qed.

Lemma lor_shiftl_add a b n : 0 <= n -> 0 <= a < 2 ^ n -> Z.lor a (Z.shiftl b n) = a + b * 2 ^ n.
Proof.
  intros Hn Ha. rewrite <- Z.shiftl_mul_pow2 by exact Hn. apply lor_disjoint_add.
  apply Z.bits_inj'. intros m Hm. rewrite Z.land_spec, Z.bits_0.
  destruct (Z_lt_le_dec m n) as [Hlt|Hge].
  - rewrite Z.shiftl_spec_low by exact Hlt. apply andb_false_r.
  - rewrite (testbit_small a n m) by lia. reflexivity.
Qed.

(** * validate (frame.go) accepts exactly the valid frames *)
Lemma S_validb_spec f : S_validb f = true <-> S_valid f.
Proof.
  unfold S_validb, S_valid. rewrite andb_true_iff, Z.leb_le.
  destruct (fext f); rewrite Z.leb_le; split.
  - intros [H1 H2]. repeat split; intros; try discriminate; assumption.
  - intros (H1 & _ & H3). split; [apply H1; reflexivity|assumption].
  - intros [H1 H2]. repeat split; intros; try discriminate; assumption.
  - intros (_ & H2 & H3). split; [apply H2; reflexivity|assumption].
Qed.

Lemma validate_validb f : validate f = S_validb f.
Proof.
  unfold validate, S_validb, MaxExtendedID, MaxID, MaxDataLength.
  change (2 ^ 29 - 1) with 0x1fffffff. change (2 ^ 11 - 1) with 0x7ff.
  destruct (fext f); cbn [andb negb];
    destruct (Z.ltb_spec 0x1fffffff (fid f)); destruct (Z.ltb_spec 0x7ff (fid f));
    destruct (Z.ltb_spec 8 (flen f));
    destruct (Z.leb_spec (fid f) 0x1fffffff); destruct (Z.leb_spec (fid f) 0x7ff);
    destruct (Z.leb_spec (flen f) 8); try reflexivity; lia.
Qed.

Theorem validate_exact f : validate f = true <-> S_valid f.
Proof. rewrite validate_validb. apply S_validb_spec. Qed.

(** * Little-endian words *)
Lemma put_u32_le32 w : put_u32 w = le32 w.
Proof.
  unfold put_u32, le32. rewrite !Z.shiftr_div_pow2 by lia. reflexivity.
Qed.

Lemma get_u32_word b : bytes b -> get_u32 b = S_word b.
Proof.
  intros Hb. unfold get_u32, S_word, byte_at.
  assert (Hn : forall i, 0 <= nth i b 0 < 256).
  { intros i. destruct (nth_in_or_default i b 0) as [Hin | ->]; [|lia].
    unfold bytes in Hb. rewrite Forall_forall in Hb. apply Hb. exact Hin. }
  pose proof (Hn 0%nat) as H0. pose proof (Hn 1%nat) as H1.
  pose proof (Hn 2%nat) as H2. pose proof (Hn 3%nat) as H3.
  rewrite (lor_shiftl_add (nth 0 b 0) (nth 1 b 0) 8) by (change (2 ^ 8) with 256; lia).
  rewrite (lor_shiftl_add _ (nth 2 b 0) 16) by (change (2 ^ 8) with 256; change (2 ^ 16) with 65536; lia).
  rewrite (lor_shiftl_add _ (nth 3 b 0) 24)
    by (change (2 ^ 8) with 256; change (2 ^ 16) with 65536; change (2 ^ 24) with 16777216; lia).
  change (2 ^ 8) with 256; change (2 ^ 16) with 65536; change (2 ^ 24) with 16777216. lia.
Qed.

Lemma S_word_range b : bytes b -> 0 <= S_word b < 2 ^ 32.
Proof.
  intros Hb. unfold S_word.
  assert (Hn : forall i, 0 <= nth i b 0 < 256).
  { intros i. destruct (nth_in_or_default i b 0) as [Hin | ->]; [|lia].
    unfold bytes in Hb. rewrite Forall_forall in Hb. apply Hb. exact Hin. }
  pose proof (Hn 0%nat). pose proof (Hn 1%nat). pose proof (Hn 2%nat). pose proof (Hn 3%nat).
  change (2 ^ 32) with 4294967296. lia.
Qed.

Lemma le32_bytes w : bytes (le32 w).
Proof.
  unfold le32, bytes, is_byte. repeat constructor; apply Z.mod_pos_bound; lia.
Qed.

Lemma S_word_le32 w : 0 <= w < 2 ^ 32 -> S_word (le32 w) = w.
Proof.
  intros Hw. unfold S_word, le32. cbn [nth].
  change (2 ^ 32) with 4294967296 in Hw.
  Ltac Zify.zify_post_hook ::= Z.div_mod_to_equations.
  lia.
Qed.
Ltac Zify.zify_post_hook ::= idtac.

(** * Transmit direction: the bytes written are struct can_frame *)
Lemma small_id_bits f : wf_frame f -> validate f = true ->
  forall m, 29 <= m -> Z.testbit (fid f) m = false.
Proof.
  intros (Hid & _) Hv m Hm. apply validate_exact in Hv. destruct Hv as (He & Hs & _).
  apply testbit_small with (n := 29); [|exact Hm].
  change (2 ^ 29 - 1) with 536870911 in He. change (2 ^ 11 - 1) with 2047 in Hs.
  change (2 ^ 29) with 536870912.
  destruct (fext f); [specialize (He eq_refl)|specialize (Hs eq_refl)]; lia.
Qed.

Lemma encode_can_id f : wf_frame f -> validate f = true ->
  idflags (encode_frame f) = S_can_id f.
Proof.
  intros Hwf Hv. pose proof (small_id_bits f Hwf Hv) as Hb.
  unfold encode_frame, S_can_id, idFlagRemote, idFlagExtended. cbn [idflags].
  change 0x40000000 with (2 ^ 30). change 0x80000000 with (2 ^ 31).
  destruct (fremote f), (fext f).
  - rewrite (lor_pow2_add (fid f) 30) by (try apply Hb; lia).
    rewrite lor_pow2_add; [lia|lia|].
    rewrite <- lor_pow2_add by (try apply Hb; lia).
    rewrite Z.lor_spec, Hb by lia. rewrite Z.pow2_bits_eqb by lia. reflexivity.
  - rewrite (lor_pow2_add (fid f) 30) by (try apply Hb; lia). lia.
  - rewrite (lor_pow2_add (fid f) 31) by (try apply Hb; lia). lia.
  - lia.
Qed.

Theorem transmit_layout f : wf_frame f -> validate f = true ->
  transmit_bytes f = Some (S_layout f).
Proof.
  intros Hwf Hv. unfold transmit_bytes, marshal16. cbn [repeat length Z.of_nat].
  change (Z.of_nat 16 <? lengthOfFrame) with false. cbv iota.
  rewrite put_u32_le32, encode_can_id by assumption.
  unfold S_layout, encode_frame. cbn [dlc scdata].
  destruct Hwf as (_ & _ & Hlen & _).
  replace (firstn 8 (fdata f)) with (fdata f) by (symmetry; apply firstn_all2; lia).
  cbn. rewrite app_nil_r. reflexivity.
Qed.

Lemma S_layout_length f : length (fdata f) = 8%nat -> length (S_layout f) = 16%nat.
Proof. intros H. unfold S_layout, le32. rewrite !app_length, H. reflexivity. Qed.

(** * Receive direction: every 16-byte block *)
Lemma block16_nth b : block16 b ->
  b = [nth 0 b 0; nth 1 b 0; nth 2 b 0; nth 3 b 0; nth 4 b 0; nth 5 b 0; nth 6 b 0; nth 7 b 0;
       nth 8 b 0; nth 9 b 0; nth 10 b 0; nth 11 b 0; nth 12 b 0; nth 13 b 0; nth 14 b 0; nth 15 b 0].
Proof.
  intros [Hl _].
  do 16 (destruct b as [|? b]; [discriminate Hl|]). destruct b; [reflexivity|discriminate Hl].
Qed.

Theorem receive_spec b : block16 b -> receive16 b = Some (S_decode b).
Proof.
  intros Hb. pose proof (block16_nth b Hb) as Eb. destruct Hb as [Hl Hby].
  unfold receive16, unmarshal16. rewrite Hl.
  change (Z.of_nat 16 <? lengthOfFrame) with false. cbv iota.
  pose proof (S_word_range b Hby) as Hw.
  unfold S_decode, decode_frame, decode_error_frame, sc_id, is_error, is_remote, is_extended,
    S_frame, S_is_error, S_error_frame. cbn [idflags dlc scdata].
  rewrite get_u32_word by exact Hby. set (w := S_word b) in *.
  unfold idFlagExtended, idFlagRemote, idFlagError, idMaskExtended, idMaskStandard.
  change 0x80000000 with (2 ^ 31). change 0x40000000 with (2 ^ 30). change 0x20000000 with (2 ^ 29).
  change 0x1fffffff with (Z.ones 29). change 0x7ff with (Z.ones 11).
  rewrite !flag_test, !Z.land_ones, ldiff_pow2, !wbit_testbit by lia.
  clearbody w. clear Hw Hby Eb.
  do 16 (destruct b as [|? b]; [discriminate Hl|]). destruct b; [|discriminate Hl].
  reflexivity.
Qed.

(** * Round trip *)
Lemma S_can_id_range f : wf_frame f -> validate f = true -> 0 <= S_can_id f < 2 ^ 32.
Proof.
  intros Hwf Hv. pose proof Hwf as (Hid & _). apply validate_exact in Hv. destruct Hv as (He & Hs & _).
  unfold S_can_id.
  change (2 ^ 29 - 1) with 536870911 in He. change (2 ^ 11 - 1) with 2047 in Hs.
  change (2 ^ 31) with 2147483648. change (2 ^ 30) with 1073741824. change (2 ^ 32) with 4294967296.
  destruct (fext f); [specialize (He eq_refl)|specialize (Hs eq_refl)]; destruct (fremote f); lia.
Qed.

Lemma layout_block f : wf_frame f -> block16 (S_layout f).
Proof.
  intros (_ & Hl & Hlen & Hb). split; [apply S_layout_length; exact Hlen|].
  unfold S_layout, bytes. apply Forall_app. split; [apply le32_bytes|].
  repeat constructor; try exact Hb; unfold is_byte; lia.
Qed.

Lemma layout_word f : S_word (S_layout f) = S_word (le32 (S_can_id f)).
Proof. reflexivity. Qed.

Lemma can_id_bits f : wf_frame f -> validate f = true ->
  forall m, 0 <= m ->
  Z.testbit (S_can_id f) m =
    if m =? 31 then fext f else if m =? 30 then fremote f else Z.testbit (fid f) m.
Proof.
  intros Hwf Hv m Hm. rewrite <- encode_can_id by assumption.
  pose proof (small_id_bits f Hwf Hv) as Hb.
  unfold encode_frame, idFlagRemote, idFlagExtended. cbn [idflags].
  change 0x40000000 with (2 ^ 30). change 0x80000000 with (2 ^ 31).
  destruct (fremote f), (fext f); rewrite ?Z.lor_spec, ?Z.pow2_bits_eqb by lia;
    destruct (Z.eqb_spec m 31) as [E31|N31]; destruct (Z.eqb_spec m 30) as [E30|N30]; try lia;
    repeat match goal with
           | |- context [Z.eqb ?a m] => destruct (Z.eqb_spec a m); try lia
           end;
    rewrite ?Hb by lia; cbn [orb]; rewrite ?orb_false_r; reflexivity.
Qed.

Theorem roundtrip f : wf_frame f -> validate f = true ->
  match transmit_bytes f with
  | Some b => match receive16 b with Some (g, _, _) => g = f | None => False end
  | None => False
  end.
Proof.
  intros Hwf Hv. rewrite transmit_layout by assumption.
  rewrite receive_spec by (apply layout_block; exact Hwf).
  unfold S_decode, S_frame. rewrite layout_word, S_word_le32 by (apply S_can_id_range; assumption).
  rewrite !wbit_testbit by lia.
  rewrite !(can_id_bits f Hwf Hv) by lia. cbn [Z.eqb Pos.eqb].
  pose proof Hwf as (Hid & Hl & Hlen & Hby).
  assert (Eid : (if fext f then S_can_id f mod 2 ^ 29 else S_can_id f mod 2 ^ 11) = fid f).
  { pose proof Hv as Hv'. apply validate_exact in Hv'. destruct Hv' as (He & Hs & _).
    apply Z.bits_inj'. intros m Hm.
    destruct (fext f) eqn:Ex.
    - rewrite mod_pow2_bits by lia. destruct (Z.ltb_spec m 29).
      + rewrite (can_id_bits f Hwf Hv) by lia.
        destruct (Z.eqb_spec m 31); [lia|]. destruct (Z.eqb_spec m 30); [lia|]. reflexivity.
      + rewrite (small_id_bits f Hwf Hv) by lia. reflexivity.
    - rewrite mod_pow2_bits by lia. destruct (Z.ltb_spec m 11).
      + rewrite (can_id_bits f Hwf Hv) by lia.
        destruct (Z.eqb_spec m 31); [lia|]. destruct (Z.eqb_spec m 30); [lia|]. reflexivity.
      + symmetry. apply testbit_small with (n := 11); [|lia].
        specialize (Hs eq_refl). change (2 ^ 11 - 1) with 2047 in Hs. change (2 ^ 11) with 2048. lia. }
  rewrite Eid.
  destruct f as [i l d r e]. cbn [fid flen fdata fremote fext] in *.
  unfold S_layout, le32. cbn [fdata flen app nth].
  do 8 (destruct d as [|? d]; [discriminate Hlen|]). destruct d; [|discriminate Hlen].
  reflexivity.
Qed.

(** receive of what transmit wrote is never an error frame, and is the frame itself *)
Corollary roundtrip_eq f b : wf_frame f -> validate f = true -> transmit_bytes f = Some b ->
  exists ie ef, receive16 b = Some (f, ie, ef).
Proof.
  intros Hwf Hv Hb. pose proof (roundtrip f Hwf Hv) as H. rewrite Hb in H.
  destruct (receive16 b) as [[[g ie] ef]|]; [|contradiction]. subst g. eauto.
Qed.

(** the error class when bits 30/31 are clear: (can_id & 0x1FFFFFFF) minus bit 29 *)
Lemma error_class_plain b : block16 b ->
  wbit (S_word b) 31 = false -> wbit (S_word b) 30 = false -> wbit (S_word b) 29 = true ->
  eclass (S_error_frame b) = S_word b mod 2 ^ 29.
Proof.
  intros [_ Hby] H31 H30 H29. unfold S_error_frame. cbn [eclass]. rewrite H29.
  pose proof (S_word_range b Hby) as Hw. set (w := S_word b) in *.
  rewrite wbit_testbit in * by lia.
  replace (w - 2 ^ 29) with (Z.ldiff w (2 ^ 29)) by (rewrite ldiff_pow2, H29 by lia; reflexivity).
  apply Z.bits_inj'. intros m Hm. rewrite mod_pow2_bits by lia.
  rewrite Z.ldiff_spec, Z.pow2_bits_eqb by lia.
  destruct (Z.ltb_spec m 29).
  - destruct (Z.eqb_spec 29 m); [lia|]. cbn. apply andb_true_r.
  - destruct (Z.eqb_spec 29 m) as [<-|N]; [apply andb_false_r|].
    assert (m = 30 \/ m = 31 \/ 32 <= m) as [->|[->|H32]] by lia.
    + rewrite H30. reflexivity.
    + rewrite H31. reflexivity.
    + rewrite (testbit_small w 32 m) by lia. reflexivity.
Qed.

(** * Statements in the explicit form used by Properties/C06.v *)
Lemma transmit_layout_explicit f : wf_frame f -> validate f = true ->
  transmit_bytes f =
    Some (le32 (fid f + (if fext f then 2 ^ 31 else 0) + (if fremote f then 2 ^ 30 else 0))
          ++ [flen f; 0; 0; 0] ++ fdata f).
Proof. exact (transmit_layout f). Qed.

Lemma transmit_16_bytes f b : wf_frame f -> validate f = true -> transmit_bytes f = Some b ->
  length b = 16%nat /\ bytes b /\ nth 4 b 0 = flen f /\ nth 5 b 0 = 0 /\ nth 6 b 0 = 0 /\ nth 7 b 0 = 0
  /\ firstn 8 (skipn 8 b) = fdata f.
Proof.
  intros Hwf Hv Hb. rewrite transmit_layout in Hb by assumption. injection Hb as <-.
  pose proof (layout_block f Hwf) as [Hl Hby]. split; [exact Hl|]. split; [exact Hby|].
  unfold S_layout, le32. destruct Hwf as (_ & _ & Hlen & _).
  set (d := fdata f) in *. repeat split; try reflexivity.
  change (firstn 8 d = d). apply firstn_all2. lia.
Qed.

Lemma receive_fields b0 b1 b2 b3 b4 b5 b6 b7 b8 b9 b10 b11 b12 b13 b14 b15 :
  bytes [b0; b1; b2; b3; b4; b5; b6; b7; b8; b9; b10; b11; b12; b13; b14; b15] ->
  let w := b0 + 256 * b1 + 65536 * b2 + 16777216 * b3 in
  receive16 [b0; b1; b2; b3; b4; b5; b6; b7; b8; b9; b10; b11; b12; b13; b14; b15] =
    Some (mkFrame (if wbit w 31 then w mod 2 ^ 29 else w mod 2 ^ 11) b4
                  [b8; b9; b10; b11; b12; b13; b14; b15] (wbit w 30) (wbit w 31),
          wbit w 29,
          mkErrFrame (if wbit w 29 then w - 2 ^ 29 else w) b8 b9 b10 b11 b12 [b13; b14; b15]).
Proof.
  intros H.
  exact (receive_spec [b0; b1; b2; b3; b4; b5; b6; b7; b8; b9; b10; b11; b12; b13; b14; b15]
                      (conj (eq_refl 16%nat) H)).
Qed.

Lemma valid_not_error f : wf_frame f -> validate f = true -> S_is_error (S_layout f) = false.
Proof.
  intros Hwf Hv. unfold S_is_error. rewrite layout_word, S_word_le32 by (apply S_can_id_range; assumption).
  rewrite wbit_testbit, (can_id_bits f Hwf Hv) by lia. cbn [Z.eqb Pos.eqb].
  apply (small_id_bits f Hwf Hv). lia.
Qed.

Theorem roundtrip_explicit f : wf_frame f -> validate f = true ->
  exists b ef, transmit_bytes f = Some b /\ length b = 16%nat /\ receive16 b = Some (f, false, ef).
Proof.
  intros Hwf Hv. exists (S_layout f).
  pose proof (transmit_layout f Hwf Hv) as Ht.
  destruct (roundtrip_eq f (S_layout f) Hwf Hv Ht) as (ie & ef & Hr).
  exists ef. split; [exact Ht|]. split; [apply S_layout_length; apply Hwf|].
  rewrite receive_spec in Hr |- * by (apply layout_block; exact Hwf).
  unfold S_decode in *. injection Hr as H1 H2 H3.
  rewrite H1, H3, (valid_not_error f Hwf Hv). reflexivity.
Qed.

Lemma wbit_iff w k : wbit w k = true <-> (w / 2 ^ k) mod 2 = 1.
Proof. unfold wbit. apply Z.eqb_eq. Qed.
