(** Executable model of the bus that /repo/pkg/socketcan/emulator.go offers (sequential part).

    emulator.go contains NO fan-out code of its own: every endpoint is a udpTxRx (udp.go, model
    Glue.v) on one UDP multicast group with IP_MULTICAST_LOOP on, and the fan-out is done by the
    kernel: a datagram written to the group is queued at every socket that is a member at that
    moment - the sender's own rx socket included. What emulator.go adds:
      Emulator.Receiver()      a NEW endpoint (udpTransceiver) wrapped in a Receiver   [EConnect i]
      Emulator.TransmitFrame   a NEW short-lived endpoint, NewTransmitter(conn).TransmitFrame
                               (ONE Write of the 16 bytes of the frame, C07), conn.Close()
                                                                         [ETransmit None f]
      Dial("udp", e.Addr())    an endpoint a client uses for a Transmitter and/or a Receiver
                                                       [EConnect i, ETransmit (Some i) f]
      closing an endpoint                                                [EDisconnect i]
    The model is the bus as a list of endpoints, each with the datagrams delivered to it so far
    ([inbox], tagged with the sender: [None] = Emulator.TransmitFrame, [Some j] = endpoint j).
    ASSUMED of the kernel (an oracle, observed by the E lines of the correspondence run): a
    datagram is delivered exactly once to every member socket, in the order written (loopback,
    no loss below the socket buffer size). Not modelled: Run's listener / WaitForSenders (counts
    distinct source addresses), logging, contexts.

    Endpoint names are numbers chosen by the history; connecting a name twice is ignored.
    DEFINITIONS ONLY - proofs live in EmulatorProofs.v. *)
From Coq Require Import ZArith List Bool.
From CanVerif Require Import Socketcan.Wire.
Import ListNotations.
Open Scope Z_scope.

Inductive eop :=
| EConnect (i : Z)
| EDisconnect (i : Z)
| ETransmit (src : option Z) (f : frame).

Record endpoint := mkEp { eid : Z; eopen : bool; inbox : list (option Z * list Z) }.
Definition bus := list endpoint.

Fixpoint lookup (i : Z) (b : bus) : option endpoint :=
  match b with
  | [] => None
  | e :: b' => if eid e =? i then Some e else lookup i b'
  end.

(** the kernel's fan-out: one more datagram at every open endpoint *)
Definition deliver (src : option Z) (d : list Z) (b : bus) : bus :=
  map (fun e => if eopen e then mkEp (eid e) true (inbox e ++ [(src, d)]) else e) b.

Definition close_ep (i : Z) (b : bus) : bus :=
  map (fun e => if eid e =? i then mkEp (eid e) false (inbox e) else e) b.

(** a Transmitter can write: Emulator.TransmitFrame always (fresh connection), endpoint j only
    while its connection is open *)
Definition sender_ok (src : option Z) (b : bus) : bool :=
  match src with
  | None => true
  | Some j => match lookup j b with Some e => eopen e | None => false end
  end.

Definition emu_step (b : bus) (o : eop) : bus :=
  match o with
  | EConnect i => match lookup i b with Some _ => b | None => b ++ [mkEp i true []] end
  | EDisconnect i => close_ep i b
  | ETransmit src f =>
      if sender_ok src b
      then match transmit_bytes f with       (* Transmitter.TransmitFrame: one Write of these bytes *)
           | Some d => deliver src d b
           | None => b
           end
      else b
  end.

Fixpoint emu_run (b : bus) (ops : list eop) : bus :=
  match ops with
  | [] => b
  | o :: ops' => emu_run (emu_step b o) ops'
  end.

Definition inbox_of (i : Z) (b : bus) : list (option Z * list Z) :=
  match lookup i b with Some e => inbox e | None => [] end.

(** * The specification, per endpoint, without a bus: who is connected *)
Inductive cstat := CNever | COpen | CClosed.
Definition is_open (s : cstat) : bool := match s with COpen => true | _ => false end.

Definition stat_step (st : Z -> cstat) (o : eop) : Z -> cstat :=
  fun j =>
    match o with
    | EConnect k => if k =? j then match st j with CNever => COpen | s => s end else st j
    | EDisconnect k => if k =? j then match st j with COpen => CClosed | s => s end else st j
    | ETransmit _ _ => st j
    end.

Definition src_open (st : Z -> cstat) (src : option Z) : bool :=
  match src with None => true | Some j => is_open (st j) end.

(** what endpoint i is handed by the history: the frames transmitted while i is open (by an
    open sender), once each, in history order *)
Fixpoint spec_frames (i : Z) (st : Z -> cstat) (ops : list eop) : list (option Z * frame) :=
  match ops with
  | [] => []
  | o :: ops' =>
    (match o with
     | ETransmit src f => if is_open (st i) && src_open st src then [(src, f)] else []
     | _ => []
     end) ++ spec_frames i (stat_step st o) ops'
  end.

Definition never : Z -> cstat := fun _ => CNever.

Definition from_sender (s : option Z) (x : option Z) : bool :=
  match s, x with
  | None, None => true
  | Some a, Some b => a =? b
  | _, _ => false
  end.

(** the history without the transmissions of senders other than s *)
Definition only_sender (s : option Z) (ops : list eop) : list eop :=
  filter (fun o => match o with ETransmit src _ => from_sender s src | _ => true end) ops.

Definition bytes_of (f : frame) : list Z := match transmit_bytes f with Some d => d | None => [] end.
