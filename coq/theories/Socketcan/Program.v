(** ACTION PROGRAMS of /repo/pkg/socketcan/receiver.go (Receiver.Receive) and transmitter.go
    (Transmitter.TransmitFrame), as the strict extractor harness/sockwire reads them from the source
    text: one node per statement, with its nesting depth, in source order. The nodes are the statement
    shapes that occur (anything else is an extractor error); their meaning is given by the interpreters
    [rexec] / [texec] below, which run a program step by step over the state of the existing models
    (Receiver.v: receiver + read results; Transmitter.v: connection answers + events).
    ProgramProofs.v proves that the reference programs [receive_prog] / [transmit_prog] executed this
    way ARE [Receiver.receive] / [Transmitter.transmit]; the check compares the extractor's output with
    these constants on every run. Oracles: [RScan] is bufio.Scanner.Scan as modelled in Receiver.v, the
    frame codec nodes are Wire.v (regenerated from source by the translation tie).
    DEFINITIONS ONLY. *)
From Coq Require Import ZArith List Bool.
From CanVerif Require Import Socketcan.Wire Socketcan.Receiver Socketcan.Transmitter.
Import ListNotations.
Open Scope Z_scope.

Inductive act :=
| RScan                (* ok := r.sc.Scan() *)
| RResetFrame          (* r.frame = frame{} *)
| RUnmarshalToken      (* r.frame.unmarshalBinary(r.sc.Bytes()) *)
| RInterceptDecoded    (* r.opts.frameInterceptor(r.frame.decodeFrame()) *)
| TDeclFrame           (* var scf frame *)
| TEncode              (* scf.encodeFrame(f) *)
| TMakeBuf             (* data := make([]byte, lengthOfFrame) *)
| TMarshal             (* scf.marshalBinary(data) *)
| TIntercept.          (* t.opts.frameInterceptor(f) *)

Inductive cond :=
| COk                  (* if ok *)
| CHasInterceptor      (* if <x>.opts.frameInterceptor != nil *)
| CCtxDeadline.        (* if deadline, ok := ctx.Deadline(); ok *)

Inductive callerr :=
| ESetWriteDeadline    (* if err := t.conn.SetWriteDeadline(deadline); err != nil *)
| EWrite.              (* if _, err := t.conn.Write(data); err != nil *)

Inductive ret :=
| RetOk                (* return ok *)
| RetWrapErr           (* return fmt.Errorf("transmit frame: %w", err) *)
| RetNil.              (* return nil *)

Inductive node :=
| NAct (a : act)
| NIf (c : cond)               (* the following deeper nodes are its body *)
| NIfErr (c : callerr)         (* makes the call; the following deeper nodes run iff it failed *)
| NReturn (r : ret).

Definition prog := list (nat * node).

Definition receive_prog : prog :=
  [(0, NAct RScan); (0, NAct RResetFrame);
   (0, NIf COk);
     (1, NAct RUnmarshalToken);
     (1, NIf CHasInterceptor);
       (2, NAct RInterceptDecoded);
   (0, NReturn RetOk)]%nat.

Definition transmit_prog : prog :=
  [(0, NAct TDeclFrame); (0, NAct TEncode); (0, NAct TMakeBuf); (0, NAct TMarshal);
   (0, NIf CCtxDeadline);
     (1, NIfErr ESetWriteDeadline);
       (2, NReturn RetWrapErr);
   (0, NIfErr EWrite);
     (1, NReturn RetWrapErr);
   (0, NIf CHasInterceptor);
     (1, NAct TIntercept);
   (0, NReturn RetNil)]%nat.

(** [skip = Some k]: the body of a conditional at depth k is being skipped *)
Definition skipped (skip : option nat) (d : nat) : bool :=
  match skip with Some k => Nat.ltb k d | None => false end.

(** * Receive over the state of Receiver.v *)
Record prstate := mkPR {
  r_recv : receiver; r_reads : list read; r_ok : bool; r_icpt : list frame; r_has_icpt : bool }.

Inductive rout :=
| RDone (x : scan_result * receiver * list read * list frame)
| RStuck.   (* the program leaves the node set of Receive / falls off its end *)

Fixpoint rexec (p : prog) (skip : option nat) (st : prstate) : rout :=
  match p with
  | [] => RStuck
  | (d, n) :: p' =>
    if skipped skip d then rexec p' skip st
    else
      match n with
      | NAct RScan =>
          match scan scan_frames (rsc (r_recv st)) (r_reads st) with
          | (STrue, s', rs') =>
              rexec p' None (mkPR (mkReceiver s' (rframe (r_recv st))) rs' true (r_icpt st) (r_has_icpt st))
          | (SFalse, s', rs') =>
              rexec p' None (mkPR (mkReceiver s' (rframe (r_recv st))) rs' false (r_icpt st) (r_has_icpt st))
          | (other, s', rs') =>     (* Scan panicked: nothing after it runs *)
              RDone (other, mkReceiver s' (rframe (r_recv st)), rs', r_icpt st)
          end
      | NAct RResetFrame =>
          rexec p' None (mkPR (mkReceiver (rsc (r_recv st)) zero_scframe) (r_reads st) (r_ok st) (r_icpt st) (r_has_icpt st))
      | NAct RUnmarshalToken =>
          match unmarshal16 (match stoken (rsc (r_recv st)) with Some t => t | None => [] end) with
          | Some sc =>
              rexec p' None (mkPR (mkReceiver (rsc (r_recv st)) sc) (r_reads st) (r_ok st) (r_icpt st) (r_has_icpt st))
          | None => RDone (SPanic, r_recv st, r_reads st, r_icpt st)   (* index out of range *)
          end
      | NAct RInterceptDecoded =>
          rexec p' None (mkPR (r_recv st) (r_reads st) (r_ok st)
                             (r_icpt st ++ [decode_frame (rframe (r_recv st))]) (r_has_icpt st))
      | NIf COk => rexec p' (if r_ok st then None else Some d) st
      | NIf CHasInterceptor => rexec p' (if r_has_icpt st then None else Some d) st
      | NReturn RetOk =>
          RDone (if r_ok st then STrue else SFalse, r_recv st, r_reads st, r_icpt st)
      | _ => RStuck
      end
  end.

Definition run_receive (p : prog) (icpt : bool) (r : receiver) (rs : list read) : rout :=
  rexec p None (mkPR r rs false [] icpt).

(** * TransmitFrame over the answers / events of Transmitter.v *)
Record ptstate := mkPT {
  t_frame : frame; t_has_deadline : bool; t_ans : conn_answers; t_has_icpt : bool;
  t_scf : scframe; t_buf : list Z; t_err : option error; t_events : list tx_event }.

Inductive tout :=
| TDone (x : list tx_event * tx_result)
| TStuck.

Definition t_set_scf st sc := mkPT (t_frame st) (t_has_deadline st) (t_ans st) (t_has_icpt st) sc (t_buf st) (t_err st) (t_events st).
Definition t_set_buf st b := mkPT (t_frame st) (t_has_deadline st) (t_ans st) (t_has_icpt st) (t_scf st) b (t_err st) (t_events st).
Definition t_call st ev e := mkPT (t_frame st) (t_has_deadline st) (t_ans st) (t_has_icpt st) (t_scf st) (t_buf st) e (t_events st ++ [ev]).

Fixpoint texec (p : prog) (skip : option nat) (st : ptstate) : tout :=
  match p with
  | [] => TStuck
  | (d, n) :: p' =>
    if skipped skip d then texec p' skip st
    else
      match n with
      | NAct TDeclFrame => texec p' None (t_set_scf st zero_scframe)
      | NAct TEncode => texec p' None (t_set_scf st (encode_frame (t_frame st)))
      | NAct TMakeBuf => texec p' None (t_set_buf st (repeat 0 16))
      | NAct TMarshal =>
          match marshal16 (t_buf st) (t_scf st) with
          | Some data => texec p' None (t_set_buf st data)
          | None => TDone (t_events st, TxPanic)
          end
      | NAct TIntercept => texec p' None (t_call st (TxIntercept (t_frame st)) (t_err st))
      | NIf CCtxDeadline => texec p' (if t_has_deadline st then None else Some d) st
      | NIf CHasInterceptor => texec p' (if t_has_icpt st then None else Some d) st
      | NIfErr ESetWriteDeadline =>
          let e := ans_deadline (t_ans st) in
          texec p' (match e with Some _ => None | None => Some d end) (t_call st TxSetDeadline e)
      | NIfErr EWrite =>
          let e := ans_write (t_ans st) in
          texec p' (match e with Some _ => None | None => Some d end) (t_call st (TxWrite (t_buf st)) e)
      | NReturn RetWrapErr =>
          match t_err st with
          | Some e => TDone (t_events st, TxErr e)
          | None => TStuck
          end
      | NReturn RetNil => TDone (t_events st, TxOk)
      | _ => TStuck
      end
  end.

Definition run_transmit (p : prog) (icpt dl : bool) (ans : conn_answers) (f : frame) : tout :=
  texec p None (mkPT f dl ans icpt zero_scframe [] None []).

(** node-by-node comparison of an extracted program with a reference *)
Fixpoint first_diff {A} (eqb : A -> A -> bool) (p q : list A) : option nat :=
  match p, q with
  | [], [] => None
  | x :: p', y :: q' => if eqb x y then option_map S (first_diff eqb p' q') else Some O
  | _, _ => Some O
  end.
