(** Executable model of the CONNECTION GLUE under the Receiver / Transmitter:
      /repo/pkg/socketcan/fileconn.go  fileConn (a net.Conn on a file), unwrapPathError
      /repo/pkg/socketcan/udp.go       udpTxRx (a net.Conn on two ipv4.PacketConn, rx and tx)
      /repo/pkg/socketcan/dial.go      dialCtx (connection provider against ctx.Done())

    The glue is a FORWARDING MACHINE: every operation of the net.Conn is turned into calls on the
    underlying object(s); what those answer is an input of the model ([answer]), what the glue
    hands back and WHICH calls it made, in order, is the output.

    Error values are trees [gerr]: [GNil] = the nil error, [GLeaf c] = an error value without
    Unwrap (identified by the number c: 0 = io.EOF, the harness's codes otherwise),
    [GWrap w e] = a wrapper whose Unwrap() returns e (e = GNil: a wrapper around nil):
    *os.PathError, *os.SyscallError, *net.OpError{Op, Net} or fmt.Errorf("%w").
    errors.As(err, &pathError) walks that chain from the outside and stops at the first
    *os.PathError or at a nil Unwrap ([find_path]).

    Byte strings are [list Z] (bytes 0..255), time.Time arguments are a number [t] naming the
    instant, networks are numbers naming the string.

    Scripts: the underlying objects answer from a SCRIPT (list of answers), one entry consumed
    per call actually made on that object (an exhausted script answers [ans_ok]).

    DEFINITIONS ONLY - proofs live in GlueProofs.v. *)
From Coq Require Import ZArith List Bool.
Import ListNotations.
Open Scope Z_scope.

(** * error values *)
Inductive oplabel := LRead | LWrite | LSetDeadline | LSetReadDeadline | LSetWriteDeadline | LClose.
   (* "read" "write" "set deadline" "set read deadline" "set write deadline" "close" *)

Inductive wrapper :=
| WPath                          (* *os.PathError *)
| WSyscall                       (* *os.SyscallError *)
| WOp (l : oplabel) (net : Z)    (* *net.OpError{Op: l, Net: net} *)
| WFmt.                          (* fmt.Errorf("...: %w", e) *)

Inductive gerr :=
| GNil
| GLeaf (code : Z)
| GWrap (w : wrapper) (inner : gerr).

Definition is_nil_err (e : gerr) : bool := match e with GNil => true | _ => false end.

Definition is_path (w : wrapper) : bool := match w with WPath => true | _ => false end.

(** errors.As(err, &pe) with pe *os.PathError: [Some inner] = found, pe.Err = inner *)
Fixpoint find_path (e : gerr) : option gerr :=
  match e with
  | GNil => None
  | GLeaf _ => None
  | GWrap w inner => if is_path w then Some inner else find_path inner
  end.

(** fileconn.go:88-95 unwrapPathError *)
Definition unwrap_path_error (e : gerr) : gerr :=
  match find_path e with
  | Some inner => inner
  | None => e
  end.

(** the Unwrap chain as data: the wrappers from the outside in, and what the innermost wraps *)
Fixpoint wrap_all (ws : list wrapper) (e : gerr) : gerr :=
  match ws with
  | [] => e
  | w :: ws' => GWrap w (wrap_all ws' e)
  end.

Fixpoint path_free (e : gerr) : bool :=
  match e with
  | GWrap w inner => negb (is_path w) && path_free inner
  | _ => true
  end.

(** * operations, underlying calls, answers *)
Inductive gop :=
| OpRead (n : Z)                 (* Read(b), len(b) = n *)
| OpWrite (bs : list Z)          (* Write(bs) *)
| OpSetDeadline (t : Z)
| OpSetReadDeadline (t : Z)
| OpSetWriteDeadline (t : Z)
| OpClose.

(** a call on an underlying object (the file of a fileConn; one ipv4.PacketConn of a udpTxRx:
    there [CRead] = ReadFrom(b), [CWrite] = WriteTo(b, nil, nil)) *)
Inductive ucall :=
| CRead (n : Z)
| CWrite (bs : list Z)
| CSetDeadline (t : Z)
| CSetReadDeadline (t : Z)
| CSetWriteDeadline (t : Z)
| CClose.

(** what an underlying call answers: the count, the bytes it stored into the buffer (reads),
    the error (GNil = nil). Deadline calls and Close answer an error only ([an], [adata] unused). *)
Record answer := mkAns { an : Z; adata : list Z; aerr : gerr }.
Definition ans_ok : answer := mkAns 0 [] GNil.

(** what the net.Conn operation returns: (n, bytes now in the caller's buffer, error);
    deadline operations and Close return the error only (n = 0, no data) *)
Record gresult := mkRes { rn : Z; rdata : list Z; rerr : gerr }.

Definition label_of (o : gop) : oplabel :=
  match o with
  | OpRead _ => LRead | OpWrite _ => LWrite | OpSetDeadline _ => LSetDeadline
  | OpSetReadDeadline _ => LSetReadDeadline | OpSetWriteDeadline _ => LSetWriteDeadline | OpClose => LClose
  end.

(** the one call a fileConn operation forwards to: same method, same arguments *)
Definition call_of (o : gop) : ucall :=
  match o with
  | OpRead n => CRead n | OpWrite bs => CWrite bs | OpSetDeadline t => CSetDeadline t
  | OpSetReadDeadline t => CSetReadDeadline t | OpSetWriteDeadline t => CSetWriteDeadline t | OpClose => CClose
  end.

Definition carries_count (o : gop) : bool :=
  match o with OpRead _ | OpWrite _ => true | _ => false end.
Definition carries_data (o : gop) : bool :=
  match o with OpRead _ => true | _ => false end.

(** * fileConn (fileconn.go:34-86) *)
(** &net.OpError{Op: l, Net: c.net, ..., Err: unwrapPathError(err)} if err != nil *)
Definition op_error (net : Z) (l : oplabel) (e : gerr) : gerr :=
  if is_nil_err e then GNil else GWrap (WOp l net) (unwrap_path_error e).

Definition fileconn_result (net : Z) (o : gop) (a : answer) : gresult :=
  mkRes (if carries_count o then an a else 0)
        (if carries_data o then adata a else [])
        (op_error net (label_of o) (aerr a)).

Definition fileconn_step (net : Z) (o : gop) (a : answer) : list ucall * gresult :=
  ([call_of o], fileconn_result net o a).

(** a history of operations on one fileConn whose file answers from [script] *)
Fixpoint fileconn_run (net : Z) (ops : list gop) (script : list answer) : list (list ucall * gresult) :=
  match ops with
  | [] => []
  | o :: ops' => fileconn_step net o (hd ans_ok script) :: fileconn_run net ops' (tl script)
  end.

(** * udpTxRx (udp.go:14-61) *)
Inductive side := Rx | Tx.

(** [arx] / [atx] = what the rx / tx packet conn answers to the call this operation makes on it,
    if it makes one *)
Definition udp_step (o : gop) (arx atx : answer) : list (side * ucall) * gresult :=
  match o with
  | OpRead n => ([(Rx, CRead n)], mkRes (an arx) (adata arx) (aerr arx))
  | OpWrite bs => ([(Tx, CWrite bs)], mkRes (an atx) [] (aerr atx))
  | OpSetDeadline t =>
      if is_nil_err (aerr arx)
      then ([(Rx, CSetReadDeadline t); (Tx, CSetWriteDeadline t)], mkRes 0 [] (aerr atx))
      else ([(Rx, CSetReadDeadline t)], mkRes 0 [] (aerr arx))
  | OpSetReadDeadline t => ([(Rx, CSetReadDeadline t)], mkRes 0 [] (aerr arx))
  | OpSetWriteDeadline t => ([(Tx, CSetWriteDeadline t)], mkRes 0 [] (aerr atx))
  | OpClose =>
      ([(Tx, CClose); (Rx, CClose)],
       mkRes 0 [] (if is_nil_err (aerr atx) then aerr arx else aerr atx))
  end.

Definition calls_on (s : side) (cs : list (side * ucall)) : list ucall :=
  map snd (filter (fun c => match fst c, s with Rx, Rx => true | Tx, Tx => true | _, _ => false end) cs).

Definition advance (cs : list ucall) (script : list answer) : list answer :=
  match cs with [] => script | _ => tl script end.

(** a history on one udpTxRx; each packet conn answers from its own script, an entry is consumed
    only by a call actually made on that side (no operation calls one side twice) *)
Fixpoint udp_run (ops : list gop) (srx stx : list answer) : list (list (side * ucall) * gresult) :=
  match ops with
  | [] => []
  | o :: ops' =>
    let st := udp_step o (hd ans_ok srx) (hd ans_ok stx) in
    st :: udp_run ops' (advance (calls_on Rx (fst st)) srx) (advance (calls_on Tx (fst st)) stx)
  end.

(** * Receiver / Transmitter on top of the glue: the bridge to Receiver.v / Transmitter.v lives in
    GlueProofs.v (it needs those models); here only the reads a fileConn hands to its client *)
Definition fileconn_reads (net : Z) (lens : list Z) (script : list answer) : list gresult :=
  map snd (fileconn_run net (map OpRead lens) script).

(** * dialCtx (dial.go:54-82) as a labelled transition system.
    Three goroutines: the caller (in the select), the provider goroutine (calls connProvider,
    then SENDS the result on the unbuffered channel), the cleanup goroutine (started only when
    the caller took the ctx.Done() branch; RECEIVES the result and closes a non-nil conn).
    Environment events: *)
Inductive devent :=
| EProvider          (* connProvider returned; its goroutine now blocks in the send *)
| ECtxDone           (* ctx.Done() is closed *)
| ESelect (ctx_first : bool)
    (* the caller's select fires. Enabled when the send is pending or ctx is done; when both are
       ready the runtime chooses: [ctx_first] is that choice *)
| ECleanup.          (* the cleanup goroutine receives the pending result *)

(** what connProvider returns: is the conn non-nil, the error (GNil = nil) *)
Record presult := mkPres { pconn : bool; perr : gerr }.

Inductive dreturn :=
| DWaiting                                 (* dialCtx has not returned *)
| DResult (conn : bool) (err : gerr)       (* return result.conn, result.err *)
| DCtxErr.                                 (* return nil, ctx.Err() *)

Record dstate := mkD {
  d_sent : bool;        (* the provider's send is pending *)
  d_taken : bool;       (* somebody received the result *)
  d_ctx : bool;         (* ctx done *)
  d_ret : dreturn;
  d_closes : Z          (* Close calls on the provider's conn so far *)
}.

Definition dial0 : dstate := mkD false false false DWaiting 0.

Definition dial_step (p : presult) (s : dstate) (e : devent) : dstate :=
  match e with
  | EProvider =>
      if d_sent s || d_taken s then s                           (* the provider runs once *)
      else mkD true false (d_ctx s) (d_ret s) (d_closes s)
  | ECtxDone => mkD (d_sent s) (d_taken s) true (d_ret s) (d_closes s)
  | ESelect ctx_first =>
      match d_ret s with
      | DWaiting =>
          if d_sent s && negb (d_ctx s && ctx_first)
          then mkD false true (d_ctx s) (DResult (pconn p) (perr p)) (d_closes s)
          else if d_ctx s then mkD (d_sent s) (d_taken s) true DCtxErr (d_closes s)
          else s                                                (* neither case ready: blocked *)
      | _ => s
      end
  | ECleanup =>
      match d_ret s with
      | DCtxErr =>
          if d_sent s
          then mkD false true (d_ctx s) DCtxErr (if pconn p then d_closes s + 1 else d_closes s)
          else s
      | _ => s                                                  (* no cleanup goroutine *)
      end
  end.

Fixpoint dial_run (p : presult) (s : dstate) (es : list devent) : dstate :=
  match es with
  | [] => s
  | e :: es' => dial_run p (dial_step p s e) es'
  end.

(** nothing more can happen: dialCtx returned, the provider's result was received *)
Definition dial_finished (s : dstate) : bool :=
  d_taken s && match d_ret s with DWaiting => false | _ => true end.

(** the caller owns the provider's conn *)
Definition dial_returned_conn (s : dstate) : bool :=
  match d_ret s with DResult true _ => true | _ => false end.
