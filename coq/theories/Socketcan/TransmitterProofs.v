(** Proofs about the transmitter model (Transmitter.v): what reaches the connection and the
    interceptor, in which order, for every answer of the connection. *)
From Coq Require Import ZArith List Bool Lia.
From CanVerif Require Import Socketcan.Wire Socketcan.WireSpec Socketcan.WireProofs
  Socketcan.Receiver Socketcan.Transmitter.
Import ListNotations.
Open Scope Z_scope.

(** the buffer passed to Write always exists and has 16 bytes (for every frame, valid or not) *)
Lemma transmit_bytes_some f : exists b, transmit_bytes f = Some b /\ length b = (8 + length (firstn 8 (fdata f)))%nat.
Proof.
  unfold transmit_bytes, marshal16. cbn [repeat length Z.of_nat].
  change (Z.of_nat 16 <? lengthOfFrame) with false. cbv iota.
  eexists. split; [reflexivity|].
  unfold put_u32, encode_frame. cbn [scdata dlc]. cbn [repeat skipn firstn indexOfPadding lengthOfPadding app length].
  rewrite app_length. cbn [length]. lia.
Qed.

Lemma transmit_bytes_length f b : length (fdata f) = 8%nat -> transmit_bytes f = Some b -> length b = 16%nat.
Proof.
  intros Hl Hb. destruct (transmit_bytes_some f) as (b' & Hb' & Hlen).
  rewrite Hb in Hb'. injection Hb' as <-. rewrite Hlen, firstn_all2 by lia. lia.
Qed.

Theorem transmit_never_panics dl ans f : snd (transmit dl ans f) <> TxPanic.
Proof.
  unfold transmit. destruct (transmit_bytes_some f) as (b & -> & _).
  destruct dl; [destruct (ans_deadline ans)|]; destruct (ans_write ans); cbn; discriminate.
Qed.

(** complete case analysis of one call: the events, in order, and the result *)
Theorem transmit_cases dl ans f :
  exists data, transmit_bytes f = Some data /\
  transmit dl ans f =
    match dl, ans_deadline ans, ans_write ans with
    | true, Some e, _ => ([TxSetDeadline], TxErr e)                      (* no write *)
    | true, None, Some e => ([TxSetDeadline; TxWrite data], TxErr e)      (* no interceptor call *)
    | true, None, None => ([TxSetDeadline; TxWrite data; TxIntercept f], TxOk)
    | false, _, Some e => ([TxWrite data], TxErr e)
    | false, _, None => ([TxWrite data; TxIntercept f], TxOk)
    end.
Proof.
  destruct (transmit_bytes_some f) as (b & Hb & _). exists b. split; [exact Hb|].
  unfold transmit. rewrite Hb.
  destruct dl; [destruct (ans_deadline ans)|]; destruct (ans_write ans); reflexivity.
Qed.

Definition writes (evs : list tx_event) : list (list Z) :=
  flat_map (fun ev => match ev with TxWrite bs => [bs] | _ => [] end) evs.
Definition intercepts (evs : list tx_event) : list frame :=
  flat_map (fun ev => match ev with TxIntercept f => [f] | _ => [] end) evs.

(** a successful call: exactly one Write, of the 16 bytes of struct can_frame; then exactly one
    interceptor call with the frame; the Write comes first *)
Theorem transmit_ok dl ans f : wf_frame f -> validate f = true ->
  snd (transmit dl ans f) = TxOk ->
  fst (transmit dl ans f) = (if dl then [TxSetDeadline] else []) ++ [TxWrite (S_layout f); TxIntercept f]
  /\ length (S_layout f) = 16%nat.
Proof.
  intros Hwf Hv Hok. split; [|apply S_layout_length; apply Hwf].
  destruct (transmit_cases dl ans f) as (data & Hd & E). rewrite E in *.
  rewrite transmit_layout in Hd by assumption. injection Hd as <-.
  destruct dl; [destruct (ans_deadline ans)|]; destruct (ans_write ans); cbn in *;
    try discriminate; reflexivity.
Qed.

(** for every frame (valid or not): at most one Write, always 16 bytes when Data has 8 *)
Theorem transmit_one_write dl ans f : length (fdata f) = 8%nat ->
  (length (writes (fst (transmit dl ans f))) <= 1)%nat /\
  Forall (fun w => length w = 16%nat) (writes (fst (transmit dl ans f))) /\
  (snd (transmit dl ans f) = TxOk -> length (writes (fst (transmit dl ans f))) = 1%nat).
Proof.
  intros Hl. destruct (transmit_cases dl ans f) as (data & Hd & E). rewrite E.
  pose proof (transmit_bytes_length f data Hl Hd) as H16.
  destruct dl; [destruct (ans_deadline ans)|]; destruct (ans_write ans); cbn;
    repeat split; try lia; try discriminate; repeat constructor; exact H16.
Qed.

(** the interceptor is called iff the call succeeded iff a Write was made and answered nil;
    it is called once, with the frame, as the last event (so after the Write) *)
Theorem transmit_intercept_iff dl ans f :
  (intercepts (fst (transmit dl ans f)) = [f] <-> snd (transmit dl ans f) = TxOk) /\
  (snd (transmit dl ans f) <> TxOk -> intercepts (fst (transmit dl ans f)) = []) /\
  (snd (transmit dl ans f) = TxOk <->
     (ans_write ans = None /\ (dl = true -> ans_deadline ans = None))) /\
  (snd (transmit dl ans f) = TxOk ->
     exists pre data, fst (transmit dl ans f) = pre ++ [TxWrite data; TxIntercept f] /\ intercepts pre = [] /\ writes pre = []).
Proof.
  destruct (transmit_cases dl ans f) as (data & Hd & E). rewrite E.
  destruct dl; [destruct (ans_deadline ans)|]; destruct (ans_write ans); cbn;
    repeat split; try discriminate; try congruence; try tauto;
    try (intros [H1 H2]; try discriminate; specialize (H2 eq_refl); discriminate);
    try (intros _; first [ (exists [TxSetDeadline], data; repeat split; reflexivity) | (exists [], data; repeat split; reflexivity) ]).
Qed.

(** no Write (and no interceptor call) if setting the deadline failed *)
Theorem transmit_deadline_failed ans f e : ans_deadline ans = Some e ->
  transmit true ans f = ([TxSetDeadline], TxErr e).
Proof.
  intros H. destruct (transmit_cases true ans f) as (data & _ & E). rewrite E, H. reflexivity.
Qed.

(** no SetWriteDeadline call when the context has no deadline *)
Theorem transmit_no_deadline ans f : ~ In TxSetDeadline (fst (transmit false ans f)).
Proof.
  destruct (transmit_cases false ans f) as (data & _ & E). rewrite E.
  destruct (ans_deadline ans), (ans_write ans); cbn; intuition discriminate.
Qed.

(** the byte count answered by Write has no influence at all (the code discards it): one Write per
    call, whatever n is; the result is nil iff the error answered by that Write is nil *)
Theorem transmit_ignores_count dl d w n1 n2 f :
  transmit dl (mkAnswers d w n1) f = transmit dl (mkAnswers d w n2) f.
Proof. reflexivity. Qed.
