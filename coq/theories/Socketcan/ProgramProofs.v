(** The reference action programs of Program.v, executed step by step, ARE the hand models. *)
From Coq Require Import ZArith List Bool.
From CanVerif Require Import Socketcan.Wire Socketcan.Receiver Socketcan.Transmitter Socketcan.TransmitterProofs
  Socketcan.Program.
Import ListNotations.
Open Scope Z_scope.

(** Receiver.Receive with an interceptor installed = [Receiver.receive]; without one the same call
    makes no interceptor call and is otherwise identical *)
Theorem receive_program_is_model r rs :
  run_receive receive_prog true r rs = RDone (receive r rs) /\
  run_receive receive_prog false r rs =
    RDone (match receive r rs with (res, r', rs', _) => (res, r', rs', []) end).
Proof.
  unfold run_receive, receive_prog, receive. cbn [rexec skipped r_recv r_reads r_ok r_icpt r_has_icpt].
  destruct (scan scan_frames (rsc r) rs) as [[res s'] rs'].
  destruct res; cbn [rexec skipped r_recv r_reads r_ok r_icpt r_has_icpt rsc rframe Nat.ltb Nat.leb];
    try (split; reflexivity).
  destruct (unmarshal16 (match stoken s' with Some t => t | None => [] end)) as [sc |];
    cbn [rexec skipped r_recv r_reads r_ok r_icpt r_has_icpt rsc rframe Nat.ltb Nat.leb app]; split; reflexivity.
Qed.

(** Transmitter.TransmitFrame with an interceptor installed = [Transmitter.transmit] *)
Theorem transmit_program_is_model dl ans f :
  run_transmit transmit_prog true dl ans f = TDone (transmit dl ans f).
Proof.
  unfold run_transmit, transmit_prog, transmit, transmit_bytes.
  cbn [texec skipped t_set_scf t_set_buf t_frame t_has_deadline t_ans t_has_icpt t_scf t_buf t_err t_events].
  destruct (marshal16 (repeat 0 16) (encode_frame f)) as [data |]; [| reflexivity].
  destruct dl; cbn [texec skipped t_call t_set_scf t_set_buf t_frame t_has_deadline t_ans t_has_icpt t_scf t_buf t_err t_events Nat.ltb Nat.leb app].
  - destruct (ans_deadline ans) as [e |];
      cbn [texec skipped t_call t_frame t_has_deadline t_ans t_has_icpt t_scf t_buf t_err t_events Nat.ltb Nat.leb app]; [reflexivity |].
    destruct (ans_write ans) as [e |];
      cbn [texec skipped t_call t_frame t_has_deadline t_ans t_has_icpt t_scf t_buf t_err t_events Nat.ltb Nat.leb app]; reflexivity.
  - destruct (ans_write ans) as [e |];
      cbn [texec skipped t_call t_frame t_has_deadline t_ans t_has_icpt t_scf t_buf t_err t_events Nat.ltb Nat.leb app]; reflexivity.
Qed.

(** without an interceptor: the same events minus the interceptor call *)
Theorem transmit_program_no_interceptor dl ans f :
  run_transmit transmit_prog false dl ans f =
    TDone (filter (fun ev => match ev with TxIntercept _ => false | _ => true end) (fst (transmit dl ans f)),
           snd (transmit dl ans f)).
Proof.
  unfold run_transmit, transmit_prog, transmit, transmit_bytes.
  cbn [texec skipped t_set_scf t_set_buf t_frame t_has_deadline t_ans t_has_icpt t_scf t_buf t_err t_events].
  destruct (marshal16 (repeat 0 16) (encode_frame f)) as [data |]; [| reflexivity].
  destruct dl; cbn [texec skipped t_call t_set_scf t_set_buf t_frame t_has_deadline t_ans t_has_icpt t_scf t_buf t_err t_events Nat.ltb Nat.leb app].
  - destruct (ans_deadline ans) as [e |];
      cbn [texec skipped t_call t_frame t_has_deadline t_ans t_has_icpt t_scf t_buf t_err t_events Nat.ltb Nat.leb app]; [reflexivity |].
    destruct (ans_write ans) as [e |];
      cbn [texec skipped t_call t_frame t_has_deadline t_ans t_has_icpt t_scf t_buf t_err t_events Nat.ltb Nat.leb app]; reflexivity.
  - destruct (ans_write ans) as [e |];
      cbn [texec skipped t_call t_frame t_has_deadline t_ans t_has_icpt t_scf t_buf t_err t_events Nat.ltb Nat.leb app]; reflexivity.
Qed.
