(** Executable model of socketcan.Receiver (/repo/pkg/socketcan/receiver.go) on top of a model of
    bufio.Scanner.Scan (/usr/lib/go-1.23/src/bufio/scan.go:133-236, Go 1.23).

    The environment is a list of READ RESULTS, one per call of the underlying Read:
      [RData bs]        (len(bs), nil)     - [RData []] is an empty read (0, nil)
      [RDataErr bs e]   (len(bs), e)
      [RErr e]          (0, e)
      [REOF]            (0, io.EOF)
    An exhausted list behaves like [REOF] for ever. The reader is assumed to honour its contract
    0 <= n <= len(p) (so bufio.ErrBadReadCount is not modelled); the correspondence harness logs
    what its reader actually returned and that log is the list the model consumes.

    What is abstracted: the scanner's byte buffer is the list [sbuf] = s.buf[s.start:s.end];
    shifting / doubling of the buffer only bounds len(p) of the next Read, i.e. re-segments the
    reads, and the theorems hold for every segmentation. The one observable effect of the buffer
    size, ErrTooLong when maxTokenSize = 64 KiB bytes are buffered without a token, is modelled
    (and proved unreachable for the receiver's split function).

    Errors: [error] names the error values that matter ([EOther n] = any other error value,
    identified by a number). Bytes are [Z] in 0..255, byte strings [list Z].

    DEFINITIONS ONLY - proofs live in ReceiverProofs.v. *)
From Coq Require Import ZArith List Bool.
From CanVerif Require Import Socketcan.Wire.
Import ListNotations.
Open Scope Z_scope.

Inductive error :=
| EOF                  (* io.EOF *)
| ErrNoProgress        (* io.ErrNoProgress *)
| ErrTooLong           (* bufio.ErrTooLong *)
| ErrNegativeAdvance   (* bufio.ErrNegativeAdvance *)
| ErrAdvanceTooFar     (* bufio.ErrAdvanceTooFar *)
| ErrFinalToken        (* bufio.ErrFinalToken *)
| EOther (code : Z).

Inductive read :=
| RData (bs : list Z)
| RDataErr (bs : list Z) (e : error)
| RErr (e : error)
| REOF.

Definition maxConsecutiveEmptyReads : Z := 100.
Definition maxScanTokenSize : Z := 65536.

(** * bufio.Scanner *)
Record scanner := mkScanner {
  sbuf : list Z;              (* s.buf[s.start:s.end] *)
  serr : option error;        (* s.err, None = nil *)
  sdone : bool;               (* s.done *)
  sempties : Z;               (* s.empties *)
  stoken : option (list Z)    (* s.token, None = nil *)
}.

Definition set_buf (s : scanner) (b : list Z) := mkScanner b (serr s) (sdone s) (sempties s) (stoken s).
Definition set_serr (s : scanner) (e : option error) := mkScanner (sbuf s) e (sdone s) (sempties s) (stoken s).
Definition set_done (s : scanner) := mkScanner (sbuf s) (serr s) true (sempties s) (stoken s).
Definition set_empties (s : scanner) (k : Z) := mkScanner (sbuf s) (serr s) (sdone s) k (stoken s).
Definition set_token (s : scanner) (t : option (list Z)) := mkScanner (sbuf s) (serr s) (sdone s) (sempties s) t.

Definition is_nil {A} (l : list A) : bool := match l with [] => true | _ => false end.
Definition is_some {A} (o : option A) : bool := match o with Some _ => true | None => false end.

(** scan.go:263-267 setErr: records the first error; io.EOF may be replaced *)
Definition set_err (cur : option error) (e : error) : option error :=
  match cur with
  | None => Some e
  | Some EOF => Some e
  | Some x => Some x
  end.

(** scan.go:216-234, the inner [for loop := 0; ; ] around s.r.Read: returns the bytes appended to
    the buffer, the error to record (None = left the loop after a non-empty read) and the reads
    not yet consumed. *)
Fixpoint fill (loop : Z) (rs : list read) : list Z * option error * list read :=
  match rs with
  | [] => ([], Some EOF, [])
  | r :: rs' =>
    match r with
    | RDataErr bs e => (bs, Some e, rs')
    | RErr e => ([], Some e, rs')
    | REOF => ([], Some EOF, rs')
    | RData bs =>
      match bs with
      | _ :: _ => (bs, None, rs')
      | [] =>
        let loop' := loop + 1 in
        if maxConsecutiveEmptyReads <? loop' then ([], Some ErrNoProgress, rs')
        else fill loop' rs'
      end
    end
  end.

Inductive scan_result :=
| STrue      (* Scan returned true *)
| SFalse     (* Scan returned false *)
| SPanic     (* Scan panicked ("too many empty tokens without progressing") *)
| SHang.     (* the model ran out of fuel - proved impossible (ReceiverProofs.scan_total) *)

Inductive try_result :=
| Return (r : scan_result) (s : scanner)
| Continue (s : scanner).

Section Scan.
  (** the split function: (data, atEOF) -> (advance, token, err) *)
  Variable split : list Z -> bool -> Z * option (list Z) * option error.

  (** scan.go:142-172: "See if we can get a token with what we already have." *)
  Definition try_split (s : scanner) : try_result :=
    if negb (is_nil (sbuf s)) || is_some (serr s) then
      match split (sbuf s) (is_some (serr s)) with
      | (adv, tok, Some ErrFinalToken) =>
          Return (if is_some tok then STrue else SFalse) (set_done (set_token s tok))
      | (adv, tok, Some e) => Return SFalse (set_serr s (set_err (serr s) e))
      | (adv, tok, None) =>
          if adv <? 0 then Return SFalse (set_serr s (set_err (serr s) ErrNegativeAdvance))
          else if Z.of_nat (length (sbuf s)) <? adv
               then Return SFalse (set_serr s (set_err (serr s) ErrAdvanceTooFar))
          else
            let s1 := set_token (set_buf s (skipn (Z.to_nat adv) (sbuf s))) tok in
            match tok with
            | Some _ =>
                if negb (is_some (serr s)) || (0 <? adv) then Return STrue (set_empties s1 0)
                else
                  let k := sempties s + 1 in
                  if maxConsecutiveEmptyReads <? k then Return SPanic (set_empties s1 k)
                  else Return STrue (set_empties s1 k)
            | None => Continue s1
            end
      end
    else Continue s.

  (** scan.go:139-235, the outer [for] of Scan. Every iteration that does not return performs
      at least one Read, so [length rs + 2] iterations suffice. *)
  Fixpoint scan_loop (fuel : nat) (s : scanner) (rs : list read) : scan_result * scanner * list read :=
    match fuel with
    | O => (SHang, s, rs)
    | S fuel' =>
      match try_split s with
      | Return r s' => (r, s', rs)
      | Continue s1 =>
        match serr s1 with
        | Some _ => (SFalse, set_buf s1 [], rs)               (* "Shut it down." *)
        | None =>
          if maxScanTokenSize <=? Z.of_nat (length (sbuf s1))
          then (SFalse, set_serr s1 (set_err (serr s1) ErrTooLong), rs)
          else
            match fill 0 rs with
            | (bs, e, rs') =>
              let s2 := set_buf s1 (sbuf s1 ++ bs) in
              let s3 := match e with
                        | Some e' => set_serr s2 (set_err (serr s2) e')
                        | None => set_empties s2 0
                        end in
              scan_loop fuel' s3 rs'
            end
        end
      end
    end.

  Definition scan (s : scanner) (rs : list read) : scan_result * scanner * list read :=
    if sdone s then (SFalse, s, rs) else scan_loop (S (S (length rs))) s rs.
End Scan.

(** scan.go:96-101 Err *)
Definition scanner_err (s : scanner) : option error :=
  match serr s with
  | Some EOF => None
  | x => x
  end.

Definition new_scanner : scanner := mkScanner [] None false 0 None.

(** * receiver.go *)
(** receiver.go:37-43 scanFrames *)
Definition scan_frames (data : list Z) (atEOF : bool) : Z * option (list Z) * option error :=
  if Z.of_nat (length data) <? lengthOfFrame then (0, None, None)
  else (lengthOfFrame, Some (firstn 16 data), None).

Record receiver := mkReceiver { rsc : scanner; rframe : scframe }.

Definition new_receiver : receiver := mkReceiver new_scanner zero_scframe.

(** receiver.go:47-57 Receive, with a frame interceptor installed: result, new state, reads left,
    the interceptor calls made during this call (argument of each call) *)
Definition receive (r : receiver) (rs : list read) : scan_result * receiver * list read * list frame :=
  match scan scan_frames (rsc r) rs with
  | (STrue, s', rs') =>
      match unmarshal16 (match stoken s' with Some t => t | None => [] end) with
      | Some sc => (STrue, mkReceiver s' sc, rs', [decode_frame sc])
      | None => (SPanic, mkReceiver s' zero_scframe, rs', [])
      end
  | (SFalse, s', rs') => (SFalse, mkReceiver s' zero_scframe, rs', [])
  | (other, s', rs') => (other, mkReceiver s' (rframe r), rs', [])
  end.

Definition frame_of (r : receiver) : frame := decode_frame (rframe r).           (* Frame() *)
Definition has_error_frame (r : receiver) : bool := is_error (rframe r).         (* HasErrorFrame() *)
Definition error_frame (r : receiver) : errframe := decode_error_frame (rframe r). (* ErrorFrame() *)
Definition receiver_err (r : receiver) : option error := scanner_err (rsc r).    (* Err() *)

(** * A client that calls Receive [n] times *)
Inductive event :=
| EvFrame (icpt : list frame) (f : frame) (iserr : bool) (ef : errframe)
    (* Receive() = true: interceptor calls during the call; Frame(), HasErrorFrame(), ErrorFrame() after it *)
| EvStop (icpt : list frame) (f : frame) (err : option error)
    (* Receive() = false: interceptor calls during the call; Frame() and Err() after it *)
| EvPanic
| EvHang.

Fixpoint receive_n (n : nat) (r : receiver) (rs : list read) : list event :=
  match n with
  | O => []
  | S n' =>
    match receive r rs with
    | (STrue, r', rs', ic) =>
        EvFrame ic (frame_of r') (has_error_frame r') (error_frame r') :: receive_n n' r' rs'
    | (SFalse, r', rs', ic) => EvStop ic (frame_of r') (receiver_err r') :: receive_n n' r' rs'
    | (SPanic, _, _, _) => [EvPanic]
    | (SHang, _, _, _) => [EvHang]
    end
  end.

Definition receive_calls (n : nat) (rs : list read) : list event := receive_n n new_receiver rs.
