(** Specification of the SocketCAN wire format, written from the Linux ABI
    (include/uapi/linux/can.h, include/uapi/linux/can/error.h), NOT from the Go code:

      typedef __u32 canid_t;
      #define CAN_EFF_FLAG 0x80000000U   /* EFF/SFF is set in the MSB        = bit 31 */
      #define CAN_RTR_FLAG 0x40000000U   /* remote transmission request      = bit 30 */
      #define CAN_ERR_FLAG 0x20000000U   /* error message frame              = bit 29 */
      #define CAN_SFF_MASK 0x000007FFU   /* standard frame format (SFF): 11 bits */
      #define CAN_EFF_MASK 0x1FFFFFFFU   /* extended frame format (EFF): 29 bits */
      struct can_frame {
              canid_t can_id;   /* byte 0..3, host (little) endian            */
              __u8    can_dlc;  /* byte 4                                      */
              __u8    __pad, __res0, __res1;   /* bytes 5..7                   */
              __u8    data[8] __attribute__((aligned(8)));   /* bytes 8..15    */
      };
      error.h: the error class is can_id without CAN_ERR_FLAG; data[0] = arbitration lost in
      bit .., data[1] = controller status, data[2] = protocol error type, data[3] = protocol
      error location, data[4] = transceiver status, data[5..7] = controller specific.

    The specification is arithmetic only (+, *, /, mod, comparison): "bit k of w" is
    [(w / 2^k) mod 2 = 1]. The model (Wire.v) uses the bitwise operators of the Go code. *)
From Coq Require Import ZArith List Bool.
From CanVerif Require Import Socketcan.Wire.
Import ListNotations.
Open Scope Z_scope.

(** bit [k] of the word [w] *)
Definition wbit (w k : Z) : bool := (w / 2 ^ k) mod 2 =? 1.

(** the four bytes of a 32-bit word, least significant first *)
Definition le32 (w : Z) : list Z :=
  [w mod 256; (w / 256) mod 256; (w / 65536) mod 256; (w / 16777216) mod 256].

(** the word held by bytes 0..3 of a block *)
Definition S_word (b : list Z) : Z :=
  nth 0 b 0 + 256 * nth 1 b 0 + 65536 * nth 2 b 0 + 16777216 * nth 3 b 0.

(** ** transmit direction *)
(** can_id of a frame: the identifier, plus 2^31 if extended, plus 2^30 if remote *)
Definition S_can_id (f : frame) : Z :=
  fid f + (if fext f then 2 ^ 31 else 0) + (if fremote f then 2 ^ 30 else 0).

(** struct can_frame for a frame: 16 bytes *)
Definition S_layout (f : frame) : list Z :=
  le32 (S_can_id f) ++ [flen f; 0; 0; 0] ++ fdata f.

(** ** receive direction: what a 16-byte block means *)
Definition S_frame (b : list Z) : frame :=
  let w := S_word b in
  mkFrame (if wbit w 31 then w mod 2 ^ 29 else w mod 2 ^ 11)    (* CAN_EFF_MASK / CAN_SFF_MASK *)
          (nth 4 b 0)
          [nth 8 b 0; nth 9 b 0; nth 10 b 0; nth 11 b 0; nth 12 b 0; nth 13 b 0; nth 14 b 0; nth 15 b 0]
          (wbit w 30)
          (wbit w 31).

Definition S_is_error (b : list Z) : bool := wbit (S_word b) 29.

Definition S_error_frame (b : list Z) : errframe :=
  let w := S_word b in
  mkErrFrame (if wbit w 29 then w - 2 ^ 29 else w)   (* can_id with CAN_ERR_FLAG cleared *)
             (nth 8 b 0)                              (* data[0] *)
             (nth 9 b 0)                              (* data[1] *)
             (nth 10 b 0)                             (* data[2] *)
             (nth 11 b 0)                             (* data[3] *)
             (nth 12 b 0)                             (* data[4] *)
             [nth 13 b 0; nth 14 b 0; nth 15 b 0].    (* data[5..7] *)

Definition S_decode (b : list Z) : frame * bool * errframe :=
  (S_frame b, S_is_error b, S_error_frame b).

(** ** validity of a CAN frame: the ID fits its format, at most 8 data bytes *)
Definition S_valid (f : frame) : Prop :=
  (fext f = true -> fid f <= 2 ^ 29 - 1) /\ (fext f = false -> fid f <= 2 ^ 11 - 1) /\ flen f <= 8.

Definition S_validb (f : frame) : bool :=
  (if fext f then fid f <=? 2 ^ 29 - 1 else fid f <=? 2 ^ 11 - 1) && (flen f <=? 8).
