(** Specification of frame reassembly (C07), written from the property text, not from the
    scanner's algorithm: what a client of the receiver must see is a function of
      - the BYTE STREAM the connection delivered (the concatenation of the data of all reads up
        to and including the first read that reports an error / end of stream), and
      - the error that ended it,
    and of nothing else - in particular not of how the stream was cut into reads. *)
From Coq Require Import ZArith List Bool.
From CanVerif Require Import Socketcan.Wire Socketcan.Receiver.
Import ListNotations.
Open Scope Z_scope.

(** what Err() reports for a terminating error: io.EOF is the normal end, reported as nil *)
Definition err_public (e : error) : option error :=
  match e with EOF => None | _ => Some e end.

(** The stream delivered by a list of read results and the error ending it. [empties] is the
    number of empty reads (0, nil) immediately before: the 101st consecutive empty read ends the
    stream with io.ErrNoProgress (bufio's protection against a stuck reader). *)
Fixpoint delivered (empties : Z) (rs : list read) : list Z * option error :=
  match rs with
  | [] => ([], None)
  | REOF :: _ => ([], None)
  | RErr e :: _ => ([], err_public e)
  | RDataErr bs e :: _ => (bs, err_public e)
  | RData [] :: rs' =>
      if 100 <=? empties then ([], Some ErrNoProgress) else delivered (empties + 1) rs'
  | RData bs :: rs' => let (b, e) := delivered 0 rs' in (bs ++ b, e)
  end.

(** the k-th frame is bytes 16k .. 16k+15 of the stream, for k < floor(n / 16) *)
Definition chunks16 (l : list Z) : list (list Z) :=
  map (fun k => firstn 16 (skipn (16 * k) l)) (seq 0 (length l / 16)).

(** one successful Receive: the interceptor is called exactly once, with the frame that Frame()
    then returns; all of it decoded from the block *)
Definition frame_event (blk : list Z) : event :=
  match receive16 blk with
  | Some (f, ie, ef) => EvFrame [f] f ie ef
  | None => EvPanic
  end.

Definition zero_frame : frame := mkFrame 0 0 (repeat 0 8) false false.

(** an unsuccessful Receive: no interceptor call, Frame() is the zero frame, Err() the error *)
Definition stop_event (e : option error) : event := EvStop [] zero_frame e.

(** what a client calling Receive [n] times sees *)
Definition spec_calls (n : nat) (rs : list read) : list event :=
  let (bs, e) := delivered 0 rs in
  let evs := map frame_event (chunks16 bs) in
  firstn n evs ++ repeat (stop_event e) (n - length evs).

(** ** shapes of read lists used in the property statements *)
(** never more than 100 empty reads in a row ([k] = empty reads immediately before) *)
Fixpoint no_stall (k : Z) (chunks : list (list Z)) : Prop :=
  match chunks with
  | [] => True
  | [] :: cs => k < 100 /\ no_stall (k + 1) cs
  | _ :: cs => no_stall 0 cs
  end.

Fixpoint no_stallb (k : Z) (chunks : list (list Z)) : bool :=
  match chunks with
  | [] => true
  | [] :: cs => (k <? 100) && no_stallb (k + 1) cs
  | _ :: cs => no_stallb 0 cs
  end.

(** number of empty reads at the end of [chunks] *)
Fixpoint trailing (k : Z) (chunks : list (list Z)) : Z :=
  match chunks with
  | [] => k
  | [] :: cs => trailing (k + 1) cs
  | _ :: cs => trailing 0 cs
  end.
