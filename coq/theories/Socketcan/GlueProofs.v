(** Proofs about the connection glue model (Glue.v): transparency of fileConn and udpTxRx for
    every history of operations and every script of underlying answers, composition with the
    Receiver / Transmitter models, and the no-leak property of dialCtx for every schedule. *)
From Coq Require Import ZArith List Bool Lia.
From CanVerif Require Import Socketcan.Wire Socketcan.WireSpec Socketcan.Receiver Socketcan.ReceiverSpec
  Socketcan.ReceiverProofs Socketcan.Transmitter Socketcan.TransmitterProofs Socketcan.Glue.
Import ListNotations.
Open Scope Z_scope.

(** * unwrapPathError *)
Definition no_path (ws : list wrapper) : bool := forallb (fun w => negb (is_path w)) ws.

Lemma find_path_free e : path_free e = true -> find_path e = None.
Proof.
  induction e as [| c | w inner IH]; cbn; try reflexivity.
  destruct (is_path w); cbn; [discriminate | exact IH].
Qed.

Theorem unwrap_path_free e : path_free e = true -> unwrap_path_error e = e.
Proof. intros H. unfold unwrap_path_error. now rewrite (find_path_free e H). Qed.

Lemma find_path_wrap_all ws inner : no_path ws = true ->
  find_path (wrap_all ws (GWrap WPath inner)) = Some inner.
Proof.
  induction ws as [| w ws IH]; cbn; [reflexivity |].
  destruct (is_path w); cbn; [discriminate | exact IH].
Qed.

(** exactly ONE PathError level goes (with the wrappers outside it): what it wrapped comes back
    untouched, further PathError levels inside included *)
Theorem unwrap_one_level ws inner : no_path ws = true ->
  unwrap_path_error (wrap_all ws (GWrap WPath inner)) = inner.
Proof. intros H. unfold unwrap_path_error. now rewrite (find_path_wrap_all ws inner H). Qed.

(** every error value is of one of the two shapes *)
Theorem gerr_shape e :
  path_free e = true \/
  exists ws inner, no_path ws = true /\ e = wrap_all ws (GWrap WPath inner).
Proof.
  induction e as [| c | w inner IH]; cbn; auto.
  destruct (is_path w) eqn:Hp.
  - right. exists [], inner. destruct w; try discriminate. split; reflexivity.
  - destruct IH as [IH | (ws & i & Hw & He)].
    + left. exact IH.
    + right. exists (w :: ws), i. split; [cbn; rewrite Hp; exact Hw | cbn; now rewrite He].
Qed.

Theorem unwrap_nil_iff_shape e : unwrap_path_error e = GNil ->
  e = GNil \/ exists ws, no_path ws = true /\ e = wrap_all ws (GWrap WPath GNil).
Proof.
  intros H. destruct (gerr_shape e) as [Hf | (ws & inner & Hw & He)].
  - left. now rewrite (unwrap_path_free e Hf) in H.
  - right. exists ws. split; [exact Hw |]. subst e. rewrite (unwrap_one_level ws inner Hw) in H. now subst inner.
Qed.

(** * fileConn *)
Lemma is_nil_err_iff e : is_nil_err e = true <-> e = GNil.
Proof. destruct e; cbn; split; congruence. Qed.

Lemma op_error_nil_iff net l e : op_error net l e = GNil <-> e = GNil.
Proof. unfold op_error. destruct e; cbn; split; congruence. Qed.

Lemma op_error_wraps net l e : e <> GNil -> op_error net l e = GWrap (WOp l net) (unwrap_path_error e).
Proof. unfold op_error. destruct e; cbn; congruence. Qed.

Theorem fileconn_step_transparent net o a :
  fst (fileconn_step net o a) = [call_of o] /\
  (rerr (snd (fileconn_step net o a)) = GNil <-> aerr a = GNil) /\
  (aerr a <> GNil ->
     rerr (snd (fileconn_step net o a)) = GWrap (WOp (label_of o) net) (unwrap_path_error (aerr a))) /\
  (carries_count o = true -> rn (snd (fileconn_step net o a)) = an a) /\
  (carries_data o = true -> rdata (snd (fileconn_step net o a)) = adata a).
Proof.
  cbn. repeat split.
  - apply op_error_nil_iff.
  - apply op_error_nil_iff.
  - apply op_error_wraps.
  - intros ->. reflexivity.
  - intros ->. reflexivity.
Qed.

Lemma nth_hd_tl {A} (l : list A) d k : nth (S k) l d = nth k (tl l) d.
Proof. destruct l; cbn; [destruct k; reflexivity | reflexivity]. Qed.

Lemma nth_0_hd {A} (l : list A) d : nth 0 l d = hd d l.
Proof. destruct l; reflexivity. Qed.

(** every history: the k-th operation makes exactly its own call on the file and returns the
    k-th script entry passed through *)
Theorem fileconn_run_nth net ops : forall script k o, nth_error ops k = Some o ->
  nth_error (fileconn_run net ops script) k =
    Some ([call_of o], fileconn_result net o (nth k script ans_ok)).
Proof.
  induction ops as [| o' ops IH]; intros script k o H.
  - destruct k; discriminate.
  - destruct k as [| k]; cbn in H |- *.
    + injection H as ->. rewrite nth_0_hd. reflexivity.
    + rewrite (IH (tl script) k o H). rewrite nth_hd_tl. reflexivity.
Qed.

Theorem fileconn_run_length net ops : forall script, length (fileconn_run net ops script) = length ops.
Proof. induction ops; intros; cbn; [reflexivity | now rewrite IHops]. Qed.

(** the file sees exactly the operations of the history, in order, and nothing else *)
Theorem fileconn_run_calls net ops : forall script,
  concat (map fst (fileconn_run net ops script)) = map call_of ops.
Proof. induction ops; intros; cbn; [reflexivity | now rewrite IHops]. Qed.

(** * udpTxRx *)
Definition side_ok (c : side * ucall) : Prop :=
  match c with
  | (Rx, CRead _) | (Rx, CSetReadDeadline _) | (Rx, CClose)
  | (Tx, CWrite _) | (Tx, CSetWriteDeadline _) | (Tx, CClose) => True
  | _ => False
  end.

Theorem udp_step_cases o arx atx :
  udp_step o arx atx =
    match o with
    | OpRead n => ([(Rx, CRead n)], mkRes (an arx) (adata arx) (aerr arx))
    | OpWrite bs => ([(Tx, CWrite bs)], mkRes (an atx) [] (aerr atx))
    | OpSetDeadline t =>
        match aerr arx with
        | GNil => ([(Rx, CSetReadDeadline t); (Tx, CSetWriteDeadline t)], mkRes 0 [] (aerr atx))
        | e => ([(Rx, CSetReadDeadline t)], mkRes 0 [] e)
        end
    | OpSetReadDeadline t => ([(Rx, CSetReadDeadline t)], mkRes 0 [] (aerr arx))
    | OpSetWriteDeadline t => ([(Tx, CSetWriteDeadline t)], mkRes 0 [] (aerr atx))
    | OpClose =>
        ([(Tx, CClose); (Rx, CClose)],
         mkRes 0 [] (match aerr atx with GNil => aerr arx | e => e end))
    end.
Proof. destruct o; cbn; try reflexivity; [destruct (aerr arx) | destruct (aerr atx)]; reflexivity. Qed.

Theorem udp_side_discipline o arx atx : Forall side_ok (fst (udp_step o arx atx)).
Proof.
  destruct o; cbn; try (repeat constructor).
  destruct (is_nil_err (aerr arx)); cbn; repeat constructor.
Qed.

(** Close reaches a packet conn only through Close, and then both of them *)
Theorem udp_close_only_by_close o arx atx s : In (s, CClose) (fst (udp_step o arx atx)) -> o = OpClose.
Proof.
  destruct o; cbn; try (intros [H | []]; discriminate); try reflexivity.
  destruct (is_nil_err (aerr arx)); cbn; intros H; repeat (destruct H as [H | H]; try discriminate); destruct H.
Qed.

Theorem udp_close_both arx atx :
  fst (udp_step OpClose arx atx) = [(Tx, CClose); (Rx, CClose)] /\
  (rerr (snd (udp_step OpClose arx atx)) = GNil <-> aerr atx = GNil /\ aerr arx = GNil) /\
  (aerr atx <> GNil -> rerr (snd (udp_step OpClose arx atx)) = aerr atx) /\
  (aerr atx = GNil -> rerr (snd (udp_step OpClose arx atx)) = aerr arx).
Proof.
  cbn. split; [reflexivity |]. destruct (aerr atx); cbn; intuition congruence.
Qed.

Theorem udp_set_deadline t arx atx :
  (aerr arx = GNil ->
     udp_step (OpSetDeadline t) arx atx =
       ([(Rx, CSetReadDeadline t); (Tx, CSetWriteDeadline t)], mkRes 0 [] (aerr atx))) /\
  (aerr arx <> GNil ->
     udp_step (OpSetDeadline t) arx atx = ([(Rx, CSetReadDeadline t)], mkRes 0 [] (aerr arx))).
Proof. cbn. destruct (aerr arx); cbn; split; congruence. Qed.

(** reads and writes pass through unchanged; the other side is not touched *)
Theorem udp_read_write_pass n bs arx atx :
  udp_step (OpRead n) arx atx = ([(Rx, CRead n)], mkRes (an arx) (adata arx) (aerr arx)) /\
  udp_step (OpWrite bs) arx atx = ([(Tx, CWrite bs)], mkRes (an atx) [] (aerr atx)).
Proof. split; reflexivity. Qed.

Lemma udp_calls_at_most_once o arx atx s : (length (calls_on s (fst (udp_step o arx atx))) <= 1)%nat.
Proof.
  destruct o, s; cbn; try lia; destruct (is_nil_err (aerr arx)); cbn; lia.
Qed.

(** number of calls made on side [s] by a prefix of a history *)
Definition side_calls (s : side) (outs : list (list (side * ucall) * gresult)) : nat :=
  length (concat (map (fun st => calls_on s (fst st)) outs)).

Lemma nth_advance cs (script : list answer) k : (length cs <= 1)%nat ->
  nth k (advance cs script) ans_ok = nth (length cs + k) script ans_ok.
Proof.
  destruct cs as [| c cs]; cbn; [reflexivity |]. intros H.
  destruct cs; [| cbn in H; lia]. cbn. now rewrite nth_hd_tl.
Qed.

(** every history: the k-th operation is answered by the script entries at the positions given by
    the number of calls made on each side BEFORE it - an operation that does not call a side does
    not consume that side's script *)
Theorem udp_run_nth ops : forall srx stx k o, nth_error ops k = Some o ->
  nth_error (udp_run ops srx stx) k =
    Some (udp_step o (nth (side_calls Rx (firstn k (udp_run ops srx stx))) srx ans_ok)
                     (nth (side_calls Tx (firstn k (udp_run ops srx stx))) stx ans_ok)).
Proof.
  induction ops as [| o' ops IH]; intros srx stx k o H.
  - destruct k; discriminate.
  - destruct k as [| k].
    + cbn in H. injection H as ->. cbn. now rewrite !nth_0_hd.
    + cbn in H. cbn [udp_run nth_error firstn].
      rewrite (IH _ _ k o H). unfold side_calls. cbn [map concat]. rewrite !app_length.
      rewrite !nth_advance by apply udp_calls_at_most_once. reflexivity.
Qed.

Theorem udp_run_length ops : forall srx stx, length (udp_run ops srx stx) = length ops.
Proof. induction ops; intros; cbn; [reflexivity | now rewrite IHops]. Qed.

Theorem udp_run_discipline ops : forall srx stx,
  Forall (fun st => Forall side_ok (fst st)) (udp_run ops srx stx).
Proof.
  induction ops; intros; cbn; constructor; [apply udp_side_discipline | apply IHops].
Qed.

(** * Receiver over fileConn *)
Section Bridge.
  (** how the client names the error values it is handed (any naming) *)
  Variable code : gerr -> Z.

  Definition read_of (data : list Z) (e : gerr) : read :=
    match e with
    | GNil => RData data
    | _ => match data with
           | [] => RErr (EOther (code e))
           | _ => RDataErr data (EOther (code e))
           end
    end.

  (** what a reader hands to bufio.Scanner, as a read result of Receiver.v *)
  Definition read_of_result (r : gresult) : read := read_of (rdata r) (rerr r).

  (** the script with its errors mapped the way fileConn maps them *)
  Definition mapped_read (net : Z) (a : answer) : read :=
    read_of (adata a) (op_error net LRead (aerr a)).

  Theorem reads_via_fileconn net : forall lens script, length lens = length script ->
    map read_of_result (fileconn_reads net lens script) = map (mapped_read net) script.
  Proof.
    unfold fileconn_reads. induction lens as [| n lens IH]; intros [| a script] H; try discriminate; [reflexivity |].
    cbn in H. injection H as H. cbn. f_equal. apply IH, H.
  Qed.

  Theorem receiver_over_fileconn net lens script n : length lens = length script ->
    receive_calls n (map read_of_result (fileconn_reads net lens script)) =
      receive_calls n (map (mapped_read net) script).
  Proof. intros H. now rewrite reads_via_fileconn. Qed.

  Definition data_answer (bs : list Z) : answer := mkAns (Z.of_nat (length bs)) bs GNil.

  Lemma mapped_data net chunks : map (mapped_read net) (map data_answer chunks) = map RData chunks.
  Proof. induction chunks; cbn; [reflexivity | now rewrite IHchunks]. Qed.

  (** reassembly under any chunking carries over, and a file error - io.EOF included - ends
      reception with Err() = the OpError, never nil *)
  Theorem receiver_over_fileconn_stream net lens chunks a rest n :
    no_stall 0 chunks -> aerr a <> GNil ->
    length lens = length (map data_answer chunks ++ a :: rest) ->
    receive_calls n (map read_of_result (fileconn_reads net lens (map data_answer chunks ++ a :: rest))) =
      let evs := map frame_event (chunks16 (concat chunks ++ adata a)) in
      firstn n evs ++
      repeat (EvStop [] zero_frame
                (Some (EOther (code (GWrap (WOp LRead net) (unwrap_path_error (aerr a)))))))
             (n - length evs).
  Proof.
    intros Hs Ha Hl. rewrite receiver_over_fileconn by exact Hl.
    rewrite map_app, mapped_data. cbn [map]. unfold mapped_read at 1.
    rewrite (op_error_wraps net LRead (aerr a) Ha). cbn [read_of].
    destruct (adata a) as [| b bs] eqn:Hd.
    - rewrite receive_error_without_data by exact Hs. now rewrite app_nil_r.
    - rewrite receive_error_with_data by exact Hs. reflexivity.
  Qed.

  (** * Transmitter over fileConn *)
  Definition err_opt (e : gerr) : option error :=
    if is_nil_err e then None else Some (EOther (code e)).

  (** what the Transmitter's connection answers when it is a fileConn whose file answers
      [adl] to SetWriteDeadline and [awr] to Write *)
  Definition answers_via_fileconn (net t : Z) (data : list Z) (adl awr : answer) : conn_answers :=
    mkAnswers (err_opt (rerr (snd (fileconn_step net (OpSetWriteDeadline t) adl))))
              (err_opt (rerr (snd (fileconn_step net (OpWrite data) awr))))
              (rn (snd (fileconn_step net (OpWrite data) awr))).

  (** the calls the file sees for the Transmitter's calls on the fileConn *)
  Definition file_calls (net t : Z) (evs : list tx_event) : list ucall :=
    flat_map (fun ev => match ev with
                        | TxSetDeadline => fst (fileconn_step net (OpSetWriteDeadline t) ans_ok)
                        | TxWrite bs => fst (fileconn_step net (OpWrite bs) ans_ok)
                        | TxIntercept _ => []
                        end) evs.

  Lemma err_opt_none e : err_opt e = None <-> e = GNil.
  Proof. unfold err_opt. destruct e; cbn; split; congruence. Qed.

  Theorem transmitter_over_fileconn net t dl adl awr f :
    exists data, transmit_bytes f = Some data /\
    let ans := answers_via_fileconn net t data adl awr in
    file_calls net t (fst (transmit dl ans f)) =
      (if dl then [CSetWriteDeadline t] else []) ++
      (if dl && negb (is_nil_err (aerr adl)) then [] else [CWrite data]) /\
    (snd (transmit dl ans f) = TxOk <-> (dl = true -> aerr adl = GNil) /\ aerr awr = GNil) /\
    ans_write_n ans = an awr.
  Proof.
    destruct (transmit_bytes_some f) as (data & Hd & _). exists data. split; [exact Hd |].
    cbn zeta. unfold transmit. rewrite Hd. unfold answers_via_fileconn. cbn [ans_deadline ans_write ans_write_n].
    cbn [fileconn_step snd fileconn_result rerr rn label_of carries_count].
    unfold err_opt.
    destruct dl; cbn [andb].
    - destruct (aerr adl) eqn:Ea; cbn.
      + destruct (aerr awr) eqn:Ew; cbn; repeat split; try congruence; try tauto; intros [_ H]; congruence.
      + repeat split; try congruence. intros [H _]. specialize (H eq_refl). congruence.
      + repeat split; try congruence. intros [H _]. specialize (H eq_refl). congruence.
    - destruct (aerr awr) eqn:Ew; cbn; repeat split; try congruence; try tauto; intros [_ H]; congruence.
  Qed.
End Bridge.

(** * dialCtx *)
Section Dial.
  Variable p : presult.

  Definition dial_inv (s : dstate) : Prop :=
    (d_sent s = true -> d_taken s = false) /\
    (d_taken s = true -> d_ret s <> DWaiting) /\
    (d_ret s = DCtxErr -> d_ctx s = true) /\
    (forall c e, d_ret s = DResult c e ->
       c = pconn p /\ e = perr p /\ d_taken s = true /\ d_closes s = 0) /\
    (d_ret s = DWaiting -> d_closes s = 0) /\
    (d_ret s = DCtxErr -> d_taken s = false -> d_closes s = 0) /\
    (d_ret s = DCtxErr -> d_taken s = true -> d_closes s = if pconn p then 1 else 0).

  Lemma dial_inv0 : dial_inv dial0.
  Proof. unfold dial_inv, dial0; cbn. repeat split; intros; congruence. Qed.

  Lemma dial_inv_step s e : dial_inv s -> dial_inv (dial_step p s e).
  Proof.
    destruct s as [sent taken ctx ret closes]. unfold dial_inv. cbn.
    intros (H1 & H2 & H3 & H4 & H5 & H6 & H7).
    destruct e as [| | cf |]; destruct sent, taken, ctx, ret as [| c0 e0 |]; try destruct cf; cbn;
      intuition (try congruence; try (subst; destruct (pconn p); reflexivity)).
  Qed.

  Lemma dial_inv_run es : forall s, dial_inv s -> dial_inv (dial_run p s es).
  Proof. induction es; intros s H; cbn; [exact H | apply IHes, dial_inv_step, H]. Qed.

  (** every schedule: dialCtx returns ctx.Err() only if ctx was done; what it returns otherwise is
      the provider's result; the provider's conn is closed at most once, never when it was
      returned, and - once nothing more can happen - a conn that was produced has either been
      returned or been closed exactly once *)
  Theorem dial_no_leak es :
    let s := dial_run p dial0 es in
    (d_ret s = DCtxErr -> d_ctx s = true) /\
    (forall c e, d_ret s = DResult c e -> c = pconn p /\ e = perr p) /\
    (0 <= d_closes s <= 1) /\
    (dial_returned_conn s = true -> d_closes s = 0) /\
    (pconn p = false -> d_closes s = 0) /\
    (dial_finished s = true -> pconn p = true ->
       (dial_returned_conn s = true /\ d_closes s = 0) \/
       (dial_returned_conn s = false /\ d_ret s = DCtxErr /\ d_closes s = 1)).
  Proof.
    cbn zeta. pose proof (dial_inv_run es dial0 dial_inv0) as H.
    destruct (dial_run p dial0 es) as [sent taken ctx ret closes].
    unfold dial_inv, dial_finished, dial_returned_conn in *. cbn in *.
    destruct H as (H1 & H2 & H3 & H4 & H5 & H6 & H7).
    destruct ret as [| c0 e0 |].
    - destruct taken; rewrite ?andb_false_r; intuition (try congruence; try lia).
    - pose proof (H4 c0 e0 eq_refl) as H4'. clear H4.
      destruct taken, c0; cbn; intuition (try congruence; try lia).
    - destruct taken, (pconn p) eqn:Hp; cbn; intuition (try congruence; try lia).
  Qed.

  (** and the end is always reachable: whatever happened so far, once the provider returns, the
      caller's select fires and the cleanup goroutine runs, nothing is left pending *)
  Theorem dial_completes es b :
    dial_finished (dial_run p dial0 (es ++ [EProvider; ESelect b; ECleanup])) = true.
  Proof.
    assert (Hr : forall es s, dial_run p s (es ++ [EProvider; ESelect b; ECleanup]) =
                              dial_run p (dial_run p s es) [EProvider; ESelect b; ECleanup]).
    { clear. induction es; intros; cbn; [reflexivity | apply IHes]. }
    rewrite Hr. pose proof (dial_inv_run es dial0 dial_inv0) as H.
    destruct (dial_run p dial0 es) as [sent taken ctx ret closes].
    unfold dial_inv, dial_finished in *. cbn in *.
    destruct H as (H1 & H2 & H3 & H4 & H5 & H6 & H7).
    destruct sent, taken, ret as [| c0 e0 |], ctx, b; cbn; try reflexivity;
      try (specialize (H1 eq_refl); discriminate);
      try (exfalso; apply (H2 eq_refl); reflexivity);
      try (specialize (H3 eq_refl); discriminate);
      try (destruct (H4 c0 e0 eq_refl) as (_ & _ & Ht & _); discriminate).
  Qed.
End Dial.
