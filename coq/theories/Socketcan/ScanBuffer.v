(** Geometry of bufio.Scanner's byte buffer (/usr/lib/go-1.23/src/bufio/scan.go:193-234), which
    Receiver.v abstracts away (there the buffered bytes are a list and the buffer mechanics only
    "re-segment" the reads). That abstraction is sound for byte STREAMS; for a PACKET connection
    (one datagram per Read, what does not fit the offered slice is discarded: the package's own UDP
    transport) the room offered to Read matters. This file models just that room:
      [gstart, gend, glen] = s.start, s.end, len(s.buf);
      [prepare]  = what Scan does to the buffer before it calls Read (shift, then grow);
      [offered]  = len of the slice s.buf[s.end:len(s.buf)] handed to Read;
      [after_read g n] = Read returned n bytes and the following Scan calls handed out every whole
                   16-byte frame (one per call, no Read in between: the receiver's split function
                   returns a token whenever 16 bytes are buffered).
    The receiver never calls Scanner.Buffer, so the buffer starts empty (len 0), becomes
    startBufSize = 4096 on the first Read and - proved in ScanBufferProofs.v - never grows, and
    every Read is offered at least 4096 - 2048 - 15 = 2033 bytes (the data is only moved to the
    front when s.start has passed the middle of the buffer).

    DEFINITIONS ONLY. *)
From Coq Require Import ZArith Bool List.
From CanVerif Require Import Socketcan.Receiver.
Open Scope Z_scope.

Record geom := mkGeom { gstart : Z; gend : Z; glen : Z }.

Definition startBufSize : Z := 4096.
Definition geom0 : geom := mkGeom 0 0 0.            (* bufio.NewScanner: buf = nil *)

(** scan.go:199-203 "First, shift data to beginning of buffer if there's lots of empty space or space is needed." *)
Definition shift (g : geom) : geom :=
  if (0 <? gstart g) && ((gend g =? glen g) || (glen g / 2 <? gstart g))
  then mkGeom 0 (gend g - gstart g) (glen g) else g.

(** scan.go:205-222 "Is the buffer full? If so, resize." None = ErrTooLong *)
Definition grow (g : geom) : option geom :=
  if gend g =? glen g then
    if maxScanTokenSize <=? glen g then None
    else
      let n := if glen g =? 0 then startBufSize else Z.min (glen g * 2) maxScanTokenSize in
      Some (mkGeom 0 (gend g - gstart g) n)
  else Some g.

Definition prepare (g : geom) : option geom := grow (shift g).

Definition offered (g : geom) : Z := glen g - gend g.

Definition after_read (g : geom) (n : Z) : geom :=
  let e := gend g + n in
  mkGeom (gstart g + 16 * ((e - gstart g) / 16)) e (glen g).

(** between two Reads of the receiver: fewer than 16 bytes are pending *)
Definition geom_inv (g : geom) : Prop :=
  g = geom0 \/ (glen g = 4096 /\ 0 <= gstart g /\ gstart g <= gend g /\ gend g <= 4096 /\ gend g - gstart g < 16).

(** any sequence of Reads, each returning at most what it was offered (None = a Read was offered
    nothing / returned more than offered / the buffer could not grow) *)
Fixpoint run_reads (g : geom) (ns : list Z) : option geom :=
  match ns with
  | nil => Some g
  | cons n ns' =>
      match prepare g with
      | Some g' => if (0 <=? n) && (n <=? offered g') then run_reads (after_read g' n) ns' else None
      | None => None
      end
  end.

