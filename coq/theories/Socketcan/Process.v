(** A PROCESS WITH SEVERAL RECEIVERS / TRANSMITTERS (C07).

    Receiver.v and Transmitter.v model ONE receiver on one connection and one transmitter. A
    program (canrunner, the emulator, one receiver per client connection) has several of them
    alive at the same time and interleaves calls on them. This file models that:

      - a generic "machine" [step : St -> Op -> St * list Ob] (state, operation, new state and the
        observations the operation produced) with [machine_run] = one instance, and
        [process_run] = a finite map  instance number -> state  (a function [nat -> St] that is the
        initial state almost everywhere) driven by operations TAGGED with the instance they
        address; every observation is tagged with the instance that produced it;
      - the receiver as such a machine: operations [ONew icpt rs] (NewReceiver on a connection whose
        reads will answer [rs], with or without a frame interceptor), [OReceive], [OClose];
      - the transmitter as such a machine: [TNew icpt], [TCall dl answers frame].

    In the model the instances are VALUES, so nothing can be shared between them; that each
    instance of the process behaves like the single-instance model on the operations addressed to
    it is the theorem [process_independent] (ProcessProofs.v). Whether the Go objects really
    share nothing (package-level buffers, option structs reached through a shared pointer) is a
    fact about Go memory that this functional model cannot express: the correspondence harness
    observes it by running several real Receivers / Transmitters interleaved and comparing the
    tagged observations with [receivers_run] / [transmitters_run].

    An interceptor call is observed together with the instance whose call made it: in
    [(i, ObEvent (EvFrame [f] ..))] the call [f] was made BY receiver i's interceptor.

    DEFINITIONS ONLY - proofs live in ProcessProofs.v. *)
From Coq Require Import ZArith List Bool Arith.
From CanVerif Require Import Socketcan.Wire Socketcan.Receiver Socketcan.Transmitter.
Import ListNotations.

Section Machine.
  Variables St Op Ob : Type.
  Variable step : St -> Op -> St * list Ob.

  (** one instance *)
  Fixpoint machine_run (s : St) (ops : list Op) : list Ob :=
    match ops with
    | [] => []
    | o :: ops' => let (s', es) := step s o in es ++ machine_run s' ops'
    end.

  (** several instances: [m i] is the state of instance i *)
  Definition upd (m : nat -> St) (i : nat) (s : St) : nat -> St :=
    fun j => if Nat.eqb j i then s else m j.

  Fixpoint process_run (m : nat -> St) (ops : list (nat * Op)) : list (nat * Ob) :=
    match ops with
    | [] => []
    | (i, o) :: ops' =>
        let (s', es) := step (m i) o in
        map (pair i) es ++ process_run (upd m i s') ops'
    end.
End Machine.

(** the sub-sequence of a tagged list that is addressed to / was produced by instance i *)
Definition addressed_to {X : Type} (i : nat) (l : list (nat * X)) : list X :=
  map snd (filter (fun x => Nat.eqb (fst x) i) l).

(** * Receivers *)
Inductive rop :=
| ONew (icpt : bool) (rs : list read)   (* NewReceiver(conn answering rs [, ReceiverFrameInterceptor]) *)
| OReceive                              (* Receive() and then Frame()/HasErrorFrame()/ErrorFrame()/Err() *)
| OClose.                               (* Close(): receiver.go only forwards it to the connection *)

Inductive robs :=
| ObEvent (e : event)                   (* what the client saw of one Receive (Receiver.v [event]) *)
| ObClosed.                             (* Close returned *)

Inductive rstate :=
| RNone                                         (* no receiver under this number (yet) *)
| RLive (icpt : bool) (r : receiver) (rs : list read)
| RDead.                                        (* after a panic / hang: nothing more is observed *)

(** a receiver created without an interceptor makes no interceptor calls *)
Definition strip_icpt (e : event) : event :=
  match e with
  | EvFrame _ f ie ef => EvFrame [] f ie ef
  | EvStop _ f err => EvStop [] f err
  | other => other
  end.

Definition see (icpt : bool) (e : event) : event := if icpt then e else strip_icpt e.

(** Close does not touch the receiver (receiver.go:75-77: [return r.rc.Close()]); what the
    connection answers to reads after it was closed is part of its read list [rs]. *)
Definition rstep (s : rstate) (o : rop) : rstate * list robs :=
  match o with
  | ONew icpt rs => (RLive icpt new_receiver rs, [])
  | OReceive =>
      match s with
      | RLive icpt r rs =>
          match receive r rs with
          | (STrue, r', rs', ic) =>
              (RLive icpt r' rs',
               [ObEvent (see icpt (EvFrame ic (frame_of r') (has_error_frame r') (error_frame r')))])
          | (SFalse, r', rs', ic) =>
              (RLive icpt r' rs', [ObEvent (see icpt (EvStop ic (frame_of r') (receiver_err r')))])
          | (SPanic, _, _, _) => (RDead, [ObEvent EvPanic])
          | (SHang, _, _, _) => (RDead, [ObEvent EvHang])
          end
      | other => (other, [])
      end
  | OClose =>
      match s with
      | RLive _ _ _ => (s, [ObClosed])
      | other => (other, [])
      end
  end.

(** the events among the observations *)
Definition events_of (obs : list robs) : list event :=
  flat_map (fun o => match o with ObEvent e => [e] | ObClosed => [] end) obs.

(** number of Receive calls in a list of operations *)
Definition receives (ops : list rop) : nat :=
  length (filter (fun o => match o with OReceive => true | _ => false end) ops).

(** operations on an existing receiver *)
Definition is_call (o : rop) : bool := match o with ONew _ _ => false | _ => true end.

Definition receivers_run (ops : list (nat * rop)) : list (nat * robs) :=
  process_run rstate rop robs rstep (fun _ => RNone) ops.

(** * Transmitters *)
Inductive top :=
| TNew (icpt : bool)                                    (* NewTransmitter(conn [, TransmitterFrameInterceptor]) *)
| TCall (dl : bool) (ans : conn_answers) (f : frame).   (* TransmitFrame; [ans] = answers of ITS connection *)

Definition no_intercept (evs : list tx_event) : list tx_event :=
  filter (fun ev => match ev with TxIntercept _ => false | _ => true end) evs.

Definition see_tx (icpt : bool) (x : list tx_event * tx_result) : list tx_event * tx_result :=
  if icpt then x else (no_intercept (fst x), snd x).

(** the state of a transmitter: does it exist, and was it created with an interceptor *)
Definition tstep (s : option bool) (o : top) : option bool * list (list tx_event * tx_result) :=
  match o with
  | TNew icpt => (Some icpt, [])
  | TCall dl ans f =>
      match s with
      | Some icpt => (s, [see_tx icpt (transmit dl ans f)])
      | None => (s, [])
      end
  end.

Definition transmitters_run (ops : list (nat * top)) : list (nat * (list tx_event * tx_result)) :=
  process_run (option bool) top (list tx_event * tx_result) tstep (fun _ => None) ops.
