(** Proofs for ScanBuffer.v: the receiver's scanner keeps its 4096-byte buffer and offers every Read
    at least 2033 bytes. *)
From Coq Require Import ZArith Bool Lia.
From CanVerif Require Import Socketcan.Receiver Socketcan.ScanBuffer.
Open Scope Z_scope.

Ltac Zify.zify_post_hook ::= Z.div_mod_to_equations.

Lemma geom_inv_init : geom_inv geom0.
Proof. left. reflexivity. Qed.

Theorem scan_offers_room g : geom_inv g ->
  exists g', prepare g = Some g' /\ glen g' = 4096 /\
             gend g' - gstart g' = gend g - gstart g /\
             2033 <= offered g' /\
             forall n, 0 <= n <= offered g' -> geom_inv (after_read g' n).
Proof.
  intros [->|(Hl & H0 & H1 & H2 & H3)].
  - exists (mkGeom 0 0 4096). split; [reflexivity|].
    unfold offered, after_read, geom_inv, geom0. cbn [gstart gend glen].
    repeat split; try lia. all: intros n Hn; right; cbn [gstart gend glen]; lia.
  - destruct g as [s e l]. cbn [gstart gend glen] in *. subst l.
    unfold prepare, shift. cbn [gstart gend glen].
    change (4096 / 2) with 2048.
    destruct (Z.ltb_spec 0 s); destruct (Z.eqb_spec e 4096); destruct (Z.ltb_spec 2048 s);
      cbn [andb orb]; unfold grow; cbn [gstart gend glen];
      repeat match goal with
             | |- context [?a =? ?b] => destruct (Z.eqb_spec a b); try lia
             end;
      eexists; (split; [reflexivity|]); unfold offered, after_read, geom_inv; cbn [gstart gend glen];
      (repeat split; try lia); try (intros n Hn; right; cbn [gstart gend glen]; lia).
Qed.

Theorem every_read_is_offered_room_gen : forall ns g g1, geom_inv g ->
  run_reads g ns = Some g1 ->
  exists g', prepare g1 = Some g' /\ glen g' = 4096 /\ 2033 <= offered g'.
Proof.
  induction ns as [|m ns IH]; intros g g1 Hi Hr; cbn [run_reads] in Hr.
  - injection Hr as <-. destruct (scan_offers_room g Hi) as (g' & Hp & Hl & _ & Ho & _). eauto.
  - destruct (scan_offers_room g Hi) as (g' & Hp & _ & _ & _ & Hn). rewrite Hp in Hr.
    destruct ((0 <=? m) && (m <=? offered g')) eqn:Hb; [|discriminate].
    apply andb_true_iff in Hb. destruct Hb as [Hb1 Hb2].
    apply Z.leb_le in Hb1. apply Z.leb_le in Hb2.
    exact (IH (after_read g' m) g1 (Hn m (conj Hb1 Hb2)) Hr).
Qed.

Theorem every_read_is_offered_room : forall ns g1,
  run_reads geom0 ns = Some g1 ->
  exists g', prepare g1 = Some g' /\ glen g' = 4096 /\ 2033 <= offered g'.
Proof. intros ns g1. apply every_read_is_offered_room_gen. exact geom_inv_init. Qed.
