(** Executable model of the SocketCAN wire codec:
      /repo/pkg/socketcan/frame.go      (frame, marshalBinary, unmarshalBinary, encodeFrame,
                                         decodeFrame, isError, decodeErrorFrame)
      /repo/frame.go:39-58              (Frame.Validate)

    Conventions. Bytes are [Z] in 0..255, byte strings are [list Z]. The Go value types are
    records of [Z] / [bool] / [list Z]:
      can.Frame            -> [frame]     (ID uint32, Length uint8, Data [8]byte, IsRemote, IsExtended)
      socketcan.frame      -> [scframe]   (idAndFlags uint32, dataLengthCode uint8, data [8]byte)
      socketcan.ErrorFrame -> [errframe]
    uint32 operations used by the code ([|] and [&] and [&^] with constants, comparison with 0)
    cannot leave the uint32 range, so no wrap-around is written; [byte(v >> k)] truncates and is
    written [mod 256]. Indexing / slicing that panics in Go on a short slice ([_ = b[15]]) is
    modelled by [option] ([None] = run-time panic).

    DEFINITIONS ONLY - proofs live in WireProofs.v. *)
From Coq Require Import ZArith List Bool.
Import ListNotations.
Open Scope Z_scope.

(** * Go value types *)
Record frame := mkFrame {
  fid : Z;            (* ID uint32 *)
  flen : Z;           (* Length uint8 *)
  fdata : list Z;     (* Data [8]byte *)
  fremote : bool;     (* IsRemote *)
  fext : bool         (* IsExtended *)
}.

Record scframe := mkSc {
  idflags : Z;        (* idAndFlags uint32 *)
  dlc : Z;            (* dataLengthCode uint8 *)
  scdata : list Z     (* data [8]byte *)
}.

Record errframe := mkErrFrame {
  eclass : Z;         (* ErrorClass uint32 *)
  elostarb : Z;       (* LostArbitrationBit uint8 *)
  ectrl : Z;          (* ControllerError uint8 *)
  eprot : Z;          (* ProtocolError uint8 *)
  eprotloc : Z;       (* ProtocolViolationErrorLocation uint8 *)
  etrx : Z;           (* TransceiverError uint8 *)
  ecsi : list Z       (* ControllerSpecificInformation [3]byte *)
}.

(** * Constants of pkg/socketcan/frame.go:9-55 and frame.go:15-18, data.go:9 *)
Definition lengthOfFrame : Z := 16.
Definition indexOfID : nat := 0.
Definition indexOfDataLengthCode : nat := 4.
Definition indexOfPadding : nat := 5.
Definition lengthOfPadding : nat := 3.
Definition indexOfData : nat := 8.
Definition indexOfLostArbitrationBit : nat := 0.
Definition indexOfControllerError : nat := 1.
Definition indexOfProtocolError : nat := 2.
Definition indexOfProtocolViolationErrorLocation : nat := 3.
Definition indexOfTransceiverError : nat := 4.
Definition indexOfControllerSpecificInformation : nat := 5.
Definition lengthOfControllerSpecificInformation : nat := 3.

Definition idFlagExtended : Z := 0x80000000.
Definition idFlagError : Z := 0x20000000.
Definition idFlagRemote : Z := 0x40000000.
Definition idMaskExtended : Z := 0x1fffffff.
Definition idMaskStandard : Z := 0x7ff.

Definition MaxID : Z := 0x7ff.
Definition MaxExtendedID : Z := 0x1fffffff.
Definition MaxDataLength : Z := 8.

(** * frame.go:39-58 Frame.Validate ([true] = nil error) *)
Definition validate (f : frame) : bool :=
  if fext f && (MaxExtendedID <? fid f) then false
  else if negb (fext f) && (MaxID <? fid f) then false
  else if MaxDataLength <? flen f then false
  else true.

(** * encoding/binary LittleEndian.PutUint32 / Uint32 *)
Definition put_u32 (v : Z) : list Z :=
  [v mod 256; (Z.shiftr v 8) mod 256; (Z.shiftr v 16) mod 256; (Z.shiftr v 24) mod 256].

Definition byte_at (b : list Z) (i : nat) : Z := nth i b 0.

(** uint32(b[0]) | uint32(b[1])<<8 | uint32(b[2])<<16 | uint32(b[3])<<24 (bytes < 256: no wrap) *)
Definition get_u32 (b : list Z) : Z :=
  Z.lor (Z.lor (Z.lor (byte_at b 0) (Z.shiftl (byte_at b 1) 8)) (Z.shiftl (byte_at b 2) 16))
        (Z.shiftl (byte_at b 3) 24).

(** * pkg/socketcan/frame.go:100-139 *)
(** encodeFrame *)
Definition encode_frame (cf : frame) : scframe :=
  let w := fid cf in
  let w := if fremote cf then Z.lor w idFlagRemote else w in
  let w := if fext cf then Z.lor w idFlagExtended else w in
  mkSc w (flen cf) (fdata cf).

Definition is_extended (f : scframe) : bool := 0 <? Z.land (idflags f) idFlagExtended.
Definition is_remote (f : scframe) : bool := 0 <? Z.land (idflags f) idFlagRemote.
Definition is_error (f : scframe) : bool := 0 <? Z.land (idflags f) idFlagError.

Definition sc_id (f : scframe) : Z :=
  if is_extended f then Z.land (idflags f) idMaskExtended
  else Z.land (idflags f) idMaskStandard.

(** decodeFrame *)
Definition decode_frame (f : scframe) : frame :=
  mkFrame (sc_id f) (dlc f) (scdata f) (is_remote f) (is_extended f).

(** * pkg/socketcan/frame.go:86-98 *)
(** marshalBinary writes into an existing slice [b]: bytes 0..3, 4 and 8..15 are written,
    the padding bytes 5..7 (and anything after byte 15) keep what [b] held. *)
Definition marshal16 (b : list Z) (f : scframe) : option (list Z) :=
  if Z.of_nat (length b) <? lengthOfFrame then None
  else Some (put_u32 (idflags f) ++ [dlc f]
             ++ firstn lengthOfPadding (skipn indexOfPadding b)
             ++ firstn 8 (scdata f) ++ skipn 16 b).

(** unmarshalBinary *)
Definition unmarshal16 (b : list Z) : option scframe :=
  if Z.of_nat (length b) <? lengthOfFrame then None
  else Some (mkSc (get_u32 b) (byte_at b indexOfDataLengthCode) (firstn 8 (skipn indexOfData b))).

(** * pkg/socketcan/frame.go:141-183 error frame accessors *)
Definition decode_error_frame (f : scframe) : errframe :=
  mkErrFrame
    (Z.ldiff (idflags f) idFlagError)                                 (* idAndFlags &^ idFlagError *)
    (byte_at (scdata f) indexOfLostArbitrationBit)
    (byte_at (scdata f) indexOfControllerError)
    (byte_at (scdata f) indexOfProtocolError)
    (byte_at (scdata f) indexOfProtocolViolationErrorLocation)
    (byte_at (scdata f) indexOfTransceiverError)
    (firstn lengthOfControllerSpecificInformation
            (skipn indexOfControllerSpecificInformation (scdata f))).

(** * What the public API shows *)
(** transmitter.go:47-50: [data := make([]byte, 16); scf.encodeFrame(f); scf.marshalBinary(data)] *)
Definition transmit_bytes (f : frame) : option (list Z) :=
  marshal16 (repeat 0 16) (encode_frame f).

(** receiver.go:47-69: after a successful Receive on token [b]:
    (Frame(), HasErrorFrame(), ErrorFrame()) *)
Definition receive16 (b : list Z) : option (frame * bool * errframe) :=
  match unmarshal16 b with
  | None => None
  | Some sc => Some (decode_frame sc, is_error sc, decode_error_frame sc)
  end.

(** the zero value [frame{}] the receiver resets to *)
Definition zero_scframe : scframe := mkSc 0 0 (repeat 0 8).

(** * Well-formedness (type ranges of the Go fields) - executable and Prop versions *)
Definition is_byte (b : Z) : Prop := 0 <= b < 256.
Definition is_byteb (b : Z) : bool := (0 <=? b) && (b <? 256).
Definition bytes (l : list Z) : Prop := Forall is_byte l.
Definition bytesb (l : list Z) : bool := forallb is_byteb l.

Definition wf_frame (f : frame) : Prop :=
  0 <= fid f < 2 ^ 32 /\ 0 <= flen f < 256 /\ length (fdata f) = 8%nat /\ bytes (fdata f).
Definition wf_frameb (f : frame) : bool :=
  (0 <=? fid f) && (fid f <? 2 ^ 32) && (0 <=? flen f) && (flen f <? 256)
  && Nat.eqb (length (fdata f)) 8 && bytesb (fdata f).

Definition block16 (b : list Z) : Prop := length b = 16%nat /\ bytes b.
Definition block16b (b : list Z) : bool := Nat.eqb (length b) 16 && bytesb b.
