(** Proofs for Process.v: in a process with several instances of a machine, driven by operations
    tagged with the instance they address, what instance i shows is - under EVERY interleaving -
    what the single-instance model shows on the sub-sequence of operations addressed to i.
    Instantiated for receivers (linked to [receive_calls], hence to every theorem of
    ReceiverProofs.v) and for transmitters (linked to [transmit_all]). *)
From Coq Require Import ZArith List Bool Arith Lia.
From CanVerif Require Import Socketcan.Wire Socketcan.Receiver Socketcan.ReceiverSpec
  Socketcan.ReceiverProofs Socketcan.Transmitter Socketcan.Process.
Import ListNotations.

(** * The generic fact *)
Section Machine.
  Variables St Op Ob : Type.
  Variable step : St -> Op -> St * list Ob.

  Lemma addressed_to_app {X} i (a b : list (nat * X)) :
    addressed_to i (a ++ b) = addressed_to i a ++ addressed_to i b.
  Proof. unfold addressed_to. rewrite filter_app, map_app. reflexivity. Qed.

  Lemma addressed_to_same {X} i (es : list X) : addressed_to i (map (pair i) es) = es.
  Proof.
    unfold addressed_to. induction es as [|e es IH]; [reflexivity|].
    cbn [map filter fst]. rewrite Nat.eqb_refl. cbn [map snd]. rewrite IH. reflexivity.
  Qed.

  Lemma addressed_to_other {X} i j (es : list X) : j <> i -> addressed_to i (map (pair j) es) = [].
  Proof.
    intros H. unfold addressed_to. induction es as [|e es IH]; [reflexivity|].
    cbn [map filter fst]. destruct (Nat.eqb_spec j i); [contradiction|]. exact IH.
  Qed.

  Theorem process_independent : forall (ops : list (nat * Op)) (m : nat -> St) (i : nat),
    addressed_to i (process_run St Op Ob step m ops) =
    machine_run St Op Ob step (m i) (addressed_to i ops).
  Proof.
    induction ops as [|[j o] ops IH]; intros m i; [reflexivity|].
    cbn [process_run]. destruct (step (m j) o) as [s' es] eqn:Es.
    rewrite addressed_to_app, IH.
    unfold addressed_to at 3. cbn [filter fst].
    destruct (Nat.eqb_spec j i) as [->|Hne].
    - rewrite addressed_to_same. cbn [map snd machine_run]. rewrite Es.
      unfold upd. rewrite Nat.eqb_refl. reflexivity.
    - rewrite addressed_to_other by exact Hne. cbn [app].
      unfold upd. destruct (Nat.eqb_spec i j) as [E|_]; [symmetry in E; contradiction|].
      reflexivity.
  Qed.

  (** consequently the operations addressed to the OTHER instances, and where they are
      interleaved, have no influence on what instance i shows *)
  Corollary process_interleaving_irrelevant : forall ops1 ops2 m i,
    addressed_to i ops1 = addressed_to i ops2 ->
    addressed_to i (process_run St Op Ob step m ops1) = addressed_to i (process_run St Op Ob step m ops2).
  Proof. intros ops1 ops2 m i E. rewrite !process_independent, E. reflexivity. Qed.
End Machine.

(** * Receivers *)
Theorem receivers_independent : forall ops i,
  addressed_to i (receivers_run ops) = machine_run rstate rop robs rstep RNone (addressed_to i ops).
Proof. intros ops i. unfold receivers_run. apply process_independent. Qed.

Theorem receivers_interleaving_irrelevant : forall ops1 ops2 i,
  addressed_to i ops1 = addressed_to i ops2 ->
  addressed_to i (receivers_run ops1) = addressed_to i (receivers_run ops2).
Proof. intros ops1 ops2 i E. unfold receivers_run. apply process_interleaving_irrelevant. exact E. Qed.

Lemma run_dead ops : forallb is_call ops = true -> machine_run rstate rop robs rstep RDead ops = [].
Proof.
  induction ops as [|o ops IH]; [reflexivity|]. cbn [forallb]. intros H.
  apply andb_true_iff in H. destruct H as [Ho H]. destruct o; [discriminate| |]; cbn; exact (IH H).
Qed.

Lemma receives_cons_receive ops : receives (OReceive :: ops) = S (receives ops).
Proof. reflexivity. Qed.

Lemma receives_cons_close ops : receives (OClose :: ops) = receives ops.
Proof. reflexivity. Qed.

(** one live receiver under Receive / Close calls = [receive_n] of Receiver.v *)
Lemma run_live : forall ops icpt r rs, forallb is_call ops = true ->
  events_of (machine_run rstate rop robs rstep (RLive icpt r rs) ops) =
  map (see icpt) (receive_n (receives ops) r rs).
Proof.
  induction ops as [|o ops IH]; intros icpt r rs H; [reflexivity|].
  cbn [forallb] in H. apply andb_true_iff in H. destruct H as [Ho H].
  destruct o as [? ?| |]; [discriminate| |].
  - rewrite receives_cons_receive. cbn [machine_run rstep receive_n].
    destruct (receive r rs) as [[[res r'] rs'] ic].
    destruct res; cbn [app events_of flat_map map].
    + rewrite <- IH by exact H. reflexivity.
    + rewrite <- IH by exact H. reflexivity.
    + rewrite run_dead by exact H. destruct icpt; reflexivity.
    + rewrite run_dead by exact H. destruct icpt; reflexivity.
  - rewrite receives_cons_close. cbn [machine_run rstep app events_of flat_map].
    apply IH. exact H.
Qed.

(** Receiver i of a process, created once (on a connection answering [rs]) and then used through
    Receive / Close, interleaved in any way with any operations on other receivers (creation,
    Receive, Close, also twice): it shows exactly what a lone receiver shows after the same
    number of Receive calls - and ReceiverProofs.receive_calls_general says what that is. *)
Theorem receiver_in_process : forall ops i icpt rs calls,
  addressed_to i ops = ONew icpt rs :: calls -> forallb is_call calls = true ->
  events_of (addressed_to i (receivers_run ops)) = map (see icpt) (receive_calls (receives calls) rs).
Proof.
  intros ops i icpt rs calls E H. rewrite receivers_independent, E.
  cbn [machine_run rstep app]. unfold receive_calls. apply run_live. exact H.
Qed.

(** with the specification of ReceiverSpec.v spelled out *)
Theorem receiver_in_process_spec : forall ops i icpt rs calls,
  addressed_to i ops = ONew icpt rs :: calls -> forallb is_call calls = true ->
  events_of (addressed_to i (receivers_run ops)) =
    map (see icpt)
      (let (bs, e) := delivered 0%Z rs in
       let evs := map frame_event (chunks16 bs) in
       firstn (receives calls) evs ++ repeat (EvStop [] zero_frame e) (receives calls - length evs)).
Proof.
  intros ops i icpt rs calls E H. rewrite (receiver_in_process ops i icpt rs calls E H).
  rewrite receive_calls_general. reflexivity.
Qed.

(** * Transmitters *)
Theorem transmitters_independent : forall ops i,
  addressed_to i (transmitters_run ops) =
  machine_run (option bool) top (list tx_event * tx_result) tstep None (addressed_to i ops).
Proof. intros ops i. unfold transmitters_run. apply process_independent. Qed.

Lemma run_transmitter : forall calls icpt,
  machine_run (option bool) top (list tx_event * tx_result) tstep (Some icpt)
    (map (fun c => match c with (dl, ans, f) => TCall dl ans f end) calls) =
  map (see_tx icpt) (transmit_all calls).
Proof.
  induction calls as [|[[dl ans] f] calls IH]; intros icpt; [reflexivity|].
  cbn [map machine_run tstep app transmit_all]. rewrite IH. reflexivity.
Qed.

(** transmitter i of a process, created once and then used for [calls], interleaved in any way
    with other transmitters: exactly [transmit_all calls] (Transmitter.v) - with the interceptor
    events only if IT was created with an interceptor *)
Theorem transmitter_in_process : forall ops i icpt calls,
  addressed_to i ops = TNew icpt :: map (fun c => match c with (dl, ans, f) => TCall dl ans f end) calls ->
  addressed_to i (transmitters_run ops) = map (see_tx icpt) (transmit_all calls).
Proof.
  intros ops i icpt calls E. rewrite transmitters_independent, E.
  cbn [machine_run tstep app]. apply run_transmitter.
Qed.
