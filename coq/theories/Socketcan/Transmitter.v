(** Executable model of socketcan.Transmitter.TransmitFrame
    (/repo/pkg/socketcan/transmitter.go:46-64) as a function of what the connection answers.

    The connection is a net.Conn; TransmitFrame calls SetWriteDeadline (only when the context has
    a deadline) and Write on it. [conn_answers] gives the error each of the two calls returns
    (None = nil) and the byte count [ans_write_n] that Write returns. The code IGNORES that count
    ([if _, err := t.conn.Write(data); err != nil]): a Write answering (n < 16, nil) - which the
    io.Writer contract forbids - counts as a success, and no second Write is ever made. The model
    does the same (model = code), so [ans_write_n] occurs in no right-hand side below. The result
    error wraps the connection's error ("transmit frame: %w"); the model names the cause.

    DEFINITIONS ONLY - proofs live in TransmitterProofs.v. *)
From Coq Require Import ZArith List Bool.
From CanVerif Require Import Socketcan.Wire Socketcan.Receiver.
Import ListNotations.
Open Scope Z_scope.

(** everything TransmitFrame does to the outside world, in order *)
Inductive tx_event :=
| TxSetDeadline                (* conn.SetWriteDeadline(deadline of the context) *)
| TxWrite (bs : list Z)        (* conn.Write(bs) *)
| TxIntercept (f : frame).     (* the frame interceptor called with f *)

Inductive tx_result :=
| TxOk                         (* nil *)
| TxErr (cause : error)        (* fmt.Errorf("transmit frame: %w", cause) *)
| TxPanic.                     (* marshalBinary on a short slice - impossible, see transmit_never_panics *)

Record conn_answers := mkAnswers {
  ans_deadline : option error;   (* what SetWriteDeadline returns *)
  ans_write : option error;      (* the error Write returns *)
  ans_write_n : Z                (* the byte count Write returns - ignored by the code *)
}.

Definition transmit (has_deadline : bool) (ans : conn_answers) (f : frame)
  : list tx_event * tx_result :=
  match transmit_bytes f with                    (* encodeFrame; make([]byte,16); marshalBinary *)
  | None => ([], TxPanic)
  | Some data =>
    let pre := if has_deadline then [TxSetDeadline] else [] in
    match (if has_deadline then ans_deadline ans else None) with
    | Some e => (pre, TxErr e)
    | None =>
      match ans_write ans with
      | Some e => (pre ++ [TxWrite data], TxErr e)
      | None => (pre ++ [TxWrite data; TxIntercept f], TxOk)
      end
    end
  end.

(** a sequence of calls on one transmitter (the transmitter keeps no state between calls) *)
Definition transmit_all (calls : list (bool * conn_answers * frame)) : list (list tx_event * tx_result) :=
  map (fun c => match c with (dl, ans, f) => transmit dl ans f end) calls.
