(** Proofs about the emulated bus (Emulator.v): delivery, per-sender order, end to end with the
    wire format (C06) and the receiver (C07). *)
From Coq Require Import ZArith List Bool Lia.
From CanVerif Require Import Socketcan.Wire Socketcan.WireSpec Socketcan.WireProofs Socketcan.Receiver
  Socketcan.ReceiverSpec Socketcan.ReceiverProofs Socketcan.Transmitter Socketcan.TransmitterProofs
  Socketcan.Emulator.
Import ListNotations.
Open Scope Z_scope.

Definition ep_status (j : Z) (b : bus) : cstat :=
  match lookup j b with
  | None => CNever
  | Some e => if eopen e then COpen else CClosed
  end.

Definition agrees (b : bus) (st : Z -> cstat) : Prop := forall j, ep_status j b = st j.

Lemma lookup_map g i b : (forall e, eid (g e) = eid e) ->
  lookup i (map g b) = option_map g (lookup i b).
Proof.
  intros Hg. induction b as [| e b IH]; cbn; [reflexivity |].
  rewrite Hg. destruct (eid e =? i); [reflexivity | exact IH].
Qed.

Lemma lookup_app i b e :
  lookup i (b ++ [e]) =
    match lookup i b with Some x => Some x | None => if eid e =? i then Some e else None end.
Proof.
  induction b as [| x b IH]; cbn; [reflexivity |].
  destruct (eid x =? i); [reflexivity | exact IH].
Qed.

Lemma lookup_eid i b e : lookup i b = Some e -> eid e = i.
Proof.
  induction b as [| x b IH]; cbn; [discriminate |].
  destruct (eid x =? i) eqn:H; [intros [= <-]; now apply Z.eqb_eq | exact IH].
Qed.

Lemma deliver_eid src d e :
  eid (if eopen e then mkEp (eid e) true (inbox e ++ [(src, d)]) else e) = eid e.
Proof. destruct (eopen e); reflexivity. Qed.

Lemma close_eid i e : eid (if eid e =? i then mkEp (eid e) false (inbox e) else e) = eid e.
Proof. destruct (eid e =? i); reflexivity. Qed.

(** one step: statuses follow [stat_step] *)
Lemma agrees_step b st o : agrees b st -> agrees (emu_step b o) (stat_step st o).
Proof.
  intros H j. specialize (H j) as Hj. unfold ep_status in *. destruct o as [i | i | src f]; cbn [emu_step stat_step].
  - destruct (lookup i b) as [e |] eqn:Hl.
    + rewrite Hj. destruct (i =? j) eqn:E; [| reflexivity].
      apply Z.eqb_eq in E. subst j. rewrite Hl in Hj. rewrite <- Hj. destruct (eopen e); reflexivity.
    + rewrite lookup_app. cbn [eid]. destruct (i =? j) eqn:E.
      * apply Z.eqb_eq in E. subst j. rewrite Hl in Hj |- *. rewrite <- Hj. reflexivity.
      * destruct (lookup j b); exact Hj.
  - unfold close_ep. rewrite lookup_map by (intros; apply close_eid).
    destruct (lookup j b) as [e |] eqn:Hl; cbn [option_map].
    + rewrite (lookup_eid j b e Hl), (Z.eqb_sym j i). destruct (i =? j); cbn [eopen]; rewrite <- Hj;
        destruct (eopen e); reflexivity.
    + rewrite <- Hj. destruct (i =? j); reflexivity.
  - destruct (sender_ok src b); [| exact Hj]. destruct (transmit_bytes f) as [d |]; [| exact Hj].
    unfold deliver. rewrite lookup_map by (intros; apply deliver_eid).
    destruct (lookup j b) as [e |]; cbn [option_map]; [| exact Hj].
    destruct (eopen e) eqn:E; cbn [eopen]; rewrite ?E; exact Hj.
Qed.

Lemma sender_ok_agrees b st src : agrees b st -> sender_ok src b = src_open st src.
Proof.
  intros H. destruct src as [j |]; cbn; [| reflexivity].
  rewrite <- (H j). unfold ep_status. destruct (lookup j b) as [e |]; [destruct (eopen e) |]; reflexivity.
Qed.

(** one step: the inbox of i grows by exactly the datagram of a transmit made while i is open *)
Lemma inbox_step b st o i : agrees b st ->
  inbox_of i (emu_step b o) =
    inbox_of i b ++
    match o with
    | ETransmit src f => if is_open (st i) && src_open st src then [(src, bytes_of f)] else []
    | _ => []
    end.
Proof.
  intros H. unfold inbox_of. destruct o as [k | k | src f]; cbn [emu_step].
  - rewrite app_nil_r. destruct (lookup k b) as [e |] eqn:Hl; [reflexivity |].
    rewrite lookup_app. destruct (lookup i b); [reflexivity |]. cbn [eid]. destruct (k =? i); reflexivity.
  - rewrite app_nil_r. unfold close_ep. rewrite lookup_map by (intros; apply close_eid).
    destruct (lookup i b) as [e |]; cbn [option_map]; [| reflexivity]. destruct (eid e =? k); reflexivity.
  - rewrite (sender_ok_agrees b st src H). rewrite <- (H i). unfold ep_status, bytes_of.
    destruct (src_open st src).
    + destruct (transmit_bytes_some f) as (d & Hd & _). rewrite Hd.
      unfold deliver. rewrite lookup_map by (intros; apply deliver_eid).
      destruct (lookup i b) as [e |]; cbn [option_map]; [| reflexivity].
      destruct (eopen e); cbn; [reflexivity | now rewrite app_nil_r].
    + rewrite andb_false_r, app_nil_r. reflexivity.
Qed.

Definition wire (x : option Z * frame) : option Z * list Z := (fst x, bytes_of (snd x)).

(** DELIVERY, every history: endpoint i holds exactly the frames transmitted while it was open (by a
    sender whose connection was open), once each, in history order *)
Theorem emu_delivery i : forall ops b st, agrees b st ->
  inbox_of i (emu_run b ops) = inbox_of i b ++ map wire (spec_frames i st ops).
Proof.
  induction ops as [| o ops IH]; intros b st H; cbn [emu_run spec_frames map].
  - now rewrite app_nil_r.
  - rewrite (IH _ _ (agrees_step b st o H)), (inbox_step b st o i H), map_app, <- app_assoc.
    f_equal. f_equal. destruct o as [k | k | src f]; try reflexivity.
    destruct (is_open (st i) && src_open st src); reflexivity.
Qed.

Lemma agrees_empty : agrees [] never.
Proof. intros j. reflexivity. Qed.

Theorem emu_delivery_from_empty i ops :
  inbox_of i (emu_run [] ops) = map wire (spec_frames i never ops).
Proof. exact (emu_delivery i ops [] never agrees_empty). Qed.

(** PER-SENDER ORDER: what i holds from sender s is what it would hold had nobody else transmitted *)
Theorem per_sender_order i s : forall ops st,
  filter (fun x => from_sender s (fst x)) (spec_frames i st ops) = spec_frames i st (only_sender s ops).
Proof.
  induction ops as [| o ops IH]; intros st; [reflexivity |].
  cbn [spec_frames only_sender filter]. rewrite filter_app, IH.
  destruct o as [k | k | src f]; cbn [app filter]; try reflexivity.
  destruct (from_sender s src) eqn:E.
  - cbn [spec_frames]. f_equal.
    destruct (is_open (st i) && src_open st src); cbn [filter fst]; [rewrite E |]; reflexivity.
  - destruct (is_open (st i) && src_open st src); cbn [filter fst app]; [rewrite E |]; reflexivity.
Qed.

(** * end to end *)
Lemma chunks16_blocks blocks : Forall (fun b => length b = 16%nat) blocks ->
  chunks16 (concat blocks) = blocks.
Proof.
  induction 1 as [| b bs Hb _ IH]; cbn [concat].
  - apply chunks16_short. cbn. lia.
  - rewrite chunks16_cons by (rewrite app_length; lia).
    replace (firstn 16 (b ++ concat bs)) with b.
    replace (skipn 16 (b ++ concat bs)) with (concat bs).
    + now rewrite IH.
    + rewrite <- Hb. rewrite skipn_app, skipn_all, Nat.sub_diag. reflexivity.
    + rewrite <- Hb. rewrite firstn_app, firstn_all, Nat.sub_diag. cbn. now rewrite app_nil_r.
Qed.

Lemma no_stall_blocks blocks : Forall (fun b => length b = 16%nat) blocks -> no_stall 0 blocks.
Proof.
  induction 1 as [| b bs Hb _ IH]; cbn; [exact I |].
  destruct b; [discriminate | exact IH].
Qed.

Definition valid_frame (f : frame) : Prop := wf_frame f /\ validate f = true.

Lemma valid_bytes f : valid_frame f -> bytes_of f = S_layout f /\ length (S_layout f) = 16%nat.
Proof.
  intros (Hwf & Hv). unfold bytes_of. rewrite (transmit_layout f Hwf Hv). split; [reflexivity |].
  apply S_layout_length, Hwf.
Qed.

(** a Receiver on an endpoint that was handed the frames fs (all valid) - one datagram per frame, the
    stream ended by the close of the connection - delivers exactly fs, in order, each once *)
Theorem emu_receive_identity fs rest n : Forall valid_frame fs ->
  receive_calls n (map RData (map bytes_of fs) ++ REOF :: rest) =
    firstn n (map (fun f => frame_event (S_layout f)) fs)
    ++ repeat (EvStop [] zero_frame None) (n - length fs).
Proof.
  intros Hv.
  assert (Hb : map bytes_of fs = map S_layout fs).
  { induction Hv as [| f fs Hf _ IH]; cbn [map]; [reflexivity |]. now rewrite (proj1 (valid_bytes f Hf)), IH. }
  assert (H16 : Forall (fun b => length b = 16%nat) (map S_layout fs)).
  { clear Hb. induction Hv as [| f fs Hf _ IH]; cbn [map]; constructor; [apply (valid_bytes f Hf) | exact IH]. }
  rewrite Hb, (receive_any_segmentation _ rest n (no_stall_blocks _ H16)). cbn zeta.
  change (map (fun k => frame_event (firstn 16 (skipn (16 * k) (concat (map S_layout fs)))))
              (seq 0 (length (concat (map S_layout fs)) / 16)))
    with (map frame_event (map (fun k => firstn 16 (skipn (16 * k) (concat (map S_layout fs))))
              (seq 0 (length (concat (map S_layout fs)) / 16)))) || rewrite <- map_map.
  fold (chunks16 (concat (map S_layout fs))).
  rewrite <- (chunks16_length (concat (map S_layout fs))), (chunks16_blocks _ H16), !map_map, map_length.
  reflexivity.
Qed.

Theorem valid_frame_event f : valid_frame f ->
  exists ef, frame_event (S_layout f) = EvFrame [f] f false ef.
Proof.
  intros (Hwf & Hv). destruct (roundtrip_explicit f Hwf Hv) as (b & ef & Hb & _ & Hr).
  rewrite (transmit_layout f Hwf Hv) in Hb. injection Hb as <-.
  exists ef. unfold frame_event. now rewrite Hr.
Qed.

Theorem spec_frames_step i st o ops :
  spec_frames i st (o :: ops) =
    (match o with
     | ETransmit src f =>
         if is_open (st i) && match src with None => true | Some j => is_open (st j) end then [(src, f)] else []
     | _ => []
     end) ++ spec_frames i (stat_step st o) ops.
Proof. destruct o as [k | k | [j |] f]; reflexivity. Qed.

Theorem emu_end_to_end fs rest n :
  Forall (fun f => wf_frame f /\ validate f = true) fs ->
  receive_calls n (map RData (map bytes_of fs) ++ REOF :: rest) =
    firstn n (map (fun f => frame_event (S_layout f)) fs) ++ repeat (EvStop [] zero_frame None) (n - length fs)
  /\ Forall (fun f => bytes_of f = S_layout f /\ exists ef, frame_event (S_layout f) = EvFrame [f] f false ef) fs.
Proof.
  intros H. split; [exact (emu_receive_identity fs rest n H) |].
  apply Forall_impl with (2 := H). intros f Hf.
  exact (conj (proj1 (valid_bytes f Hf)) (valid_frame_event f Hf)).
Qed.
