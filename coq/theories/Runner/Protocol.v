(** C14 - runner protocol, proved for ALL reachable states of the LTS of Lts.v (any number of
    threads, unbounded runs) by an inductive invariant, plus the sequential receive path and the
    result mapping of Run (RunModel.v).

      I4  per transmitter: accepted + ticks_taken = transmitted + aborted + (1 if inside the
          transmit section X1..X9 else 0): an accepted request / taken tick yields exactly one
          frame or one abort (which ends the thread), no frame appears without a trigger.
      I5  no lost toggle: flag <> flag_last_read -> wake token present \/ pc in {T0,S1,S2} (the flag
          is about to be re-read) \/ some application thread is between SetFlag and WakeSend;
          hence parked in SEL with no token and nobody mid-toggle: armed = flag && cyclic.
      I6  while disarmed: stale ticks taken since the disarm + (1 if a tick is still buffered) <= 1.
      I7  Done is absorbing (no transmission starts after it), cancellation is stable, a parked
          transmitter can return nil once cancelled, a failed hook/transmit leaves only `return err`,
          and every own step outside the hook body strictly decreases the distance to {SEL, Done}.
      receive path: [run_receiver] = declarative specification; the LTS accepts its event sequence.
      Run result: K1 - [run_error_refuted].

    NOT modelled (measured by the harness only): real time ("within a bounded number of cycle
    times"), scheduler fairness / actual termination of the goroutines, goroutine leaks. *)
From Coq Require Import Arith Bool List Lia String Ascii.
From CanVerif Require Import Runner.Lts Runner.RunModel Runner.LockDiscipline.
Import ListNotations.

Definition b2n (b : bool) : nat := if b then 1 else 0.

Definition pre_read (p : tpc) : bool := match p with T0 | S1 | S2 => true | _ => false end.
Definition applied_pc (p : tpc) : bool := match p with S3 | S4 => false | _ => true end.

(** local part of I5 *)
Definition i5b (x : tx) : bool := Bool.eqb (t_flag x) (t_last x) || t_wake x || pre_read (t_pc x).

(** per-transmitter invariant: I4, armed -> cyclic, ticker state = last applied flag, I6 *)
Record txinv (x : tx) : Prop := mkTxinv {
  inv_bal : t_acc x + t_tk x = t_txd x + t_ab x + b2n (in_x (t_pc x));
  inv_cyc : t_armed x = true -> t_cyclic x = true;
  inv_app : applied_pc (t_pc x) = true -> t_armed x = t_last x && t_cyclic x;
  inv_stale : if t_armed x then t_stale x = 0 else t_stale x + b2n (t_tick x) <= 1
}.

Definition good (x x' : tx) : Prop := (txinv x -> txinv x') /\ (i5b x = true -> i5b x' = true).

Definition thread_rel (h v : thread) : Prop :=
  match h, v with
  | TRx _, TRx _ => True
  | TTx x, TTx x' => good x x'
  | TApp a, TApp a' => forall t, a_pc a = AMid t -> a_pc a' = AMid t
  | _, _ => False
  end.

Ltac solve_good :=
  solve [ split;
  [ let A := fresh in let B := fresh in let C := fresh in let D := fresh in
    intros [A B C D]; cbn in *; constructor; cbn; auto; try lia; try discriminate
  | unfold i5b; cbn; rewrite ?orb_true_r, ?orb_false_r; auto ] ].

Lemma lock_thread_rel h v : lock_thread h = Some v -> thread_rel h v.
Proof.
  unfold lock_thread. intros H. destruct h as [p|x|a|]; break_step; cbn; auto;
    try (intros; congruence); destruct x; cbn in *; subst; solve_good.
Qed.

Lemma unlock_thread_rel h v : unlock_thread h = Some v -> thread_rel h v.
Proof.
  unfold unlock_thread. intros H. destruct h as [p|x|a|]; break_step; cbn; auto;
    try (intros; congruence); try (destruct ok; cbn; auto; fail); destruct x; cbn in *; subst; solve_good.
Qed.

Lemma access_thread_rel h w v : access_thread h w = Some v -> thread_rel h v.
Proof.
  unfold access_thread. intros H. destruct h as [p|x|a|]; destruct w; break_step; cbn; auto;
    destruct x; cbn in *; subst; try solve_good.
  (* WFlag at S2: the flag is re-read *)
  split.
  - intros [A B C D]; cbn in *; constructor; cbn; auto; discriminate.
  - intros _. unfold i5b; cbn.
    match goal with Hb : Bool.eqb _ _ = true |- _ => apply Bool.eqb_prop in Hb; subst end.
    rewrite Bool.eqb_reflx. reflexivity.
Qed.

Lemma hookcall_thread_rel h v : hookcall_thread h = Some v -> thread_rel h v.
Proof.
  unfold hookcall_thread. intros H. destruct h as [p|x|a|]; break_step; cbn; auto;
    destruct x; cbn in *; subst; solve_good.
Qed.

Lemma hookret_thread_rel h ok v : hookret_thread h ok = Some v -> thread_rel h v.
Proof.
  unfold hookret_thread. intros H. destruct h as [p|x|a|]; break_step; cbn; auto;
    try (destruct ok; cbn; auto; fail); destruct x; cbn in *; subst; destruct ok; solve_good.
Qed.

Lemma tx_local_good c x e x' : tx_local c x e = Some x' -> good x x'.
Proof.
  unfold tx_local. intros H. destruct x; cbn in *. destruct e; break_step; try solve_good.
  - (* Apply *)
    unfold apply_ticker; cbn. split.
    + intros [A B C D]; cbn in *.
      destruct t_last, t_cyclic, t_armed, t_gotwake; cbn in *; constructor; cbn; auto; try lia; try discriminate;
        try (specialize (B eq_refl); discriminate); try (destruct t_tick; cbn; lia).
    + unfold i5b; cbn. destruct t_last, t_cyclic, t_armed, t_gotwake; cbn; rewrite ?orb_true_r, ?orb_false_r; auto.
  - (* TickTake *)
    split.
    + intros [A B C D]; cbn in *. destruct t_armed; cbn in *; constructor; cbn; auto; try lia.
    + unfold i5b; cbn; rewrite ?orb_true_r, ?orb_false_r; auto.
  - (* Transmit *)
    destruct ok; solve_good.
  - (* Tick *)
    apply andb_prop in Heqb. destruct Heqb as [Ha Hn]. subst. apply negb_true_iff in Hn. subst. solve_good.
Qed.

(* ---------------------------------------------------------------- shapes of a step *)

Inductive shape (s s' : state) : Prop :=
| sh_none : th s' = th s -> shape s s'
| sh_one u v : th s' = upd (th s) u v -> thread_rel (th s u) v -> shape s s'
| sh_two u1 v1 u2 v2 :
    th s' = upd (upd (th s) u1 v1) u2 v2 -> u1 <> u2 ->
    thread_rel (th s u1) v1 -> thread_rel (th s u2) v2 -> shape s s'
| sh_setflag a m b x ap :
    th s a = TApp ap -> a_pc ap = AFree -> th s m = TTx x ->
    th s' = upd (upd (th s) m (TTx (with_flag x b))) a (TApp (mkApp (a_locked ap) (AMid m))) -> shape s s'
| sh_wakesend a m x ap :
    th s a = TApp ap -> a_pc ap = AMid m -> th s m = TTx x ->
    th s' = upd (upd (th s) m (TTx (with_wake x true))) a (TApp (mkApp (a_locked ap) AFree)) -> shape s s'.

Lemma rx_one s t p p' : th s t = TRx p -> shape s (set_th s t (TRx p')).
Proof. intros Et. eapply sh_one; [reflexivity|]. rewrite Et. exact I. Qed.

Lemma tx_one s t x x' e : th s t = TTx x -> tx_local (cancelled s) x e = Some x' -> shape s (set_th s t (TTx x')).
Proof. intros Et E. eapply sh_one; [reflexivity|]. rewrite Et. cbn. eapply tx_local_good; eauto. Qed.

Lemma step_shape s e s' : step_fn s e = Some s' -> shape s s'.
Proof.
  intros H. destruct e; cbn [step_fn] in H; unfold on_thread in H.
  - destruct (owner s); [discriminate|]. destruct (lock_thread (th s t)) eqn:E; inv H.
    eapply sh_one; [reflexivity|]. apply lock_thread_rel; auto.
  - destruct (unlock_thread (th s t)) eqn:E; inv H.
    eapply sh_one; [reflexivity|]. apply unlock_thread_rel; auto.
  - destruct (access_thread (th s t) w) eqn:E; inv H.
    eapply sh_one; [reflexivity|]. eapply access_thread_rel; eauto.
  - destruct (hookcall_thread (th s t)) eqn:E; inv H.
    eapply sh_one; [reflexivity|]. apply hookcall_thread_rel; auto.
  - destruct (hookret_thread (th s t) ok) eqn:E; inv H.
    eapply sh_one; [reflexivity|]. eapply hookret_thread_rel; eauto.
  - (* Mutate *) destruct (can_mutate (th s t)); [|discriminate]. destruct (th s m) eqn:Em; inv H.
    eapply sh_one; [reflexivity|]. rewrite Em. cbn. destruct x; solve_good.
  - destruct (th s t) eqn:Et; try discriminate. destruct (rx_local p (Recv t ok)) eqn:E; inv H. eapply rx_one; eauto.
  - destruct (th s t) eqn:Et; try discriminate. destruct (rx_local p (RxFrame t)) eqn:E; inv H. eapply rx_one; eauto.
  - destruct (th s t) eqn:Et; try discriminate. destruct (rx_local p (Lookup t known)) eqn:E; inv H. eapply rx_one; eauto.
  - destruct (th s t) eqn:Et; try discriminate. destruct (rx_local p (RecvErr t ok)) eqn:E; inv H. eapply rx_one; eauto.
  - destruct (th s t) eqn:Et; try discriminate. destruct (tx_local (cancelled s) x (TxInit t)) eqn:E; inv H. eapply tx_one; eauto.
  - destruct (th s t) eqn:Et; try discriminate. destruct (tx_local (cancelled s) x (Apply t)) eqn:E; inv H. eapply tx_one; eauto.
  - destruct (th s t) eqn:Et; try discriminate. destruct (tx_local (cancelled s) x (GetWake t)) eqn:E; inv H. eapply tx_one; eauto.
  - destruct (th s t) eqn:Et; try discriminate. destruct (tx_local (cancelled s) x (Wake t)) eqn:E; inv H. eapply tx_one; eauto.
  - (* Accept *) destruct (th s t) eqn:Et; try discriminate. destruct (th s a) eqn:Ea; try discriminate.
    destruct (t_pc x) eqn:Epc; try discriminate. destruct (a_pc a0) eqn:Eap; try discriminate.
    destruct (Nat.eqb m t); inv H.
    eapply sh_two; [reflexivity| | |].
    + intros ->. rewrite Et in Ea. discriminate.
    + rewrite Et. cbn. destruct x; cbn in *; subst. solve_good.
    + rewrite Ea. cbn. intros t0 Hm. congruence.
  - destruct (th s t) eqn:Et; try discriminate. destruct (tx_local (cancelled s) x (TickTake t)) eqn:E; inv H. eapply tx_one; eauto.
  - destruct (th s t) eqn:Et; try discriminate. destruct (tx_local (cancelled s) x (Transmit t f ok)) eqn:E; inv H. eapply tx_one; eauto.
  - (* SetFlag *) destruct (th s a) eqn:Ea; try discriminate. destruct (th s m) eqn:Em; try discriminate.
    destruct (a_pc a0) eqn:Eap; inv H. eapply sh_setflag; eauto; reflexivity.
  - (* WakeSend *) destruct (th s a) eqn:Ea; try discriminate. destruct (th s m) eqn:Em; try discriminate.
    destruct (a_pc a0) eqn:Eap; try discriminate. destruct (Nat.eqb_spec m0 m); inv H. eapply sh_wakesend; eauto; reflexivity.
  - (* Offer *) destruct (th s a) eqn:Ea; try discriminate. destruct (th s m) eqn:Em; try discriminate.
    destruct (a_pc a0) eqn:Eap; inv H. eapply sh_one; [reflexivity|]. rewrite Ea. cbn. intros; congruence.
  - destruct (th s a) eqn:Ea; try discriminate. destruct (a_pc a0) eqn:Eap; inv H.
    eapply sh_one; [reflexivity|]. rewrite Ea. cbn. intros; congruence.
  - destruct (th s t) eqn:Et; try discriminate. destruct (tx_local (cancelled s) x (Tick t)) eqn:E; inv H. eapply tx_one; eauto.
  - inv H. apply sh_none. reflexivity.
  - destruct (th s t) eqn:Et; try discriminate.
    + destruct (rx_local p (Done t ok)) eqn:E; inv H. eapply rx_one; eauto.
    + destruct (tx_local (cancelled s) x (Done t ok)) eqn:E; inv H. eapply tx_one; eauto.
Qed.

(* ---------------------------------------------------------------- the global invariant *)

Definition midf (f : tid -> thread) (t : tid) : Prop :=
  exists a ap, f a = TApp ap /\ a_pc ap = AMid t.

Definition TXIf (f : tid -> thread) : Prop := forall t x, f t = TTx x -> txinv x.
Definition I5f (f : tid -> thread) : Prop := forall t x, f t = TTx x -> i5b x = true \/ midf f t.
Definition Invf (f : tid -> thread) : Prop := TXIf f /\ I5f f.

Lemma midf_upd f u v t :
  midf f t -> thread_rel (f u) v -> midf (upd f u v) t.
Proof.
  intros (a & ap & Ha & Hm) Hrel. unfold midf, upd. destruct (Nat.eqb_spec a u) as [->|Hne].
  - rewrite Ha in Hrel. destruct v as [|?|a'|]; cbn in Hrel; try contradiction.
    exists u, a'. rewrite Nat.eqb_refl. split; auto.
  - exists a, ap. destruct (Nat.eqb_spec a u); [contradiction|]. auto.
Qed.

Lemma Invf_upd f u v : Invf f -> thread_rel (f u) v -> Invf (upd f u v).
Proof.
  intros [HT H5] Hrel. split.
  - intros t x. unfold upd. destruct (Nat.eqb_spec t u) as [->|Hne]; [|apply HT].
    intros ->. destruct (f u) as [|x0| |] eqn:Eu; cbn in Hrel; try contradiction.
    apply Hrel. eapply HT; eauto.
  - intros t x Ht. unfold upd in Ht. destruct (Nat.eqb_spec t u) as [->|Hne].
    + subst v. destruct (f u) as [|x0| |] eqn:Eu; cbn in Hrel; try contradiction.
      destruct (H5 _ _ Eu) as [Hi|Hm].
      * left. apply Hrel. exact Hi.
      * right. apply midf_upd; auto. rewrite Eu. exact Hrel.
    + destruct (H5 _ _ Ht) as [Hi|Hm]; [left; exact Hi|]. right. apply midf_upd; auto.
Qed.

Lemma txinv_with_flag x b : txinv x -> txinv (with_flag x b).
Proof. intros [A B C D]. destruct x; cbn in *. constructor; cbn; auto. Qed.
Lemma txinv_with_wake x b : txinv x -> txinv (with_wake x b).
Proof. intros [A B C D]. destruct x; cbn in *. constructor; cbn; auto. Qed.

Lemma shape_inv s s' : shape s s' -> Invf (th s) -> Invf (th s').
Proof.
  intros Hsh HI. destruct Hsh as [E | u v E R | u1 v1 u2 v2 E Hne R1 R2 | a m b x ap Ea Eap Em E | a m x ap Ea Eap Em E];
    rewrite E; clear E.
  - exact HI.
  - apply Invf_upd; auto.
  - apply Invf_upd; [apply Invf_upd; auto|]. unfold upd at 1. destruct (Nat.eqb_spec u2 u1); [congruence|]. exact R2.
  - (* SetFlag: the toggling application thread is now mid-toggle on m *)
    destruct HI as [HT H5].
    assert (Hne : a <> m) by (intros ->; rewrite Em in Ea; discriminate).
    split.
    + intros t y. unfold upd. destruct (Nat.eqb_spec t a); [discriminate|].
      destruct (Nat.eqb_spec t m) as [->|]; [|apply HT]. intros Hy. inv Hy. apply txinv_with_flag. eapply HT; eauto.
    + intros t y. unfold upd at 1. destruct (Nat.eqb_spec t a) as [->|Hta]; [discriminate|].
      unfold upd at 1. destruct (Nat.eqb_spec t m) as [->|Htm].
      * intros _. right. exists a. eexists. unfold upd. rewrite Nat.eqb_refl. split; [reflexivity|]. reflexivity.
      * intros Hy. destruct (H5 _ _ Hy) as [Hi|(a' & ap' & Ha' & Hm')]; [left; exact Hi|]. right.
        exists a', ap'. split; auto. unfold upd.
        destruct (Nat.eqb_spec a' a) as [->|]; [rewrite Ea in Ha'; inv Ha'; congruence|].
        destruct (Nat.eqb_spec a' m) as [->|]; [rewrite Em in Ha'; discriminate|]. exact Ha'.
  - (* WakeSend: the token is in the channel *)
    destruct HI as [HT H5].
    assert (Hne : a <> m) by (intros ->; rewrite Em in Ea; discriminate).
    split.
    + intros t y. unfold upd. destruct (Nat.eqb_spec t a); [discriminate|].
      destruct (Nat.eqb_spec t m) as [->|]; [|apply HT]. intros Hy. inv Hy. apply txinv_with_wake. eapply HT; eauto.
    + intros t y. unfold upd at 1. destruct (Nat.eqb_spec t a) as [->|Hta]; [discriminate|].
      unfold upd at 1. destruct (Nat.eqb_spec t m) as [->|Htm].
      * intros Hy. inv Hy. left. unfold i5b. destruct x; cbn. rewrite orb_true_r. reflexivity.
      * intros Hy. destruct (H5 _ _ Hy) as [Hi|(a' & ap' & Ha' & Hm')]; [left; exact Hi|]. right.
        exists a', ap'. split; auto. unfold upd.
        destruct (Nat.eqb_spec a' a) as [->|]; [rewrite Ea in Ha'; inv Ha'; congruence|].
        destruct (Nat.eqb_spec a' m) as [->|]; [rewrite Em in Ha'; discriminate|]. exact Ha'.
Qed.

Lemma txinv_init c : txinv (init_tx c).
Proof. constructor; cbn; auto; discriminate. Qed.

Lemma txinv_init_on c : txinv (init_tx_on c).
Proof. constructor; cbn; auto; discriminate. Qed.

(** initial states: flag = false, or flag = true with NO wake-up token (RoleTxOn) - the flag is
    read before the first select in both (pre_read T0) *)
Lemma Invf_init cfg : Invf (th (init cfg)).
Proof.
  split; intros t x; cbn; destruct (cfg t); cbn; intros H; inv H.
  - apply txinv_init.
  - apply txinv_init_on.
  - left. reflexivity.
  - left. reflexivity.
Qed.

Theorem Inv_reachable cfg s : reachable cfg s -> Invf (th s).
Proof.
  induction 1; [apply Invf_init|]. eapply shape_inv; [eapply step_shape; eauto | exact IHreachable].
Qed.

(* ---------------------------------------------------------------- C14 statements: I4, I5, I6 *)

(** I4 exactly-once accounting *)
Theorem I4_accounting cfg s t x :
  reachable cfg s -> th s t = TTx x ->
  t_acc x + t_tk x = t_txd x + t_ab x + (if in_x (t_pc x) then 1 else 0).
Proof. intros Hr Ht. destruct (Inv_reachable _ _ Hr) as [HT _]. apply (inv_bal _ (HT _ _ Ht)). Qed.

(** ... in the form of the property: the difference is 0 or 1, and it is 1 exactly inside transmit *)
Corollary I4_zero_or_one cfg s t x :
  reachable cfg s -> th s t = TTx x ->
  t_txd x + t_ab x <= t_acc x + t_tk x <= t_txd x + t_ab x + 1 /\
  (t_acc x + t_tk x = t_txd x + t_ab x + 1 <-> in_x (t_pc x) = true).
Proof.
  intros Hr Ht. pose proof (I4_accounting _ _ _ _ Hr Ht) as H. destruct (in_x (t_pc x)); split; try lia;
    split; intros; try lia; try discriminate; auto.
Qed.

(** no frame without a trigger: frames transmitted never exceed requests accepted + ticks taken *)
Corollary no_frame_without_trigger cfg s t x :
  reachable cfg s -> th s t = TTx x -> t_txd x <= t_acc x + t_tk x.
Proof. intros Hr Ht. pose proof (I4_accounting _ _ _ _ Hr Ht). lia. Qed.

(** I5 no lost toggle *)
Theorem I5_no_lost_toggle cfg s t x :
  reachable cfg s -> th s t = TTx x -> t_flag x <> t_last x ->
  t_wake x = true \/ pre_read (t_pc x) = true \/
  (exists a ap, th s a = TApp ap /\ a_pc ap = AMid t).
Proof.
  intros Hr Ht Hne. destruct (Inv_reachable _ _ Hr) as [_ H5]. destruct (H5 _ _ Ht) as [Hi|Hm]; [|auto].
  unfold i5b in Hi. apply orb_true_iff in Hi. destruct Hi as [Hi|Hi]; [|auto].
  apply orb_true_iff in Hi. destruct Hi as [Hi|Hi]; [|auto]. apply Bool.eqb_prop in Hi. contradiction.
Qed.

(** consequence: a parked transmitter with an empty wake-up channel and no toggle in flight has
    its ticker armed exactly when the flag is set (and the message is cyclic with a cycle time) *)
Theorem I5_parked_ticker_matches_flag cfg s t x :
  reachable cfg s -> th s t = TTx x -> t_pc x = SEL -> t_wake x = false ->
  (forall a ap, th s a = TApp ap -> a_pc ap <> AMid t) ->
  t_armed x = t_flag x && t_cyclic x.
Proof.
  intros Hr Ht Hpc Hw Hnomid. destruct (Inv_reachable _ _ Hr) as [HT _].
  pose proof (inv_app _ (HT _ _ Ht)) as Happ. rewrite Hpc in Happ. specialize (Happ eq_refl).
  destruct (Bool.bool_dec (t_flag x) (t_last x)) as [->|Hne]; [exact Happ|].
  destruct (I5_no_lost_toggle _ _ _ _ Hr Ht Hne) as [H|[H|(a & ap & Ha & Hm)]].
  - congruence.
  - rewrite Hpc in H. discriminate.
  - exfalso. eapply Hnomid; eauto.
Qed.

(** I6: once disarmed (a handled disable), at most one - already buffered - tick is consumed
    before the next enable: [t_stale] counts the ticks taken since the disarm *)
Theorem I6_at_most_one_stale_tick cfg s t x :
  reachable cfg s -> th s t = TTx x -> t_armed x = false ->
  t_stale x + (if t_tick x then 1 else 0) <= 1.
Proof.
  intros Hr Ht Ha. destruct (Inv_reachable _ _ Hr) as [HT _]. pose proof (inv_stale _ (HT _ _ Ht)) as H.
  rewrite Ha in H. exact H.
Qed.

(** a tick can only be produced by an armed ticker, and only for cyclic messages *)
Theorem armed_only_if_cyclic cfg s t x :
  reachable cfg s -> th s t = TTx x -> t_armed x = true -> t_cyclic x = true.
Proof. intros Hr Ht. destruct (Inv_reachable _ _ Hr) as [HT _]. apply (inv_cyc _ (HT _ _ Ht)). Qed.

(** trace form used on logged traces: the invariants evaluated in every visited state *)
Definition tx_ok (h : thread) : bool :=
  match h with TTx x => tx_balance_ok x && tx_stale_ok x | _ => true end.

Lemma tx_ok_reachable cfg s t : reachable cfg s -> tx_ok (th s t) = true.
Proof.
  intros Hr. destruct (th s t) as [|x| |] eqn:Et; cbn; auto.
  pose proof (I4_accounting _ _ _ _ Hr Et) as H4. destruct (Inv_reachable _ _ Hr) as [HT _].
  pose proof (inv_stale _ (HT _ _ Et)) as H6.
  unfold tx_balance_ok, tx_stale_ok. apply andb_true_iff. split.
  - apply Nat.eqb_eq. exact H4.
  - destruct (t_armed x); [apply Nat.eqb_eq; exact H6 | apply Nat.leb_le; exact H6].
Qed.

(* ---------------------------------------------------------------- I7: stop behaviour *)

Lemma cancelled_stable s e s' : step_fn s e = Some s' -> cancelled s = true -> cancelled s' = true.
Proof.
  intros H Hc. destruct e; cbn [step_fn] in H; unfold on_thread in H; break_step; cbn; auto.
Qed.

(** the thread performing an event (None: time / context) *)
Definition actor (e : event) : option tid :=
  match e with
  | Lock t | Unlock t | Access t _ | HookCall t | HookRet t _ | Mutate t _ _
  | Recv t _ | RxFrame t | Lookup t _ | RecvErr t _
  | TxInit t | Apply t | GetWake t | Wake t | Accept t _ | TickTake t | Transmit t _ _ | Done t _ => Some t
  | SetFlag a _ _ | WakeSend a _ | Offer a _ | OfferAbort a => Some a
  | Tick _ | Cancel => None
  end.

(** Done is absorbing: whatever happens later, a returned transmitter stays returned and its
    counters never move again - in particular it starts no further transmission *)
Theorem done_absorbing s e s' t x :
  step_fn s e = Some s' -> th s t = TTx x -> t_pc x = TDone ->
  exists x', th s' t = TTx x' /\ t_pc x' = TDone /\
             t_acc x' = t_acc x /\ t_tk x' = t_tk x /\ t_txd x' = t_txd x /\ t_ab x' = t_ab x.
Proof.
  intros H Ht Hpc.
  assert (Hsame : forall u v, u <> t -> upd (th s) u v t = TTx x)
    by (intros u v Hu; unfold upd; destruct (Nat.eqb_spec t u); [congruence|exact Ht]).
  destruct e; cbn [step_fn] in H; unfold on_thread in H.
  all: try (destruct (Nat.eq_dec t0 t) as [->|Hne];
    [ rewrite Ht in H; cbn in H; unfold tx_local in H; rewrite ?Hpc in H; cbn in H; break_step
    | break_step; cbn; rewrite Hsame by auto; exists x; repeat split; auto ]; fail).
  - (* Mutate t0 m v *) destruct (can_mutate (th s t0)); [|discriminate].
    destruct (Nat.eq_dec m t) as [->|Hne].
    + rewrite Ht in H. inv H. cbn. unfold upd. rewrite Nat.eqb_refl. eexists; split; [reflexivity|].
      destruct x; cbn in *; repeat split; auto.
    + break_step; cbn; rewrite Hsame by auto; exists x; repeat split; auto.
  - (* Accept t0 a *) destruct (Nat.eq_dec t0 t) as [->|Hne].
    + rewrite Ht in H. rewrite Hpc in H. break_step.
    + break_step. cbn. unfold upd. destruct (Nat.eqb_spec t a) as [->|]; [congruence|].
      destruct (Nat.eqb_spec t t0); [congruence|]. exists x; repeat split; auto.
  - (* SetFlag a m b *) destruct (th s a) eqn:Ea; try discriminate. destruct (th s m) eqn:Em; try discriminate.
    destruct (a_pc a0); inv H. cbn. unfold upd.
    destruct (Nat.eqb_spec t a) as [->|]; [congruence|].
    destruct (Nat.eqb_spec t m) as [->|]; [|exists x; repeat split; auto].
    rewrite Ht in Em. inv Em. eexists; split; [reflexivity|]. destruct x0; cbn in *; repeat split; auto.
  - (* WakeSend *) destruct (th s a) eqn:Ea; try discriminate. destruct (th s m) eqn:Em; try discriminate.
    destruct (a_pc a0); try discriminate. destruct (Nat.eqb m0 m); inv H. cbn. unfold upd.
    destruct (Nat.eqb_spec t a) as [->|]; [congruence|].
    destruct (Nat.eqb_spec t m) as [->|]; [|exists x; repeat split; auto].
    rewrite Ht in Em. inv Em. eexists; split; [reflexivity|]. destruct x0; cbn in *; repeat split; auto.
  - (* Offer *) destruct (th s a) eqn:Ea; try discriminate. destruct (th s m); try discriminate.
    destruct (a_pc a0); inv H. cbn. unfold upd. destruct (Nat.eqb_spec t a) as [->|]; [congruence|]. exists x; repeat split; auto.
  - destruct (th s a) eqn:Ea; try discriminate. destruct (a_pc a0); inv H. cbn. unfold upd.
    destruct (Nat.eqb_spec t a) as [->|]; [congruence|]. exists x; repeat split; auto.
  - (* Tick *) destruct (Nat.eq_dec t0 t) as [->|Hne].
    + rewrite Ht in H. cbn in H. unfold tx_local in H. rewrite ?Hpc in H. break_step. cbn. unfold upd. rewrite Nat.eqb_refl.
      eexists; split; [reflexivity|]. destruct x; cbn in *; repeat split; auto.
    + break_step; cbn; rewrite Hsame by auto; exists x; repeat split; auto.
  - inv H. cbn. exists x; repeat split; auto.
Qed.

(** after Done no event of the thread itself is enabled: no new X1 is entered, nothing is transmitted *)
Theorem done_no_own_step s e t x :
  th s t = TTx x -> t_pc x = TDone -> actor e = Some t -> step_fn s e = None.
Proof.
  intros Ht Hpc Ha. destruct e; cbn in Ha; inv Ha; cbn [step_fn]; unfold on_thread; rewrite ?Ht; cbn;
    unfold tx_local; rewrite ?Hpc; auto.
  - destruct (owner s); auto.
  - destruct w; rewrite ?Hpc; auto.
  - destruct (th s a); auto.
Qed.

(** once cancelled, a parked transmitter can return nil; a parked transmitter that is not
    cancelled cannot return *)
Theorem sel_returns_nil_iff_cancelled s t x :
  th s t = TTx x -> t_pc x = SEL ->
  ((exists s', step_fn s (Done t true) = Some s') <-> cancelled s = true) /\ step_fn s (Done t false) = None.
Proof.
  intros Ht Hpc. cbn. rewrite Ht. cbn. unfold tx_local. rewrite Hpc. split.
  - destruct (cancelled s); cbn; split; intros H; auto.
    + eexists; reflexivity.
    + destruct H as [s' H]; discriminate.
    + discriminate.
  - rewrite andb_false_r. reflexivity.
Qed.

(** a failing hook or transmit ends the thread: at TFail the only own step is `return err` *)
Theorem failure_ends_thread s e s' t x :
  th s t = TTx x -> t_pc x = TFail -> actor e = Some t -> step_fn s e = Some s' -> e = Done t false.
Proof.
  intros Ht Hpc Ha H. destruct e; cbn in Ha; inv Ha; cbn [step_fn] in H; unfold on_thread in H; rewrite ?Ht in H; cbn in H;
    unfold tx_local in H; rewrite ?Hpc in H; try discriminate.
  - destruct (owner s); discriminate.
  - destruct w; rewrite ?Hpc in H; discriminate.
  - destruct (th s a); discriminate.
  - destruct ok; [discriminate|reflexivity].
Qed.

Theorem hook_error_leads_to_failure s t s' x :
  step_fn s (HookRet t false) = Some s' -> th s t = TTx x ->
  exists x', th s' t = TTx x' /\ t_pc x' = TFail /\ t_ab x' = S (t_ab x) /\ t_txd x' = t_txd x.
Proof.
  cbn. unfold on_thread. intros H Ht. rewrite Ht in H. cbn in H. destruct (t_pc x); inv H.
  cbn. unfold upd. rewrite Nat.eqb_refl. eexists; split; [reflexivity|]. cbn. auto.
Qed.

Theorem transmit_error_leads_to_failure s t f s' x :
  step_fn s (Transmit t f false) = Some s' -> th s t = TTx x ->
  exists x', th s' t = TTx x' /\ t_pc x' = TFail /\ t_ab x' = S (t_ab x) /\ t_txd x' = t_txd x.
Proof.
  cbn. intros H Ht. rewrite Ht in H. unfold tx_local in H. destruct (t_pc x); try discriminate.
  destruct (Nat.eqb f (t_snap x)); inv H.
  cbn. unfold upd. rewrite Nat.eqb_refl. eexists; split; [reflexivity|]. cbn. auto.
Qed.

(** distance (in own steps, the hook body excluded) to the next visit of SEL or Done *)
Definition tx_rank (p : tpc) : nat :=
  match p with
  | SEL | TDone => 0
  | TFail | T1 => 1
  | X9 | S4 => 2 | X8 | S3 => 3 | X7 | S2 => 4 | X6 | S1 => 5 | XHU | T0 => 6 | XHL | X5 => 7
  | X4 => 8 | X3 => 9 | X2 => 10 | X1 => 11
  end.

(** bounded progress: every own step of a transmitter that is not parked, other than the hook
    body taking the lock or mutating, strictly decreases the distance; so from X1 the thread is
    back in SEL (frame transmitted) or Done (error) after at most 11 own steps plus the hook body *)
Theorem own_step_decreases_rank s e s' t x :
  step_fn s e = Some s' -> th s t = TTx x -> actor e = Some t -> t_pc x <> SEL ->
  (forall m v, e <> Mutate t m v) -> (t_pc x = XHU -> e <> Lock t) ->
  exists x', th s' t = TTx x' /\ tx_rank (t_pc x') < tx_rank (t_pc x).
Proof.
  intros H Ht Ha Hsel Hmut Hlock.
  destruct e; cbn in Ha; inv Ha; cbn [step_fn] in H; unfold on_thread in H; rewrite ?Ht in H; cbn in H;
    try discriminate.
  - destruct (owner s); [discriminate|]. destruct (t_pc x) eqn:Epc; inv H; cbn; unfold upd; rewrite Nat.eqb_refl;
      try (eexists; split; [reflexivity|]; cbn; lia). exfalso. apply Hlock; auto.
  - destruct (t_pc x) eqn:Epc; inv H; cbn; unfold upd; rewrite Nat.eqb_refl; eexists; split; try reflexivity; cbn; lia.
  - destruct w; destruct (t_pc x) eqn:Epc; try discriminate; break_step; cbn; unfold upd; rewrite Nat.eqb_refl;
      eexists; split; try reflexivity; cbn; lia.
  - destruct (t_pc x) eqn:Epc; inv H; cbn; unfold upd; rewrite Nat.eqb_refl; eexists; split; try reflexivity; cbn; lia.
  - destruct (t_pc x) eqn:Epc; inv H; cbn; unfold upd; rewrite Nat.eqb_refl; eexists; split; try reflexivity;
      destruct ok; cbn; lia.
  - exfalso. eapply Hmut; reflexivity.
  - unfold tx_local in H. destruct (t_pc x) eqn:Epc; inv H; cbn; unfold upd; rewrite Nat.eqb_refl; eexists; split; try reflexivity; cbn; lia.
  - unfold tx_local in H. destruct (t_pc x) eqn:Epc; inv H; cbn; unfold upd; rewrite Nat.eqb_refl; eexists; split; try reflexivity.
    destruct (t_gotwake x); cbn; lia.
  - unfold tx_local in H. destruct (t_pc x) eqn:Epc; inv H; cbn; unfold upd; rewrite Nat.eqb_refl; eexists; split; try reflexivity; cbn; lia.
  - unfold tx_local in H. destruct (t_pc x) eqn:Epc; try discriminate. congruence.
  - destruct (th s a); try discriminate. destruct (t_pc x) eqn:Epc; try discriminate. congruence.
  - unfold tx_local in H. destruct (t_pc x) eqn:Epc; try discriminate. congruence.
  - unfold tx_local in H. destruct (t_pc x) eqn:Epc; try discriminate. destruct (Nat.eqb f (t_snap x)); inv H.
    cbn; unfold upd; rewrite Nat.eqb_refl; eexists; split; try reflexivity. destruct ok; cbn; lia.
  - unfold tx_local in H. destruct (t_pc x) eqn:Epc; try discriminate; try congruence.
    destruct ok; inv H. cbn; unfold upd; rewrite Nat.eqb_refl; eexists; split; try reflexivity; cbn; lia.
Qed.

(* ---------------------------------------------------------------- termination after Cancel *)

(** Combined statement over the interleaving.  "Own runner steps" of a thread are the events it
    performs itself, the steps of its hook BODY (application code on the runner's goroutine: Lock /
    Mutate / Unlock between HookCall and HookRet) not counted.  Environment / fairness hypotheses are
    written out as Props in [tx_cancel_reaches_done] / [rx_reaches_done]:
      - lock holders release: at the end of the observed finite run the mutex is free or owned by t;
      - weak fairness for t: the run is not cut off while t still has an enabled step
        ([quiescent s' t]: no event of t is enabled any more), which includes "hooks return"
        (HookRet is always enabled inside a hook) and "TransmitFrame / Receive return";
      - select fairness enters only as the NUMBER of times the select preferred another ready case
        (wake-up, event, tick) over ctx.Done: it appears in the bound, it is not assumed bounded. *)

Definition is_actor (t : tid) (e : event) : bool :=
  match actor e with Some a => Nat.eqb a t | None => false end.

Definition hook_body_step (h : thread) (e : event) : bool :=
  match e with
  | Mutate _ _ _ => true
  | Lock _ => match h with
              | TTx x => match t_pc x with XHU => true | _ => false end
              | TRx RH => true
              | _ => false
              end
  | Unlock _ => match h with
                | TTx x => match t_pc x with XHL => true | _ => false end
                | TRx RHL => true
                | _ => false
                end
  | _ => false
  end.

(** number of own runner steps of t along the run of [tr] from [s] *)
Fixpoint runner_steps (t : tid) (s : state) (tr : list event) : nat :=
  match tr with
  | [] => 0
  | e :: tl =>
      match step_fn s e with
      | Some s1 => (if is_actor t e && negb (hook_body_step (th s t) e) then 1 else 0) + runner_steps t s1 tl
      | None => 0
      end
  end.

Fixpoint count_ev (f : event -> bool) (tr : list event) : nat :=
  match tr with [] => 0 | e :: tl => (if f e then 1 else 0) + count_ev f tl end.

(** the select of transmitter t took the wake-up, an event offer or a tick *)
Definition sel_choice (t : tid) (e : event) : bool :=
  match e with Wake t' | Accept t' _ | TickTake t' => Nat.eqb t' t | _ => false end.
(** Receive() of receiver t delivered another frame *)
Definition recv_frame (t : tid) (e : event) : bool :=
  match e with Recv t' true => Nat.eqb t' t | _ => false end.

(** distance to Done in own runner steps, when the select takes ctx.Done / Receive returns false *)
Definition txr (p : tpc) : nat :=
  match p with
  | TDone => 0 | SEL => 1 | TFail | T1 => 2 | X9 | S4 => 3 | X8 | S3 => 4 | X7 | S2 => 5 | X6 | S1 => 6
  | XHU | XHL | T0 => 7 | X5 => 8 | X4 => 9 | X3 => 10 | X2 => 11 | X1 => 12
  end.
Definition rxr (p : rpc) : nat :=
  match p with
  | RDone => 0 | REnd _ => 1 | RErr => 2 | R0 => 3 | RH | RHL => 4 | R8 => 5 | R7 _ => 6 | R6 => 7 | R5 => 8
  | R4 => 9 | R3 => 10 | R2 => 11 | R1 => 12
  end.

Definition quiescent (s : state) (t : tid) : Prop :=
  forall e s', is_actor t e = true -> step_fn s e <> Some s'.

(** a step of somebody else leaves a receiver untouched and a transmitter at its program counter *)
Lemma other_step s e s' t :
  step_fn s e = Some s' -> is_actor t e = false ->
  th s' t = th s t \/
  (exists x x', th s t = TTx x /\ th s' t = TTx x' /\ t_pc x' = t_pc x) \/
  (exists a a', th s t = TApp a /\ th s' t = TApp a').
Proof.
  intros H Ha. unfold is_actor in Ha.
  destruct e; cbn in Ha; cbn [step_fn] in H; unfold on_thread in H; try (apply Nat.eqb_neq in Ha).
  all: try (left; break_step; cbn; unfold upd; destruct (Nat.eqb_spec t t0); [congruence | reflexivity]; fail).
  - (* Mutate t0 m v *) destruct (can_mutate (th s t0)); [|discriminate]. destruct (th s m) eqn:Em; inv H.
    cbn. unfold upd. destruct (Nat.eqb_spec t m) as [->|]; [|left; reflexivity].
    right; left. exists x. eexists. repeat split; eauto; try (destruct x; reflexivity).
  - (* Accept t0 a *) destruct (th s t0) eqn:Et0; try discriminate. destruct (th s a) eqn:Ea; try discriminate.
    destruct (t_pc x); try discriminate. destruct (a_pc a0); try discriminate. destruct (Nat.eqb m t0); inv H.
    cbn. unfold upd. destruct (Nat.eqb_spec t a) as [->|].
    + right; right. eexists; eexists; split; eauto.
    + destruct (Nat.eqb_spec t t0); [congruence|]. left; reflexivity.
  - (* SetFlag a m b *) destruct (th s a) eqn:Ea; try discriminate. destruct (th s m) eqn:Em; try discriminate.
    destruct (a_pc a0); inv H. cbn. unfold upd. destruct (Nat.eqb_spec t a); [congruence|].
    destruct (Nat.eqb_spec t m) as [->|]; [|left; reflexivity].
    right; left. exists x. eexists. repeat split; eauto; try (destruct x; reflexivity).
  - (* WakeSend a m *) destruct (th s a) eqn:Ea; try discriminate. destruct (th s m) eqn:Em; try discriminate.
    destruct (a_pc a0); try discriminate. destruct (Nat.eqb m0 m); inv H. cbn. unfold upd.
    destruct (Nat.eqb_spec t a); [congruence|].
    destruct (Nat.eqb_spec t m) as [->|]; [|left; reflexivity].
    right; left. exists x. eexists. repeat split; eauto; try (destruct x; reflexivity).
  - (* Offer a m *) left. break_step; cbn; unfold upd; destruct (Nat.eqb_spec t a); [congruence | reflexivity].
  - (* OfferAbort a *) left. break_step; cbn; unfold upd; destruct (Nat.eqb_spec t a); [congruence | reflexivity].
  - (* Tick t0: no actor *) destruct (th s t0) eqn:Et0; try discriminate.
    destruct (tx_local (cancelled s) x (Tick t0)) eqn:E; inv H. cbn. unfold upd.
    destruct (Nat.eqb_spec t t0) as [->|]; [|left; reflexivity].
    right; left. exists x. eexists. repeat split; eauto.
    unfold tx_local in E. destruct (t_pc x) eqn:Epc; break_step; cbn; auto.
  - (* Cancel *) inv H. left. reflexivity.
  - (* Done t0 ok *) left. destruct (th s t0) eqn:Et0; try discriminate.
    + destruct (rx_local p (Done t0 ok)); inv H. cbn. unfold upd. destruct (Nat.eqb_spec t t0); [congruence | reflexivity].
    + destruct (tx_local (cancelled s) x (Done t0 ok)); inv H. cbn. unfold upd. destruct (Nat.eqb_spec t t0); [congruence | reflexivity].
Qed.

Lemma other_step_tx s e s' t x :
  step_fn s e = Some s' -> is_actor t e = false -> th s t = TTx x ->
  exists x', th s' t = TTx x' /\ t_pc x' = t_pc x.
Proof.
  intros H Ha Ht. destruct (other_step _ _ _ _ H Ha) as [E|[(y & y' & A & B & C)|(a & a' & A & B)]].
  - exists x. rewrite E. auto.
  - rewrite Ht in A. inv A. eauto.
  - congruence.
Qed.

Lemma other_step_rx s e s' t p :
  step_fn s e = Some s' -> is_actor t e = false -> th s t = TRx p -> th s' t = TRx p.
Proof.
  intros H Ha Ht. destruct (other_step _ _ _ _ H Ha) as [E|[(y & y' & A & B & C)|(a & a' & A & B)]]; congruence.
Qed.

(** cost of one own step of a transmitter *)
Lemma own_step_cost_tx s e s' t x :
  step_fn s e = Some s' -> th s t = TTx x -> is_actor t e = true ->
  exists x', th s' t = TTx x' /\
    (if hook_body_step (TTx x) e then 0 else 1) + txr (t_pc x') <= txr (t_pc x) + 12 * (if sel_choice t e then 1 else 0).
Proof.
  intros H Ht Ha. unfold is_actor in Ha.
  destruct e; cbn in Ha; try discriminate; apply Nat.eqb_eq in Ha; subst;
    cbn [step_fn] in H; unfold on_thread in H; rewrite ?Ht in H; cbn in H; try discriminate.
  - destruct (owner s); [discriminate|]. destruct (t_pc x) eqn:Epc; inv H; cbn; unfold upd; rewrite Nat.eqb_refl;
      eexists; (split; [reflexivity|]); cbn; rewrite ?Epc; cbn; lia.
  - destruct (t_pc x) eqn:Epc; inv H; cbn; unfold upd; rewrite Nat.eqb_refl;
      eexists; (split; [reflexivity|]); cbn; rewrite ?Epc; cbn; lia.
  - destruct w; destruct (t_pc x) eqn:Epc; try discriminate; break_step; cbn; unfold upd; rewrite Nat.eqb_refl;
      eexists; (split; [reflexivity|]); cbn; lia.
  - destruct (t_pc x) eqn:Epc; inv H; cbn; unfold upd; rewrite Nat.eqb_refl; eexists; (split; [reflexivity|]); cbn; lia.
  - destruct (t_pc x) eqn:Epc; inv H; cbn; unfold upd; rewrite Nat.eqb_refl; eexists; (split; [reflexivity|]);
      destruct ok; cbn; lia.
  - (* Mutate t m v by the hook body of t *)
    destruct (t_pc x) eqn:Epc; try discriminate. destruct (th s m) eqn:Em; inv H. cbn. unfold upd.
    destruct (Nat.eqb_spec t m) as [->|].
    + rewrite Ht in Em. inv Em. eexists; split; [reflexivity|]. cbn. rewrite Epc. cbn. lia.
    + exists x. split; auto. rewrite Epc. cbn. lia.
  - unfold tx_local in H. destruct (t_pc x) eqn:Epc; inv H; cbn; unfold upd; rewrite Nat.eqb_refl;
      eexists; (split; [reflexivity|]); cbn; lia.
  - unfold tx_local in H. destruct (t_pc x) eqn:Epc; inv H; cbn; unfold upd; rewrite Nat.eqb_refl;
      eexists; (split; [reflexivity|]). destruct (t_gotwake x); cbn; lia.
  - unfold tx_local in H. destruct (t_pc x) eqn:Epc; inv H; cbn; unfold upd; rewrite Nat.eqb_refl;
      eexists; (split; [reflexivity|]); cbn; lia.
  - unfold tx_local in H. destruct (t_pc x) eqn:Epc; try discriminate. destruct (t_wake x); inv H.
    cbn; unfold upd; rewrite Nat.eqb_refl; eexists; (split; [reflexivity|]); cbn; rewrite ?Nat.eqb_refl; cbn; lia.
  - destruct (th s a) eqn:Ea; try discriminate. destruct (t_pc x) eqn:Epc; try discriminate.
    destruct (a_pc a0); try discriminate. destruct (Nat.eqb m t); inv H.
    cbn. unfold upd. destruct (Nat.eqb_spec t a) as [->|]; [congruence|]. rewrite Nat.eqb_refl.
    eexists; (split; [reflexivity|]); cbn. lia.
  - unfold tx_local in H. destruct (t_pc x) eqn:Epc; try discriminate. destruct (t_tick x); inv H.
    cbn; unfold upd; rewrite Nat.eqb_refl; eexists; (split; [reflexivity|]); cbn; rewrite ?Nat.eqb_refl; cbn; lia.
  - unfold tx_local in H. destruct (t_pc x) eqn:Epc; try discriminate. destruct (Nat.eqb f (t_snap x)); inv H.
    cbn; unfold upd; rewrite Nat.eqb_refl; eexists; (split; [reflexivity|]). destruct ok; cbn; lia.
  - unfold tx_local in H. destruct (t_pc x) eqn:Epc; try discriminate; break_step;
      cbn; unfold upd; rewrite Nat.eqb_refl; eexists; (split; [reflexivity|]); cbn; lia.
Qed.

(** own runner steps of a transmitter are bounded by its distance to Done plus 12 per select
    choice other than ctx.Done - in every run, under every interleaving with other threads *)
Theorem tx_steps_bounded t : forall tr s s' x,
  run s tr = Some s' -> th s t = TTx x ->
  exists x', th s' t = TTx x' /\
    runner_steps t s tr + txr (t_pc x') <= txr (t_pc x) + 12 * count_ev (sel_choice t) tr.
Proof.
  induction tr as [|e tl IH]; intros s s' x H Ht; cbn in H.
  - inv H. exists x. split; auto. cbn. lia.
  - destruct (step_fn s e) as [s1|] eqn:E; [|discriminate]. cbn [runner_steps count_ev]. rewrite E.
    destruct (is_actor t e) eqn:Ea.
    + destruct (own_step_cost_tx _ _ _ _ _ E Ht Ea) as (x1 & Ht1 & Hc).
      destruct (IH _ _ _ H Ht1) as (x' & Ht' & Hb). exists x'. split; auto.
      rewrite Ht. cbn [andb]. destruct (hook_body_step (TTx x) e); cbn [negb] in *; destruct (sel_choice t e); lia.
    + destruct (other_step_tx _ _ _ _ _ E Ea Ht) as (x1 & Ht1 & Hp).
      destruct (IH _ _ _ H Ht1) as (x' & Ht' & Hb). exists x'. split; auto.
      assert (Hs : sel_choice t e = false).
      { unfold is_actor in Ea. destruct e; cbn in *; auto. }
      rewrite Hs. cbn [andb]. rewrite Hp in Hb. lia.
Qed.

(** progress: a cancelled transmitter that has not returned always has an enabled own step when
    the mutex is free or its own (hooks return, TransmitFrame returns, the select sees ctx.Done) *)
Theorem tx_progress cfg s t x :
  reachable cfg s -> cancelled s = true -> th s t = TTx x -> t_pc x <> TDone ->
  (owner s = None \/ owner s = Some t) ->
  exists e s', is_actor t e = true /\ step_fn s e = Some s'.
Proof.
  intros Hr Hc Ht Hpc Ho. pose proof (I1_reachable _ _ Hr t) as HI. rewrite Ht in HI. cbn in HI.
  assert (Hfree : tx_locked (t_pc x) = false -> owner s = None).
  { intros Hl. destruct Ho as [Ho|Ho]; auto. apply HI in Ho. congruence. }
  assert (Hact : forall e, actor e = Some t -> is_actor t e = true)
    by (intros e He; unfold is_actor; rewrite He; apply Nat.eqb_refl).
  destruct (t_pc x) eqn:Epc; try congruence.
  - exists (TxInit t). eexists. split; [apply Hact; reflexivity|]. cbn. rewrite Ht. cbn. rewrite Epc. reflexivity.
  - exists (Lock t). eexists. split; [apply Hact; reflexivity|]. cbn. rewrite (Hfree eq_refl), Ht. cbn. rewrite Epc. reflexivity.
  - exists (Access t (WFlag (t_flag x))). eexists. split; [apply Hact; reflexivity|]. cbn. unfold on_thread. rewrite Ht. cbn.
    rewrite Epc, Bool.eqb_reflx. reflexivity.
  - exists (Unlock t). eexists. split; [apply Hact; reflexivity|]. cbn. rewrite Ht. cbn. rewrite Epc. reflexivity.
  - exists (Apply t). eexists. split; [apply Hact; reflexivity|]. cbn. rewrite Ht. cbn. rewrite Epc. reflexivity.
  - exists (GetWake t). eexists. split; [apply Hact; reflexivity|]. cbn. rewrite Ht. cbn. rewrite Epc. reflexivity.
  - exists (Done t true). eexists. split; [apply Hact; reflexivity|]. cbn. rewrite Ht. cbn. rewrite Epc, Hc. reflexivity.
  - exists (Lock t). eexists. split; [apply Hact; reflexivity|]. cbn. rewrite (Hfree eq_refl), Ht. cbn. rewrite Epc. reflexivity.
  - exists (Access t WHook). eexists. split; [apply Hact; reflexivity|]. cbn. unfold on_thread. rewrite Ht. cbn. rewrite Epc. reflexivity.
  - exists (Access t WTime). eexists. split; [apply Hact; reflexivity|]. cbn. unfold on_thread. rewrite Ht. cbn. rewrite Epc. reflexivity.
  - exists (Unlock t). eexists. split; [apply Hact; reflexivity|]. cbn. rewrite Ht. cbn. rewrite Epc. reflexivity.
  - exists (HookCall t). eexists. split; [apply Hact; reflexivity|]. cbn. unfold on_thread. rewrite Ht. cbn. rewrite Epc. reflexivity.
  - exists (HookRet t true). eexists. split; [apply Hact; reflexivity|]. cbn. unfold on_thread. rewrite Ht. cbn. rewrite Epc. reflexivity.
  - exists (Unlock t). eexists. split; [apply Hact; reflexivity|]. cbn. rewrite Ht. cbn. rewrite Epc. reflexivity.
  - exists (Lock t). eexists. split; [apply Hact; reflexivity|]. cbn. rewrite (Hfree eq_refl), Ht. cbn. rewrite Epc. reflexivity.
  - exists (Access t (WFrame (t_content x))). eexists. split; [apply Hact; reflexivity|]. cbn. unfold on_thread. rewrite Ht. cbn.
    rewrite Epc, Nat.eqb_refl. reflexivity.
  - exists (Unlock t). eexists. split; [apply Hact; reflexivity|]. cbn. rewrite Ht. cbn. rewrite Epc. reflexivity.
  - exists (Transmit t (t_snap x) true). eexists. split; [apply Hact; reflexivity|]. cbn. rewrite Ht. cbn.
    rewrite Epc, Nat.eqb_refl. reflexivity.
  - exists (Done t false). eexists. split; [apply Hact; reflexivity|]. cbn. rewrite Ht. cbn. rewrite Epc. reflexivity.
Qed.

(** every transmitter reaches Done after Cancel: for any finite run from a reachable cancelled
    state, under any interleaving, if at its end the lock is available to t and t has no enabled
    step left (it was scheduled as long as it could move), then t has returned, and it needed at
    most txr(pc) <= 12 own runner steps plus 12 for every time the select preferred a wake-up /
    event / tick over ctx.Done *)
Theorem tx_cancel_reaches_done cfg s tr s' t x :
  reachable cfg s -> cancelled s = true -> run s tr = Some s' -> th s t = TTx x ->
  (owner s' = None \/ owner s' = Some t) -> quiescent s' t ->
  exists x', th s' t = TTx x' /\ t_pc x' = TDone /\
             runner_steps t s tr <= txr (t_pc x) + 12 * count_ev (sel_choice t) tr.
Proof.
  intros Hr Hc Hrun Ht Ho Hq.
  destruct (tx_steps_bounded t tr s s' x Hrun Ht) as (x' & Ht' & Hb).
  exists x'. split; auto.
  assert (Hr' : reachable cfg s') by (eapply run_reachable; eauto).
  assert (Hc' : cancelled s' = true).
  { clear -Hc Hrun. revert s Hc Hrun. induction tr as [|e tl IH]; intros s Hc H; cbn in H; [inv H; auto|].
    destruct (step_fn s e) eqn:E; [|discriminate]. eapply IH; [|exact H]. eapply cancelled_stable; eauto. }
  destruct (t_pc x') eqn:Epc; try (split; [reflexivity|lia]);
    exfalso; (destruct (tx_progress cfg s' t x' Hr' Hc' Ht') as (e & s2 & Ha & Hs); [congruence|exact Ho|]);
    exact (Hq e s2 Ha Hs).
Qed.

(** the receiver: cost of an own step, bound, progress, termination once Receive() returns false *)
Lemma own_step_cost_rx s e s' t p :
  step_fn s e = Some s' -> th s t = TRx p -> is_actor t e = true ->
  exists p', th s' t = TRx p' /\
    (if hook_body_step (TRx p) e then 0 else 1) + rxr p' <= rxr p + 10 * (if recv_frame t e then 1 else 0).
Proof.
  intros H Ht Ha. unfold is_actor in Ha.
  destruct e; cbn in Ha; try discriminate; apply Nat.eqb_eq in Ha; subst;
    cbn [step_fn] in H; unfold on_thread in H; rewrite ?Ht in H; cbn in H; try discriminate.
  - destruct (owner s); [discriminate|]. destruct p; inv H; cbn; unfold upd; rewrite Nat.eqb_refl;
      eexists; (split; [reflexivity|]); cbn; lia.
  - destruct p; inv H; cbn; unfold upd; rewrite Nat.eqb_refl; eexists; (split; [reflexivity|]);
      try destruct ok; cbn; lia.
  - destruct p; destruct w; inv H; cbn; unfold upd; rewrite Nat.eqb_refl; eexists; (split; [reflexivity|]); cbn; lia.
  - destruct p; inv H; cbn; unfold upd; rewrite Nat.eqb_refl; eexists; (split; [reflexivity|]); cbn; lia.
  - destruct p; inv H; cbn; unfold upd; rewrite Nat.eqb_refl; eexists; (split; [reflexivity|]); destruct ok; cbn; lia.
  - (* Mutate by the hook body *) destruct p; try discriminate. destruct (th s m) eqn:Em; inv H. cbn. unfold upd.
    destruct (Nat.eqb_spec t m) as [->|]; [congruence|]. exists RHL. split; auto.
  - destruct p; inv H; cbn; unfold upd; rewrite Nat.eqb_refl; eexists; (split; [reflexivity|]).
    rewrite ?Nat.eqb_refl. destruct ok; cbn; rewrite ?Nat.eqb_refl; cbn; lia.
  - destruct p; inv H; cbn; unfold upd; rewrite Nat.eqb_refl; eexists; (split; [reflexivity|]); cbn; lia.
  - destruct p; inv H; cbn; unfold upd; rewrite Nat.eqb_refl; eexists; (split; [reflexivity|]); destruct known; cbn; lia.
  - destruct p; inv H; cbn; unfold upd; rewrite Nat.eqb_refl; eexists; (split; [reflexivity|]); cbn; lia.
  - destruct p; try discriminate. cbn in H. destruct (Bool.eqb ok ok0); inv H.
    cbn; unfold upd; rewrite Nat.eqb_refl; eexists; (split; [reflexivity|]); cbn; lia.
Qed.

Theorem rx_steps_bounded t : forall tr s s' p,
  run s tr = Some s' -> th s t = TRx p ->
  exists p', th s' t = TRx p' /\
    runner_steps t s tr + rxr p' <= rxr p + 10 * count_ev (recv_frame t) tr.
Proof.
  induction tr as [|e tl IH]; intros s s' p H Ht; cbn in H.
  - inv H. exists p. split; auto. cbn. lia.
  - destruct (step_fn s e) as [s1|] eqn:E; [|discriminate]. cbn [runner_steps count_ev]. rewrite E.
    destruct (is_actor t e) eqn:Ea.
    + destruct (own_step_cost_rx _ _ _ _ _ E Ht Ea) as (p1 & Ht1 & Hc).
      destruct (IH _ _ _ H Ht1) as (p' & Ht' & Hb). exists p'. split; auto.
      rewrite Ht. cbn [andb]. destruct (hook_body_step (TRx p) e); cbn [negb] in *; destruct (recv_frame t e); lia.
    + pose proof (other_step_rx _ _ _ _ _ E Ea Ht) as Ht1.
      destruct (IH _ _ _ H Ht1) as (p' & Ht' & Hb). exists p'. split; auto.
      assert (Hs : recv_frame t e = false).
      { unfold is_actor in Ea. destruct e; cbn in *; auto. destruct ok; auto. }
      rewrite Hs. cbn [andb]. lia.
Qed.

Theorem rx_progress cfg s t p :
  reachable cfg s -> th s t = TRx p -> p <> RDone -> (owner s = None \/ owner s = Some t) ->
  exists e s', is_actor t e = true /\ recv_frame t e = false /\ step_fn s e = Some s'.
Proof.
  intros Hr Ht Hp Ho. pose proof (I1_reachable _ _ Hr t) as HI. rewrite Ht in HI. cbn in HI.
  assert (Hfree : rx_locked p = false -> owner s = None).
  { intros Hl. destruct Ho as [Ho|Ho]; auto. apply HI in Ho. congruence. }
  assert (Hact : forall e, actor e = Some t -> is_actor t e = true)
    by (intros e He; unfold is_actor; rewrite He; apply Nat.eqb_refl).
  destruct p; try congruence.
  - exists (Recv t false). eexists. repeat split; [apply Hact; reflexivity|]. cbn. rewrite Ht. reflexivity.
  - exists (RxFrame t). eexists. repeat split; [apply Hact; reflexivity|]. cbn. rewrite Ht. reflexivity.
  - exists (Lookup t false). eexists. repeat split; [apply Hact; reflexivity|]. cbn. rewrite Ht. reflexivity.
  - exists (Lock t). eexists. repeat split; [apply Hact; reflexivity|]. cbn. rewrite (Hfree eq_refl), Ht. reflexivity.
  - exists (Access t WHook). eexists. repeat split; [apply Hact; reflexivity|]. cbn. unfold on_thread. rewrite Ht. reflexivity.
  - exists (Access t WTime). eexists. repeat split; [apply Hact; reflexivity|]. cbn. unfold on_thread. rewrite Ht. reflexivity.
  - exists (Access t (WUnmarshal true)). eexists. repeat split; [apply Hact; reflexivity|]. cbn. unfold on_thread. rewrite Ht. reflexivity.
  - exists (Unlock t). eexists. repeat split; [apply Hact; reflexivity|]. cbn. rewrite Ht. reflexivity.
  - exists (HookCall t). eexists. repeat split; [apply Hact; reflexivity|]. cbn. unfold on_thread. rewrite Ht. reflexivity.
  - exists (HookRet t true). eexists. repeat split; [apply Hact; reflexivity|]. cbn. unfold on_thread. rewrite Ht. reflexivity.
  - exists (Unlock t). eexists. repeat split; [apply Hact; reflexivity|]. cbn. rewrite Ht. reflexivity.
  - exists (RecvErr t true). eexists. repeat split; [apply Hact; reflexivity|]. cbn. rewrite Ht. reflexivity.
  - exists (Done t ok). eexists. repeat split; [apply Hact; reflexivity|]. cbn. rewrite Ht. cbn. rewrite Bool.eqb_reflx. reflexivity.
Qed.

(** the receiver reaches Done: same shape; Run closes the connection on cancellation, after which
    Receive() returns false - the frames still delivered before that are counted in the bound *)
Theorem rx_reaches_done cfg s tr s' t p :
  reachable cfg s -> run s tr = Some s' -> th s t = TRx p ->
  (owner s' = None \/ owner s' = Some t) -> quiescent s' t ->
  th s' t = TRx RDone /\ runner_steps t s tr <= rxr p + 10 * count_ev (recv_frame t) tr.
Proof.
  intros Hr Hrun Ht Ho Hq.
  destruct (rx_steps_bounded t tr s s' p Hrun Ht) as (p' & Ht' & Hb).
  assert (Hr' : reachable cfg s') by (eapply run_reachable; eauto).
  destruct p'; try (split; [exact Ht'|lia]);
    exfalso; (destruct (rx_progress cfg s' t _ Hr' Ht') as (e & s2 & Ha & _ & Hs); [congruence|exact Ho|]);
    exact (Hq e s2 Ha Hs).
Qed.

(* ---------------------------------------------------------------- receive path *)

(** declarative specification of the receiver, written without following the loop:
    among the frames with known IDs, those before the first failing one are applied and hooked,
    the first failing one is applied (and hooked iff its unmarshal succeeded), nothing after it *)
Definition rgood (f : rframe) : bool := f_unm_ok f && f_hook_ok f.

Fixpoint take_good (fs : list rframe) : list rframe :=
  match fs with [] => [] | f :: tl => if rgood f then f :: take_good tl else [] end.
Fixpoint drop_good (fs : list rframe) : list rframe :=
  match fs with [] => [] | f :: tl => if rgood f then drop_good tl else fs end.

Definition acts_of_good (f : rframe) : list ract := [ActApply (f_id f); ActHook (f_id f)].

Definition receiver_spec (fs : list rframe) (end_ok : bool) : list ract * rres :=
  let ks := filter f_known fs in
  match drop_good ks with
  | [] => (flat_map acts_of_good (take_good ks), if end_ok then ResNil else ResRecv)
  | f :: _ =>
      if f_unm_ok f
      then ((flat_map acts_of_good (take_good ks) ++ [ActApply (f_id f); ActHook (f_id f)])%list, ResHook (f_id f))
      else ((flat_map acts_of_good (take_good ks) ++ [ActApply (f_id f)])%list, ResUnmarshal (f_id f))
  end.

Theorem run_receiver_meets_spec fs end_ok : run_receiver fs end_ok = receiver_spec fs end_ok.
Proof.
  unfold receiver_spec. induction fs as [|f tl IH]; cbn; auto.
  destruct (f_known f); cbn; auto.
  unfold rgood. destruct (f_unm_ok f) eqn:Eu, (f_hook_ok f) eqn:Eh; cbn; rewrite ?Eu; try reflexivity.
  rewrite IH. destruct (drop_good (filter f_known tl)) as [|g l]; cbn; auto. destruct (f_unm_ok g); reflexivity.
Qed.

(** one hook call per applied frame, in order; every hook call is preceded by its apply *)
Fixpoint hooks_of (a : list ract) : list nat :=
  match a with [] => [] | ActHook i :: tl => i :: hooks_of tl | ActApply _ :: tl => hooks_of tl end.
Fixpoint applies_of (a : list ract) : list nat :=
  match a with [] => [] | ActApply i :: tl => i :: applies_of tl | ActHook _ :: tl => applies_of tl end.

Theorem receiver_applies_known_in_order fs end_ok :
  (forall f, In f fs -> f_unm_ok f = true /\ f_hook_ok f = true) ->
  let (a, r) := run_receiver fs end_ok in
  applies_of a = map f_id (filter f_known fs) /\ hooks_of a = map f_id (filter f_known fs) /\
  r = (if end_ok then ResNil else ResRecv).
Proof.
  induction fs as [|f tl IH]; intros Hall; cbn; auto.
  assert (Htl : forall g, In g tl -> f_unm_ok g = true /\ f_hook_ok g = true) by (intros; apply Hall; right; auto).
  specialize (IH Htl). destruct (Hall f (or_introl eq_refl)) as [Hu Hh].
  destruct (f_known f); cbn; auto. rewrite Hu, Hh. cbn.
  destruct (run_receiver tl end_ok) as [a r]. cbn. destruct IH as (A & B & C). rewrite A, B. auto.
Qed.

(** the LTS performs exactly this loop: the event sequence of the pure function is accepted from
    the initial state of any configuration in which [t] is a receiver and the mutex is only
    used by it, and it ends in RDone *)
Lemma th_set_same s t v : th (set_th s t v) t = v.
Proof. cbn. unfold upd. rewrite Nat.eqb_refl. reflexivity. Qed.

Lemma st_recv s t ok : th s t = TRx R0 -> step_fn s (Recv t ok) = Some (set_th s t (TRx (if ok then R1 else RErr))).
Proof. intros H. cbn. rewrite H. reflexivity. Qed.
Lemma st_rxframe s t : th s t = TRx R1 -> step_fn s (RxFrame t) = Some (set_th s t (TRx R2)).
Proof. intros H. cbn. rewrite H. reflexivity. Qed.
Lemma st_lookup s t k : th s t = TRx R2 -> step_fn s (Lookup t k) = Some (set_th s t (TRx (if k then R3 else R0))).
Proof. intros H. cbn. rewrite H. reflexivity. Qed.
Lemma st_lock_rx s t : th s t = TRx R3 -> owner s = None ->
  step_fn s (Lock t) = Some (mkState (Some t) (cancelled s) (upd (th s) t (TRx R4))).
Proof. intros H Ho. cbn. rewrite Ho, H. reflexivity. Qed.
Lemma st_access_rx s t p w p' : th s t = TRx p -> access_thread (TRx p) w = Some (TRx p') ->
  step_fn s (Access t w) = Some (set_th s t (TRx p')).
Proof. intros H E. cbn [step_fn]. unfold on_thread. rewrite H, E. reflexivity. Qed.
Lemma st_unlock_rx s t ok : th s t = TRx (R7 ok) ->
  step_fn s (Unlock t) = Some (mkState None (cancelled s) (upd (th s) t (TRx (if ok then R8 else REnd false)))).
Proof. intros H. cbn. rewrite H. reflexivity. Qed.
Lemma st_hookcall_rx s t : th s t = TRx R8 -> step_fn s (HookCall t) = Some (set_th s t (TRx RH)).
Proof. intros H. cbn. unfold on_thread. rewrite H. reflexivity. Qed.
Lemma st_hookret_rx s t ok : th s t = TRx RH ->
  step_fn s (HookRet t ok) = Some (set_th s t (TRx (if ok then R0 else REnd false))).
Proof. intros H. cbn. unfold on_thread. rewrite H. reflexivity. Qed.
Lemma st_recverr s t ok : th s t = TRx RErr -> step_fn s (RecvErr t ok) = Some (set_th s t (TRx (REnd ok))).
Proof. intros H. cbn. rewrite H. reflexivity. Qed.
Lemma st_done_rx s t ok : th s t = TRx (REnd ok) -> step_fn s (Done t ok) = Some (set_th s t (TRx RDone)).
Proof. intros H. cbn. rewrite H. cbn. rewrite Bool.eqb_reflx. reflexivity. Qed.

Ltac th_now := cbn; unfold upd; rewrite ?Nat.eqb_refl; reflexivity.

Lemma rx_trace_run t fs end_ok : forall s,
  owner s = None -> th s t = TRx R0 ->
  exists s', run s (rx_trace t fs end_ok) = Some s' /\ th s' t = TRx RDone /\ owner s' = None.
Proof.
  induction fs as [|f tl IH]; intros s Ho Ht.
  - cbn [rx_trace run].
    rewrite (st_recv _ _ false Ht). rewrite (st_recverr _ _ end_ok) by th_now.
    rewrite st_done_rx by th_now. eexists. split; [reflexivity|]. split; [th_now | exact Ho].
  - cbn [rx_trace run].
    rewrite (st_recv _ _ true Ht). rewrite st_rxframe by th_now. rewrite st_lookup by th_now.
    destruct (f_known f); cbn [negb].
    + cbn [run]. rewrite st_lock_rx by (th_now || exact Ho).
      rewrite (st_access_rx _ _ R4 WHook R5) by (th_now || reflexivity).
      rewrite (st_access_rx _ _ R5 WTime R6) by (th_now || reflexivity).
      rewrite (st_access_rx _ _ R6 (WUnmarshal (f_unm_ok f)) (R7 (f_unm_ok f))) by (th_now || reflexivity).
      rewrite (st_unlock_rx _ _ (f_unm_ok f)) by th_now.
      destruct (f_unm_ok f); cbn [negb].
      * cbn [run]. rewrite st_hookcall_rx by th_now. rewrite (st_hookret_rx _ _ (f_hook_ok f)) by th_now.
        destruct (f_hook_ok f); cbn [negb].
        -- apply IH; [reflexivity | th_now].
        -- cbn [run]. rewrite (st_done_rx _ _ false) by th_now.
           eexists. split; [reflexivity|]. split; [th_now | reflexivity].
      * cbn [run]. rewrite (st_done_rx _ _ false) by th_now.
        eexists. split; [reflexivity|]. split; [th_now | reflexivity].
    + apply IH; [exact Ho | th_now].
Qed.

Theorem rx_trace_accepted cfg t fs end_ok :
  cfg t = RoleRx -> accepts cfg (rx_trace t fs end_ok) = true.
Proof.
  intros Hc. unfold accepts.
  destruct (rx_trace_run t fs end_ok (init cfg)) as (s' & Hr & _); cbn; auto.
  - rewrite Hc. reflexivity.
  - rewrite Hr. reflexivity.
Qed.

(** the hook calls in the event sequence are the ActHook actions of the pure function *)
Fixpoint count_hookcalls (tr : list event) : nat :=
  match tr with [] => 0 | HookCall _ :: tl => S (count_hookcalls tl) | _ :: tl => count_hookcalls tl end.

Theorem rx_trace_hook_calls t fs end_ok :
  count_hookcalls (rx_trace t fs end_ok) = List.length (hooks_of (fst (run_receiver fs end_ok))).
Proof.
  induction fs as [|f tl IH]; cbn; auto.
  destruct (f_known f); cbn; auto. destruct (f_unm_ok f); cbn; auto. destruct (f_hook_ok f); cbn; auto.
  rewrite IH. destruct (run_receiver tl end_ok). reflexivity.
Qed.

(* ---------------------------------------------------------------- result of Run, K1 *)

(** cancellation only: every goroutine returns nil or a connection-closed error -> Run returns nil *)
Theorem run_cancel_returns_nil node results :
  (forall e, In (Some e) results -> contains (txt "closed") e = true) -> run_result node results = None.
Proof.
  unfold run_result. induction results as [|[e|] tl IH]; intros H; cbn [first_error]; auto.
  - change closed_text with (txt "closed"). rewrite (H e (or_introl eq_refl)). reflexivity.
  - apply IH. intros e He. apply H. right. exact He.
Qed.

(** a failure whose text does not contain "closed" is returned, wrapped *)
Theorem run_error_returned node e rest :
  contains (txt "closed") e = false -> run_result node (Some e :: rest) = run_spec node (Some e).
Proof.
  intros H. unfold run_result, run_spec. cbn [first_error].
  change closed_text with (txt "closed"). rewrite H. reflexivity.
Qed.

(** K1: without the hypothesis on the text the statement is false - an after-receive hook
    returning errors.New("valve closed") makes the receiver return "receiver: valve closed",
    which Run maps to nil although the property demands that error *)
Theorem run_error_refuted :
  exists e node, run_result node [Some (wrap_receiver e)] = None /\
                 run_spec node (Some (wrap_receiver e)) <> None /\ e = txt "valve closed".
Proof. exists (txt "valve closed"), (txt "DRIVER"). repeat split. discriminate. Qed.
