(** Linked semantics of the transmitter's five action programs (select loop + setCyclicTransmission / enable / disable /
    transmit, composed through their `callfn` nodes) and the abstraction onto the transmitter pcs of Runner/Lts.v.
    DEFINITIONS ONLY (proofs: ProgramLoopProofs.v; DESIGN.md 9.6).

    Configuration [mkT f pc ok hook vflag vtick]: f = the function being executed together with its return address
    ([FSet first]: setCyclicTransmission called from node 11 (first = true, returns to 12) or from the wake-up arm 15
    (returns to 13); [FEn]/[FDis] inherit it; [FTx tick]: transmit called from the event arm 16 / the tick arm 19);
    vflag = the local `isCyclicTransmissionEnabled`; vtick = `cyclicTransmissionTicker != nil`.  dc / dt = the descriptor
    facts `SendType == cyclic` / `CycleTime > 0` read by nodes 0 / 1 of enableCyclicTransmission.
    Where the LTS shows ONE event [Apply] for enable/disable, the program shows it at the node that decides the ticker's
    fate: enable 3 (`return`: nothing to do), enable 4 (`time.NewTicker`), disable 1 (`return`), disable 3 (`ticker = nil`). *)
From Coq Require Import Arith Bool List.
From CanVerif Require Import Dbc.Ast Runner.Lts Runner.Program Runner.ProgramLts.
Import ListNotations.

Inductive frame := FMain | FSet (first : bool) | FEn (first : bool) | FDis (first : bool) | FTx (tick : bool).

Definition prog_of (f : frame) : prog :=
  match f with
  | FMain => p_RunMessageTransmitter
  | FSet _ => p_RunMessageTransmitter_setCyclicTransmission
  | FEn _ => p_RunMessageTransmitter_enableCyclicTransmission
  | FDis _ => p_RunMessageTransmitter_disableCyclicTransmission
  | FTx _ => p_RunMessageTransmitter_transmit
  end.

Record tcfg := mkT { c_f : frame; c_pc : nat; c_ok : bool; c_hook : nat; c_vflag : bool; c_vtick : bool }.

(** which closure a callfn node calls *)
Definition callee (f : frame) (pc : nat) : option frame :=
  match f, pc with
  | FMain, 11 => Some (FSet true) | FMain, 15 => Some (FSet false)
  | FMain, 16 => Some (FTx false) | FMain, 19 => Some (FTx true)
  | FSet b, 4 => Some (FEn b) | FSet b, 5 => Some (FDis b)
  | _, _ => None
  end.
(** where a closure returns to (checked against the successor of the callfn node when the call is made) *)
Definition ret_to (f : frame) : option (frame * nat) :=
  match f with
  | FMain => None
  | FSet true => Some (FMain, 12) | FSet false => Some (FMain, 13)
  | FEn b | FDis b => Some (FSet b, 6)
  | FTx false => Some (FMain, 17) | FTx true => Some (FMain, 20)
  end.

(** value of a test node = "take the first successor" *)
Definition test_val (dc dt : bool) (c : tcfg) (o : bool) : bool :=
  match c_f c, c_pc c with
  | FMain, 1 => o                                   (* sendTimeout == 0: either *)
  | FSet _, 3 => c_vflag c                          (* isCyclicTransmissionEnabled *)
  | FEn _, 2 => negb dc || negb dt || c_vtick c     (* !isCyclic || !hasCycleTime || ticker != nil *)
  | FDis _, 0 => negb (c_vtick c)                   (* ticker == nil *)
  | _, _ => negb (c_ok c)                           (* err != nil *)
  end.

(** result of a return node of transmit (15 = `return nil`) *)
Definition goto (c : tcfg) (f : frame) (pc : nat) : tcfg := mkT f pc (c_ok c) 0 (c_vflag c) (c_vtick c).

Definition tnext (dc dt : bool) (t : nat) (x : tx) (c : tcfg) (o b : bool) (arm a : nat) : option (option event * tcfg) :=
  match nth_error (prog_of (c_f c)) (c_pc c) with
  | None => None
  | Some n =>
      match c_f c, c_hook c with
      | FTx _, _ =>
          (* inside the transmit closure: the semantics of ProgramLts.v; its return pops the frame *)
          match n_cls n with
          | CRet => match c_hook c, ret_to (c_f c) with
                    | 0, Some (f', pc') => Some (None, mkT f' pc' (tx_ret_ok (c_pc c)) 0 (c_vflag c) (c_vtick c))
                    | _, _ => None
                    end
          | _ => match tx_next t x (mkL (c_pc c) (c_ok c) (c_hook c)) o b with
                 | Some (e, l) => Some (e, mkT (c_f c) (l_pc l) (l_ok l) (l_hook l) (c_vflag c) (c_vtick c))
                 | None => None
                 end
          end
      | _, S _ => None
      | _, 0 =>
          match n_cls n, n_succ n with
          | CLock, [k] => Some (Some (Lock t), goto c (c_f c) k)
          | CUnlock, [k] => Some (Some (Unlock t), goto c (c_f c) k)
          | CTest, [k1; k2] => Some (None, goto c (c_f c) (if test_val dc dt c o then k1 else k2))
          | CAssign, [k] =>
              match c_f c, c_pc c with
              | FDis _, 3 => Some (Some (Apply t), mkT (c_f c) k (c_ok c) 0 (c_vflag c) false)   (* ticker = nil *)
              | _, _ => Some (None, goto c (c_f c) k)
              end
          | CMsg, [k] =>
              match c_f c, c_pc c with
              | FSet _, 1 => Some (Some (Access t (WFlag (t_flag x))), mkT (c_f c) k (c_ok c) 0 (t_flag x) (c_vtick c))
              | _, _ => None
              end
          | CGet, [k] =>
              match c_f c, c_pc c with
              | FMain, 10 => Some (Some (TxInit t), goto c (c_f c) k)         (* m.TransmitEventChan() *)
              | FMain, 12 => Some (Some (GetWake t), goto c (c_f c) k)        (* m.WakeUpChan() *)
              | FEn _, 4 => Some (Some (Apply t), mkT (c_f c) k (c_ok c) 0 (c_vflag c) true)   (* time.NewTicker *)
              | _, _ => Some (None, goto c (c_f c) k)
              end
          | CCall, [k] => Some (None, goto c (c_f c) k)                       (* ctx.Done(), ticker.Stop() *)
          | CSelect, [k0; k1; k2; k3] =>
              match arm with
              | 0 => Some (None, goto c (c_f c) k0)
              | 1 => Some (Some (Wake t), goto c (c_f c) k1)
              | 2 => Some (Some (Accept t a), goto c (c_f c) k2)
              | 3 => Some (Some (TickTake t), goto c (c_f c) k3)
              | _ => None
              end
          | CCallFn, [k] =>
              match callee (c_f c) (c_pc c) with
              | Some g => match ret_to g with
                          | Some (f', k') => if Nat.eqb k k' then Some (None, goto c g 0) else None
                          | None => None
                          end
              | None => None
              end
          | CRet, [] =>
              match ret_to (c_f c) with
              | None => let r := match c_pc c with 14 => true | _ => false end in
                        Some (Some (Done t r), mkT FMain (List.length (prog_of FMain)) r 0 (c_vflag c) (c_vtick c))
              | Some (f', pc') =>
                  match c_f c, c_pc c with
                  | FEn _, 3 | FDis _, 1 => Some (Some (Apply t), goto c f' pc')
                  | _, _ => Some (None, goto c f' pc')
                  end
              end
          | _, _ => None
          end
      end
  end.

(** abstraction onto the transmitter pcs *)
Definition post_pc (first : bool) : tpc := if first then T1 else SEL.
Definition tabs (c : tcfg) : tpc :=
  match c_f c with
  | FMain =>
      match c_pc c with
      | 0 | 1 | 2 | 3 | 4 | 5 | 6 | 7 | 8 | 9 | 10 => T0
      | 11 => S1 | 12 => T1 | 13 => SEL | 14 => SEL | 15 => S1 | 16 => X1 | 19 => X1
      | 17 | 20 => if c_ok c then SEL else TFail
      | 18 | 21 => TFail
      | _ => TDone
      end
  | FSet first => match c_pc c with 0 => S1 | 1 => S2 | 2 => S3 | 3 | 4 | 5 => S4 | _ => post_pc first end
  | FEn first => match c_pc c with 0 | 1 | 2 | 3 | 4 => S4 | _ => post_pc first end
  | FDis first => match c_pc c with 0 | 1 | 2 | 3 => S4 | _ => post_pc first end
  | FTx _ => tx_abs (mkL (c_pc c) (c_ok c) (c_hook c))
  end.

(** has WakeUpChan() been fetched: no while the first setCyclicTransmission runs and before *)
Definition before_wake (c : tcfg) : bool :=
  match c_f c with
  | FMain => Nat.leb (c_pc c) 12
  | FSet b | FEn b | FDis b => b
  | FTx _ => false
  end.
(** what the configuration knows about the flag value read last and about the guards already evaluated *)
Definition loc_inv (dc dt : bool) (c : tcfg) (last : bool) : Prop :=
  match c_f c with
  | FSet _ => match c_pc c with
              | 2 | 3 => c_vflag c = last
              | 4 => c_vflag c = last /\ last = true
              | 5 => c_vflag c = last /\ last = false
              | _ => True end
  | FEn _ => match c_pc c with
             | 0 | 1 | 2 => last = true
             | 3 => last = true /\ negb dc || negb dt || c_vtick c = true
             | 4 => last = true /\ negb dc || negb dt || c_vtick c = false
             | _ => True end
  | FDis _ => match c_pc c with
              | 0 => last = false
              | 1 => last = false /\ c_vtick c = false
              | 2 | 3 => last = false /\ c_vtick c = true
              | _ => True end
  | _ => True
  end.

(** the simulation relation between a program configuration and the transmitter record of the LTS *)
Definition sim (dc dt : bool) (c : tcfg) (x : tx) : Prop :=
  t_pc x = tabs c /\ c_vtick c = t_armed x /\ t_cyclic x = dc && dt /\ t_gotwake x = negb (before_wake c) /\ loc_inv dc dt c (t_last x).

(** side conditions under which the LTS lets the event happen (the environment's part) *)
Definition enabled (s : state) (t : nat) (x : tx) (ev : event) : Prop :=
  match ev with
  | Lock _ => owner s = None
  | Done _ true => cancelled s = true
  | Wake _ => t_wake x = true
  | TickTake _ => t_tick x = true
  | Accept _ a => a <> t /\ exists ap, th s a = TApp ap /\ a_pc ap = AOffer t
  | _ => True
  end.

(* ---------------------------------------------------------------- whole executions *)

(** events that are steps of thread t itself (its program's visible steps and its hook body's Lock/Unlock); every other
    event of the alphabet is the environment's: other threads, the ticker (Tick), application toggles / offers / Mutate
    (also a Mutate issued from t's own hook body: it touches message content only), Cancel *)
Definition own (t : nat) (ev : event) : bool :=
  match ev with
  | Lock u | Unlock u | Access u _ | HookCall u | HookRet u _ | TxInit u | Apply u | GetWake u | Wake u | Accept u _
  | TickTake u | Transmit u _ _ | Done u _ | Recv u _ | RxFrame u | Lookup u _ | RecvErr u _ => Nat.eqb u t
  | _ => false
  end.

(** the fields of the transmitter record that [sim] looks at *)
Definition same_sim (x x' : tx) : Prop :=
  t_pc x' = t_pc x /\ t_armed x' = t_armed x /\ t_cyclic x' = t_cyclic x /\ t_gotwake x' = t_gotwake x /\ t_last x' = t_last x.

(** an execution of the linked transmitter programs by thread t interleaved with arbitrary environment transitions of the
    LTS: silent program steps, visible program steps (taken when the environment enables them), environment steps;
    the list is the trace of LTS events *)
Inductive texec (dc dt : bool) (t : nat) : tcfg -> state -> list event -> tcfg -> state -> Prop :=
| te_nil : forall c s, texec dc dt t c s [] c s
| te_silent : forall c s x o b arm a c' tr c2 s2,
    th s t = TTx x -> tnext dc dt t x c o b arm a = Some (None, c') ->
    texec dc dt t c' s tr c2 s2 -> texec dc dt t c s tr c2 s2
| te_visible : forall c s x o b arm a ev c' s' tr c2 s2,
    th s t = TTx x -> tnext dc dt t x c o b arm a = Some (Some ev, c') -> enabled s t x ev ->
    step_fn s ev = Some s' ->
    texec dc dt t c' s' tr c2 s2 -> texec dc dt t c s (ev :: tr) c2 s2
| te_env : forall c s ev s' tr c2 s2,
    own t ev = false -> step_fn s ev = Some s' ->
    texec dc dt t c s' tr c2 s2 -> texec dc dt t c s (ev :: tr) c2 s2.
