(** Proofs about action programs (Runner/Program.v): the lock discipline of ANY program accepted by [prog_lock_ok],
    by induction over the paths of the program graph; the reference programs are accepted. *)
From Coq Require Import Arith Bool List ZArith Lia.
From CanVerif Require Import Dbc.Ast Runner.Program.
Import ListNotations.

Lemma check_nodes_nth : forall a l i k n,
  check_nodes a i l = true -> nth_error l k = Some n -> node_ok a (i + k) n = true.
Proof.
  induction l as [|x tl IH]; intros i k n H Hn.
  - destruct k; discriminate.
  - cbn in H. apply andb_true_iff in H. destruct H as [H1 H2]. destruct k as [|k].
    + cbn in Hn. inversion Hn; subst. now rewrite Nat.add_0_r.
    + cbn in Hn. replace (i + S k) with (S i + k) by lia. eauto.
Qed.

(** the annotation is an inductive invariant of the thread's own steps *)
Lemma ann_invariant : forall p a, check_ann p a = true ->
  forall c, oreach p c -> nth (fst c) a None = Some (snd c).
Proof.
  intros p a Hc c Hr. unfold check_ann in Hc.
  apply andb_true_iff in Hc. destruct Hc as [Hc Hn]. apply andb_true_iff in Hc. destruct Hc as [_ H0].
  induction Hr as [|c c' Hr IH Hs].
  - cbn. destruct (nth 0 a None) as [[|]|]; try discriminate. reflexivity.
  - destruct Hs as [pc h n pc' Hnth Hin Hl]. cbn in *.
    pose proof (check_nodes_nth _ _ _ _ _ Hn Hnth) as Hk. cbn in Hk.
    unfold node_ok in Hk. rewrite IH in Hk. apply andb_true_iff in Hk. destruct Hk as [_ Hk].
    rewrite forallb_forall in Hk. specialize (Hk _ Hin). unfold succ_ok in Hk.
    destruct (nth pc' a None) as [x|]; try discriminate.
    apply eqb_prop in Hk. now subst.
Qed.

(** LOCK DISCIPLINE, for any accepted program: at every reachable configuration the node about to be executed finds the
    lock in the state its class demands *)
Theorem lock_discipline : forall p, prog_lock_ok p = true ->
  forall pc h n, oreach p (pc, h) -> nth_error p pc = Some n -> pre_ok (n_cls n) h = true.
Proof.
  intros p Hok pc h n Hr Hn. unfold prog_lock_ok in Hok.
  pose proof (ann_invariant _ _ Hok _ Hr) as Hi. cbn in Hi.
  unfold check_ann in Hok. apply andb_true_iff in Hok. destruct Hok as [_ Hc].
  pose proof (check_nodes_nth _ _ _ _ _ Hc Hn) as Hk. cbn in Hk. unfold node_ok in Hk. rewrite Hi in Hk.
  apply andb_true_iff in Hk. tauto.
Qed.

Corollary msg_access_under_lock : forall p, prog_lock_ok p = true ->
  forall pc h n, oreach p (pc, h) -> nth_error p pc = Some n ->
  (n_cls n = CMsg \/ n_cls n = CUnlock) -> h = true.
Proof.
  intros p Hok pc h n Hr Hn Hc. pose proof (lock_discipline _ Hok _ _ _ Hr Hn) as H.
  unfold pre_ok in H. destruct Hc as [Hc|Hc]; rewrite Hc in H; cbn in H; destruct h; auto; discriminate.
Qed.

Corollary release_points_unlocked : forall p, prog_lock_ok p = true ->
  forall pc h n, oreach p (pc, h) -> nth_error p pc = Some n ->
  (n_cls n = CHook \/ n_cls n = CBlock \/ n_cls n = CSelect \/ n_cls n = CRet \/ n_cls n = CCallFn \/ n_cls n = CGo
   \/ n_cls n = CLock) -> h = false.
Proof.
  intros p Hok pc h n Hr Hn Hc. pose proof (lock_discipline _ Hok _ _ _ Hr Hn) as H.
  unfold pre_ok in H.
  destruct Hc as [Hc|[Hc|[Hc|[Hc|[Hc|[Hc|Hc]]]]]]; rewrite Hc in H; cbn in H; destruct h; auto; discriminate.
Qed.

(** on every path that starts with the lock held and ends without it an Unlock node is executed *)
Theorem unlock_on_path : forall p c l c', osteps p c l c' -> snd c = true -> snd c' = false ->
  exists k n, In k l /\ nth_error p k = Some n /\ n_cls n = CUnlock.
Proof.
  intros p c l c' Hs. induction Hs as [c|c c1 c2 l H1 Hs IH]; intros Ht Hf.
  - congruence.
  - destruct H1 as [pc h n pc' Hn Hin Hl]. cbn in *. subst h.
    destruct (n_cls n) eqn:E; cbn in *;
      try (destruct (IH eq_refl Hf) as [k [m [Hk [Hm Hu]]]]; exists k, m; auto; fail).
    exists pc, n. auto.
Qed.

(** consequently: between a message-state action and the next hook call / blocking action / select / return on ANY
    path of an accepted program lies an Unlock *)
Theorem msg_then_unlock_before_release : forall p, prog_lock_ok p = true ->
  forall pc h l pc' h' n n',
  oreach p (pc, h) -> osteps p (pc, h) l (pc', h') ->
  nth_error p pc = Some n -> n_cls n = CMsg ->
  nth_error p pc' = Some n' ->
  (n_cls n' = CHook \/ n_cls n' = CBlock \/ n_cls n' = CSelect \/ n_cls n' = CRet \/ n_cls n' = CCallFn \/ n_cls n' = CGo
   \/ n_cls n' = CLock) ->
  exists k m, In k l /\ nth_error p k = Some m /\ n_cls m = CUnlock.
Proof.
  intros p Hok pc h l pc' h' n n' Hr Hs Hn Hc Hn' Hc'.
  assert (h = true) by (eapply msg_access_under_lock; eauto).
  assert (Hr' : oreach p (pc', h')).
  { clear - Hr Hs. induction Hs; auto. apply IHHs. econstructor; eauto. }
  assert (h' = false) by (eapply release_points_unlocked; eauto).
  subst. eapply unlock_on_path; eauto.
Qed.

(** the shared-state semantics projects onto the own-step semantics: while thread [t] follows an accepted program and
    nobody else changes the owner in between, [owner = Some t] exactly when the annotation says "held" - stated for
    one step: a step of [pstep] from an owner state that agrees with [h] is an [ostep], and the agreement is kept *)
Definition agrees (t : tid) (o : option tid) (h : bool) : Prop := (o = Some t <-> h = true).

Theorem pstep_is_ostep : forall p t pc o pc' o' h,
  pstep p t (pc, o) (pc', o') -> agrees t o h ->
  exists h', ostep p (pc, h) (pc', h') /\ agrees t o' h'.
Proof.
  intros p t pc o pc' o' h Hs Ha. unfold agrees in *. inversion Hs; subst.
  - exists true. split.
    + assert (h = false) by (destruct h; [exfalso; destruct Ha as [_ Ha]; specialize (Ha eq_refl); discriminate Ha | reflexivity]).
      subst. replace true with (post (n_cls n) false) by (match goal with H : n_cls _ = CLock |- _ => rewrite H end; reflexivity).
      econstructor; eauto.
    + tauto.
  - exists false. split.
    + replace false with (post (n_cls n) h) by (match goal with H : n_cls _ = CUnlock |- _ => rewrite H end; reflexivity).
      econstructor; eauto. intros E; congruence.
    + split; intros; discriminate.
  - exists h. split.
    + replace h with (post (n_cls n) h) at 2 by (destruct (n_cls n); try reflexivity; congruence).
      econstructor; eauto. intros E; congruence.
    + assumption.
Qed.

(* ---------------------------------------------------------------- the reference programs *)

Lemma receiver_prog_lock_ok : prog_lock_ok receiver_prog = true.
Proof. vm_compute. reflexivity. Qed.

Lemma transmitter_progs_lock_ok : forallb prog_lock_ok transmitter_prog = true.
Proof. vm_compute. reflexivity. Qed.

Lemma run_progs_lock_ok : forallb prog_lock_ok run_prog = true.
Proof. vm_compute. reflexivity. Qed.

Lemma gen_tx_progs_passive :
  forallb gen_prog_passive
    [p_gen_Tx_init; p_gen_Tx_SetBeforeTransmitHook; p_gen_Tx_BeforeTransmitHook; p_gen_Tx_TransmitTime; p_gen_Tx_SetTransmitTime;
     p_gen_Tx_IsCyclicTransmissionEnabled; p_gen_Tx_SetCyclicTransmissionEnabled; p_gen_Tx_WakeUpChan; p_gen_Tx_TransmitEventChan;
     p_gen_Rx_init; p_gen_Rx_SetAfterReceiveHook; p_gen_Rx_AfterReceiveHook; p_gen_Rx_ReceiveTime; p_gen_Rx_SetReceiveTime] = true.
Proof. vm_compute. reflexivity. Qed.

Lemma first_diff_refl_ref : forallb (fun np => prog_eqb (snd np) (snd np)) ref_progs = true.
Proof. vm_compute. reflexivity. Qed.

(** [first_diff p q = None] means the programs are equal as data *)
Lemma bytes_eqb_eq : forall a b, bytes_eqb a b = true -> a = b.
Proof.
  induction a as [|x a IH]; destruct b as [|y b]; cbn; intros H; try discriminate; auto.
  apply andb_true_iff in H. destruct H as [H1 H2]. apply Z.eqb_eq in H1. f_equal; auto.
Qed.
Lemma natlist_eqb_eq : forall a b, natlist_eqb a b = true -> a = b.
Proof.
  induction a as [|x a IH]; destruct b as [|y b]; cbn; intros H; try discriminate; auto.
  apply andb_true_iff in H. destruct H as [H1 H2]. apply Nat.eqb_eq in H1. f_equal; auto.
Qed.
Lemma cls_eqb_eq : forall a b, cls_eqb a b = true -> a = b.
Proof. intros a b H. destruct a, b; try reflexivity; discriminate. Qed.
Lemma node_eqb_eq : forall a b, node_eqb a b = true -> a = b.
Proof.
  intros [c1 t1 s1] [c2 t2 s2] H. unfold node_eqb in H. cbn in H.
  apply andb_true_iff in H. destruct H as [H H3]. apply andb_true_iff in H. destruct H as [H1 H2].
  apply cls_eqb_eq in H1. apply bytes_eqb_eq in H2. apply natlist_eqb_eq in H3. now subst.
Qed.
Theorem first_diff_none_eq : forall p q, first_diff p q = None -> p = q.
Proof.
  unfold first_diff. generalize 0. intros i p. revert i.
  induction p as [|a p IH]; intros i [|b q] H; cbn in H; try discriminate; auto.
  destruct (node_eqb a b) eqn:E; try discriminate. apply node_eqb_eq in E. subst. f_equal. eauto.
Qed.

(* ---------------------------------------------------------------- path facts of the reference transmitter programs *)

Definition last_of (l : list nat) : nat := last l 0.

(** transmit closure: every complete path is one of: hook fails (return at node 6), TransmitFrame fails (14), success (15);
    the successful and the transmit-failure paths perform exactly Lock, hook read, SetTransmitTime, Unlock, hook call, Lock,
    Frame(), Unlock, TransmitFrame - in this order, each once *)
Lemma transmit_paths :
  forallb (fun path =>
    let acts := actions_on p_RunMessageTransmitter_transmit path in
    match last_of path with
    | 6 => clslist_eqb acts [CLock; CMsg; CMsg; CUnlock; CHook]
    | 14 | 15 => clslist_eqb acts [CLock; CMsg; CMsg; CUnlock; CHook; CLock; CMsg; CUnlock; CBlock]
    | _ => false
    end) (paths p_RunMessageTransmitter_transmit 40 0) = true
  /\ List.length (paths p_RunMessageTransmitter_transmit 40 0) = 3.
Proof. vm_compute. split; reflexivity. Qed.

(** select loop: the arms of the select at node 13 are, in order: return nil | setCyclicTransmission() and back to the
    select | transmit() once, then return err or back to the select (event arm and tick arm alike) *)
Lemma select_arms :
  (match nth_error p_RunMessageTransmitter 13 with
   | Some n => cls_eqb (n_cls n) CSelect && natlist_eqb (n_succ n) [14; 15; 16; 19]
   | None => false end) = true
  /\ map (fun pc => match nth_error p_RunMessageTransmitter pc with Some n => (n_cls n, n_succ n) | None => (CRet, [99]) end)
         [14; 15; 16; 17; 18; 19; 20; 21]
     = [(CRet, []); (CCallFn, [13]); (CCallFn, [17]); (CTest, [18; 13]); (CRet, []); (CCallFn, [20]); (CTest, [21; 13]); (CRet, [])]
  /\ bytes_eqb (text_at p_RunMessageTransmitter 16) (text_at p_RunMessageTransmitter 19) = true
  /\ cls_at p_RunMessageTransmitter 16 = Some CCallFn /\ cls_at p_RunMessageTransmitter 15 = Some CCallFn.
Proof. vm_compute. repeat split; reflexivity. Qed.

(** enable / disable: a ticker is created on exactly one path, the one on which the guard
    [!isCyclic || !hasCycleTime || cyclicTransmissionTicker != nil] is false; disable stops and nils the ticker on exactly the
    path on which it was not nil; setCyclicTransmission reads the flag between Lock and Unlock and then calls exactly one of them *)
Lemma ticker_paths :
  paths p_RunMessageTransmitter_enableCyclicTransmission 20 0 = [[0; 1; 2; 3]; [0; 1; 2; 4; 5; 6]]
  /\ paths p_RunMessageTransmitter_disableCyclicTransmission 20 0 = [[0; 1]; [0; 2; 3; 4]]
  /\ paths p_RunMessageTransmitter_setCyclicTransmission 20 0 = [[0; 1; 2; 3; 4; 6]; [0; 1; 2; 3; 5; 6]]
  /\ map (actions_on p_RunMessageTransmitter_setCyclicTransmission) (paths p_RunMessageTransmitter_setCyclicTransmission 20 0)
     = [[CLock; CMsg; CUnlock; CCallFn]; [CLock; CMsg; CUnlock; CCallFn]].
Proof. vm_compute. repeat split; reflexivity. Qed.
