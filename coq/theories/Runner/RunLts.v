(** Two extensions of the runner model (DEFINITIONS ONLY; proofs: RunProofs.v).

    1. Send deadlines: a TIMED LAYER over the LTS of Lts.v.  The transmit closure of
       RunMessageTransmitter ends with (run.go:176-178)
           ctx', cancel := context.WithTimeout(ctx, sendTimeout);  err := tx.TransmitFrame(ctx', f)
       where sendTimeout = the message's cycle time, or one second if that is zero (run.go:133-136).
       WithTimeout reads the system clock at pc X9, i.e. AFTER the before-transmit hook has returned
       and the frame has been marshalled.  The timed layer adds to a state of Lts.v, per thread, the
       clock reading the thread saw last ([ts_clk], monotone), the clock reading at the HookRet of
       the transmission being served ([ts_hr]) and the deadline of ctx' once it has been computed
       ([ts_dl]); timed events:
         TE e               an event of Lts.v other than Transmit (time does not appear)
         TStamp t c         thread t observes clock reading c (>= its previous reading)
         TDeadline t c      thread t, at X9, reads the clock (c) and derives ctx' with deadline
                            c + send_timeout (cycle t)                      (WithTimeout)
         TTransmit t f ok d TransmitFrame(ctx', f) is called and returns; d = deadline of ctx'
       Clock readings and durations are integers [Z] (nanoseconds).  The clock is per thread on
       purpose: readings of different goroutines are not ordered by the logged linearisation.

    2. Run (run.go:71-99) as a small LTS of its own: Connect, errgroup.WithContext, the closer
       goroutine (`<-ctx.Done(); conn.Close()`), [n] worker goroutines (receiver + one transmitter
       per message), g.Wait, return.  Events:
         QCancel            the caller's context is cancelled (possible at ANY time: before Run is
                            called, while Connect is in progress, while running, after the return)
         QConnectCall, QConnectRet ok      n.Connect() called / returned (conn, nil) or an error
         QSpawn n           errgroup created, closer + n workers started, Run is in g.Wait()
         QWorkerRet ok      a worker goroutine returns nil / an error (an error cancels the
                            errgroup's context)
         QClose             the closer goroutine sees its context done and calls conn.Close()
         QReturn ok         Run returns nil / an error
       Not modelled: the error conn.Close() may itself return; real time.

    3. Frame shapes on the receive path: what the generated UnmarshalFrame accepts ([shape_accepts]:
       not a remote frame, standard/extended as the message, the message's length) decides the
       [f_unm_ok] of RunModel.rframe; a remote / extended / wrong-length frame with a known ID is an
       ordinary frame for RunMessageReceiver (lock, hook lookup, receive time, unmarshal - which
       fails -, unlock, return the error).

    4. Which messages get a ticker: the [cyclic] bit of a transmitter role (Lts.t_cyclic, the guard
       of apply_ticker) is COMPUTED here from the descriptor's facts, run.go:140-142:
       isCyclic = (SendType = Cyclic), hasCycleTime = (CycleTime > 0).

    5. Which hook runs: one runner thread against the hook FIELD of a message (a function value, here
       a number) that application code replaces under the node lock.  The runner reads the field
       inside its critical section (run.go:109 / 167) and calls what it read after Unlock
       (run.go:116 / 170).  Events: KLock / KUnlock (the runner thread's critical section; the field
       is read in it), KSet h (an application critical section Lock; Set...Hook(h); Unlock - it cannot
       overlap the runner's), KCall h (the runner calls hook h). *)
From Coq Require Import Arith Bool List ZArith.
From CanVerif Require Import Runner.Lts Runner.RunModel.
Import ListNotations.

(* ---------------------------------------------------------------- 1. send deadlines *)

Definition default_send_timeout : Z := 1000000000%Z.

(** run.go:133-136 *)
Definition send_timeout (cycle : Z) : Z :=
  if Z.eqb cycle 0 then default_send_timeout else cycle.

Record tstate := mkT {
  ts_s : state;
  ts_clk : tid -> Z;          (* last clock reading seen by the thread *)
  ts_hr : tid -> Z;           (* its clock reading when its hook returned last *)
  ts_dl : tid -> option Z     (* deadline of ctx', between WithTimeout and the return of TransmitFrame *)
}.

Inductive tevent :=
| TE (e : event)
| TStamp (t : tid) (c : Z)
| TDeadline (t : tid) (c : Z)
| TTransmit (t : tid) (f : nat) (ok : bool) (d : Z).

Definition tupd {A : Type} (f : tid -> A) (t : tid) (v : A) : tid -> A :=
  fun x => if Nat.eqb x t then v else f x.

Definition at_x9 (s : state) (t : tid) : bool :=
  match th s t with
  | TTx x => match t_pc x with X9 => true | _ => false end
  | _ => false
  end.

Definition no_deadline (o : option Z) : bool := match o with None => true | Some _ => false end.

(** [cyc t] = cycle time of the message of transmitter t (0: none) *)
Definition tstep (cyc : tid -> Z) (ts : tstate) (te : tevent) : option tstate :=
  match te with
  | TE (Transmit _ _ _) => None          (* a transmission comes with the deadline it was given *)
  | TE e =>
      match step_fn (ts_s ts) e with
      | Some s' =>
          Some (mkT s' (ts_clk ts)
                    (match e with HookRet t _ => tupd (ts_hr ts) t (ts_clk ts t) | _ => ts_hr ts end)
                    (ts_dl ts))
      | None => None
      end
  | TStamp t c =>
      if Z.leb (ts_clk ts t) c then Some (mkT (ts_s ts) (tupd (ts_clk ts) t c) (ts_hr ts) (ts_dl ts)) else None
  | TDeadline t c =>
      if at_x9 (ts_s ts) t && no_deadline (ts_dl ts t) && Z.leb (ts_clk ts t) c then
        Some (mkT (ts_s ts) (tupd (ts_clk ts) t c) (ts_hr ts)
                  (tupd (ts_dl ts) t (Some (c + send_timeout (cyc t))%Z)))
      else None
  | TTransmit t f ok d =>
      match ts_dl ts t with
      | Some d' =>
          if Z.eqb d d' then
            match step_fn (ts_s ts) (Transmit t f ok) with
            | Some s' => Some (mkT s' (ts_clk ts) (ts_hr ts) (tupd (ts_dl ts) t None))
            | None => None
            end
          else None
      | None => None
      end
  end.

Definition tinit (cfg : tid -> role) : tstate :=
  mkT (init cfg) (fun _ => 0%Z) (fun _ => 0%Z) (fun _ => None).

Fixpoint trun (cyc : tid -> Z) (ts : tstate) (tr : list tevent) : option tstate :=
  match tr with
  | [] => Some ts
  | e :: tl => match tstep cyc ts e with Some ts' => trun cyc ts' tl | None => None end
  end.

(** index of the first timed event that is not enabled, if any *)
Fixpoint tfirst_reject (cyc : tid -> Z) (ts : tstate) (tr : list tevent) (n : nat) : option nat :=
  match tr with
  | [] => None
  | e :: tl => match tstep cyc ts e with Some ts' => tfirst_reject cyc ts' tl (S n) | None => Some n end
  end.

Inductive treachable (cyc : tid -> Z) (cfg : tid -> role) : tstate -> Prop :=
| treach_init : treachable cyc cfg (tinit cfg)
| treach_step : forall ts e ts', treachable cyc cfg ts -> tstep cyc ts e = Some ts' -> treachable cyc cfg ts'.

(** forgetting time *)
Definition untimed (te : tevent) : list event :=
  match te with
  | TE e => [e]
  | TTransmit t f ok _ => [Transmit t f ok]
  | TStamp _ _ | TDeadline _ _ => []
  end.

Fixpoint cyc_of_list (l : list (tid * Z)) : tid -> Z :=
  match l with
  | [] => fun _ => 0%Z
  | (t, c) :: tl => fun x => if Nat.eqb x t then c else cyc_of_list tl x
  end.

(* ---------------------------------------------------------------- 2. Run *)

Inductive qpc := QStart | QConnecting | QConnFailed | QConnected | QRunning | QReturned.

Record qstate := mkQ {
  q_pc : qpc;
  q_cancelled : bool;     (* the caller's context *)
  q_failed : bool;        (* a worker returned an error: the errgroup's context is cancelled *)
  q_connected : bool;     (* Connect returned a connection *)
  q_live : nat;           (* worker goroutines that have not returned *)
  q_closer : bool;        (* the closer goroutine has not returned *)
  q_closes : nat          (* calls of conn.Close() *)
}.

Inductive qevent :=
| QCancel | QConnectCall | QConnectRet (ok : bool) | QSpawn (n : nat)
| QWorkerRet (ok : bool) | QClose | QReturn (ok : bool).

Definition qinit : qstate := mkQ QStart false false false 0 false 0.

Definition qstep (q : qstate) (e : qevent) : option qstate :=
  match e, q_pc q with
  | QCancel, _ =>
      Some (mkQ (q_pc q) true (q_failed q) (q_connected q) (q_live q) (q_closer q) (q_closes q))
  | QConnectCall, QStart =>
      Some (mkQ QConnecting (q_cancelled q) (q_failed q) (q_connected q) (q_live q) (q_closer q) (q_closes q))
  | QConnectRet ok, QConnecting =>
      Some (mkQ (if ok then QConnected else QConnFailed) (q_cancelled q) (q_failed q) ok (q_live q) (q_closer q) (q_closes q))
  | QSpawn n, QConnected =>
      Some (mkQ QRunning (q_cancelled q) (q_failed q) (q_connected q) n true (q_closes q))
  | QWorkerRet ok, QRunning =>
      match q_live q with
      | S k => Some (mkQ QRunning (q_cancelled q) (q_failed q || negb ok) (q_connected q) k (q_closer q) (q_closes q))
      | O => None
      end
  | QClose, QRunning =>
      if q_closer q && (q_cancelled q || q_failed q) then
        Some (mkQ QRunning (q_cancelled q) (q_failed q) (q_connected q) (q_live q) false (S (q_closes q)))
      else None
  | QReturn ok, QConnFailed =>
      if ok then None
      else Some (mkQ QReturned (q_cancelled q) (q_failed q) (q_connected q) (q_live q) (q_closer q) (q_closes q))
  | QReturn ok, QRunning =>
      (* g.Wait(): every goroutine of the group has returned; without a failure the result is nil *)
      if Nat.eqb (q_live q) 0 && negb (q_closer q) && (q_failed q || ok) then
        Some (mkQ QReturned (q_cancelled q) (q_failed q) (q_connected q) (q_live q) (q_closer q) (q_closes q))
      else None
  | _, _ => None
  end.

Fixpoint qrun (q : qstate) (tr : list qevent) : option qstate :=
  match tr with
  | [] => Some q
  | e :: tl => match qstep q e with Some q' => qrun q' tl | None => None end
  end.

Inductive qreachable : qstate -> Prop :=
| qreach_init : qreachable qinit
| qreach_step : forall q e q', qreachable q -> qstep q e = Some q' -> qreachable q'.

(** what the property demands of a finished Run: the connection it obtained is closed, nothing
    of the group is still running *)
Definition q_clean (q : qstate) : bool :=
  match q_pc q with
  | QReturned => if q_connected q then Nat.leb 1 (q_closes q) && Nat.eqb (q_live q) 0 && negb (q_closer q) else Nat.eqb (q_closes q) 0
  | _ => true
  end.

Definition q_is_returned (q : qstate) : bool := match q_pc q with QReturned => true | _ => false end.
Definition q_is_connected (q : qstate) : bool := match q_pc q with QConnected => true | _ => false end.
Definition q_is_running (q : qstate) : bool := match q_pc q with QRunning => true | _ => false end.

(* ---------------------------------------------------------------- 3. frame shapes *)

Record fshape := mkShape { sh_remote : bool; sh_extended : bool; sh_len : nat }.

(** the checks of the generated UnmarshalFrame after the ID check (file.go: length, remote, extended) *)
Definition shape_accepts (msg_ext : bool) (msg_len : nat) (f : fshape) : bool :=
  Nat.eqb (sh_len f) msg_len && negb (sh_remote f) && Bool.eqb (sh_extended f) msg_ext.

Definition rframe_of_shape (id : nat) (known : bool) (msg_ext : bool) (msg_len : nat) (f : fshape) (hook_ok : bool) : rframe :=
  mkRframe id known (shape_accepts msg_ext msg_len f) hook_ok.

(* ---------------------------------------------------------------- 4. ticker eligibility *)

(** descriptor.SendType: 0 none, 1 cyclic, 2 event *)
Definition send_type_cyclic : nat := 1.

Definition ticker_eligible (send_type : nat) (cycle : Z) : bool :=
  Nat.eqb send_type send_type_cyclic && Z.ltb 0 cycle.

Definition role_of_descriptor (send_type : nat) (cycle : Z) (enabled_at_start : bool) : role :=
  if enabled_at_start then RoleTxOn (ticker_eligible send_type cycle) else RoleTx (ticker_eligible send_type cycle).

Definition role_cyclic (r : role) : option bool :=
  match r with RoleTx c | RoleTxOn c => Some c | _ => None end.

(* ---------------------------------------------------------------- 5. which hook runs *)

Inductive kpc := KIdle | KLocked | KWindow.
Record kstate := mkK { k_pc : kpc; k_field : nat; k_snap : nat }.
Inductive kevent := KLock | KUnlock | KSet (h : nat) | KCall (h : nat).

Definition kinit (h : nat) : kstate := mkK KIdle h h.

Definition kstep (k : kstate) (e : kevent) : option kstate :=
  match e, k_pc k with
  | KLock, KIdle | KLock, KWindow => Some (mkK KLocked (k_field k) (k_field k))   (* the read under the lock *)
  | KUnlock, KLocked => Some (mkK KWindow (k_field k) (k_snap k))
  | KSet h, KIdle | KSet h, KWindow => Some (mkK (k_pc k) h (k_snap k))           (* mutex: not while KLocked *)
  | KCall h, KWindow => if Nat.eqb h (k_snap k) then Some (mkK KIdle (k_field k) (k_snap k)) else None
  | _, _ => None
  end.

Fixpoint krun (k : kstate) (tr : list kevent) : option kstate :=
  match tr with
  | [] => Some k
  | e :: tl => match kstep k e with Some k' => krun k' tl | None => None end
  end.

Fixpoint kfirst_reject (k : kstate) (tr : list kevent) (n : nat) : option nat :=
  match tr with
  | [] => None
  | e :: tl => match kstep k e with Some k' => kfirst_reject k' tl (S n) | None => Some n end
  end.
