(** Action programs of the runner (DESIGN.md 9.6 "Action-sequence tie for the runner").  DEFINITIONS ONLY
    (proofs: ProgramProofs.v).

    An action program is the control-flow graph of one Go function as harness/runwire reads it from the source text:
    a list of nodes, node [i] = (class, canonical text of the statement / condition, successor indices).  Entry = node 0.
    Texts are byte lists ([Dbc.Ast.bytes]).  Successor order: a two-way node (test, or a call used as loop condition)
    lists [true-branch; false-branch]; a select lists its arms in source order; [ret] has none.

    Classes (decided by the extractor from the calls inside the statement, see the header of harness/runwire/main.go):
      CLock / CUnlock   <locker>.Lock() / .Unlock()
      CMsg              method call on a message value that touches message state (hook field, time stamps, signal
                        values, cyclic flag): AfterReceiveHook, SetReceiveTime, UnmarshalFrame, BeforeTransmitHook,
                        SetTransmitTime, IsCyclicTransmissionEnabled, Frame, and any method the extractor does not know
      CGet              Descriptor / TransmitEventChan / WakeUpChan of a message (immutable after construction)
      CHook             call of a hook value read earlier
      CBlock            tx.TransmitFrame, a channel receive outside select, g.Wait
      CCallFn           call of a closure of the same function (its own program)
      CGo               g.Go(closure)
      CSelect / CTrySel select without / with default
      CCall CTest CAssign CRet   everything else by statement kind

    The reference programs below are the transcription (tools/runwire_ref.py) of pkg/canrunner/run.go and of the node
    templates of internal/generate/file.go as of the commit the LTS models were written for; the C13/C14 checks compare
    the CURRENT tree's extraction with them node by node ([first_diff]) on every run. *)
From Coq Require Import Arith Bool List ZArith String.
From CanVerif Require Import Dbc.Ast.
Import ListNotations.
Open Scope nat_scope.

Inductive cls :=
| CLock | CUnlock | CMsg | CGet | CHook | CBlock | CCallFn | CGo | CCall | CTest | CAssign | CRet | CSelect | CTrySel.

Record node := mkNode { n_cls : cls; n_text : bytes; n_succ : list nat }.
Definition prog := list node.

Definition cls_code (c : cls) : nat :=
  match c with
  | CLock => 0 | CUnlock => 1 | CMsg => 2 | CGet => 3 | CHook => 4 | CBlock => 5 | CCallFn => 6 | CGo => 7
  | CCall => 8 | CTest => 9 | CAssign => 10 | CRet => 11 | CSelect => 12 | CTrySel => 13
  end.
Definition cls_eqb (a b : cls) : bool := Nat.eqb (cls_code a) (cls_code b).

Fixpoint natlist_eqb (a b : list nat) : bool :=
  match a, b with
  | [], [] => true
  | x :: a', y :: b' => Nat.eqb x y && natlist_eqb a' b'
  | _, _ => false
  end.

Definition node_eqb (a b : node) : bool :=
  cls_eqb (n_cls a) (n_cls b) && bytes_eqb (n_text a) (n_text b) && natlist_eqb (n_succ a) (n_succ b).

(** index of the first node at which the extracted program [p] differs from the reference [q]
    (a missing / additional node counts as a difference at that index) *)
Fixpoint first_diff_from (i : nat) (p q : prog) : option nat :=
  match p, q with
  | [], [] => None
  | a :: p', b :: q' => if node_eqb a b then first_diff_from (S i) p' q' else Some i
  | _, _ => Some i
  end.
Definition first_diff (p q : prog) : option nat := first_diff_from 0 p q.
Definition prog_eqb (p q : prog) : bool := match first_diff p q with None => true | Some _ => false end.

(* ---------------------------------------------------------------- lock discipline of a program *)

(** what a node demands of "this thread holds the node lock": Some true = must hold, Some false = must not *)
Definition needs (c : cls) : option bool :=
  match c with
  | CMsg | CUnlock => Some true
  | CLock | CHook | CBlock | CCallFn | CGo | CRet | CSelect => Some false
  | CGet | CCall | CTest | CAssign | CTrySel => None
  end.
Definition post (c : cls) (h : bool) : bool :=
  match c with CLock => true | CUnlock => false | _ => h end.
Definition pre_ok (c : cls) (h : bool) : bool :=
  match needs c with Some b => Bool.eqb b h | None => true end.

(** annotation: for every node, whether the thread holds the lock on entry (None = not reached) *)
Definition ann := list (option bool).

Definition succ_ok (a : ann) (h' : bool) (j : nat) : bool :=
  match nth j a None with Some x => Bool.eqb x h' | None => false end.

Definition node_ok (a : ann) (i : nat) (n : node) : bool :=
  match nth i a None with
  | None => true
  | Some h => pre_ok (n_cls n) h && forallb (succ_ok a (post (n_cls n) h)) (n_succ n)
  end.

Fixpoint check_nodes (a : ann) (i : nat) (l : list node) : bool :=
  match l with
  | [] => true
  | n :: tl => node_ok a i n && check_nodes a (S i) tl
  end.

Definition check_ann (p : prog) (a : ann) : bool :=
  Nat.eqb (List.length a) (List.length p)
  && match nth 0 a None with Some false => true | _ => false end
  && check_nodes a 0 p.

(** inference of the annotation: forward propagation from "entry without the lock", [length p] rounds *)
Fixpoint set_nth (i : nat) (v : option bool) (l : ann) : ann :=
  match i, l with
  | _, [] => []
  | 0, x :: tl => (match x with None => v | Some _ => x end) :: tl
  | S i', x :: tl => x :: set_nth i' v tl
  end.

Fixpoint propagate_from (i : nat) (l : list node) (a : ann) : ann :=
  match l with
  | [] => a
  | n :: tl =>
      let a' := match nth i a None with
                | Some h => fold_left (fun acc j => set_nth j (Some (post (n_cls n) h)) acc) (n_succ n) a
                | None => a
                end in
      propagate_from (S i) tl a'
  end.

Fixpoint iterate (k : nat) (f : ann -> ann) (a : ann) : ann :=
  match k with 0 => a | S k' => iterate k' f (f a) end.

Definition infer (p : prog) : ann :=
  iterate (List.length p) (propagate_from 0 p)
          (match p with [] => [] | _ :: tl => Some false :: map (fun _ => None) tl end).

(** THE CHECKER: every message-state action and every Unlock happens with the lock held, every Lock, hook call,
    blocking action, closure call, goroutine start, select and return with the lock NOT held, on every path from
    the entry, and the function is entered without the lock. *)
Definition prog_lock_ok (p : prog) : bool := check_ann p (infer p).

(** first node whose demand is violated under the inferred annotation (diagnostics for the driver) *)
Fixpoint first_bad_from (a : ann) (i : nat) (l : list node) : option nat :=
  match l with
  | [] => None
  | n :: tl => if node_ok a i n then first_bad_from a (S i) tl else Some i
  end.
Definition first_lock_violation (p : prog) : option nat := first_bad_from (infer p) 0 p.

(* ---------------------------------------------------------------- semantics: one thread's own steps *)

(** configuration of one thread: program counter and "I hold the node lock".  A Lock node is enabled only when the
    thread does not hold the lock (sync.Mutex is not reentrant: with h = true the thread would wait for itself). *)
Inductive ostep (p : prog) : nat * bool -> nat * bool -> Prop :=
| ostep_intro : forall pc h n pc',
    nth_error p pc = Some n -> In pc' (n_succ n) ->
    (n_cls n = CLock -> h = false) ->
    ostep p (pc, h) (pc', post (n_cls n) h).

Inductive oreach (p : prog) : nat * bool -> Prop :=
| oreach_init : oreach p (0, false)
| oreach_step : forall c c', oreach p c -> ostep p c c' -> oreach p c'.

(** a path: the list of the pcs whose nodes were executed *)
Inductive osteps (p : prog) : nat * bool -> list nat -> nat * bool -> Prop :=
| os_nil : forall c, osteps p c [] c
| os_cons : forall c c' c'' l, ostep p c c' -> osteps p c' l c'' -> osteps p c (fst c :: l) c''.

(** semantics over the shared state of the LTS (Runner/Lts.v: [owner : option tid]): thread [t] at [pc] executes its
    node; Lock needs a free mutex and makes [t] the owner, Unlock frees it, every other class leaves it alone. *)
Definition tid := nat.
Inductive pstep (p : prog) (t : tid) : nat * option tid -> nat * option tid -> Prop :=
| pstep_lock : forall pc n pc', nth_error p pc = Some n -> n_cls n = CLock -> In pc' (n_succ n) ->
    pstep p t (pc, None) (pc', Some t)
| pstep_unlock : forall pc n pc' o, nth_error p pc = Some n -> n_cls n = CUnlock -> In pc' (n_succ n) ->
    pstep p t (pc, o) (pc', None)
| pstep_other : forall pc n pc' o, nth_error p pc = Some n -> n_cls n <> CLock -> n_cls n <> CUnlock -> In pc' (n_succ n) ->
    pstep p t (pc, o) (pc', o).

(** all complete paths of the program graph from [pc] (a path ends at a node without successor; [fuel] bounds the
    length, a path cut by the bound ends with the marker [length p]) - used on the loop-free closure programs *)
Fixpoint paths (p : prog) (fuel : nat) (pc : nat) : list (list nat) :=
  match fuel with
  | 0 => [[List.length p]]
  | S f =>
      match nth_error p pc with
      | None => [[pc]]
      | Some n => match n_succ n with
                  | [] => [[pc]]
                  | ss => map (cons pc) (flat_map (paths p f) ss)
                  end
      end
  end.
Definition cls_at (p : prog) (pc : nat) : option cls :=
  match nth_error p pc with Some n => Some (n_cls n) | None => None end.
(** the classes along a path, keeping only lock / unlock / message / hook / blocking / closure-call nodes *)
Definition is_action (c : cls) : bool :=
  match c with CLock | CUnlock | CMsg | CHook | CBlock | CCallFn | CSelect => true | _ => false end.
Fixpoint actions_on (p : prog) (path : list nat) : list cls :=
  match path with
  | [] => []
  | pc :: tl => match cls_at p pc with
                | Some c => if is_action c then c :: actions_on p tl else actions_on p tl
                | None => actions_on p tl
                end
  end.
Fixpoint clslist_eqb (a b : list cls) : bool :=
  match a, b with
  | [], [] => true
  | x :: a', y :: b' => cls_eqb x y && clslist_eqb a' b'
  | _, _ => false
  end.
Definition text_at (p : prog) (pc : nat) : bytes :=
  match nth_error p pc with Some n => n_text n | None => [] end.

(* ---------------------------------------------------------------- reference programs *)
Open Scope string_scope.

Definition p_Run : prog := Eval compute in [
  mkNode CCall (bytes_of_string "conn, err := n.Connect()") [1];
  mkNode CTest (bytes_of_string "err != nil") [2; 3];
  mkNode CRet (bytes_of_string "return fmt.Errorf(""run %s node: %w"", n.Descriptor().Name, err)") [];
  mkNode CCall (bytes_of_string "g, ctx := errgroup.WithContext(ctx)") [4];
  mkNode CGo (bytes_of_string "g.Go(Run.go1)") [5];
  mkNode CGo (bytes_of_string "g.Go(Run.go2)") [6];
  mkNode CCall (bytes_of_string "_, m := range n.TransmittedMessages()") [7; 9];
  mkNode CAssign (bytes_of_string "m := m") [8];
  mkNode CGo (bytes_of_string "g.Go(Run.go3)") [6];
  mkNode CBlock (bytes_of_string "err := g.Wait()") [10];
  mkNode CTest (bytes_of_string "err != nil") [11; 14];
  mkNode CTest (bytes_of_string "strings.Contains(err.Error(), ""closed"")") [12; 13];
  mkNode CRet (bytes_of_string "return nil") [];
  mkNode CRet (bytes_of_string "return fmt.Errorf(""run %s node: %w"", n.Descriptor().Name, err)") [];
  mkNode CRet (bytes_of_string "return nil") []
].

Definition p_Run_go1 : prog := Eval compute in [
  mkNode CBlock (bytes_of_string "<-ctx.Done()") [1];
  mkNode CRet (bytes_of_string "return conn.Close()") []
].

Definition p_Run_go2 : prog := Eval compute in [
  mkNode CCall (bytes_of_string "rx := socketcan.NewReceiver(conn)") [1];
  mkNode CRet (bytes_of_string "return RunMessageReceiver(ctx, rx, n, clock.System())") []
].

Definition p_Run_go3 : prog := Eval compute in [
  mkNode CCall (bytes_of_string "tx := socketcan.NewTransmitter(conn)") [1];
  mkNode CRet (bytes_of_string "return RunMessageTransmitter(ctx, tx, n, m, clock.System())") []
].

Definition p_RunMessageReceiver : prog := Eval compute in [
  mkNode CCall (bytes_of_string "rx.Receive()") [1; 15];
  mkNode CCall (bytes_of_string "f := rx.Frame()") [2];
  mkNode CCall (bytes_of_string "m, ok := n.ReceivedMessage(f.ID)") [3];
  mkNode CTest (bytes_of_string "!ok") [4; 5];
  mkNode CAssign (bytes_of_string "continue") [0];
  mkNode CLock (bytes_of_string "n.Lock()") [6];
  mkNode CMsg (bytes_of_string "hook := m.AfterReceiveHook()") [7];
  mkNode CMsg (bytes_of_string "m.SetReceiveTime(c.Now())") [8];
  mkNode CMsg (bytes_of_string "err := m.UnmarshalFrame(f)") [9];
  mkNode CUnlock (bytes_of_string "n.Unlock()") [10];
  mkNode CTest (bytes_of_string "err != nil") [11; 12];
  mkNode CRet (bytes_of_string "return fmt.Errorf(""receiver: %w"", err)") [];
  mkNode CHook (bytes_of_string "err := hook(ctx)") [13];
  mkNode CTest (bytes_of_string "err != nil") [14; 0];
  mkNode CRet (bytes_of_string "return fmt.Errorf(""receiver: %w"", err)") [];
  mkNode CCall (bytes_of_string "err := rx.Err()") [16];
  mkNode CTest (bytes_of_string "err != nil") [17; 18];
  mkNode CRet (bytes_of_string "return fmt.Errorf(""receiver: %w"", err)") [];
  mkNode CRet (bytes_of_string "return nil") []
].

Definition p_RunMessageTransmitter : prog := Eval compute in [
  mkNode CGet (bytes_of_string "sendTimeout := m.Descriptor().CycleTime") [1];
  mkNode CTest (bytes_of_string "sendTimeout == 0") [2; 3];
  mkNode CAssign (bytes_of_string "sendTimeout = defaultSendTimeout") [3];
  mkNode CAssign (bytes_of_string "var cyclicTransmissionTicker *time.Ticker") [4];
  mkNode CAssign (bytes_of_string "var cyclicTransmissionTickChan <-chan time.Time") [5];
  mkNode CAssign (bytes_of_string "enableCyclicTransmission := func") [6];
  mkNode CAssign (bytes_of_string "disableCyclicTransmission := func") [7];
  mkNode CAssign (bytes_of_string "setCyclicTransmission := func") [8];
  mkNode CAssign (bytes_of_string "transmit := func") [9];
  mkNode CCall (bytes_of_string "ctxDone := ctx.Done()") [10];
  mkNode CGet (bytes_of_string "transmitEventChan := m.TransmitEventChan()") [11];
  mkNode CCallFn (bytes_of_string "setCyclicTransmission()") [12];
  mkNode CGet (bytes_of_string "wakeUpChan := m.WakeUpChan()") [13];
  mkNode CSelect (bytes_of_string "case <-ctxDone ; case <-wakeUpChan ; case <-transmitEventChan ; case <-cyclicTransmissionTickChan") [14; 15; 16; 19];
  mkNode CRet (bytes_of_string "return nil") [];
  mkNode CCallFn (bytes_of_string "setCyclicTransmission()") [13];
  mkNode CCallFn (bytes_of_string "err := transmit()") [17];
  mkNode CTest (bytes_of_string "err != nil") [18; 13];
  mkNode CRet (bytes_of_string "return err") [];
  mkNode CCallFn (bytes_of_string "err := transmit()") [20];
  mkNode CTest (bytes_of_string "err != nil") [21; 13];
  mkNode CRet (bytes_of_string "return err") []
].

Definition p_RunMessageTransmitter_disableCyclicTransmission : prog := Eval compute in [
  mkNode CTest (bytes_of_string "cyclicTransmissionTicker == nil") [1; 2];
  mkNode CRet (bytes_of_string "return") [];
  mkNode CCall (bytes_of_string "cyclicTransmissionTicker.Stop()") [3];
  mkNode CAssign (bytes_of_string "cyclicTransmissionTicker = nil") [4];
  mkNode CRet (bytes_of_string "end") []
].

Definition p_RunMessageTransmitter_enableCyclicTransmission : prog := Eval compute in [
  mkNode CGet (bytes_of_string "isCyclic := m.Descriptor().SendType == descriptor.SendTypeCyclic") [1];
  mkNode CGet (bytes_of_string "hasCycleTime := m.Descriptor().CycleTime > 0") [2];
  mkNode CTest (bytes_of_string "!isCyclic || !hasCycleTime || cyclicTransmissionTicker != nil") [3; 4];
  mkNode CRet (bytes_of_string "return") [];
  mkNode CGet (bytes_of_string "cyclicTransmissionTicker = time.NewTicker(m.Descriptor().CycleTime)") [5];
  mkNode CAssign (bytes_of_string "cyclicTransmissionTickChan = cyclicTransmissionTicker.C") [6];
  mkNode CRet (bytes_of_string "end") []
].

Definition p_RunMessageTransmitter_setCyclicTransmission : prog := Eval compute in [
  mkNode CLock (bytes_of_string "l.Lock()") [1];
  mkNode CMsg (bytes_of_string "isCyclicTransmissionEnabled := m.IsCyclicTransmissionEnabled()") [2];
  mkNode CUnlock (bytes_of_string "l.Unlock()") [3];
  mkNode CTest (bytes_of_string "isCyclicTransmissionEnabled") [4; 5];
  mkNode CCallFn (bytes_of_string "enableCyclicTransmission()") [6];
  mkNode CCallFn (bytes_of_string "disableCyclicTransmission()") [6];
  mkNode CRet (bytes_of_string "end") []
].

Definition p_RunMessageTransmitter_transmit : prog := Eval compute in [
  mkNode CLock (bytes_of_string "l.Lock()") [1];
  mkNode CMsg (bytes_of_string "hook := m.BeforeTransmitHook()") [2];
  mkNode CMsg (bytes_of_string "m.SetTransmitTime(c.Now())") [3];
  mkNode CUnlock (bytes_of_string "l.Unlock()") [4];
  mkNode CHook (bytes_of_string "err := hook(ctx)") [5];
  mkNode CTest (bytes_of_string "err != nil") [6; 7];
  mkNode CRet (bytes_of_string "return fmt.Errorf(""%s transmitter: %w"", m.Descriptor().Name, err)") [];
  mkNode CLock (bytes_of_string "l.Lock()") [8];
  mkNode CMsg (bytes_of_string "f := m.Frame()") [9];
  mkNode CUnlock (bytes_of_string "l.Unlock()") [10];
  mkNode CCall (bytes_of_string "ctx, cancel := context.WithTimeout(ctx, sendTimeout)") [11];
  mkNode CBlock (bytes_of_string "err := tx.TransmitFrame(ctx, f)") [12];
  mkNode CCall (bytes_of_string "cancel()") [13];
  mkNode CTest (bytes_of_string "err != nil") [14; 15];
  mkNode CRet (bytes_of_string "return fmt.Errorf(""%s transmitter: %w"", m.Descriptor().Name, err)") [];
  mkNode CRet (bytes_of_string "return nil") []
].

Definition p_gen_Node : prog := Eval compute in [
  mkNode CAssign (bytes_of_string "embed sync.Mutex") []
].

Definition p_gen_Rx_init : prog := Eval compute in [
  mkNode CAssign (bytes_of_string "sig m func()") [1];
  mkNode CAssign (bytes_of_string "m.afterReceiveHook = func(context.Context) error { return nil }") [2];
  mkNode CRet (bytes_of_string "end") []
].

Definition p_gen_Rx_SetAfterReceiveHook : prog := Eval compute in [
  mkNode CAssign (bytes_of_string "sig m func(h func(context.Context) error)") [1];
  mkNode CAssign (bytes_of_string "m.afterReceiveHook = h") [2];
  mkNode CRet (bytes_of_string "end") []
].

Definition p_gen_Rx_AfterReceiveHook : prog := Eval compute in [
  mkNode CAssign (bytes_of_string "sig m func() func(context.Context) error") [1];
  mkNode CRet (bytes_of_string "return m.afterReceiveHook") []
].

Definition p_gen_Rx_ReceiveTime : prog := Eval compute in [
  mkNode CAssign (bytes_of_string "sig m func() time.Time") [1];
  mkNode CRet (bytes_of_string "return m.receiveTime") []
].

Definition p_gen_Rx_SetReceiveTime : prog := Eval compute in [
  mkNode CAssign (bytes_of_string "sig m func(t time.Time)") [1];
  mkNode CAssign (bytes_of_string "m.receiveTime = t") [2];
  mkNode CRet (bytes_of_string "end") []
].

Definition p_gen_Tx_init : prog := Eval compute in [
  mkNode CAssign (bytes_of_string "sig m func()") [1];
  mkNode CAssign (bytes_of_string "m.beforeTransmitHook = func(context.Context) error { return nil }") [2];
  mkNode CCall (bytes_of_string "m.wakeUpChan = make(chan struct{}, 1)") [3];
  mkNode CCall (bytes_of_string "m.transmitEventChan = make(chan struct{})") [4];
  mkNode CRet (bytes_of_string "end") []
].

Definition p_gen_Tx_SetBeforeTransmitHook : prog := Eval compute in [
  mkNode CAssign (bytes_of_string "sig m func(h func(context.Context) error)") [1];
  mkNode CAssign (bytes_of_string "m.beforeTransmitHook = h") [2];
  mkNode CRet (bytes_of_string "end") []
].

Definition p_gen_Tx_BeforeTransmitHook : prog := Eval compute in [
  mkNode CAssign (bytes_of_string "sig m func() func(context.Context) error") [1];
  mkNode CRet (bytes_of_string "return m.beforeTransmitHook") []
].

Definition p_gen_Tx_TransmitTime : prog := Eval compute in [
  mkNode CAssign (bytes_of_string "sig m func() time.Time") [1];
  mkNode CRet (bytes_of_string "return m.transmitTime") []
].

Definition p_gen_Tx_SetTransmitTime : prog := Eval compute in [
  mkNode CAssign (bytes_of_string "sig m func(t time.Time)") [1];
  mkNode CAssign (bytes_of_string "m.transmitTime = t") [2];
  mkNode CRet (bytes_of_string "end") []
].

Definition p_gen_Tx_IsCyclicTransmissionEnabled : prog := Eval compute in [
  mkNode CAssign (bytes_of_string "sig m func() bool") [1];
  mkNode CRet (bytes_of_string "return m.isCyclicEnabled") []
].

Definition p_gen_Tx_SetCyclicTransmissionEnabled : prog := Eval compute in [
  mkNode CAssign (bytes_of_string "sig m func(b bool)") [1];
  mkNode CAssign (bytes_of_string "m.isCyclicEnabled = b") [2];
  mkNode CTrySel (bytes_of_string "case m.wakeUpChan <- struct{}{} ; default") [3; 3];
  mkNode CRet (bytes_of_string "end") []
].

Definition p_gen_Tx_WakeUpChan : prog := Eval compute in [
  mkNode CAssign (bytes_of_string "sig m func() <-chan struct{}") [1];
  mkNode CRet (bytes_of_string "return m.wakeUpChan") []
].

Definition p_gen_Tx_Transmit : prog := Eval compute in [
  mkNode CAssign (bytes_of_string "sig m func(ctx context.Context) error") [1];
  mkNode CSelect (bytes_of_string "case m.transmitEventChan <- struct{}{} ; case <-ctx.Done()") [2; 3];
  mkNode CRet (bytes_of_string "return nil") [];
  mkNode CRet (bytes_of_string "return fmt.Errorf(""event-triggered transmit of <Msg>: %w"", ctx.Err())") []
].

Definition p_gen_Tx_TransmitEventChan : prog := Eval compute in [
  mkNode CAssign (bytes_of_string "sig m func() <-chan struct{}") [1];
  mkNode CRet (bytes_of_string "return m.transmitEventChan") []
].

Definition ref_progs : list (bytes * prog) := Eval compute in [
  (bytes_of_string "Run", p_Run);
  (bytes_of_string "Run.go1", p_Run_go1);
  (bytes_of_string "Run.go2", p_Run_go2);
  (bytes_of_string "Run.go3", p_Run_go3);
  (bytes_of_string "RunMessageReceiver", p_RunMessageReceiver);
  (bytes_of_string "RunMessageTransmitter", p_RunMessageTransmitter);
  (bytes_of_string "RunMessageTransmitter.disableCyclicTransmission", p_RunMessageTransmitter_disableCyclicTransmission);
  (bytes_of_string "RunMessageTransmitter.enableCyclicTransmission", p_RunMessageTransmitter_enableCyclicTransmission);
  (bytes_of_string "RunMessageTransmitter.setCyclicTransmission", p_RunMessageTransmitter_setCyclicTransmission);
  (bytes_of_string "RunMessageTransmitter.transmit", p_RunMessageTransmitter_transmit);
  (bytes_of_string "gen.Node", p_gen_Node);
  (bytes_of_string "gen.Rx.init", p_gen_Rx_init);
  (bytes_of_string "gen.Rx.SetAfterReceiveHook", p_gen_Rx_SetAfterReceiveHook);
  (bytes_of_string "gen.Rx.AfterReceiveHook", p_gen_Rx_AfterReceiveHook);
  (bytes_of_string "gen.Rx.ReceiveTime", p_gen_Rx_ReceiveTime);
  (bytes_of_string "gen.Rx.SetReceiveTime", p_gen_Rx_SetReceiveTime);
  (bytes_of_string "gen.Tx.init", p_gen_Tx_init);
  (bytes_of_string "gen.Tx.SetBeforeTransmitHook", p_gen_Tx_SetBeforeTransmitHook);
  (bytes_of_string "gen.Tx.BeforeTransmitHook", p_gen_Tx_BeforeTransmitHook);
  (bytes_of_string "gen.Tx.TransmitTime", p_gen_Tx_TransmitTime);
  (bytes_of_string "gen.Tx.SetTransmitTime", p_gen_Tx_SetTransmitTime);
  (bytes_of_string "gen.Tx.IsCyclicTransmissionEnabled", p_gen_Tx_IsCyclicTransmissionEnabled);
  (bytes_of_string "gen.Tx.SetCyclicTransmissionEnabled", p_gen_Tx_SetCyclicTransmissionEnabled);
  (bytes_of_string "gen.Tx.WakeUpChan", p_gen_Tx_WakeUpChan);
  (bytes_of_string "gen.Tx.Transmit", p_gen_Tx_Transmit);
  (bytes_of_string "gen.Tx.TransmitEventChan", p_gen_Tx_TransmitEventChan)
].

Close Scope string_scope.

(** names used by DESIGN.md / Properties *)
Definition receiver_prog : prog := p_RunMessageReceiver.
Definition transmitter_prog : list prog :=
  [p_RunMessageTransmitter; p_RunMessageTransmitter_setCyclicTransmission; p_RunMessageTransmitter_enableCyclicTransmission;
   p_RunMessageTransmitter_disableCyclicTransmission; p_RunMessageTransmitter_transmit].
Definition run_prog : list prog := [p_Run; p_Run_go1; p_Run_go2; p_Run_go3].
Definition gen_tx_message_prog : list prog :=
  [p_gen_Tx_init; p_gen_Tx_SetBeforeTransmitHook; p_gen_Tx_BeforeTransmitHook; p_gen_Tx_TransmitTime; p_gen_Tx_SetTransmitTime;
   p_gen_Tx_IsCyclicTransmissionEnabled; p_gen_Tx_SetCyclicTransmissionEnabled; p_gen_Tx_WakeUpChan; p_gen_Tx_Transmit;
   p_gen_Tx_TransmitEventChan].

Fixpoint lookup_prog (name : bytes) (l : list (bytes * prog)) : option prog :=
  match l with
  | [] => None
  | (k, p) :: tl => if bytes_eqb k name then Some p else lookup_prog name tl
  end.

(** generated message methods: no Lock/Unlock/hook/blocking action at all, except the one blocking select of Transmit *)
Definition gen_node_passive (n : node) : bool :=
  match n_cls n with
  | CLock | CUnlock | CHook | CBlock | CCallFn | CGo | CSelect | CMsg => false
  | _ => true
  end.
Definition gen_prog_passive (p : prog) : bool := forallb gen_node_passive p.
