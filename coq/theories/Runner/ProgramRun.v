(** Run's action programs (p_Run and its three goroutine bodies) against the Run-level LTS [qstep] of RunLts.v.
    DEFINITIONS ONLY (proofs: ProgramRunProofs.v; DESIGN.md 9.6).
    Main program: configuration [mkR pc ok ph k]: ph = 1 while inside n.Connect(); k = g.Go(go3) calls made so far.
    Events: node 0 `conn, err := n.Connect()` shows QConnectCall then QConnectRet o; the g.Go nodes 4, 5, 8 are silent and
    the LTS's single [QSpawn n] is shown when the range loop (node 6) is left, n = 1 receiver + k transmitters (the LTS
    starts the whole group atomically: see the note in ProgramRunProofs.v); node 9 `g.Wait()` is silent and can be passed
    only when every goroutine of the group has returned, its error is nil iff no worker failed; the return nodes show
    QReturn (2, 13: error; 12 (`closed` in the text), 14: nil).
    Goroutine bodies: go1 = `<-ctx.Done()` (passable when the group's context is done) then `return conn.Close()` = QClose;
    go2 / go3 = `return RunMessageReceiver/Transmitter(..)` = QWorkerRet ok. *)
From Coq Require Import Arith Bool List.
From CanVerif Require Import Dbc.Ast Runner.Lts Runner.RunLts Runner.Program.
Import ListNotations.

Record rcfg := mkR { r_pc : nat; r_ok : bool; r_ph : nat; r_k : nat }.

Definition run_next (q : qstate) (c : rcfg) (o : bool) : option (option qevent * rcfg) :=
  match nth_error p_Run (r_pc c) with
  | None => None
  | Some n =>
      match n_cls n, n_succ n with
      | CCall, [k] =>
          match r_pc c, r_ph c with
          | 0, 0 => Some (Some QConnectCall, mkR 0 (r_ok c) 1 (r_k c))
          | 0, _ => Some (Some (QConnectRet o), mkR k o 0 (r_k c))
          | _, _ => Some (None, mkR k (r_ok c) 0 (r_k c))
          end
      | CCall, [k1; k2] =>      (* for _, m := range n.TransmittedMessages() *)
          if o then Some (None, mkR k1 (r_ok c) 0 (r_k c))
          else Some (Some (QSpawn (S (r_k c))), mkR k2 (r_ok c) 0 (r_k c))
      | CTest, [k1; k2] =>
          match r_pc c with
          | 11 => Some (None, mkR (if o then k1 else k2) (r_ok c) 0 (r_k c))     (* strings.Contains(err.Error(), "closed") *)
          | _ => Some (None, mkR (if r_ok c then k2 else k1) (r_ok c) 0 (r_k c))  (* err != nil *)
          end
      | CGo, [k] => Some (None, mkR k (r_ok c) 0 (match r_pc c with 8 => S (r_k c) | _ => r_k c end))
      | CAssign, [k] => Some (None, mkR k (r_ok c) 0 (r_k c))
      | CBlock, [k] => Some (None, mkR k (negb (q_failed q)) 0 (r_k c))           (* err := g.Wait() *)
      | CRet, [] => Some (Some (QReturn (match r_pc c with 12 | 14 => true | _ => false end)),
                          mkR (List.length p_Run) (r_ok c) 0 (r_k c))
      | _, _ => None
      end
  end.

Definition rabs (c : rcfg) : qpc :=
  match r_pc c with
  | 0 => match r_ph c with 0 => QStart | _ => QConnecting end
  | 1 => if r_ok c then QConnected else QConnFailed
  | 2 => QConnFailed
  | 3 | 4 | 5 | 6 | 7 | 8 => QConnected
  | 9 | 10 | 11 | 12 | 13 | 14 => QRunning
  | _ => QReturned
  end.

(** g.Wait() has returned: the group is empty and the local err is nil iff no worker failed *)
Definition waited (c : rcfg) (q : qstate) : Prop :=
  q_live q = 0 /\ q_closer q = false /\ r_ok c = negb (q_failed q).
Definition rsim (c : rcfg) (q : qstate) : Prop :=
  q_pc q = rabs c /\
  match r_pc c with
  | 10 | 14 => waited c q
  | 11 | 12 | 13 => waited c q /\ r_ok c = false
  | _ => True
  end.
(** g.Wait() returns only when every goroutine of the group has returned *)
Definition renabled (c : rcfg) (q : qstate) : Prop :=
  match r_pc c with 9 => q_live q = 0 /\ q_closer q = false | _ => True end.

(** goroutine bodies: (program, pc) -> event; go1's receive from ctx.Done() needs the group's context done *)
Definition go1_next (pc : nat) : option (option qevent * nat) :=
  match nth_error p_Run_go1 pc with
  | Some n => match n_cls n, n_succ n with
              | CBlock, [k] => Some (None, k)
              | CRet, [] => Some (Some QClose, List.length p_Run_go1)
              | _, _ => None end
  | None => None
  end.
Definition worker_next (p : prog) (pc : nat) (o : bool) : option (option qevent * nat) :=
  match nth_error p pc with
  | Some n => match n_cls n, n_succ n with
              | CCall, [k] => Some (None, k)
              | CRet, [] => Some (Some (QWorkerRet o), List.length p)
              | _, _ => None end
  | None => None
  end.
