(** Proofs about the two extensions of RunLts.v (C14).

    1. Send deadlines.  For every reachable state of the timed layer (any configuration, any
       interleaving, any clock readings the environment chooses):
         [deadline_window]    a deadline d in force for transmitter t satisfies
                              hook_return_time t + send_timeout <= d <= last_clock_reading t + send_timeout
         [transmit_deadline]  the same at the moment TransmitFrame is called: the deadline handed to
                              the frame transmitter was derived from a clock reading taken AFTER the
                              before-transmit hook of this transmission returned and not after the call;
                              hence the time a slow hook (or waiting for the node lock) takes is never
                              charged to the send timeout
         [timed_refines]      forgetting time, a timed run is a run of Lts.v (all theorems of
                              LockDiscipline.v / Protocol.v apply to it)
         [untimed_can_be_timed] and every run of Lts.v is the image of a timed run: the layer adds
                              observations, it removes no behaviour.
    2. Run.  For every reachable state of the Run LTS - the cancellation may come before Run is
       called, during Connect, while running or never:
         [run_returns_clean]  Run has returned and Connect had succeeded -> conn.Close() was called
                              (exactly once), every worker goroutine and the closer have returned
         [run_no_conn_no_close]  Connect failed -> nothing is closed, Run returns the error
         [close_needs_stop]   the connection is closed only after a cancellation or a failure
         [return_needs_stop]  a connected Run returns only after a cancellation or a failure
         [run_cancel_enabled_path]  after a cancellation a connected Run is never stuck: as long as it
                              has not returned, some event other than Cancel is enabled.
    3. Frame shapes: a remote / extended / wrong-length frame with a known ID takes the ordinary
       locked path of the receiver and ends it with the unmarshal error ([rejected_known_frame_trace],
       [rejected_known_frame_stops]); cyclic transmission enabled before the transmitter started
       (no wake-up token) is in force once the loop is parked ([enabled_parked_is_armed]).
    4. Ticker eligibility: the cyclic bit never changes and a transmitter whose message is not
       (send type cyclic AND cycle time > 0) never has a ticker, never a buffered tick, never takes
       a tick: all its frames answer event requests ([ticker_guard], [not_eligible_frames_are_requests],
       [armed_implies_eligible]) - however often cyclic transmission is "enabled" on it. *)
From Coq Require Import Arith Bool List Lia ZArith.
From CanVerif Require Import Runner.Lts Runner.RunModel Runner.LockDiscipline Runner.Protocol Runner.RunLts.
Import ListNotations.

(* ---------------------------------------------------------------- 1. send deadlines *)

Lemma send_timeout_pos c : (0 <= c)%Z -> (0 < send_timeout c)%Z.
Proof. unfold send_timeout, default_send_timeout. destruct (Z.eqb_spec c 0); lia. Qed.

(** at X9 the only own step is the call of TransmitFrame *)
Lemma x9_only_transmit s e s' t x :
  th s t = TTx x -> t_pc x = X9 -> actor e = Some t -> step_fn s e = Some s' ->
  exists f ok, e = Transmit t f ok.
Proof.
  intros Ht Hpc Ha H. destruct e; cbn in Ha; inv Ha; cbn [step_fn] in H; unfold on_thread in H; rewrite ?Ht in H; cbn in H;
    unfold tx_local in H; rewrite ?Hpc in H; try discriminate.
  - destruct (owner s); discriminate.
  - destruct w; rewrite ?Hpc in H; discriminate.
  - destruct (th s a); discriminate.
  - eauto.
Qed.

Lemma at_x9_inv s t : at_x9 s t = true -> exists x, th s t = TTx x /\ t_pc x = X9.
Proof.
  unfold at_x9. destruct (th s t) as [p|x|a|]; try discriminate. destruct (t_pc x) eqn:E; try discriminate. eauto.
Qed.

Lemma at_x9_preserved s e s' t :
  step_fn s e = Some s' -> at_x9 s t = true -> (forall f ok, e <> Transmit t f ok) -> at_x9 s' t = true.
Proof.
  intros H Hx Hne. destruct (at_x9_inv _ _ Hx) as (x & Ht & Hpc).
  destruct (is_actor t e) eqn:Ha.
  - unfold is_actor in Ha. destruct (actor e) as [a|] eqn:Ea; [|discriminate].
    apply Nat.eqb_eq in Ha. subst a.
    destruct (x9_only_transmit _ _ _ _ _ Ht Hpc Ea H) as (f & ok & ->). exfalso. eapply Hne; reflexivity.
  - destruct (other_step_tx _ _ _ _ _ H Ha Ht) as (x' & Ht' & Hpc').
    unfold at_x9. rewrite Ht', Hpc', Hpc. reflexivity.
Qed.

Lemma hookret_not_x9 s t ok s' : step_fn s (HookRet t ok) = Some s' -> at_x9 s t = false.
Proof.
  cbn. unfold on_thread, at_x9. destruct (th s t) as [p|x|a|]; cbn; auto.
  destruct (t_pc x); cbn; auto; discriminate.
Qed.

Lemma transmit_at_x9 s t f ok s' : step_fn s (Transmit t f ok) = Some s' -> at_x9 s t = true.
Proof.
  cbn. unfold at_x9. destruct (th s t) as [p|x|a|]; try discriminate. unfold tx_local.
  destruct (t_pc x); try discriminate. reflexivity.
Qed.

Definition TInv (cyc : tid -> Z) (ts : tstate) : Prop :=
  forall t,
    (ts_hr ts t <= ts_clk ts t)%Z /\
    forall d, ts_dl ts t = Some d ->
      at_x9 (ts_s ts) t = true /\
      (ts_hr ts t + send_timeout (cyc t) <= d <= ts_clk ts t + send_timeout (cyc t))%Z.

Lemma TInv_init cyc cfg : TInv cyc (tinit cfg).
Proof. intros t. cbn. split; [lia|]. intros d H. discriminate. Qed.

Lemma tupd_same {A : Type} (f : tid -> A) t v : tupd f t v t = v.
Proof. unfold tupd. rewrite Nat.eqb_refl. reflexivity. Qed.

Lemma tupd_other {A : Type} (f : tid -> A) t u v : u <> t -> tupd f t v u = f u.
Proof. unfold tupd. intros H. destruct (Nat.eqb_spec u t); [contradiction|reflexivity]. Qed.

Lemma TInv_step cyc ts te ts' : TInv cyc ts -> tstep cyc ts te = Some ts' -> TInv cyc ts'.
Proof.
  intros I H. destruct te as [e|t c|t c|t f ok d]; cbn [tstep] in H.
  - (* TE e *)
    assert (Hnt : forall t f ok, e <> Transmit t f ok -> True) by auto.
    destruct (step_fn (ts_s ts) e) as [s'|] eqn:Hs.
    2:{ destruct e; discriminate. }
    assert (Hno : forall u f ok, e <> Transmit u f ok).
    { intros u f ok ->. discriminate. }
    assert (E : ts' = mkT s' (ts_clk ts)
                     (match e with HookRet t _ => tupd (ts_hr ts) t (ts_clk ts t) | _ => ts_hr ts end) (ts_dl ts)).
    { destruct e; inv H; reflexivity. }
    clear H. subst ts'. intros u. destruct (I u) as [I1 I2]. cbn [ts_s ts_clk ts_hr ts_dl].
    assert (Hx : forall d, ts_dl ts u = Some d -> at_x9 s' u = true).
    { intros d Hd. destruct (I2 d Hd) as [X _]. eapply at_x9_preserved; eauto. }
    destruct e; try (split; [exact I1|]; intros d Hd; split; [eapply Hx; eauto|apply (I2 d Hd)]).
    (* HookRet t ok *)
    destruct (Nat.eq_dec u t) as [->|Hne].
    + rewrite tupd_same. split; [lia|]. intros d Hd. destruct (I2 d Hd) as [X _].
      rewrite (hookret_not_x9 _ _ _ _ Hs) in X. discriminate.
    + rewrite tupd_other by auto. split; [exact I1|]. intros d Hd. split; [eapply Hx; eauto|apply (I2 d Hd)].
  - (* TStamp *)
    destruct (Z.leb_spec (ts_clk ts t) c) as [Hle|]; inv H. intros u. destruct (I u) as [I1 I2]. cbn.
    destruct (Nat.eq_dec u t) as [->|Hne].
    + rewrite tupd_same. split; [lia|]. intros d Hd. destruct (I2 d Hd) as [X Y]. split; [exact X|lia].
    + rewrite tupd_other by auto. split; [exact I1|exact I2].
  - (* TDeadline *)
    destruct (at_x9 (ts_s ts) t) eqn:Hx; cbn in H; [|discriminate].
    destruct (ts_dl ts t) eqn:Hd0; cbn in H; [discriminate|].
    destruct (Z.leb_spec (ts_clk ts t) c) as [Hle|]; inv H. intros u. destruct (I u) as [I1 I2]. cbn.
    destruct (Nat.eq_dec u t) as [->|Hne].
    + rewrite !tupd_same. split; [lia|]. intros d Hd. inv Hd. split; [exact Hx|lia].
    + rewrite !tupd_other by auto. split; [exact I1|exact I2].
  - (* TTransmit *)
    destruct (ts_dl ts t) as [d'|] eqn:Hd0; [|discriminate].
    destruct (Z.eqb d d'); [|discriminate].
    destruct (step_fn (ts_s ts) (Transmit t f ok)) as [s'|] eqn:Hs; inv H.
    intros u. destruct (I u) as [I1 I2]. cbn. split; [exact I1|].
    destruct (Nat.eq_dec u t) as [->|Hne].
    + rewrite tupd_same. intros d0 Hd. discriminate.
    + rewrite tupd_other by auto. intros d0 Hd. destruct (I2 d0 Hd) as [X Y]. split; [|exact Y].
      eapply at_x9_preserved; eauto. intros f0 ok0 E. inv E. contradiction.
Qed.

Theorem TInv_reachable cyc cfg ts : treachable cyc cfg ts -> TInv cyc ts.
Proof. induction 1; [apply TInv_init|eapply TInv_step; eauto]. Qed.

Theorem deadline_window cyc cfg ts t d :
  treachable cyc cfg ts -> ts_dl ts t = Some d ->
  at_x9 (ts_s ts) t = true /\
  (ts_hr ts t + send_timeout (cyc t) <= d <= ts_clk ts t + send_timeout (cyc t))%Z.
Proof. intros R Hd. destruct (TInv_reachable _ _ _ R t) as [_ I2]. exact (I2 d Hd). Qed.

Theorem transmit_deadline cyc cfg ts t f ok d ts' :
  treachable cyc cfg ts -> tstep cyc ts (TTransmit t f ok d) = Some ts' ->
  (ts_hr ts t + send_timeout (cyc t) <= d <= ts_clk ts t + send_timeout (cyc t))%Z.
Proof.
  intros R H. cbn [tstep] in H. destruct (ts_dl ts t) as [d'|] eqn:Hd; [|discriminate].
  destruct (Z.eqb_spec d d'); [|discriminate]. subst d'.
  destruct (deadline_window _ _ _ _ _ R Hd) as [_ Y]. exact Y.
Qed.

(** the hook's duration is not charged to the send timeout: the deadline lies strictly after the
    hook's return, by at least the whole timeout *)
Corollary transmit_deadline_after_hook cyc cfg ts t f ok d ts' :
  treachable cyc cfg ts -> tstep cyc ts (TTransmit t f ok d) = Some ts' -> (0 <= cyc t)%Z ->
  (ts_hr ts t < d)%Z.
Proof.
  intros R H Hc. pose proof (transmit_deadline _ _ _ _ _ _ _ _ R H). pose proof (send_timeout_pos _ Hc). lia.
Qed.

(** a transmission can only be observed with a deadline: the frame transmitter is never handed a
    context without one *)
Theorem transmit_has_deadline cyc ts e ts' t f ok :
  tstep cyc ts e = Some ts' -> untimed e = [Transmit t f ok] -> exists d, e = TTransmit t f ok d /\ ts_dl ts t = Some d.
Proof.
  intros H U. destruct e as [e|u c|u c|u g k d]; cbn in U; try discriminate.
  - inv U. discriminate.
  - inv U. cbn [tstep] in H. destruct (ts_dl ts t) as [d'|] eqn:Hd; [|discriminate].
    destruct (Z.eqb_spec d d'); [|discriminate]. subst. eauto.
Qed.

Lemma tstep_untimed cyc ts e ts' : tstep cyc ts e = Some ts' -> run (ts_s ts) (untimed e) = Some (ts_s ts').
Proof.
  intros H. destruct e as [e|t c|t c|t f ok d]; cbn [tstep] in H; cbn [untimed run].
  - destruct (step_fn (ts_s ts) e) as [s'|] eqn:Hs; [|destruct e; discriminate].
    destruct e; inv H; reflexivity.
  - destruct (Z.leb (ts_clk ts t) c); inv H. reflexivity.
  - destruct (at_x9 (ts_s ts) t && no_deadline (ts_dl ts t) && Z.leb (ts_clk ts t) c); inv H. reflexivity.
  - destruct (ts_dl ts t); [|discriminate]. destruct (Z.eqb d z); [|discriminate].
    destruct (step_fn (ts_s ts) (Transmit t f ok)); inv H. reflexivity.
Qed.

Lemma run_app s tr1 tr2 s1 : run s tr1 = Some s1 -> run s (tr1 ++ tr2) = run s1 tr2.
Proof.
  revert s. induction tr1 as [|e tl IH]; intros s H; cbn in *.
  - inv H. reflexivity.
  - destruct (step_fn s e); [|discriminate]. apply IH; auto.
Qed.

Theorem timed_refines cyc tr : forall ts ts',
  trun cyc ts tr = Some ts' -> run (ts_s ts) (flat_map untimed tr) = Some (ts_s ts').
Proof.
  induction tr as [|e tl IH]; intros ts ts' H; cbn in *.
  - inv H. reflexivity.
  - destruct (tstep cyc ts e) as [ts1|] eqn:E; [|discriminate].
    rewrite (run_app _ _ _ _ (tstep_untimed _ _ _ _ E)). apply IH; auto.
Qed.

(** conversely: every run of Lts.v carries a timing (here: the deadline is derived at the last
    clock reading, right before each call) *)
Theorem untimed_can_be_timed cyc tr : forall ts s',
  (forall t, ts_dl ts t = None) -> run (ts_s ts) tr = Some s' ->
  exists ttr ts', flat_map untimed ttr = tr /\ trun cyc ts ttr = Some ts' /\ ts_s ts' = s' /\
                  (forall t, ts_dl ts' t = None).
Proof.
  induction tr as [|e tl IH]; intros ts s' Hn H; cbn in H.
  - inv H. exists [], ts. cbn. auto.
  - destruct (step_fn (ts_s ts) e) as [s1|] eqn:Hs; [|discriminate].
    assert (Cases : (exists t f ok, e = Transmit t f ok) \/ (forall t f ok, e <> Transmit t f ok)).
    { destruct e; try (right; intros; discriminate). left; eauto. }
    destruct Cases as [(t & f & ok & ->)|Hne].
    + set (c := ts_clk ts t).
      set (d := (c + send_timeout (cyc t))%Z).
      set (ts1 := mkT (ts_s ts) (tupd (ts_clk ts) t c) (ts_hr ts) (tupd (ts_dl ts) t (Some d))).
      set (ts2 := mkT s1 (ts_clk ts1) (ts_hr ts1) (tupd (ts_dl ts1) t None)).
      assert (E1 : tstep cyc ts (TDeadline t c) = Some ts1).
      { cbn [tstep]. rewrite (transmit_at_x9 _ _ _ _ _ Hs), (Hn t). cbn. unfold c. rewrite Z.leb_refl. reflexivity. }
      assert (E2 : tstep cyc ts1 (TTransmit t f ok d) = Some ts2).
      { cbn [tstep]. unfold ts1 at 1. cbn [ts_dl]. rewrite tupd_same. rewrite Z.eqb_refl.
        unfold ts1 at 1. cbn [ts_s]. rewrite Hs. reflexivity. }
      assert (Hn2 : forall u, ts_dl ts2 u = None).
      { intros u. unfold ts2, ts1. cbn. unfold tupd. destruct (Nat.eqb u t); auto. }
      destruct (IH ts2 s' Hn2 H) as (ttr & ts' & A & B & C & D).
      exists (TDeadline t c :: TTransmit t f ok d :: ttr), ts'. cbn [flat_map untimed List.app trun].
      rewrite E1, E2. repeat split; auto. rewrite A. reflexivity.
    + set (ts1 := mkT s1 (ts_clk ts)
                      (match e with HookRet t _ => tupd (ts_hr ts) t (ts_clk ts t) | _ => ts_hr ts end) (ts_dl ts)).
      assert (E1 : tstep cyc ts (TE e) = Some ts1).
      { cbn [tstep]. rewrite Hs. destruct e; try reflexivity. exfalso. eapply Hne; reflexivity. }
      destruct (IH ts1 s' Hn H) as (ttr & ts' & A & B & C & D).
      exists (TE e :: ttr), ts'. cbn [flat_map untimed List.app trun]. rewrite E1. repeat split; auto. rewrite A. reflexivity.
Qed.

Corollary accepted_can_be_timed cyc cfg tr :
  accepts cfg tr = true -> exists ttr ts', flat_map untimed ttr = tr /\ trun cyc (tinit cfg) ttr = Some ts'.
Proof.
  unfold accepts. destruct (run (init cfg) tr) as [s'|] eqn:H; [|discriminate]. intros _.
  destruct (untimed_can_be_timed cyc tr (tinit cfg) s' (fun _ => eq_refl) H) as (ttr & ts' & A & B & _).
  eauto.
Qed.

(* ---------------------------------------------------------------- 2. Run *)

Definition QInv (q : qstate) : Prop :=
  match q_pc q with
  | QStart | QConnecting | QConnFailed =>
      q_connected q = false /\ q_closes q = 0 /\ q_live q = 0 /\ q_closer q = false /\ q_failed q = false
  | QConnected =>
      q_connected q = true /\ q_closes q = 0 /\ q_live q = 0 /\ q_closer q = false /\ q_failed q = false
  | QRunning =>
      q_connected q = true /\ q_closes q + (if q_closer q then 1 else 0) = 1 /\
      (q_closes q = 1 -> q_cancelled q || q_failed q = true)
  | QReturned =>
      (q_connected q = true ->
         q_closes q = 1 /\ q_live q = 0 /\ q_closer q = false /\ q_cancelled q || q_failed q = true) /\
      (q_connected q = false -> q_closes q = 0 /\ q_live q = 0 /\ q_closer q = false)
  end.

Lemma QInv_init : QInv qinit.
Proof. cbn. auto. Qed.

Lemma QInv_step q e q' : QInv q -> qstep q e = Some q' -> QInv q'.
Proof.
  intros I H. destruct q as [pc ca fa co li cl n]. unfold QInv in *. cbn in *.
  destruct e; destruct pc; cbn in H; try discriminate;
    repeat match type of H with
    | context [match ?x with _ => _ end] => destruct x eqn:?; cbn in H; try discriminate
    end;
    inv H; cbn in *;
    repeat match goal with
    | H : _ /\ _ |- _ => destruct H
    | H : Nat.eqb _ _ = true |- _ => apply Nat.eqb_eq in H
    end; subst;
    repeat split; intros; subst; cbn in *;
    repeat match goal with
    | H : ?a = ?a -> _ |- _ => specialize (H eq_refl)
    | H : _ /\ _ |- _ => destruct H
    end;
    try congruence; try lia;
    repeat match goal with
    | b : bool |- _ => destruct b; cbn in *; try congruence; try lia
    end;
    repeat match goal with
    | H : _ && _ = true |- _ => apply andb_prop in H; destruct H
    | H : Nat.eqb _ _ = true |- _ => apply Nat.eqb_eq in H
    end; auto.
Qed.

Theorem QInv_reachable q : qreachable q -> QInv q.
Proof. induction 1; [apply QInv_init|eapply QInv_step; eauto]. Qed.

(** on every return path after a successful Connect the connection has been closed and every
    goroutine of the group has returned - whenever the cancellation came *)
Theorem run_returns_clean q :
  qreachable q -> q_pc q = QReturned -> q_connected q = true ->
  q_closes q = 1 /\ q_live q = 0 /\ q_closer q = false.
Proof.
  intros R Hp Hc. pose proof (QInv_reachable _ R) as I. unfold QInv in I. rewrite Hp in I.
  destruct I as [A _]. destruct (A Hc) as (X & Y & Z & _). auto.
Qed.

Theorem run_no_conn_no_close q :
  qreachable q -> q_connected q = false -> q_closes q = 0 /\ q_live q = 0 /\ q_closer q = false.
Proof.
  intros R Hc. pose proof (QInv_reachable _ R) as I. unfold QInv in I.
  destruct (q_pc q); try (destruct I as (A & B & C & D & E); auto; fail); try (destruct I as [A _]; congruence).
  destruct I as [_ B]. auto.
Qed.

Theorem q_clean_reachable q : qreachable q -> q_clean q = true.
Proof.
  intros R. unfold q_clean. destruct (q_pc q) eqn:Hp; auto. destruct (q_connected q) eqn:Hc.
  - destruct (run_returns_clean _ R Hp Hc) as (A & B & C). rewrite A, B, C. reflexivity.
  - destruct (run_no_conn_no_close _ R Hc) as (A & _). rewrite A. reflexivity.
Qed.

Theorem close_needs_stop q : qreachable q -> q_closes q <> 0 -> q_cancelled q || q_failed q = true.
Proof.
  intros R Hn. pose proof (QInv_reachable _ R) as I. unfold QInv in I.
  destruct (q_pc q); try (destruct I as (A & B & C); congruence).
  - destruct I as (A & B & C). apply C. destruct (q_closer q); lia.
  - destruct I as [A B]. destruct (q_connected q).
    + destruct (A eq_refl) as (_ & _ & _ & W). exact W.
    + destruct (B eq_refl) as (X & _). congruence.
Qed.

Theorem return_needs_stop q :
  qreachable q -> q_pc q = QReturned -> q_connected q = true -> q_cancelled q || q_failed q = true.
Proof.
  intros R Hp Hc. pose proof (QInv_reachable _ R) as I. unfold QInv in I. rewrite Hp in I.
  destruct I as [A _]. destruct (A Hc) as (_ & _ & _ & W). exact W.
Qed.

(** Run cannot return between a successful Connect and the start of the group: from QConnected the
    only enabled events are Cancel and Spawn *)
Theorem connected_no_early_return q ok : q_pc q = QConnected -> qstep q (QReturn ok) = None.
Proof. intros H. unfold qstep. rewrite H. reflexivity. Qed.

Theorem running_return_needs_close q ok q' :
  q_pc q = QRunning -> qstep q (QReturn ok) = Some q' -> q_closer q = false /\ q_live q = 0.
Proof.
  intros Hp H. unfold qstep in H. rewrite Hp in H.
  destruct (Nat.eqb_spec (q_live q) 0); cbn in H; [|discriminate].
  destruct (q_closer q); cbn in H; [discriminate|]. auto.
Qed.

(** after a cancellation a Run that has been called and has not returned always has a next step
    of its own or of one of its goroutines (nothing waits for an event that cannot come) *)
Theorem run_cancel_enabled_path q :
  qreachable q -> q_cancelled q = true -> q_pc q <> QStart -> q_pc q <> QReturned ->
  exists e q', e <> QCancel /\ qstep q e = Some q'.
Proof.
  intros R Hc Hs Hr. pose proof (QInv_reachable _ R) as I. unfold QInv in I.
  destruct q as [pc ca fa co li cl n]. cbn in *. subst ca.
  destruct pc; try contradiction.
  - exists (QConnectRet true). eexists. split; [discriminate|reflexivity].
  - exists (QReturn false). eexists. split; [discriminate|reflexivity].
  - exists (QSpawn 0). eexists. split; [discriminate|reflexivity].
  - destruct cl.
    + exists QClose. eexists. split; [discriminate|reflexivity].
    + destruct li as [|k].
      * exists (QReturn true). eexists. split; [discriminate|]. cbn. rewrite orb_true_r. reflexivity.
      * exists (QWorkerRet true). eexists. split; [discriminate|reflexivity].
Qed.

(* ---------------------------------------------------------------- 3. frame shapes, enabled at start *)

Lemma remote_not_accepted e l f : sh_remote f = true -> shape_accepts e l f = false.
Proof. unfold shape_accepts. intros ->. cbn. rewrite andb_false_r. reflexivity. Qed.

Lemma extended_mismatch_not_accepted e l f : sh_extended f <> e -> shape_accepts e l f = false.
Proof.
  unfold shape_accepts. intros H. destruct (sh_extended f), e; cbn; try congruence; rewrite andb_false_r; reflexivity.
Qed.

Lemma wrong_length_not_accepted e l f : sh_len f <> l -> shape_accepts e l f = false.
Proof. unfold shape_accepts. intros H. apply Nat.eqb_neq in H. rewrite H. reflexivity. Qed.

(** the events of the receiver for a frame with a known ID that the message does not accept: all
    accesses - the receive time included - between Lock and Unlock, no hook call, error return *)
Theorem rejected_known_frame_trace t id e l f hook_ok rest end_ok :
  shape_accepts e l f = false ->
  rx_trace t (rframe_of_shape id true e l f hook_ok :: rest) end_ok =
  [Recv t true; RxFrame t; Lookup t true; Lock t; Access t WHook; Access t WTime;
   Access t (WUnmarshal false); Unlock t; Done t false].
Proof. intros H. cbn. rewrite H. reflexivity. Qed.

Theorem rejected_known_frame_stops id e l f hook_ok rest end_ok :
  shape_accepts e l f = false ->
  run_receiver (rframe_of_shape id true e l f hook_ok :: rest) end_ok = ([ActApply id], ResUnmarshal id).
Proof. intros H. cbn. rewrite H. reflexivity. Qed.

(** cyclic transmission that is enabled - no matter whether by a toggle during the run or before
    the transmitter was started, with the wake-up token long consumed ([RoleTxOn]) - is in force
    whenever the loop is parked with nothing pending *)
Theorem enabled_parked_is_armed cfg s t x :
  reachable cfg s -> th s t = TTx x -> t_pc x = SEL -> t_wake x = false ->
  (forall a ap, th s a = TApp ap -> a_pc ap <> AMid t) ->
  t_flag x = true -> t_cyclic x = true -> t_armed x = true.
Proof.
  intros R Ht Hp Hw Hm Hf Hc. rewrite (I5_parked_ticker_matches_flag _ _ _ _ R Ht Hp Hw Hm), Hf, Hc. reflexivity.
Qed.

(* ---------------------------------------------------------------- 4. ticker eligibility *)

Definition noticker (x : tx) : Prop :=
  t_cyclic x = false -> t_armed x = false /\ t_tick x = false /\ t_tk x = 0.
Definition keeps (x x' : tx) : Prop := t_cyclic x' = t_cyclic x /\ (noticker x -> noticker x').

Lemma keeps_refl x : keeps x x.
Proof. split; auto. Qed.

Ltac fin_keeps x :=
  eexists; split; [reflexivity|]; unfold keeps, noticker, apply_ticker; destruct x; cbn in *;
  repeat match goal with |- context [if ?b then _ else _] => destruct b eqn:?; cbn in * end;
  split; [reflexivity|]; intros N C; try (destruct (N C) as (? & ? & ?)); subst; cbn in *; try congruence; auto.

Lemma step_keeps s e s' t x :
  step_fn s e = Some s' -> th s t = TTx x -> exists x', th s' t = TTx x' /\ keeps x x'.
Proof.
  intros H Ht.
  destruct e; cbn [step_fn] in H;
    unfold on_thread, lock_thread, unlock_thread, access_thread, hookcall_thread, hookret_thread, tx_local, rx_local in H;
    break_step; cbn [th set_th set_owner]; unfold upd;
    repeat match goal with
    | |- context [Nat.eqb ?a ?b] => destruct (Nat.eqb_spec a b); subst
    end;
    repeat match goal with
    | H1 : th s ?u = _, H2 : th s ?u = _ |- _ => rewrite H1 in H2; inv H2
    end;
    try congruence;
    try (exists x; split; [assumption|apply keeps_refl]);
    try (fin_keeps x);
    try (destruct ok; fin_keeps x).
  eexists; split; [reflexivity|]. unfold keeps, noticker, apply_ticker. destruct x; cbn in *.
  destruct t_last, t_cyclic, t_armed; cbn; (split; [reflexivity|]); intros N C; try congruence;
    destruct (N C) as (? & ? & ?); subst; auto; congruence.
Qed.

Theorem ticker_guard cfg s :
  reachable cfg s -> forall t c, role_cyclic (cfg t) = Some c ->
  exists x, th s t = TTx x /\ t_cyclic x = c /\
            (c = false -> t_armed x = false /\ t_tick x = false /\ t_tk x = 0).
Proof.
  induction 1 as [|s e s' R IH Hs]; intros t c Hc.
  - cbn. destruct (cfg t); cbn in Hc; inv Hc; eexists; (split; [reflexivity|]); cbn; auto.
  - destruct (IH t c Hc) as (x & Ht & Hcy & Hn).
    destruct (step_keeps _ _ _ _ _ Hs Ht) as (x' & Ht' & Hk1 & Hk2).
    exists x'. split; [exact Ht'|]. split; [congruence|]. intros ->. apply Hk2; [|congruence].
    intros _. apply Hn. reflexivity.
Qed.

(** a message that is not (cyclic AND cycle time > 0) transmits only on request, whatever is toggled *)
Theorem not_eligible_frames_are_requests cfg s t x :
  reachable cfg s -> role_cyclic (cfg t) = Some false -> th s t = TTx x ->
  t_armed x = false /\ t_tk x = 0 /\ t_txd x <= t_acc x.
Proof.
  intros R Hc Ht. destruct (ticker_guard _ _ R t false Hc) as (y & Hy & _ & Hn).
  rewrite Ht in Hy. inv Hy. destruct (Hn eq_refl) as (A & B & C).
  pose proof (no_frame_without_trigger _ _ _ _ R Ht). repeat split; auto. lia.
Qed.

Theorem armed_implies_eligible st cyc on cfg s t x :
  reachable cfg s -> cfg t = role_of_descriptor st cyc on -> th s t = TTx x -> t_armed x = true ->
  st = send_type_cyclic /\ (0 < cyc)%Z.
Proof.
  intros R Hc Ht Ha.
  assert (Hr : role_cyclic (cfg t) = Some (ticker_eligible st cyc)) by (rewrite Hc; unfold role_of_descriptor; destruct on; reflexivity).
  destruct (ticker_guard _ _ R t _ Hr) as (y & Hy & Hcy & Hn). rewrite Ht in Hy. inv Hy.
  destruct (ticker_eligible st cyc) eqn:E.
  - unfold ticker_eligible in E. apply andb_prop in E. destruct E as [E1 E2].
    apply Nat.eqb_eq in E1. apply Z.ltb_lt in E2. auto.
  - destruct (Hn eq_refl) as (A & _). congruence.
Qed.

(* ---------------------------------------------------------------- 5. which hook runs *)

(** the hook the runner calls for a frame / a transmission is the one that was installed when the
    runner read the field inside its critical section - whatever the application installs between
    the runner's Unlock and the call *)
Theorem kcall_is_locked_read pre mid h f0 k :
  krun (kinit f0) (pre ++ [KLock]) = Some k ->
  (forall e, In e mid -> e <> KLock) ->
  (exists k', krun k (mid ++ [KCall h]) = Some k') ->
  h = k_field k.
Proof.
  intros Hpre Hmid [k' Hrun].
  assert (Hs : k_snap k = k_field k).
  { clear Hrun. revert Hpre. generalize (kinit f0). induction pre as [|e tl IH]; intros k0 H; cbn in H.
    - destruct (k_pc k0); try discriminate; inv H; reflexivity.
    - change (match kstep k0 e with Some k1 => krun k1 (tl ++ [KLock])%list | None => None end = Some k) in H.
      destruct (kstep k0 e); [|discriminate]. eapply IH; eauto. }
  rewrite <- Hs. clear Hs Hpre. revert k Hrun. induction mid as [|e tl IH]; intros k Hrun.
  - cbn in Hrun. destruct (k_pc k); try discriminate. destruct (Nat.eqb_spec h (k_snap k)); [auto|discriminate].
  - change (match kstep k e with Some k1 => krun k1 (tl ++ [KCall h])%list | None => None end = Some k') in Hrun.
    destruct (kstep k e) as [k1|] eqn:E; [|discriminate].
    assert (He : e <> KLock) by (apply Hmid; left; reflexivity).
    assert (Hk : k_snap k1 = k_snap k).
    { unfold kstep in E. destruct e, (k_pc k); try discriminate; try congruence; inv E; try reflexivity.
      destruct (Nat.eqb h0 (k_snap k)); inv H0; reflexivity. }
    rewrite <- Hk. apply IH; auto. intros e' Hin. apply Hmid. right; exact Hin.
Qed.

(** the application cannot replace the hook inside the runner's critical section *)
Theorem kset_not_while_locked k h k' : kstep k (KSet h) = Some k' -> k_pc k <> KLocked /\ k_snap k' = k_snap k.
Proof. unfold kstep. destruct (k_pc k); intros H; inv H; split; auto; discriminate. Qed.
