(** Sequential parts of pkg/canrunner/run.go as pure functions (DEFINITIONS ONLY):
    - [run_receiver]: the loop of RunMessageReceiver over a finite sequence of incoming frames;
    - [rx_trace]: the LTS events (Lts.v) that loop performs, so that the pure function and the
      transition system can be related;
    - [run_result]: how Run maps the results of its goroutines (errgroup: the first non-nil error
      in order of return) to its own result, including the rule
      `strings.Contains(err.Error(), "closed")  ->  nil`  (run.go:93).
    Error texts are [list ascii] (one [ascii] per byte); [None] is Go's nil error. *)
From Coq Require Import Arith Bool List String Ascii.
From CanVerif Require Import Runner.Lts.
Import ListNotations.

(* ---------------------------------------------------------------- receive path *)

(** an incoming frame as the receiver loop sees it: its ID, whether ReceivedMessage(id) knows it,
    whether UnmarshalFrame succeeds, whether the after-receive hook returns nil *)
Record rframe := mkRframe { f_id : nat; f_known : bool; f_unm_ok : bool; f_hook_ok : bool }.

Inductive ract := ActApply (id : nat) | ActHook (id : nat).
Inductive rres := ResNil | ResUnmarshal (id : nat) | ResHook (id : nat) | ResRecv.

(** RunMessageReceiver (run.go:101-124): [end_ok] = rx.Err() is nil when Receive() returns false *)
Fixpoint run_receiver (fs : list rframe) (end_ok : bool) : list ract * rres :=
  match fs with
  | [] => ([], if end_ok then ResNil else ResRecv)
  | f :: tl =>
      if negb (f_known f) then run_receiver tl end_ok
      else if negb (f_unm_ok f) then ([ActApply (f_id f)], ResUnmarshal (f_id f))
      else if negb (f_hook_ok f) then ([ActApply (f_id f); ActHook (f_id f)], ResHook (f_id f))
      else let (a, r) := run_receiver tl end_ok in (ActApply (f_id f) :: ActHook (f_id f) :: a, r)
  end.

(** the events thread [t] performs for that input *)
Fixpoint rx_trace (t : tid) (fs : list rframe) (end_ok : bool) : list event :=
  match fs with
  | [] => [Recv t false; RecvErr t end_ok; Done t end_ok]
  | f :: tl =>
      Recv t true :: RxFrame t :: Lookup t (f_known f) ::
      (if negb (f_known f) then rx_trace t tl end_ok
       else Lock t :: Access t WHook :: Access t WTime :: Access t (WUnmarshal (f_unm_ok f)) :: Unlock t ::
            (if negb (f_unm_ok f) then [Done t false]
             else HookCall t :: HookRet t (f_hook_ok f) ::
                  (if negb (f_hook_ok f) then [Done t false] else rx_trace t tl end_ok)))
  end.

(* ---------------------------------------------------------------- result of Run *)

(** error texts: lists of [ascii] characters ([txt "..."] turns a literal into one; the constants
    below are evaluated so that extraction does not need Coq's [string] type) *)
Definition text := list ascii.
Definition txt (s : string) : text := list_ascii_of_string s.

Definition closed_text : text := Eval compute in txt "closed".
Definition receiver_prefix : text := Eval compute in txt "receiver: ".
Definition transmitter_infix : text := Eval compute in txt " transmitter: ".
Definition run_prefix : text := Eval compute in txt "run ".
Definition node_infix : text := Eval compute in txt " node: ".

Fixpoint prefixb (p s : text) : bool :=
  match p, s with
  | [], _ => true
  | a :: p', b :: s' => Ascii.eqb a b && prefixb p' s'
  | _ :: _, [] => false
  end.

(** strings.Contains *)
Fixpoint contains (needle hay : text) : bool :=
  prefixb needle hay ||
  match hay with
  | [] => false
  | _ :: tl => contains needle tl
  end.

(** errgroup.Wait: the first non-nil result, goroutine results listed in order of return *)
Fixpoint first_error (results : list (option text)) : option text :=
  match results with
  | [] => None
  | Some e :: _ => Some e
  | None :: tl => first_error tl
  end.

(** fmt.Errorf wrappers of run.go *)
Definition wrap_receiver (e : text) : text := (receiver_prefix ++ e)%list.
Definition wrap_transmitter (msg e : text) : text := (msg ++ transmitter_infix ++ e)%list.
Definition wrap_run (node e : text) : text := (run_prefix ++ node ++ node_infix ++ e)%list.

(** Run (run.go:92-98) *)
Definition run_result (node : text) (results : list (option text)) : option text :=
  match first_error results with
  | None => None
  | Some e => if contains closed_text e then None else Some (wrap_run node e)
  end.

(** what the property demands: a goroutine failing with [e] (hook, unmarshal or transmit error)
    makes Run return an error wrapping [e]; no failure (only cancellation) makes it return nil *)
Definition run_spec (node : text) (failure : option text) : option text :=
  match failure with
  | None => None
  | Some e => Some (wrap_run node e)
  end.
