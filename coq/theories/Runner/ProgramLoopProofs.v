(** Refinement of the linked transmitter programs (ProgramLoop.v) by the LTS: case analysis over frames x pcs. *)
From Coq Require Import Arith Bool List Lia.
From CanVerif Require Import Dbc.Ast Runner.Lts Runner.Program Runner.ProgramLts Runner.ProgramLtsProofs Runner.ProgramLoop.
Import ListNotations.

Definition loop_goal (dc dt : bool) (t : nat) (s : state) (x : tx) (e : option event) (c' : tcfg) : Prop :=
  match e with
  | None => sim dc dt c' x
  | Some ev => enabled s t x ev ->
               exists s' x', step_fn s ev = Some s' /\ th s' t = TTx x' /\ sim dc dt c' x'
  end.

Ltac case_vars H :=
  repeat (match type of H with
          | context [if ?v then _ else _] => is_var v; destruct v
          | context [match ?v with 0 => _ | S _ => _ end] => is_var v; destruct v
          end; cbn in H).

Theorem transmitter_loop_refines : forall dc dt t x c o b arm a e c' s,
  tnext dc dt t x c o b arm a = Some (e, c') -> th s t = TTx x -> sim dc dt c x -> loop_goal dc dt t s x e c'.
Proof.
  intros dc dt t x [f pc ok hk vf vt] o b arm a e c' s H Hth [Hpc [Hvt [Hcy [Hgw Hinv]]]].
  destruct x as [xpc gw fl la wk cy ar tk st ac tkn txd ab ct sn]. cbn in Hpc, Hvt, Hcy, Hgw, Hinv. subst xpc ar cy gw.
  destruct f as [|first|first|first|tick]; [| | | | ].
  all: do 23 (try (destruct pc as [|pc])).
  all: cbn in H; try discriminate H.
  all: case_vars H; try discriminate H.
  all: try (injection H as He Hc; subst e c'; unfold loop_goal, sim; cbn;
            try (intros Hen; unfold step_fn, on_thread; cbn in Hen; try rewrite Hen; rewrite Hth; cbn;
                 rewrite ?Nat.eqb_refl; cbn)).
  all: try (repeat split; cbn; auto; fail).
  all: try (match goal with
            | Hen : _ <> _ /\ (exists _, _) |- _ =>
                destruct Hen as [Hne [ap [Ha Hap]]]; rewrite Ha; cbn; rewrite Hap; cbn; rewrite Nat.eqb_refl;
                eexists; eexists; split; [reflexivity | split;
                  [cbn; rewrite upd_other by (intro E; apply Hne; now symmetry); rewrite upd_same; reflexivity
                  | repeat split; cbn; auto]]
            end; fail).
  all: cbn in *; repeat match goal with H : _ /\ _ |- _ => destruct H end; subst.
  all: try (eexists; eexists; split; [reflexivity | split; [cbn; rewrite ?upd_same; reflexivity | repeat split; cbn; auto]]; fail).
  all: try destruct dc; try destruct dt; try destruct vt; cbn in *; try discriminate; try congruence.
  all: try (eexists; eexists; split; [reflexivity | split; [cbn; rewrite ?upd_same; reflexivity | repeat split; cbn; auto]]; fail).
  all: try destruct ok; try destruct vf; try destruct o; try destruct la; try destruct first; cbn in *;
       repeat match goal with H : _ /\ _ |- _ => destruct H end; try discriminate; try congruence.
  all: try (repeat split; cbn; auto; congruence).
  all: try (eexists; eexists; split; [reflexivity | split; [cbn; rewrite ?upd_same; reflexivity | repeat split; cbn; auto]]; fail).
  all: rewrite ?eqb_reflx; cbn.
  all: try (eexists; eexists; split; [reflexivity | split; [cbn; rewrite ?upd_same; reflexivity | repeat split; cbn; auto]]; fail).
Qed.

(* ---------------------------------------------------------------- environment steps keep [sim] *)

Lemma same_sim_refl : forall x, same_sim x x.
Proof. intros; repeat split. Qed.

Lemma sim_same : forall dc dt c x x', same_sim x x' -> sim dc dt c x -> sim dc dt c x'.
Proof.
  intros dc dt c x x' [H1 [H2 [H3 [H4 H5]]]] [S1 [S2 [S3 [S4 S5]]]].
  unfold sim. rewrite H1, H2, H3, H4, H5. repeat split; auto.
Qed.

Ltac destr H :=
  repeat match type of H with
         | context [match ?v with _ => _ end] => destruct v eqn:?; try discriminate H
         end.

Ltac upd_cases t :=
  repeat match goal with
         | |- context [upd _ ?u _ t] =>
             let E := fresh "E" in
             unfold upd at 1; destruct (Nat.eqb t u) eqn:E;
             [apply Nat.eqb_eq in E; subst | ]
         end.

Lemma env_keeps_sim : forall t ev s s' x,
  own t ev = false -> step_fn s ev = Some s' -> th s t = TTx x ->
  exists x', th s' t = TTx x' /\ same_sim x x'.
Proof.
  intros t ev s s' x Hown H Hth.
  destruct ev; cbn in Hown; unfold step_fn, on_thread in H; destr H; injection H as <-; cbn.
  all: upd_cases t.
  all: try (rewrite Nat.eqb_refl in Hown; discriminate Hown).
  all: try (exists x; split; [assumption | apply same_sim_refl]).
  all: try (match goal with H1 : th ?s0 ?u = _, H2 : th ?s0 ?u = _ |- _ => rewrite H1 in H2; try discriminate H2; injection H2 as ? end; subst).
  all: try (eexists; split; [reflexivity | repeat split]).
  all: match goal with H : tx_local _ ?y (Tick _) = Some _ |- _ =>
         unfold tx_local in H; destruct (t_pc y) eqn:Ep; destruct (t_armed y) eqn:Ea; destruct (t_tick y) eqn:Et;
         cbn in H; try discriminate H; injection H as <-; cbn; auto
       end.
Qed.

(** WHOLE EXECUTIONS: any interleaving of steps of the linked transmitter programs with environment transitions is a run
    of the LTS, and the simulation relation holds again at its end *)
Theorem transmitter_execution_refines : forall dc dt t c s tr c2 s2,
  texec dc dt t c s tr c2 s2 -> forall x, th s t = TTx x -> sim dc dt c x ->
  run s tr = Some s2 /\ exists x2, th s2 t = TTx x2 /\ sim dc dt c2 x2.
Proof.
  intros dc dt t c s tr c2 s2 Hx. induction Hx; intros y Hy Hs.
  - cbn. split; auto. exists y; auto.
  - rewrite Hy in H. injection H as <-.
    pose proof (transmitter_loop_refines _ _ _ _ _ _ _ _ _ _ _ _ H0 Hy Hs) as G. cbn in G. eauto.
  - rewrite Hy in H. injection H as <-.
    pose proof (transmitter_loop_refines _ _ _ _ _ _ _ _ _ _ _ _ H0 Hy Hs) as G. cbn in G.
    destruct (G H1) as [s1 [x1 [Hs1 [Hx1 Hsim]]]]. rewrite H2 in Hs1. injection Hs1 as <-.
    cbn. rewrite H2. eauto.
  - destruct (env_keeps_sim _ _ _ _ _ H H0 Hy) as [x1 [Hx1 Hsame]].
    cbn. rewrite H0. apply (IHHx x1 Hx1). eapply sim_same; eauto.
Qed.

Corollary transmitter_execution_reachable : forall cfg dc dt t c s tr c2 s2 x,
  reachable cfg s -> texec dc dt t c s tr c2 s2 -> th s t = TTx x -> sim dc dt c x -> reachable cfg s2.
Proof.
  intros cfg dc dt t c s tr c2 s2 x Hr Hx Hth Hs.
  destruct (transmitter_execution_refines _ _ _ _ _ _ _ _ Hx _ Hth Hs) as [Hrun _].
  clear - Hr Hrun. revert s Hr Hrun. induction tr as [|e tr IH]; intros s Hr Hrun; cbn in Hrun.
  - now injection Hrun as <-.
  - destruct (step_fn s e) eqn:E; try discriminate. apply (IH s0); auto. econstructor; eauto.
Qed.

