(** Refinement of the linked transmitter programs (ProgramLoop.v) by the LTS: case analysis over frames x pcs. *)
From Coq Require Import Arith Bool List Lia.
From CanVerif Require Import Dbc.Ast Runner.Lts Runner.Program Runner.ProgramLts Runner.ProgramLtsProofs Runner.ProgramLoop.
Import ListNotations.

Definition loop_goal (dc dt : bool) (t : nat) (s : state) (x : tx) (e : option event) (c' : tcfg) : Prop :=
  match e with
  | None => sim dc dt c' x
  | Some ev => enabled s t x ev ->
               exists s' x', step_fn s ev = Some s' /\ th s' t = TTx x' /\ sim dc dt c' x'
  end.

Ltac case_vars H :=
  repeat (match type of H with
          | context [if ?v then _ else _] => is_var v; destruct v
          | context [match ?v with 0 => _ | S _ => _ end] => is_var v; destruct v
          end; cbn in H).

Theorem transmitter_loop_refines : forall dc dt t x c o b arm a e c' s,
  tnext dc dt t x c o b arm a = Some (e, c') -> th s t = TTx x -> sim dc dt c x -> loop_goal dc dt t s x e c'.
Proof.
  intros dc dt t x [f pc ok hk vf vt] o b arm a e c' s H Hth [Hpc [Hvt [Hcy [Hgw Hinv]]]].
  destruct x as [xpc gw fl la wk cy ar tk st ac tkn txd ab ct sn]. cbn in Hpc, Hvt, Hcy, Hgw, Hinv. subst xpc ar cy gw.
  destruct f as [|first|first|first|tick]; [| | | | ].
  all: do 23 (try (destruct pc as [|pc])).
  all: cbn in H; try discriminate H.
  all: case_vars H; try discriminate H.
  all: try (injection H as He Hc; subst e c'; unfold loop_goal, sim; cbn;
            try (intros Hen; unfold step_fn, on_thread; cbn in Hen; try rewrite Hen; rewrite Hth; cbn;
                 rewrite ?Nat.eqb_refl; cbn)).
  all: try (repeat split; cbn; auto; fail).
  all: try (match goal with
            | Hen : _ <> _ /\ (exists _, _) |- _ =>
                destruct Hen as [Hne [ap [Ha Hap]]]; rewrite Ha; cbn; rewrite Hap; cbn; rewrite Nat.eqb_refl;
                eexists; eexists; split; [reflexivity | split;
                  [cbn; rewrite upd_other by (intro E; apply Hne; now symmetry); rewrite upd_same; reflexivity
                  | repeat split; cbn; auto]]
            end; fail).
  all: cbn in *; repeat match goal with H : _ /\ _ |- _ => destruct H end; subst.
  all: try (eexists; eexists; split; [reflexivity | split; [cbn; rewrite ?upd_same; reflexivity | repeat split; cbn; auto]]; fail).
  all: try destruct dc; try destruct dt; try destruct vt; cbn in *; try discriminate; try congruence.
  all: try (eexists; eexists; split; [reflexivity | split; [cbn; rewrite ?upd_same; reflexivity | repeat split; cbn; auto]]; fail).
  all: try destruct ok; try destruct vf; try destruct o; try destruct la; try destruct first; cbn in *;
       repeat match goal with H : _ /\ _ |- _ => destruct H end; try discriminate; try congruence.
  all: try (repeat split; cbn; auto; congruence).
  all: try (eexists; eexists; split; [reflexivity | split; [cbn; rewrite ?upd_same; reflexivity | repeat split; cbn; auto]]; fail).
  all: rewrite ?eqb_reflx; cbn.
  all: try (eexists; eexists; split; [reflexivity | split; [cbn; rewrite ?upd_same; reflexivity | repeat split; cbn; auto]]; fail).
Qed.
