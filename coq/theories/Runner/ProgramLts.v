(** Labelled semantics of action programs and the abstraction onto the LTS of Runner/Lts.v.  DEFINITIONS ONLY
    (proofs: ProgramLtsProofs.v; DESIGN.md 9.6 "Action-sequence tie for the runner").

    A thread executing a program has the local configuration [mkL pc ok hook]: [ok] = the outcome recorded last in the
    Go variable the following test reads (`ok` of ReceivedMessage, `err == nil` of UnmarshalFrame / hook / rx.Err /
    TransmitFrame, the result of rx.Receive()); [hook] = 0 outside a hook call, 1 inside the hook body without the node
    lock, 2 inside it holding the lock (the hook body is the application's code: it may Lock and Unlock).
    [lnext p interp outs ret_ok ret_ev t c o b] = the step the thread takes from [c] when the executed call answers [o]
    (b: inside a hook body, "the body locks" rather than "the hook returns"): the LTS event it shows (None = silent: tests,
    assignments, `continue`, calls without a counterpart in the LTS) and the next configuration.  Reading of the classes:
    CTest is a FAILURE test (`!ok`, `err != nil`: successor list [failure branch; success branch]); a two-way call
    (loop condition) goes to its first successor iff it answered true; [outs pc] says whether node pc records its outcome;
    a CRet node ends the function with result [ret_ok pc] (true = nil) and shows [ret_ev result]. *)
From Coq Require Import Arith Bool List.
From CanVerif Require Import Dbc.Ast Runner.Lts Runner.Program.
Import ListNotations.

Record lcfg := mkL { l_pc : nat; l_ok : bool; l_hook : nat }.

Definition pick (o : bool) (ss : list nat) : option nat :=
  match ss with [a] => Some a | [a; b] => Some (if o then a else b) | _ => None end.
Definition pick_test (ok : bool) (ss : list nat) : option nat :=
  match ss with [a; b] => Some (if ok then b else a) | _ => None end.

Definition lnext (p : prog) (interp : nat -> bool -> option event) (outs : nat -> bool) (ret_ok : nat -> bool)
           (ret_ev : bool -> option event) (t : nat) (c : lcfg) (o b : bool) : option (option event * lcfg) :=
  match nth_error p (l_pc c) with
  | None => None
  | Some n =>
      match n_cls n with
      | CLock => match l_hook c, n_succ n with 0, [a] => Some (Some (Lock t), mkL a (l_ok c) 0) | _, _ => None end
      | CUnlock => match l_hook c, n_succ n with 0, [a] => Some (Some (Unlock t), mkL a (l_ok c) 0) | _, _ => None end
      | CTest => match l_hook c, pick_test (l_ok c) (n_succ n) with 0, Some a => Some (None, mkL a (l_ok c) 0) | _, _ => None end
      | CAssign => match l_hook c, n_succ n with 0, [a] => Some (None, mkL a (l_ok c) 0) | _, _ => None end
      | CMsg | CCall | CGet | CBlock =>
          match l_hook c, pick o (n_succ n) with
          | 0, Some a => Some (interp (l_pc c) o, mkL a (if outs (l_pc c) then o else l_ok c) 0)
          | _, _ => None
          end
      | CHook =>
          match l_hook c with
          | 0 => Some (Some (HookCall t), mkL (l_pc c) (l_ok c) 1)
          | 1 => if b then Some (Some (Lock t), mkL (l_pc c) (l_ok c) 2)
                 else match n_succ n with [a] => Some (Some (HookRet t o), mkL a o 0) | _ => None end
          | 2 => Some (Some (Unlock t), mkL (l_pc c) (l_ok c) 1)
          | _ => None
          end
      | CRet => match l_hook c with
                | 0 => Some (ret_ev (ret_ok (l_pc c)), mkL (List.length p) (ret_ok (l_pc c)) 0)
                | _ => None
                end
      | _ => None
      end
  end.

(* ---------------------------------------------------------------- receiver: RunMessageReceiver -> R0..R8 *)

(** events of the receiver's nodes: 0 `rx.Receive()`, 1 `f := rx.Frame()`, 2 `m, ok := n.ReceivedMessage(f.ID)`,
    6 `hook := m.AfterReceiveHook()`, 7 `m.SetReceiveTime(c.Now())`, 8 `err := m.UnmarshalFrame(f)`, 15 `err := rx.Err()` *)
Definition rx_interp (t : nat) (pc : nat) (o : bool) : option event :=
  match pc with
  | 0 => Some (Recv t o) | 1 => Some (RxFrame t) | 2 => Some (Lookup t o)
  | 6 => Some (Access t WHook) | 7 => Some (Access t WTime) | 8 => Some (Access t (WUnmarshal o))
  | 15 => Some (RecvErr t o)
  | _ => None
  end.
Definition rx_outs (pc : nat) : bool := match pc with 0 | 2 | 8 | 15 => true | _ => false end.
(** return nodes: 11, 14, 17 return an error, 18 returns nil *)
Definition rx_ret_ok (pc : nat) : bool := match pc with 18 => true | _ => false end.

Definition rx_next (t : nat) := lnext receiver_prog (rx_interp t) rx_outs rx_ret_ok (fun r => Some (Done t r)) t.

(** abstraction onto the receiver pcs of Appendix B *)
Definition rx_abs (c : lcfg) : rpc :=
  match l_pc c with
  | 0 => R0 | 1 => R1 | 2 => R2
  | 3 => if l_ok c then R3 else R0
  | 4 => R0 | 5 => R3 | 6 => R4 | 7 => R5 | 8 => R6
  | 9 => R7 (l_ok c)
  | 10 => if l_ok c then R8 else REnd false
  | 11 => REnd false
  | 12 => match l_hook c with 0 => R8 | 1 => RH | _ => RHL end
  | 13 => if l_ok c then R0 else REnd false
  | 14 => REnd false
  | 15 => RErr
  | 16 => REnd (l_ok c)
  | 17 => REnd false
  | 18 => REnd true
  | _ => RDone
  end.

(* ---------------------------------------------------------------- transmit closure -> X1..X9 *)

(** events of the closure's nodes: 1 `hook := m.BeforeTransmitHook()`, 2 `m.SetTransmitTime(c.Now())`, 8 `f := m.Frame()`
    (marshals the content the message has now), 11 `err := tx.TransmitFrame(ctx, f)` (the frame marshalled at 8);
    10 `context.WithTimeout` and 12 `cancel()` are silent *)
Definition tx_interp (t : nat) (x : tx) (pc : nat) (o : bool) : option event :=
  match pc with
  | 1 => Some (Access t WHook) | 2 => Some (Access t WTime)
  | 8 => Some (Access t (WFrame (t_content x)))
  | 11 => Some (Transmit t (t_snap x) o)
  | _ => None
  end.
Definition tx_outs (pc : nat) : bool := match pc with 11 => true | _ => false end.
(** return nodes: 6 and 14 return an error, 15 returns nil *)
Definition tx_ret_ok (pc : nat) : bool := match pc with 15 => true | _ => false end.

Definition tx_next (t : nat) (x : tx) :=
  lnext p_RunMessageTransmitter_transmit (tx_interp t x) tx_outs tx_ret_ok (fun _ => None) t.

(** abstraction onto the transmitter pcs: after the closure has returned (pc 16) the thread is back in the select loop
    ([SEL]) or on its way out with the error ([TFail]) *)
Definition tx_abs (c : lcfg) : tpc :=
  match l_pc c with
  | 0 => X1 | 1 => X2 | 2 => X3 | 3 => X4
  | 4 => match l_hook c with 0 => X5 | 1 => XHU | _ => XHL end
  | 5 => if l_ok c then X6 else TFail
  | 6 => TFail
  | 7 => X6 | 8 => X7 | 9 => X8 | 10 => X9 | 11 => X9
  | 12 | 13 => if l_ok c then SEL else TFail
  | 14 => TFail
  | 15 => SEL
  | _ => if l_ok c then SEL else TFail
  end.

(** an LTS step of thread t that leaves every other thread alone *)
Definition matched (s : state) (t : nat) (ev : event) (good : thread -> Prop) : Prop :=
  exists s', step_fn s ev = Some s' /\ good (th s' t) /\ (forall u, u <> t -> th s' u = th s u)
             /\ owner s' = match ev with Lock _ => Some t | Unlock _ => None | _ => owner s end.
