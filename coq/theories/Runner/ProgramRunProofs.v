(** Run's main program refines the Run-level LTS; the goroutine bodies show exactly QClose / QWorkerRet.
    NOTE (granularity, reported in DESIGN.md 9.6): the LTS starts closer + receiver + transmitters by ONE event [QSpawn n];
    the program starts them by separate g.Go nodes (4, 5, 8 per message), so a goroutine started early may act (QWorkerRet,
    QClose) before the last g.Go - in the LTS such a trace is accepted only with that event moved behind QSpawn. *)
From Coq Require Import Arith Bool List Lia.
From CanVerif Require Import Dbc.Ast Runner.Lts Runner.RunLts Runner.Program Runner.ProgramRun.
Import ListNotations.

Theorem run_program_refines : forall q c o e c',
  run_next q c o = Some (e, c') -> rsim c q -> renabled c q ->
  match e with
  | None => rsim c' q
  | Some ev => exists q', qstep q ev = Some q' /\ rsim c' q'
  end.
Proof.
  intros [qpc qc qf qcn ql qcl qn] [pc ok ph k] o e c' H [Hpc Hw] Hen. cbn in Hpc. subst qpc.
  do 16 (try (destruct pc as [|pc])); cbn in H; try discriminate H.
  all: repeat (match type of H with
               | context [if ?v then _ else _] => is_var v; destruct v
               | context [match ?v with 0 => _ | S _ => _ end] => is_var v; destruct v
               end; cbn in H); try discriminate H.
  all: injection H as <- <-; unfold rsim, waited, renabled in *; cbn in *.
  all: repeat match goal with H : _ /\ _ |- _ => destruct H end; subst; cbn in *.
  all: try (destruct qf; cbn in *; try discriminate).
  all: try (repeat split; auto; fail).
  all: try (eexists; split; [reflexivity | repeat split; auto]; fail).
Qed.

Lemma goroutine_bodies :
  go1_next 0 = Some (None, 1) /\ go1_next 1 = Some (Some QClose, 2) /\
  (forall o, worker_next p_Run_go2 0 o = Some (None, 1) /\ worker_next p_Run_go2 1 o = Some (Some (QWorkerRet o), 2)) /\
  (forall o, worker_next p_Run_go3 0 o = Some (None, 1) /\ worker_next p_Run_go3 1 o = Some (Some (QWorkerRet o), 2)).
Proof. repeat split. Qed.
