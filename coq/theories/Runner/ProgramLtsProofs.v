(** Refinement: every step of the labelled program semantics (ProgramLts.v) of the reference programs of
    RunMessageReceiver and of the transmit closure is a step of the LTS [step_fn] (Lts.v) from the abstracted state, or a
    stutter.  Proofs by case analysis over the finitely many program counters. *)
From Coq Require Import Arith Bool List Lia.
From CanVerif Require Import Dbc.Ast Runner.Lts Runner.LockDiscipline Runner.Program Runner.ProgramLts.
Import ListNotations.

Lemma upd_same : forall f t v, upd f t v t = v.
Proof. intros. unfold upd. now rewrite Nat.eqb_refl. Qed.
Lemma upd_other : forall f t v u, u <> t -> upd f t v u = f u.
Proof. intros. unfold upd. destruct (Nat.eqb u t) eqn:E; auto. apply Nat.eqb_eq in E. congruence. Qed.

Ltac finish_matched :=
  eexists; split; [reflexivity | split; [cbn; rewrite ?upd_same; reflexivity | split; [intros u Hu; cbn; now rewrite ?upd_other by assumption | reflexivity]]].

Definition rx_goal (t : nat) (s : state) (e : option event) (c c' : lcfg) : Prop :=
  match e with
  | None => rx_abs c' = rx_abs c
  | Some ev => (forall u, ev = Lock u -> owner s = None) -> matched s t ev (fun h => h = TRx (rx_abs c'))
  end.

Theorem receiver_refines : forall t c o b e c' s,
  rx_next t c o b = Some (e, c') -> th s t = TRx (rx_abs c) -> rx_goal t s e c c'.
Proof.
  intros t [pc ok hk] o b e c' s H Hth.
  do 20 (try (destruct pc as [|pc]));
    destruct ok, o, b; destruct hk as [|[|[|hk]]];
    vm_compute in H; try discriminate H;
    injection H as He Hc; subst e c'; cbn in Hth; unfold rx_goal;
    try reflexivity;
    try (intros Hown; try (rewrite (Hown t eq_refl) in *);
         unfold matched, step_fn, on_thread; try rewrite (Hown t eq_refl); rewrite Hth; cbn; finish_matched).
Qed.

(** the program counter moves along the edges of the program graph (or stays inside the hook node) *)
Lemma lnext_follows_graph : forall p interp outs ret_ok ret_ev t c o b e c',
  lnext p interp outs ret_ok ret_ev t c o b = Some (e, c') ->
  l_pc c' = l_pc c \/ l_pc c' = List.length p \/
  exists n, nth_error p (l_pc c) = Some n /\ In (l_pc c') (n_succ n).
Proof.
  intros p interp outs ret_ok ret_ev t [pc ok hk] o b e c' H. unfold lnext in H. cbn in H.
  destruct (nth_error p pc) as [n|] eqn:En; try discriminate.
  destruct (n_cls n); try discriminate;
    repeat match type of H with
           | context [match ?x with _ => _ end] => destruct x eqn:?; try discriminate
           end;
    injection H as _ Hc; subst c'; cbn; auto;
    right; right; exists n; split; auto;
    repeat match goal with
           | H : n_succ n = _ |- _ => rewrite H in *
           | H : pick _ _ = Some _ |- _ => unfold pick in H
           | H : pick_test _ _ = Some _ |- _ => unfold pick_test in H
           end;
    try (destruct (n_succ n) as [|a1 [|a2 [|a3 l]]]; try discriminate;
         repeat match goal with H : Some _ = Some _ |- _ => injection H as H; subst end;
         cbn; repeat match goal with |- context [if ?x then _ else _] => destruct x end; auto);
    try (cbn; auto).
Qed.

(* ---------------------------------------------------------------- transmit closure *)

Definition tx_goal (t : nat) (s : state) (e : option event) (c c' : lcfg) : Prop :=
  match e with
  | None => tx_abs c' = tx_abs c
  | Some ev => (forall u, ev = Lock u -> owner s = None) ->
               matched s t ev (fun h => exists x', h = TTx x' /\ t_pc x' = tx_abs c')
  end.

Ltac finish_matched_tx :=
  eexists; split; [reflexivity | split; [cbn; rewrite ?upd_same; eexists; split; reflexivity
                                       | split; [intros u Hu; cbn; now rewrite ?upd_other by assumption | reflexivity]]].

Theorem transmit_refines : forall t x c o b e c' s,
  tx_next t x c o b = Some (e, c') -> th s t = TTx x -> t_pc x = tx_abs c -> tx_goal t s e c c'.
Proof.
  intros t x [pc ok hk] o b e c' s H Hth Hpc.
  destruct x as [xpc gw fl la wk cy ar tk st ac tkn txd ab ct sn]. cbn in Hpc. subst xpc.
  do 17 (try (destruct pc as [|pc]));
    destruct ok, o, b; destruct hk as [|[|[|hk]]];
    cbv in H; try discriminate H;
    injection H as He Hc; subst e c'; unfold tx_goal;
    try reflexivity;
    try (intros Hown;
         unfold matched, step_fn, on_thread; try rewrite (Hown t eq_refl); rewrite Hth; cbn; rewrite ?Nat.eqb_refl;
         finish_matched_tx).
Qed.

(* ---------------------------------------------------------------- consequences: the LTS theorems speak about program executions *)

(** a visible program step of the receiver from a reachable LTS state leads to a reachable LTS state that abstracts the
    new configuration *)
Theorem receiver_step_reachable : forall cfg t c o b ev c' s,
  reachable cfg s -> th s t = TRx (rx_abs c) -> rx_next t c o b = Some (Some ev, c') ->
  (forall u, ev = Lock u -> owner s = None) ->
  exists s', step_fn s ev = Some s' /\ reachable cfg s' /\ th s' t = TRx (rx_abs c').
Proof.
  intros cfg t c o b ev c' s Hr Hth H Hown.
  pose proof (receiver_refines _ _ _ _ _ _ _ H Hth) as G. cbn in G.
  destruct (G Hown) as [s' [Hs [Hg _]]]. exists s'. repeat split; auto. econstructor; eauto.
Qed.

(** ... so I2 of the LTS holds of the program: whenever the receiver program is about to execute a message-state node
    (its event is an Access) in a reachable state, its thread owns the node lock *)
Theorem receiver_program_access_owns_lock : forall cfg t c o b w c' s,
  reachable cfg s -> th s t = TRx (rx_abs c) -> rx_next t c o b = Some (Some (Access t w), c') -> owner s = Some t.
Proof.
  intros cfg t c o b w c' s Hr Hth H.
  destruct (receiver_step_reachable cfg t c o b _ c' s Hr Hth H) as [s' [Hs _]]; [intros u E; discriminate|].
  exact (proj1 (I2_access_under_lock _ _ _ _ _ Hr Hs)).
Qed.

Theorem transmit_step_reachable : forall cfg t x c o b ev c' s,
  reachable cfg s -> th s t = TTx x -> t_pc x = tx_abs c -> tx_next t x c o b = Some (Some ev, c') ->
  (forall u, ev = Lock u -> owner s = None) ->
  exists s' x', step_fn s ev = Some s' /\ reachable cfg s' /\ th s' t = TTx x' /\ t_pc x' = tx_abs c'.
Proof.
  intros cfg t x c o b ev c' s Hr Hth Hpc H Hown.
  pose proof (transmit_refines _ _ _ _ _ _ _ _ H Hth Hpc) as G. cbn in G.
  destruct (G Hown) as [s' [Hs [[x' [Hx Hp]] _]]]. exists s', x'. repeat split; auto. econstructor; eauto.
Qed.
