(** Runner LTS (DESIGN.md Appendix B): executable labelled transition system of
    pkg/canrunner/run.go (RunMessageReceiver, RunMessageTransmitter) together with the
    channel code the generator emits for transmitted messages (SetCyclicTransmissionEnabled,
    Transmit, wake-up channel of capacity 1, unbuffered event channel) and an arbitrary
    environment of application threads.  DEFINITIONS ONLY (proofs: LockDiscipline.v, Protocol.v).

    Oracles (textbook semantics, DESIGN.md section 3): sync.Mutex = one owner, [Lock] enabled
    only when free; select = nondeterministic choice among ready cases; wake-up channel =
    one boolean token, non-blocking send; event channel = rendezvous ([Accept]); time.Ticker =
    channel of capacity one ([Tick] fills it only when empty and armed; Stop leaves a buffered
    tick in place = the "stale tick").  NOT modelled: real time (a [Tick] may happen whenever
    the ticker is armed), scheduler fairness, memory-model races.

    Threads are natural numbers; [th s t] gives the role and local state of thread [t]
    ([TNone] = no such thread), so any number of receiver, transmitter and application threads
    is covered.  A transmitted message is identified with the id of its transmitter thread
    (run.go starts exactly one transmitter per message); its shared fields ([t_flag], [t_wake],
    [t_content]) live in that thread's record and are written by application threads.

    Event alphabet (one event = one statement / interface call of the Go code):
      Lock t, Unlock t          sync.Locker calls of runner thread, hook body or application t
      Access t w                runner t touches message state: WHook (read hook), WTime (Now +
                                Set{Receive,Transmit}Time), WUnmarshal ok, WFlag b
                                (IsCyclicTransmissionEnabled returned b), WFrame v (Frame()
                                marshalled content v)
      HookCall t, HookRet t ok  after-receive / before-transmit hook invoked / returned (nil = ok)
      Mutate t m v              t (application holding the lock, or a hook body holding it)
                                sets the signal content of message m to v
      Recv t ok, RxFrame t, Lookup t known, RecvErr t ok
                                rx.Receive(), rx.Frame(), n.ReceivedMessage(id), rx.Err()=nil?
      TxInit t                  Descriptor(); TransmitEventChan()            (run.go:133,185)
      Apply t                   enable/disableCyclicTransmission             (run.go:159-163)
      GetWake t                 m.WakeUpChan()                               (run.go:187)
      Wake t | Accept t a | TickTake t
                                select cases: wake-up token / event offer of application a /
                                tick taken                                   (run.go:192-201)
      Transmit t f ok           tx.TransmitFrame(ctx', f) returned (nil = ok)
      SetFlag a m b, WakeSend a m   the two statements of SetCyclicTransmissionEnabled(b)
      Offer a m, OfferAbort a   Transmit(ctx) of the generated message: blocking offer / ctx ended
      Tick t                    the ticker of transmitter t delivers a tick into its buffer
      Cancel                    the context is cancelled
      Done t ok                 the runner function of thread t returns (nil = ok)            *)
From Coq Require Import Arith Bool List.
Import ListNotations.

Definition tid := nat.

Inductive what :=
| WHook | WTime | WUnmarshal (ok : bool) | WFlag (b : bool) | WFrame (v : nat).

Inductive event :=
| Lock (t : tid) | Unlock (t : tid) | Access (t : tid) (w : what)
| HookCall (t : tid) | HookRet (t : tid) (ok : bool) | Mutate (t m : tid) (v : nat)
| Recv (t : tid) (ok : bool) | RxFrame (t : tid) | Lookup (t : tid) (known : bool) | RecvErr (t : tid) (ok : bool)
| TxInit (t : tid) | Apply (t : tid) | GetWake (t : tid)
| Wake (t : tid) | Accept (t a : tid) | TickTake (t : tid) | Transmit (t : tid) (f : nat) (ok : bool)
| SetFlag (a m : tid) (b : bool) | WakeSend (a m : tid) | Offer (a m : tid) | OfferAbort (a : tid)
| Tick (t : tid) | Cancel | Done (t : tid) (ok : bool).

(** receiver program counter (Appendix B): R7 carries the result of UnmarshalFrame, RH/RHL are
    "inside the hook" without / with the lock taken by the hook body, REnd r = about to return *)
Inductive rpc :=
| R0 | R1 | R2 | R3 | R4 | R5 | R6 | R7 (ok : bool) | R8 | RH | RHL | RErr | REnd (ok : bool) | RDone.

(** transmitter program counter: S1..S4 = setCyclicTransmission, SEL = select,
    X1..X9 = transmit closure (XHU/XHL inside the hook), TFail = about to return an error *)
Inductive tpc :=
| T0 | S1 | S2 | S3 | S4 | T1 | SEL
| X1 | X2 | X3 | X4 | X5 | XHU | XHL | X6 | X7 | X8 | X9 | TFail | TDone.

Record tx := mkTx {
  t_pc : tpc;
  t_gotwake : bool;      (* WakeUpChan() already fetched (first pass done) *)
  t_flag : bool;         (* message: isCyclicEnabled *)
  t_last : bool;         (* value of the flag read at S2 most recently *)
  t_wake : bool;         (* message: token in the wake-up channel *)
  t_cyclic : bool;       (* descriptor: SendType = cyclic and CycleTime > 0 *)
  t_armed : bool;        (* cyclicTransmissionTicker <> nil *)
  t_tick : bool;         (* a tick is buffered in cyclicTransmissionTickChan *)
  t_stale : nat;         (* ticks taken while not armed since the last disarm *)
  t_acc : nat; t_tk : nat; t_txd : nat; t_ab : nat;   (* accepted, ticks taken, transmitted, aborted *)
  t_content : nat;       (* message: signal values *)
  t_snap : nat           (* frame marshalled at X7 *)
}.

Inductive apc := AFree | AMid (m : tid) | AOffer (m : tid).
Record app := mkApp { a_locked : bool; a_pc : apc }.

Inductive thread := TRx (p : rpc) | TTx (x : tx) | TApp (a : app) | TNone.

Record state := mkState { owner : option tid; cancelled : bool; th : tid -> thread }.

Definition upd (f : tid -> thread) (t : tid) (v : thread) : tid -> thread :=
  fun x => if Nat.eqb x t then v else f x.

Definition set_th (s : state) (t : tid) (v : thread) : state :=
  mkState (owner s) (cancelled s) (upd (th s) t v).
Definition set_owner (s : state) (o : option tid) : state := mkState o (cancelled s) (th s).

(* field updates of the transmitter record *)
Definition with_pc (x : tx) (p : tpc) : tx :=
  mkTx p (t_gotwake x) (t_flag x) (t_last x) (t_wake x) (t_cyclic x) (t_armed x) (t_tick x) (t_stale x)
       (t_acc x) (t_tk x) (t_txd x) (t_ab x) (t_content x) (t_snap x).
Definition with_gotwake (x : tx) (b : bool) : tx :=
  mkTx (t_pc x) b (t_flag x) (t_last x) (t_wake x) (t_cyclic x) (t_armed x) (t_tick x) (t_stale x)
       (t_acc x) (t_tk x) (t_txd x) (t_ab x) (t_content x) (t_snap x).
Definition with_flag (x : tx) (b : bool) : tx :=
  mkTx (t_pc x) (t_gotwake x) b (t_last x) (t_wake x) (t_cyclic x) (t_armed x) (t_tick x) (t_stale x)
       (t_acc x) (t_tk x) (t_txd x) (t_ab x) (t_content x) (t_snap x).
Definition with_last (x : tx) (b : bool) : tx :=
  mkTx (t_pc x) (t_gotwake x) (t_flag x) b (t_wake x) (t_cyclic x) (t_armed x) (t_tick x) (t_stale x)
       (t_acc x) (t_tk x) (t_txd x) (t_ab x) (t_content x) (t_snap x).
Definition with_wake (x : tx) (b : bool) : tx :=
  mkTx (t_pc x) (t_gotwake x) (t_flag x) (t_last x) b (t_cyclic x) (t_armed x) (t_tick x) (t_stale x)
       (t_acc x) (t_tk x) (t_txd x) (t_ab x) (t_content x) (t_snap x).
Definition with_ticker (x : tx) (armed tick : bool) (stale : nat) : tx :=
  mkTx (t_pc x) (t_gotwake x) (t_flag x) (t_last x) (t_wake x) (t_cyclic x) armed tick stale
       (t_acc x) (t_tk x) (t_txd x) (t_ab x) (t_content x) (t_snap x).
Definition with_counts (x : tx) (acc tk txd ab : nat) : tx :=
  mkTx (t_pc x) (t_gotwake x) (t_flag x) (t_last x) (t_wake x) (t_cyclic x) (t_armed x) (t_tick x) (t_stale x)
       acc tk txd ab (t_content x) (t_snap x).
Definition with_content (x : tx) (v : nat) : tx :=
  mkTx (t_pc x) (t_gotwake x) (t_flag x) (t_last x) (t_wake x) (t_cyclic x) (t_armed x) (t_tick x) (t_stale x)
       (t_acc x) (t_tk x) (t_txd x) (t_ab x) v (t_snap x).
Definition with_snap (x : tx) (v : nat) : tx :=
  mkTx (t_pc x) (t_gotwake x) (t_flag x) (t_last x) (t_wake x) (t_cyclic x) (t_armed x) (t_tick x) (t_stale x)
       (t_acc x) (t_tk x) (t_txd x) (t_ab x) (t_content x) v.

(** enable/disableCyclicTransmission applied to the flag value read last (run.go:139-163) *)
Definition apply_ticker (x : tx) : tx :=
  if t_last x then
    (if t_cyclic x && negb (t_armed x) then with_ticker x true false 0 else x)
  else
    (if t_armed x then with_ticker x false (t_tick x) 0 else x).

(** critical sections: the pcs at which the thread holds the node lock *)
Definition rx_locked (p : rpc) : bool :=
  match p with R4 | R5 | R6 | R7 _ | RHL => true | _ => false end.
Definition tx_locked (p : tpc) : bool :=
  match p with S2 | S3 | X2 | X3 | X4 | X7 | X8 | XHL => true | _ => false end.
Definition locked_thread (h : thread) : bool :=
  match h with
  | TRx p => rx_locked p
  | TTx x => tx_locked (t_pc x)
  | TApp a => a_locked a
  | TNone => false
  end.

(** inside the transmit closure: an accepted request or taken tick is being served *)
Definition in_x (p : tpc) : bool :=
  match p with X1 | X2 | X3 | X4 | X5 | XHU | XHL | X6 | X7 | X8 | X9 => true | _ => false end.

(* ---------------------------------------------------------------- local steps *)

Definition lock_thread (h : thread) : option thread :=
  match h with
  | TRx R3 => Some (TRx R4)
  | TRx RH => Some (TRx RHL)
  | TTx x =>
      match t_pc x with
      | S1 => Some (TTx (with_pc x S2))
      | X1 => Some (TTx (with_pc x X2))
      | X6 => Some (TTx (with_pc x X7))
      | XHU => Some (TTx (with_pc x XHL))
      | _ => None
      end
  | TApp a =>
      match a_locked a, a_pc a with
      | false, AFree => Some (TApp (mkApp true AFree))
      | _, _ => None
      end
  | _ => None
  end.

Definition unlock_thread (h : thread) : option thread :=
  match h with
  | TRx (R7 ok) => Some (TRx (if ok then R8 else REnd false))
  | TRx RHL => Some (TRx RH)
  | TTx x =>
      match t_pc x with
      | S3 => Some (TTx (with_pc x S4))
      | X4 => Some (TTx (with_pc x X5))
      | X8 => Some (TTx (with_pc x X9))
      | XHL => Some (TTx (with_pc x XHU))
      | _ => None
      end
  | TApp a =>
      match a_locked a, a_pc a with
      | true, AFree => Some (TApp (mkApp false AFree))
      | _, _ => None
      end
  | _ => None
  end.

Definition access_thread (h : thread) (w : what) : option thread :=
  match h, w with
  | TRx R4, WHook => Some (TRx R5)
  | TRx R5, WTime => Some (TRx R6)
  | TRx R6, WUnmarshal ok => Some (TRx (R7 ok))
  | TTx x, WFlag b =>
      match t_pc x with
      | S2 => if Bool.eqb b (t_flag x) then Some (TTx (with_pc (with_last x b) S3)) else None
      | _ => None
      end
  | TTx x, WHook => match t_pc x with X2 => Some (TTx (with_pc x X3)) | _ => None end
  | TTx x, WTime => match t_pc x with X3 => Some (TTx (with_pc x X4)) | _ => None end
  | TTx x, WFrame v =>
      match t_pc x with
      | X7 => if Nat.eqb v (t_content x) then Some (TTx (with_pc (with_snap x v) X8)) else None
      | _ => None
      end
  | _, _ => None
  end.

Definition hookcall_thread (h : thread) : option thread :=
  match h with
  | TRx R8 => Some (TRx RH)
  | TTx x => match t_pc x with X5 => Some (TTx (with_pc x XHU)) | _ => None end
  | _ => None
  end.

Definition hookret_thread (h : thread) (ok : bool) : option thread :=
  match h with
  | TRx RH => Some (TRx (if ok then R0 else REnd false))
  | TTx x =>
      match t_pc x with
      | XHU => Some (TTx (if ok then with_pc x X6
                         else with_pc (with_counts x (t_acc x) (t_tk x) (t_txd x) (S (t_ab x))) TFail))
      | _ => None
      end
  | _ => None
  end.

(** may thread state [h] write message contents?  (application holding the lock, hook body holding it) *)
Definition can_mutate (h : thread) : bool :=
  match h with
  | TRx RHL => true
  | TTx x => match t_pc x with XHL => true | _ => false end
  | TApp a => match a_locked a, a_pc a with true, AFree => true | _, _ => false end
  | _ => false
  end.

(** one own step of a transmitter that involves nobody else *)
Definition tx_local (c : bool) (x : tx) (e : event) : option tx :=
  match e, t_pc x with
  | TxInit _, T0 => Some (with_pc x S1)
  | Apply _, S4 => Some (with_pc (apply_ticker x) (if t_gotwake x then SEL else T1))
  | GetWake _, T1 => Some (with_pc (with_gotwake x true) SEL)
  | Wake _, SEL => if t_wake x then Some (with_pc (with_wake x false) S1) else None
  | TickTake _, SEL =>
      if t_tick x then
        Some (with_pc (with_counts (with_ticker x (t_armed x) false
                                       (if t_armed x then t_stale x else S (t_stale x)))
                                    (t_acc x) (S (t_tk x)) (t_txd x) (t_ab x)) X1)
      else None
  | Transmit _ f ok, X9 =>
      if Nat.eqb f (t_snap x) then
        Some (if ok then with_pc (with_counts x (t_acc x) (t_tk x) (S (t_txd x)) (t_ab x)) SEL
              else with_pc (with_counts x (t_acc x) (t_tk x) (t_txd x) (S (t_ab x))) TFail)
      else None
  | Tick _, _ => if t_armed x && negb (t_tick x) then Some (with_ticker x true true (t_stale x)) else None
  | Done _ ok, SEL => if c && ok then Some (with_pc x TDone) else None
  | Done _ ok, TFail => if ok then None else Some (with_pc x TDone)
  | _, _ => None
  end.

Definition rx_local (p : rpc) (e : event) : option rpc :=
  match e, p with
  | Recv _ ok, R0 => Some (if ok then R1 else RErr)
  | RxFrame _, R1 => Some R2
  | Lookup _ known, R2 => Some (if known then R3 else R0)
  | RecvErr _ ok, RErr => Some (REnd ok)
  | Done _ ok, REnd r => if Bool.eqb ok r then Some RDone else None
  | _, _ => None
  end.

Definition on_thread (s : state) (t : tid) (f : thread -> option thread) : option state :=
  match f (th s t) with Some v => Some (set_th s t v) | None => None end.

(** the transition function: [step_fn s e = Some s'] iff the LTS has the transition s --e--> s' *)
Definition step_fn (s : state) (e : event) : option state :=
  match e with
  | Lock t =>
      match owner s with
      | None => match lock_thread (th s t) with
                | Some v => Some (mkState (Some t) (cancelled s) (upd (th s) t v))
                | None => None
                end
      | Some _ => None
      end
  | Unlock t =>
      match unlock_thread (th s t) with
      | Some v => Some (mkState None (cancelled s) (upd (th s) t v))
      | None => None
      end
  | Access t w => on_thread s t (fun h => access_thread h w)
  | HookCall t => on_thread s t hookcall_thread
  | HookRet t ok => on_thread s t (fun h => hookret_thread h ok)
  | Mutate t m v =>
      if can_mutate (th s t) then
        match th s m with
        | TTx x => Some (set_th s m (TTx (with_content x v)))
        | _ => None
        end
      else None
  | Recv t _ | RxFrame t | Lookup t _ | RecvErr t _ =>
      match th s t with
      | TRx p => match rx_local p e with Some p' => Some (set_th s t (TRx p')) | None => None end
      | _ => None
      end
  | TxInit t | Apply t | GetWake t | Wake t | TickTake t | Transmit t _ _ | Tick t =>
      match th s t with
      | TTx x => match tx_local (cancelled s) x e with Some x' => Some (set_th s t (TTx x')) | None => None end
      | _ => None
      end
  | Done t _ =>
      match th s t with
      | TRx p => match rx_local p e with Some p' => Some (set_th s t (TRx p')) | None => None end
      | TTx x => match tx_local (cancelled s) x e with Some x' => Some (set_th s t (TTx x')) | None => None end
      | _ => None
      end
  | Accept t a =>
      match th s t, th s a with
      | TTx x, TApp ap =>
          match t_pc x, a_pc ap with
          | SEL, AOffer m =>
              if Nat.eqb m t then
                Some (set_th (set_th s t (TTx (with_pc (with_counts x (S (t_acc x)) (t_tk x) (t_txd x) (t_ab x)) X1)))
                             a (TApp (mkApp (a_locked ap) AFree)))
              else None
          | _, _ => None
          end
      | _, _ => None
      end
  | SetFlag a m b =>
      match th s a, th s m with
      | TApp ap, TTx x =>
          match a_pc ap with
          | AFree => Some (set_th (set_th s m (TTx (with_flag x b))) a (TApp (mkApp (a_locked ap) (AMid m))))
          | _ => None
          end
      | _, _ => None
      end
  | WakeSend a m =>
      match th s a, th s m with
      | TApp ap, TTx x =>
          match a_pc ap with
          | AMid m' =>
              if Nat.eqb m' m then
                Some (set_th (set_th s m (TTx (with_wake x true))) a (TApp (mkApp (a_locked ap) AFree)))
              else None
          | _ => None
          end
      | _, _ => None
      end
  | Offer a m =>
      match th s a, th s m with
      | TApp ap, TTx _ =>
          match a_pc ap with
          | AFree => Some (set_th s a (TApp (mkApp (a_locked ap) (AOffer m))))
          | _ => None
          end
      | _, _ => None
      end
  | OfferAbort a =>
      match th s a with
      | TApp ap => match a_pc ap with
                   | AOffer _ => Some (set_th s a (TApp (mkApp (a_locked ap) AFree)))
                   | _ => None
                   end
      | _ => None
      end
  | Cancel => Some (mkState (owner s) true (th s))
  end.

(* ---------------------------------------------------------------- configurations, runs *)

(** [RoleTxOn]: a transmitter whose message ALREADY has cyclic transmission enabled when the
    transmitter starts, with no token in the wake-up channel - the flag was set before an earlier
    run of the node, which consumed the token (run / cancel / run again on the same node value), or
    the TransmittedMessage implementation starts enabled. *)
Inductive role := RoleRx | RoleTx (cyclic : bool) | RoleTxOn (cyclic : bool) | RoleApp | RoleNone.

Definition init_tx (cyclic : bool) : tx :=
  mkTx T0 false false false false cyclic false false 0 0 0 0 0 0 0.

Definition init_tx_on (cyclic : bool) : tx :=
  mkTx T0 false true false false cyclic false false 0 0 0 0 0 0 0.

Definition init_thread (r : role) : thread :=
  match r with
  | RoleRx => TRx R0
  | RoleTx c => TTx (init_tx c)
  | RoleTxOn c => TTx (init_tx_on c)
  | RoleApp => TApp (mkApp false AFree)
  | RoleNone => TNone
  end.

Definition init (cfg : tid -> role) : state := mkState None false (fun t => init_thread (cfg t)).

Fixpoint cfg_of_list (l : list (tid * role)) : tid -> role :=
  match l with
  | [] => fun _ => RoleNone
  | (t, r) :: tl => fun x => if Nat.eqb x t then r else cfg_of_list tl x
  end.

Fixpoint run (s : state) (tr : list event) : option state :=
  match tr with
  | [] => Some s
  | e :: tl => match step_fn s e with Some s' => run s' tl | None => None end
  end.

(** the trace acceptor used on logged implementation traces *)
Definition accepts (cfg : tid -> role) (tr : list event) : bool :=
  match run (init cfg) tr with Some _ => true | None => false end.

(** index of the first rejected event, if any *)
Fixpoint first_reject (s : state) (tr : list event) (n : nat) : option nat :=
  match tr with
  | [] => None
  | e :: tl => match step_fn s e with Some s' => first_reject s' tl (S n) | None => Some n end
  end.

(** all states reachable by finite event sequences from an initial configuration *)
Inductive reachable (cfg : tid -> role) : state -> Prop :=
| reach_init : reachable cfg (init cfg)
| reach_step : forall s e s', reachable cfg s -> step_fn s e = Some s' -> reachable cfg s'.

(* observers used by the model driver *)
Definition holds_lock (s : state) (t : tid) : bool :=
  match owner s with Some o => Nat.eqb o t | None => false end.
Definition tx_of (s : state) (t : tid) : option tx :=
  match th s t with TTx x => Some x | _ => None end.
Definition tx_balance_ok (x : tx) : bool :=
  Nat.eqb (t_acc x + t_tk x) (t_txd x + t_ab x + (if in_x (t_pc x) then 1 else 0)).
Definition tx_stale_ok (x : tx) : bool :=
  if t_armed x then Nat.eqb (t_stale x) 0 else Nat.leb (t_stale x + (if t_tick x then 1 else 0)) 1.
Definition is_sel (x : tx) : bool := match t_pc x with SEL => true | _ => false end.
Definition is_s4 (x : tx) : bool := match t_pc x with S4 => true | _ => false end.
Definition is_done (h : thread) : bool :=
  match h with TRx RDone => true | TTx x => (match t_pc x with TDone => true | _ => false end) | TApp _ => true | TNone => true | _ => false end.
