(** C13 - lock discipline of the runner, proved for ALL reachable states of the LTS of Lts.v
    (= all finite event sequences accepted from any initial configuration: any number of
    receiver, transmitter and application threads), by induction over the trace with the
    inductive invariant I1.

      I1  owner s = Some t  <->  thread t is at a program counter inside one of its critical
          sections; [Lock t] fires only when the mutex is free.
      I2  every [Access t _] (and every [Mutate t _ _]) fires with owner = Some t.
      I3  every [HookCall t] fires with owner <> Some t, and the hook body can take the lock
          as soon as it is free (no self-deadlock).
      no runner access while an application thread holds the lock.
      order: per transmitter iteration HookRet t true < Access t (WFrame f) < Transmit t f _,
          the frame transmitted is the one marshalled at that access, which is the content
          of the message at that moment ([order_ok], a trace monitor; [frame_is_current_content]).

    Not modelled: fairness, real time, memory-model races on fields not reached through the
    interfaces (none: the runner only holds interfaces). *)
From Coq Require Import Arith Bool List Lia.
From CanVerif Require Import Runner.Lts.
Import ListNotations.

Ltac inv H := inversion H; subst; clear H.

(** break every match / if in the hypothesis describing a step *)
Ltac break_step :=
  repeat match goal with
  | H : Some _ = Some _ |- _ => inv H
  | H : None = Some _ |- _ => discriminate H
  | H : context [match ?x with _ => _ end] |- _ => destruct x eqn:?; try discriminate
  end.

Definition I1 (s : state) : Prop :=
  forall t, owner s = Some t <-> locked_thread (th s t) = true.

(* ------------------------------------------------------------------ per-thread facts *)

Lemma lock_thread_locked h v : lock_thread h = Some v -> locked_thread h = false /\ locked_thread v = true.
Proof. unfold lock_thread. intros H. destruct h as [p|x|a|]; break_step; cbn; try rewrite ?Heqt; auto;
  destruct x; cbn in *; subst; auto. Qed.

Lemma unlock_thread_locked h v : unlock_thread h = Some v -> locked_thread h = true /\ locked_thread v = false.
Proof. unfold unlock_thread. intros H. destruct h as [p|x|a|]; break_step; cbn; auto;
  try (destruct x; cbn in *; subst; auto); destruct ok; auto. Qed.

Lemma access_thread_locked h w v : access_thread h w = Some v -> locked_thread h = true /\ locked_thread v = true.
Proof. unfold access_thread. intros H. destruct h as [p|x|a|]; destruct w; break_step; cbn; auto;
  try (destruct x; cbn in *; subst; auto). Qed.

Lemma hookcall_thread_unlocked h v : hookcall_thread h = Some v -> locked_thread h = false /\ locked_thread v = false.
Proof. unfold hookcall_thread. intros H. destruct h as [p|x|a|]; break_step; cbn; auto;
  try (destruct x; cbn in *; subst; auto). Qed.

Lemma hookret_thread_unlocked h ok v : hookret_thread h ok = Some v -> locked_thread h = false /\ locked_thread v = false.
Proof. unfold hookret_thread. intros H. destruct h as [p|x|a|]; break_step; cbn; auto;
  try (destruct x; cbn in *; subst; auto); destruct ok; auto. Qed.

Lemma can_mutate_locked h : can_mutate h = true -> locked_thread h = true.
Proof. unfold can_mutate. intros H. destruct h as [p|x|a|]; break_step; cbn; auto.
  destruct x; cbn in *; subst; auto. Qed.

Lemma rx_local_unlocked p e p' : rx_local p e = Some p' -> rx_locked p = false /\ rx_locked p' = false.
Proof. unfold rx_local. intros H. destruct e; destruct p; break_step; cbn; auto;
  repeat match goal with |- context [if ?b then _ else _] => destruct b end; auto. Qed.

Lemma tx_local_pc_locked c x e x' : tx_local c x e = Some x' -> tx_locked (t_pc x') = tx_locked (t_pc x).
Proof. unfold tx_local, apply_ticker. intros H. destruct x; cbn in *. destruct e; break_step; cbn; auto;
  repeat match goal with |- context [if ?b then _ else _] => destruct b end; auto. Qed.

(* ------------------------------------------------------------------ shapes of a step w.r.t. I1 *)

Lemma I1_local s t v : I1 s -> locked_thread v = locked_thread (th s t) -> I1 (set_th s t v).
Proof.
  intros HI Hv t'. cbn. unfold upd. destruct (Nat.eqb_spec t' t) as [->|Hne].
  - rewrite Hv. apply HI.
  - apply HI.
Qed.

Lemma I1_lock s t v : I1 s -> owner s = None -> locked_thread v = true ->
  I1 (mkState (Some t) (cancelled s) (upd (th s) t v)).
Proof.
  intros HI Ho Hv t'. cbn. unfold upd. destruct (Nat.eqb_spec t' t) as [->|Hne].
  - split; auto.
  - split; intros H.
    + inv H. congruence.
    + apply HI in H. congruence.
Qed.

Lemma I1_unlock s t v : I1 s -> locked_thread (th s t) = true -> locked_thread v = false ->
  I1 (mkState None (cancelled s) (upd (th s) t v)).
Proof.
  intros HI Ht Hv t'. cbn. unfold upd. destruct (Nat.eqb_spec t' t) as [->|Hne].
  - split; intros H; congruence.
  - split; intros H; [discriminate|].
    apply HI in H. apply HI in Ht. congruence.
Qed.

Lemma I1_init cfg : I1 (init cfg).
Proof. intros t. cbn. split; [discriminate|]. destruct (cfg t); cbn; discriminate. Qed.

Lemma I1_step s e s' : I1 s -> step_fn s e = Some s' -> I1 s'.
Proof.
  intros HI H. destruct e; cbn [step_fn] in H; unfold on_thread in H.
  - (* Lock *) destruct (owner s) eqn:Ho; [discriminate|]. destruct (lock_thread (th s t)) eqn:E; inv H.
    apply lock_thread_locked in E. apply I1_lock; tauto.
  - (* Unlock *) destruct (unlock_thread (th s t)) eqn:E; inv H.
    apply unlock_thread_locked in E. apply I1_unlock; tauto.
  - destruct (access_thread (th s t) w) eqn:E; inv H. apply access_thread_locked in E.
    apply I1_local; auto. destruct E; congruence.
  - destruct (hookcall_thread (th s t)) eqn:E; inv H. apply hookcall_thread_unlocked in E.
    apply I1_local; auto. destruct E; congruence.
  - destruct (hookret_thread (th s t) ok) eqn:E; inv H. apply hookret_thread_unlocked in E.
    apply I1_local; auto. destruct E; congruence.
  - (* Mutate *) destruct (can_mutate (th s t)); [|discriminate]. destruct (th s m) eqn:Em; inv H.
    apply I1_local; auto. rewrite Em. reflexivity.
  - destruct (th s t) eqn:Et; try discriminate. destruct (rx_local p (Recv t ok)) eqn:E; inv H.
    apply rx_local_unlocked in E. apply I1_local; auto. rewrite Et. cbn. destruct E; congruence.
  - destruct (th s t) eqn:Et; try discriminate. destruct (rx_local p (RxFrame t)) eqn:E; inv H.
    apply rx_local_unlocked in E. apply I1_local; auto. rewrite Et. cbn. destruct E; congruence.
  - destruct (th s t) eqn:Et; try discriminate. destruct (rx_local p (Lookup t known)) eqn:E; inv H.
    apply rx_local_unlocked in E. apply I1_local; auto. rewrite Et. cbn. destruct E; congruence.
  - destruct (th s t) eqn:Et; try discriminate. destruct (rx_local p (RecvErr t ok)) eqn:E; inv H.
    apply rx_local_unlocked in E. apply I1_local; auto. rewrite Et. cbn. destruct E; congruence.
  - destruct (th s t) eqn:Et; try discriminate. destruct (tx_local (cancelled s) x (TxInit t)) eqn:E; inv H.
    apply tx_local_pc_locked in E. apply I1_local; auto. rewrite Et. exact E.
  - destruct (th s t) eqn:Et; try discriminate. destruct (tx_local (cancelled s) x (Apply t)) eqn:E; inv H.
    apply tx_local_pc_locked in E. apply I1_local; auto. rewrite Et. exact E.
  - destruct (th s t) eqn:Et; try discriminate. destruct (tx_local (cancelled s) x (GetWake t)) eqn:E; inv H.
    apply tx_local_pc_locked in E. apply I1_local; auto. rewrite Et. exact E.
  - destruct (th s t) eqn:Et; try discriminate. destruct (tx_local (cancelled s) x (Wake t)) eqn:E; inv H.
    apply tx_local_pc_locked in E. apply I1_local; auto. rewrite Et. exact E.
  - (* Accept *) destruct (th s t) eqn:Et; try discriminate. destruct (th s a) eqn:Ea; try discriminate.
    destruct (t_pc x) eqn:Epc; try discriminate. destruct (a_pc a0) eqn:Eap; try discriminate.
    destruct (Nat.eqb m t); inv H.
    apply I1_local.
    + apply I1_local; auto. rewrite Et. cbn. rewrite Epc. reflexivity.
    + cbn. unfold upd. destruct (Nat.eqb_spec a t) as [->|Hne].
      * rewrite Et in Ea. discriminate.
      * rewrite Ea. reflexivity.
  - destruct (th s t) eqn:Et; try discriminate. destruct (tx_local (cancelled s) x (TickTake t)) eqn:E; inv H.
    apply tx_local_pc_locked in E. apply I1_local; auto. rewrite Et. exact E.
  - destruct (th s t) eqn:Et; try discriminate. destruct (tx_local (cancelled s) x (Transmit t f ok)) eqn:E; inv H.
    apply tx_local_pc_locked in E. apply I1_local; auto. rewrite Et. exact E.
  - (* SetFlag *) destruct (th s a) eqn:Ea; try discriminate. destruct (th s m) eqn:Em; try discriminate.
    destruct (a_pc a0) eqn:Eap; inv H.
    apply I1_local.
    + apply I1_local; auto. rewrite Em. reflexivity.
    + cbn. unfold upd. destruct (Nat.eqb_spec a m) as [->|Hne].
      * rewrite Em in Ea. discriminate.
      * rewrite Ea. reflexivity.
  - (* WakeSend *) destruct (th s a) eqn:Ea; try discriminate. destruct (th s m) eqn:Em; try discriminate.
    destruct (a_pc a0) eqn:Eap; try discriminate. destruct (Nat.eqb m0 m); inv H.
    apply I1_local.
    + apply I1_local; auto. rewrite Em. reflexivity.
    + cbn. unfold upd. destruct (Nat.eqb_spec a m) as [->|Hne].
      * rewrite Em in Ea. discriminate.
      * rewrite Ea. reflexivity.
  - (* Offer *) destruct (th s a) eqn:Ea; try discriminate. destruct (th s m) eqn:Em; try discriminate.
    destruct (a_pc a0) eqn:Eap; inv H. apply I1_local; auto. rewrite Ea. reflexivity.
  - destruct (th s a) eqn:Ea; try discriminate. destruct (a_pc a0) eqn:Eap; inv H.
    apply I1_local; auto. rewrite Ea. reflexivity.
  - destruct (th s t) eqn:Et; try discriminate. destruct (tx_local (cancelled s) x (Tick t)) eqn:E; inv H.
    apply tx_local_pc_locked in E. apply I1_local; auto. rewrite Et. exact E.
  - (* Cancel *) inv H. exact HI.
  - (* Done *) destruct (th s t) eqn:Et; try discriminate.
    + destruct (rx_local p (Done t ok)) eqn:E; inv H.
      apply rx_local_unlocked in E. apply I1_local; auto. rewrite Et. cbn. destruct E; congruence.
    + destruct (tx_local (cancelled s) x (Done t ok)) eqn:E; inv H.
      apply tx_local_pc_locked in E. apply I1_local; auto. rewrite Et. exact E.
Qed.

(** I1 holds in every reachable state *)
Theorem I1_reachable cfg s : reachable cfg s -> I1 s.
Proof. induction 1; [apply I1_init | eapply I1_step; eauto]. Qed.

Lemma run_reachable cfg s tr s' : reachable cfg s -> run s tr = Some s' -> reachable cfg s'.
Proof.
  revert s. induction tr as [|e tl IH]; intros s Hr H; cbn in H.
  - inv H. exact Hr.
  - destruct (step_fn s e) eqn:E; [|discriminate]. eapply IH; [|exact H]. eapply reach_step; eauto.
Qed.

(* ------------------------------------------------------------------ the C13 statements *)

(** mutual exclusion: a Lock fires only on a free mutex and makes the caller the owner *)
Theorem lock_only_when_free s t s' : step_fn s (Lock t) = Some s' -> owner s = None /\ owner s' = Some t.
Proof. cbn. destruct (owner s); [discriminate|]. destruct (lock_thread (th s t)); intros H; inv H. auto. Qed.

(** I2: every access of a runner thread to message state happens under the lock *)
Theorem I2_access_under_lock cfg s t w s' :
  reachable cfg s -> step_fn s (Access t w) = Some s' -> owner s = Some t /\ owner s' = Some t.
Proof.
  intros Hr H. pose proof (I1_reachable _ _ Hr) as HI. cbn in H. unfold on_thread in H.
  destruct (access_thread (th s t) w) eqn:E; inv H. apply access_thread_locked in E.
  cbn. split; apply HI; tauto.
Qed.

Theorem I2_mutate_under_lock cfg s t m v s' :
  reachable cfg s -> step_fn s (Mutate t m v) = Some s' -> owner s = Some t.
Proof.
  intros Hr H. pose proof (I1_reachable _ _ Hr) as HI. cbn in H.
  destruct (can_mutate (th s t)) eqn:E; [|discriminate]. apply HI. apply can_mutate_locked. exact E.
Qed.

(** I3: hooks are invoked with the lock released by the invoking thread ... *)
Theorem I3_hook_called_unlocked cfg s t s' :
  reachable cfg s -> step_fn s (HookCall t) = Some s' -> owner s <> Some t /\ owner s' <> Some t.
Proof.
  intros Hr H. pose proof (I1_reachable _ _ Hr) as HI. cbn in H. unfold on_thread in H.
  destruct (hookcall_thread (th s t)) eqn:E; inv H. apply hookcall_thread_unlocked in E.
  cbn. split; intros Ho; apply HI in Ho; destruct E; congruence.
Qed.

(** ... so the hook body may take the lock itself: once the mutex is free, [Lock t] is enabled *)
Theorem I3_hook_may_lock s t s' :
  step_fn s (HookCall t) = Some s' -> owner s' = None -> exists s'', step_fn s' (Lock t) = Some s''.
Proof.
  intros H Ho. cbn in H. unfold on_thread in H.
  destruct (hookcall_thread (th s t)) eqn:E; inv H. cbn in *. rewrite Ho.
  unfold upd. rewrite Nat.eqb_refl. unfold hookcall_thread in E.
  destruct (th s t) as [p|x|a|]; break_step; cbn; try (eexists; reflexivity);
    destruct x; cbn in *; subst; cbn; eexists; reflexivity.
Qed.

(** while somebody else (e.g. an application thread) holds the lock, no runner thread
    accesses message state and nobody else mutates it: no half-updated message is observable *)
Theorem no_access_while_other_holds cfg s a t :
  reachable cfg s -> owner s = Some a -> t <> a ->
  (forall w, step_fn s (Access t w) = None) /\ (forall m v, step_fn s (Mutate t m v) = None).
Proof.
  intros Hr Ho Hne. split.
  - intros w. destruct (step_fn s (Access t w)) eqn:E; auto.
    destruct (I2_access_under_lock _ _ _ _ _ Hr E). congruence.
  - intros m v. destruct (step_fn s (Mutate t m v)) eqn:E; auto.
    pose proof (I2_mutate_under_lock _ _ _ _ _ _ Hr E). congruence.
Qed.

(** the frame marshalled at X7 is the content of the message at that moment *)
Theorem frame_is_current_content s t v s' :
  step_fn s (Access t (WFrame v)) = Some s' ->
  exists x x', th s t = TTx x /\ t_pc x = X7 /\ v = t_content x /\ th s' t = TTx x' /\ t_snap x' = v /\ t_pc x' = X8.
Proof.
  cbn. unfold on_thread. intros H. destruct (th s t) as [p|x|a|] eqn:Et; cbn in H; try discriminate.
  - destruct p; discriminate.
  - destruct (t_pc x) eqn:Epc; try discriminate. destruct (Nat.eqb_spec v (t_content x)); inv H.
    exists x. eexists. repeat split; eauto; cbn; unfold upd; rewrite ?Nat.eqb_refl; reflexivity.
Qed.

(* ------------------------------------------------------------------ hook / frame / transmit order *)

(** trace monitor: what each thread did last among {hook call, hook return, Frame(), transmit} *)
Inductive phase := P0 | PHook | P1 | P2 (v : nat).

Definition pupd (f : tid -> phase) (t : tid) (p : phase) : tid -> phase :=
  fun x => if Nat.eqb x t then p else f x.

Definition mon_step (mon : tid -> phase) (e : event) : option (tid -> phase) :=
  match e with
  | HookCall t => Some (pupd mon t PHook)
  | HookRet t ok => match mon t with PHook => Some (pupd mon t (if ok then P1 else P0)) | _ => None end
  | Access t (WFrame v) => match mon t with P1 => Some (pupd mon t (P2 v)) | _ => None end
  | Transmit t f _ => match mon t with P2 v => if Nat.eqb f v then Some (pupd mon t P0) else None | _ => None end
  | _ => Some mon
  end.

Fixpoint mon_run (mon : tid -> phase) (tr : list event) : bool :=
  match tr with
  | [] => true
  | e :: tl => match mon_step mon e with Some mon' => mon_run mon' tl | None => false end
  end.

(** [order_ok tr]: every HookRet follows a HookCall of the same thread; every Frame() access of
    a thread follows its successful hook return with no transmit in between; every
    [Transmit t f _] follows a Frame() access of t that produced exactly f, with no other
    hook/Frame()/transmit event of t in between. *)
Definition order_ok (tr : list event) : bool := mon_run (fun _ => P0) tr.

Definition phase_ok (h : thread) (p : phase) : Prop :=
  match h with
  | TRx RH | TRx RHL => p = PHook
  | TTx x =>
      match t_pc x with
      | XHU | XHL => p = PHook
      | X6 | X7 => p = P1
      | X8 | X9 => p = P2 (t_snap x)
      | _ => True
      end
  | _ => True
  end.

Definition sim (s : state) (mon : tid -> phase) : Prop := forall t, phase_ok (th s t) (mon t).

Lemma sim_same s mon t v : sim s mon -> phase_ok v (mon t) -> sim (set_th s t v) mon.
Proof. intros Hs Hv t'. cbn. unfold upd. destruct (Nat.eqb_spec t' t) as [->|]; auto. Qed.

Lemma sim_upd s mon t v p : sim s mon -> phase_ok v p -> sim (set_th s t v) (pupd mon t p).
Proof. intros Hs Hv t'. cbn. unfold upd, pupd. destruct (Nat.eqb_spec t' t) as [->|]; auto. Qed.

Lemma sim_owner s mon o c : sim s mon -> sim (mkState o c (th s)) mon.
Proof. intros Hs t. apply Hs. Qed.

Lemma sim_upd_raw s mon t v o c : sim s mon -> phase_ok v (mon t) -> sim (mkState o c (upd (th s) t v)) mon.
Proof. intros Hs Hv t'. cbn. unfold upd. destruct (Nat.eqb_spec t' t) as [->|]; auto. Qed.

Ltac pc_cases x := destruct x; cbn in *; subst; cbn in *.

Lemma sim_step s mon e s' :
  sim s mon -> step_fn s e = Some s' -> exists mon', mon_step mon e = Some mon' /\ sim s' mon'.
Proof.
  intros Hs H. destruct e; cbn [step_fn mon_step] in *; unfold on_thread in H.
  - (* Lock *) destruct (owner s); [discriminate|]. destruct (lock_thread (th s t)) eqn:E; inv H.
    eexists; split; [reflexivity|]. apply sim_upd_raw; auto. pose proof (Hs t) as Ht.
    unfold lock_thread in E. destruct (th s t) as [p|x|a|]; break_step; cbn in *; auto; pc_cases x; auto.
  - (* Unlock *) destruct (unlock_thread (th s t)) eqn:E; inv H.
    eexists; split; [reflexivity|]. apply sim_upd_raw; auto. pose proof (Hs t) as Ht.
    unfold unlock_thread in E. destruct (th s t) as [p|x|a|]; break_step; cbn in *; auto;
      try (pc_cases x; auto); destruct ok; cbn; auto.
  - (* Access *) destruct (access_thread (th s t) w) eqn:E; inv H. pose proof (Hs t) as Ht.
    unfold access_thread in E. destruct (th s t) as [p|x|a|] eqn:Et; destruct w; break_step;
      try (eexists; split; [reflexivity|]; apply sim_same; auto; cbn; auto; pc_cases x; auto; fail).
    (* WFrame at X7 *)
    cbn in Ht. match goal with Hp : t_pc x = _ |- _ => rewrite Hp in Ht end.
    rewrite Ht. eexists; split; [reflexivity|].
    apply sim_upd; auto. cbn. reflexivity.
  - (* HookCall *) destruct (hookcall_thread (th s t)) eqn:E; inv H.
    eexists; split; [reflexivity|]. apply sim_upd; auto.
    unfold hookcall_thread in E. destruct (th s t) as [p|x|a|]; break_step; cbn; auto; try (pc_cases x; auto).
  - (* HookRet *) destruct (hookret_thread (th s t) ok) eqn:E; inv H. pose proof (Hs t) as Ht.
    unfold hookret_thread in E. destruct (th s t) as [p|x|a|]; break_step; cbn in Ht.
    + rewrite Ht. eexists; split; [reflexivity|]. apply sim_upd; auto. destruct ok; cbn; auto.
    + match goal with Hp : t_pc x = _ |- _ => rewrite Hp in Ht end.
      rewrite Ht. eexists; split; [reflexivity|]. apply sim_upd; auto.
      destruct ok; cbn; auto.
  - (* Mutate *) destruct (can_mutate (th s t)); [|discriminate]. destruct (th s m) eqn:Em; inv H.
    eexists; split; [reflexivity|]. apply sim_same; auto. pose proof (Hs m) as Hm. rewrite Em in Hm.
    cbn in *. destruct (t_pc x); auto.
  - destruct (th s t) eqn:Et; try discriminate. destruct (rx_local p (Recv t ok)) eqn:E; inv H.
    eexists; split; [reflexivity|]. apply sim_same; auto. unfold rx_local in E. destruct p; break_step; cbn; auto; destruct ok; cbn; auto.
  - destruct (th s t) eqn:Et; try discriminate. destruct (rx_local p (RxFrame t)) eqn:E; inv H.
    eexists; split; [reflexivity|]. apply sim_same; auto. unfold rx_local in E. destruct p; break_step; cbn; auto.
  - destruct (th s t) eqn:Et; try discriminate. destruct (rx_local p (Lookup t known)) eqn:E; inv H.
    eexists; split; [reflexivity|]. apply sim_same; auto. unfold rx_local in E. destruct p; break_step; cbn; auto; destruct known; cbn; auto.
  - destruct (th s t) eqn:Et; try discriminate. destruct (rx_local p (RecvErr t ok)) eqn:E; inv H.
    eexists; split; [reflexivity|]. apply sim_same; auto. unfold rx_local in E. destruct p; break_step; cbn; auto.
  - (* TxInit *) destruct (th s t) eqn:Et; try discriminate. destruct (tx_local (cancelled s) x (TxInit t)) eqn:E; inv H.
    eexists; split; [reflexivity|]. apply sim_same; auto. unfold tx_local in E. pc_cases x; break_step; cbn; auto.
  - (* Apply *) destruct (th s t) eqn:Et; try discriminate. destruct (tx_local (cancelled s) x (Apply t)) eqn:E; inv H.
    eexists; split; [reflexivity|]. apply sim_same; auto. unfold tx_local, apply_ticker in E. pc_cases x; break_step; cbn; auto; destruct t_gotwake; cbn; auto.
  - destruct (th s t) eqn:Et; try discriminate. destruct (tx_local (cancelled s) x (GetWake t)) eqn:E; inv H.
    eexists; split; [reflexivity|]. apply sim_same; auto. unfold tx_local in E. pc_cases x; break_step; cbn; auto.
  - destruct (th s t) eqn:Et; try discriminate. destruct (tx_local (cancelled s) x (Wake t)) eqn:E; inv H.
    eexists; split; [reflexivity|]. apply sim_same; auto. unfold tx_local in E. pc_cases x; break_step; cbn; auto.
  - (* Accept *) destruct (th s t) eqn:Et; try discriminate. destruct (th s a) eqn:Ea; try discriminate.
    destruct (t_pc x) eqn:Epc; try discriminate. destruct (a_pc a0) eqn:Eap; try discriminate.
    destruct (Nat.eqb m t); inv H. eexists; split; [reflexivity|].
    apply sim_same; [apply sim_same; auto|]; cbn; auto.
  - destruct (th s t) eqn:Et; try discriminate. destruct (tx_local (cancelled s) x (TickTake t)) eqn:E; inv H.
    eexists; split; [reflexivity|]. apply sim_same; auto. unfold tx_local in E. pc_cases x; break_step; cbn; auto.
  - (* Transmit *) destruct (th s t) eqn:Et; try discriminate. destruct (tx_local (cancelled s) x (Transmit t f ok)) eqn:E; inv H.
    pose proof (Hs t) as Ht. rewrite Et in Ht. unfold tx_local in E. pc_cases x; break_step.
    rewrite Ht. match goal with Hb : Nat.eqb _ _ = true |- _ => rewrite Hb end.
    eexists; split; [reflexivity|]. apply sim_upd; auto. destruct ok; cbn; auto.
  - (* SetFlag *) destruct (th s a) eqn:Ea; try discriminate. destruct (th s m) eqn:Em; try discriminate.
    destruct (a_pc a0) eqn:Eap; inv H. eexists; split; [reflexivity|].
    apply sim_same; [apply sim_same; auto|]; cbn; auto.
    pose proof (Hs m) as Hm. rewrite Em in Hm. cbn in *. destruct (t_pc x); auto.
  - (* WakeSend *) destruct (th s a) eqn:Ea; try discriminate. destruct (th s m) eqn:Em; try discriminate.
    destruct (a_pc a0) eqn:Eap; try discriminate. destruct (Nat.eqb m0 m); inv H. eexists; split; [reflexivity|].
    apply sim_same; [apply sim_same; auto|]; cbn; auto.
    pose proof (Hs m) as Hm. rewrite Em in Hm. cbn in *. destruct (t_pc x); auto.
  - destruct (th s a) eqn:Ea; try discriminate. destruct (th s m) eqn:Em; try discriminate.
    destruct (a_pc a0) eqn:Eap; inv H. eexists; split; [reflexivity|]. apply sim_same; cbn; auto.
  - destruct (th s a) eqn:Ea; try discriminate. destruct (a_pc a0) eqn:Eap; inv H.
    eexists; split; [reflexivity|]. apply sim_same; cbn; auto.
  - (* Tick *) destruct (th s t) eqn:Et; try discriminate. destruct (tx_local (cancelled s) x (Tick t)) eqn:E; inv H.
    eexists; split; [reflexivity|]. apply sim_same; auto. pose proof (Hs t) as Ht. rewrite Et in Ht.
    unfold tx_local in E. pc_cases x; break_step; cbn; auto.
  - inv H. eexists; split; [reflexivity|]. apply sim_owner. exact Hs.
  - (* Done *) destruct (th s t) eqn:Et; try discriminate.
    + destruct (rx_local p (Done t ok)) eqn:E; inv H. eexists; split; [reflexivity|]. apply sim_same; auto.
      unfold rx_local in E. destruct p; break_step; cbn; auto.
    + destruct (tx_local (cancelled s) x (Done t ok)) eqn:E; inv H. eexists; split; [reflexivity|]. apply sim_same; auto.
      unfold tx_local in E. pc_cases x; break_step; cbn; auto.
Qed.

Lemma sim_init cfg : sim (init cfg) (fun _ => P0).
Proof. intros t. cbn. destruct (cfg t); cbn; auto. Qed.

Lemma run_mon s mon tr s' : sim s mon -> run s tr = Some s' -> mon_run mon tr = true.
Proof.
  revert s mon. induction tr as [|e tl IH]; intros s mon Hs H; cbn in *; auto.
  destruct (step_fn s e) eqn:E; [|discriminate].
  destruct (sim_step _ _ _ _ Hs E) as (mon' & Hm & Hs'). rewrite Hm. eapply IH; eauto.
Qed.

(** every accepted trace (any configuration, any length) has the hook < Frame() < transmit order
    and transmits exactly the marshalled frame *)
Theorem accepted_order_ok cfg tr : accepts cfg tr = true -> order_ok tr = true.
Proof.
  unfold accepts, order_ok. destruct (run (init cfg) tr) eqn:E; [|discriminate]. intros _.
  eapply run_mon; [apply sim_init | exact E].
Qed.

(** trace form of I1-I3: walking an accepted trace, the owner recorded by the model at every
    Access / Mutate is the acting thread and at every HookCall it is not *)
Fixpoint discipline_ok (s : state) (tr : list event) : bool :=
  match tr with
  | [] => true
  | e :: tl =>
      (match e with
       | Access t _ | Mutate t _ _ => holds_lock s t
       | HookCall t => negb (holds_lock s t)
       | Lock _ => match owner s with None => true | Some _ => false end
       | _ => true
       end) &&
      match step_fn s e with Some s' => discipline_ok s' tl | None => false end
  end.

Lemma holds_lock_iff s t : holds_lock s t = true <-> owner s = Some t.
Proof.
  unfold holds_lock. destruct (owner s) as [o|]; [|split; discriminate].
  destruct (Nat.eqb_spec o t); split; intros H; try congruence; try discriminate.
Qed.

Lemma discipline_run cfg s tr s' : reachable cfg s -> run s tr = Some s' -> discipline_ok s tr = true.
Proof.
  revert s. induction tr as [|e tl IH]; intros s Hr H; cbn in *; auto.
  destruct (step_fn s e) eqn:E; [|discriminate].
  rewrite (IH s0); [|eapply reach_step; eauto|exact H]. rewrite andb_true_r.
  destruct e; auto.
  - apply lock_only_when_free in E. destruct E as [-> _]. reflexivity.
  - apply holds_lock_iff. destruct (I2_access_under_lock _ _ _ _ _ Hr E) as [Ho _]. exact Ho.
  - destruct (holds_lock s t) eqn:Eh; auto. apply holds_lock_iff in Eh.
    destruct (I3_hook_called_unlocked _ _ _ _ Hr E). contradiction.
  - apply holds_lock_iff. eapply I2_mutate_under_lock; eauto.
Qed.

Theorem accepted_discipline_ok cfg tr : accepts cfg tr = true -> discipline_ok (init cfg) tr = true.
Proof.
  unfold accepts. destruct (run (init cfg) tr) eqn:E; [|discriminate]. intros _.
  eapply discipline_run; [apply reach_init | exact E].
Qed.

(* ------------------------------------------------------------------ model-free discipline monitor *)

(** [raw_discipline] looks only at the events of a trace - no program counters, no model state:
    it tracks the mutex owner from the Lock / Unlock events and reports the first event that
    contradicts the lock discipline.  It is therefore meaningful on ANY logged trace, also on one
    the LTS rejects, and every accepted trace passes it ([accepted_raw_discipline]).
      DvLockBusy        Lock while the mutex is owned
      DvUnlockNotOwner  Unlock by a thread that does not own the mutex
      DvAccessUnlocked  Access / Mutate by a thread that does not own the mutex        (I2)
      DvHookLocked      HookCall by the thread that owns the mutex                      (I3)
      DvExitLocked      Done of a thread that still owns the mutex: the lock is never released,
                        the next Lock of anybody blocks for ever                        (I1) *)
Inductive dviol := DvLockBusy | DvUnlockNotOwner | DvAccessUnlocked | DvHookLocked | DvExitLocked.

Definition owns (o : option tid) (t : tid) : bool :=
  match o with Some x => Nat.eqb x t | None => false end.

Definition raw_check (o : option tid) (e : event) : option dviol :=
  match e with
  | Lock _ => match o with None => None | Some _ => Some DvLockBusy end
  | Unlock t => if owns o t then None else Some DvUnlockNotOwner
  | Access t _ | Mutate t _ _ => if owns o t then None else Some DvAccessUnlocked
  | HookCall t => if owns o t then Some DvHookLocked else None
  | Done t _ => if owns o t then Some DvExitLocked else None
  | _ => None
  end.

Definition raw_next (o : option tid) (e : event) : option tid :=
  match e with Lock t => Some t | Unlock _ => None | _ => o end.

Fixpoint raw_discipline (o : option tid) (tr : list event) (n : nat) : option (nat * dviol) :=
  match tr with
  | [] => None
  | e :: tl =>
      match raw_check o e with
      | Some v => Some (n, v)
      | None => raw_discipline (raw_next o e) tl (S n)
      end
  end.

Lemma owns_iff o t : owns o t = true <-> o = Some t.
Proof.
  unfold owns. destruct o as [x|]; [|split; discriminate].
  destruct (Nat.eqb_spec x t); split; intros H; try congruence; try discriminate.
Qed.

Lemma step_owner s e s' : step_fn s e = Some s' -> owner s' = raw_next (owner s) e.
Proof.
  intros H. destruct e; cbn [step_fn] in H; unfold on_thread in H; break_step; reflexivity.
Qed.

Lemma done_unlocked cfg s t ok s' : reachable cfg s -> step_fn s (Done t ok) = Some s' -> owner s <> Some t.
Proof.
  intros Hr H Ho. apply (I1_reachable _ _ Hr) in Ho. cbn in H.
  destruct (th s t) as [p|x| |] eqn:Et; try discriminate.
  - destruct p; cbn in *; discriminate.
  - unfold tx_local in H. destruct (t_pc x) eqn:Epc; cbn in Ho; rewrite Epc in Ho; cbn in Ho; discriminate.
Qed.

Lemma unlock_owner cfg s t s' : reachable cfg s -> step_fn s (Unlock t) = Some s' -> owner s = Some t.
Proof.
  intros Hr H. cbn in H. destruct (unlock_thread (th s t)) eqn:E; [|discriminate].
  apply unlock_thread_locked in E. apply (I1_reachable _ _ Hr). tauto.
Qed.

Lemma raw_run cfg s tr s' n : reachable cfg s -> run s tr = Some s' -> raw_discipline (owner s) tr n = None.
Proof.
  revert s n. induction tr as [|e tl IH]; intros s n Hr H; cbn in *; auto.
  destruct (step_fn s e) eqn:E; [|discriminate].
  assert (Hc : raw_check (owner s) e = None).
  { destruct e; cbn; auto.
    - apply lock_only_when_free in E. destruct E as [-> _]. reflexivity.
    - rewrite (unlock_owner _ _ _ _ Hr E). cbn. rewrite Nat.eqb_refl. reflexivity.
    - destruct (I2_access_under_lock _ _ _ _ _ Hr E) as [-> _]. cbn. rewrite Nat.eqb_refl. reflexivity.
    - destruct (owns (owner s) t) eqn:Eo; auto. apply owns_iff in Eo.
      destruct (I3_hook_called_unlocked _ _ _ _ Hr E). contradiction.
    - rewrite (I2_mutate_under_lock _ _ _ _ _ _ Hr E). cbn. rewrite Nat.eqb_refl. reflexivity.
    - destruct (owns (owner s) t) eqn:Eo; auto. apply owns_iff in Eo.
      exfalso. eapply done_unlocked; eauto. }
  rewrite Hc. rewrite <- (step_owner _ _ _ E). eapply IH; [eapply reach_step; eauto | exact H].
Qed.

(** every accepted trace passes the model-free monitor: in particular no thread returns while it
    owns the node lock *)
Theorem accepted_raw_discipline cfg tr : accepts cfg tr = true -> raw_discipline None tr 0 = None.
Proof.
  unfold accepts. destruct (run (init cfg) tr) eqn:E; [|discriminate]. intros _.
  apply (raw_run cfg (init cfg) tr s 0 (reach_init cfg) E).
Qed.
