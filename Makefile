# /verif build: everything is rebuilt from files on disk, offline.
.PHONY: setup coq drivers clean
setup: coq drivers
coq:
	./tools/coqmake.sh
drivers:
	python3 -c "import vlib,sys; [vlib.build_driver(n) for n in sys.argv[1:]]" $(shell ls coq/extract | sed 's/\.v$$//')
clean:
	rm -rf build coq/Makefile.coq* coq/.Makefile.coq.d coq/_CoqProject
	find coq -name '*.vo' -o -name '*.vok' -o -name '*.vos' -o -name '*.glob' -o -name '.*.aux' | xargs rm -f
