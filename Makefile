# /verif build: everything is rebuilt from files on disk, offline.
.PHONY: setup coq drivers clean
setup: coq drivers
coq:
	./tools/coqmake.sh -k || echo "WARNING: some Coq files failed to build (checks build their own targets)"
drivers:
	for n in $$(ls coq/extract | sed 's/\.v$$//'); do python3 -c "import vlib,sys; vlib.build_driver(sys.argv[1])" $$n || echo "WARNING: driver $$n failed to build"; done
clean:
	rm -rf build coq/Makefile.coq* coq/.Makefile.coq.d coq/_CoqProject
	find coq -name '*.vo' -o -name '*.vok' -o -name '*.vos' -o -name '*.glob' -o -name '.*.aux' | xargs rm -f
