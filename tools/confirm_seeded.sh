#!/bin/bash
# usage: tools/confirm_seeded.sh <dir with patch.diff + demo_test.go|demo.sh + meta.json> <seeded id>
# Confirms in a scratch worktree of /repo: patch applies, module builds, the whole existing suite passes
# with the patch, the demonstration FAILS with the patch and PASSES without it. On success copies the
# directory to /verif/seeded/<seeded id>/ and appends what was run to meta.json.
set -u
SRC="$(realpath "$1")"; SID="$2"
ROOT="$(cd "$(dirname "$0")/.." && pwd)"
export GOFLAGS=-mod=mod GOPROXY=off GOSUMDB=off GOTOOLCHAIN=local
W="$(mktemp -d /tmp/verif-confirm-XXXX)"
git -C /repo worktree add --detach "$W/repo" HEAD >/dev/null 2>&1 || exit 2
cleanup() { git -C /repo worktree remove --force "$W/repo" >/dev/null 2>&1; rm -rf "$W"; git -C /repo worktree prune; }
cd "$W/repo"
run_demo() {
  if [ -f "$SRC/demo.sh" ]; then
    # demos locate the module root as <their dir>/../.. : place them at <worktree>/out/demo/
    mkdir -p "$W/repo/out/demo"; cp -r "$SRC"/* "$W/repo/out/demo/"
    ( cd "$W/repo" && bash "$W/repo/out/demo/demo.sh" "$W/repo" ) >"$W/demo.log" 2>&1; RC=$?
    rm -rf "$W/repo/out"; return $RC
  else
    DEST=$(head -1 "$SRC/demo_test.go" | grep -oE '[A-Za-z0-9_./-]+_test\.go' | head -1 | sed 's|^[./]*||')
    [ -z "$DEST" ] && DEST="verif_demo_test.go"
    mkdir -p "$(dirname "$DEST")"; cp "$SRC/demo_test.go" "$DEST"
    go test -count=1 "./$(dirname "$DEST")" -run . >"$W/demo.log" 2>&1; RC=$?
    rm -f "$DEST"; return $RC
  fi
}
git apply "$SRC/patch.diff" || { echo "FAIL: patch does not apply"; cleanup; exit 1; }
go build ./... >"$W/build.log" 2>&1 || { echo "FAIL: does not build"; tail -5 "$W/build.log"; cleanup; exit 1; }
go test -count=1 ./... >"$W/test.log" 2>&1 || { echo "FAIL: existing suite fails with the patch"; grep -v "^ok\|no test files" "$W/test.log" | head; cleanup; exit 1; }
run_demo; WITH=$?
git checkout -- . ; git clean -fdq
run_demo; WITHOUT=$?
echo "suite with patch: pass; demo with patch rc=$WITH (want != 0); demo without patch rc=$WITHOUT (want 0)"
if [ $WITH -ne 0 ] && [ $WITHOUT -eq 0 ]; then
  mkdir -p "$ROOT/seeded/$SID"; cp -r "$SRC"/* "$ROOT/seeded/$SID/"
  python3 - "$ROOT/seeded/$SID/meta.json" <<'PY'
import json,sys
p=sys.argv[1]
try: d=json.load(open(p))
except Exception: d={}
d["confirmed_by_coordinator"]="scratch worktree of /repo HEAD: git apply patch.diff; go build ./... ok; go test -count=1 ./... all ok with the patch; demonstration fails with the patch and passes without it (tools/confirm_seeded.sh)"
json.dump(d,open(p,"w"),indent=1)
PY
  echo "CONFIRMED -> seeded/$SID"; cleanup; exit 0
fi
tail -5 "$W/demo.log"; cleanup; exit 1
