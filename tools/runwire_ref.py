#!/usr/bin/env python3
"""Prints the reference action programs of Runner/Program.v from the output of harness/runwire run on a tree whose
run.go / node templates are the ones the models were written for.  Used once to transcribe (the result is committed
in Runner/Program.v and from then on it is the REFERENCE: the check compares the current tree's extraction with it)."""
import sys, re, collections
fns = collections.OrderedDict()
for line in open(sys.argv[1]):
    if not line.startswith("RW n "):
        continue
    head, _, text = line.rstrip("\n").partition(" | ")
    m = re.match(r"RW n (\S+) (\S+) (\d+) (\w+) -> (\S*) @\d+", head)
    name, inst, idx, cls, succ = m.groups()
    key = (name, inst)
    fns.setdefault(key, []).append((cls, text, [int(x) for x in succ.split(",") if x]))
seen = set()
names = []
CL = {"lock": "CLock", "unlock": "CUnlock", "msg": "CMsg", "get": "CGet", "hook": "CHook", "block": "CBlock",
      "callfn": "CCallFn", "go": "CGo", "call": "CCall", "test": "CTest", "assign": "CAssign", "ret": "CRet",
      "select": "CSelect", "trysel": "CTrySel"}
def ident(n):
    return "p_" + re.sub(r"[^A-Za-z0-9]", "_", n)
for (name, inst), nodes in fns.items():
    if name in seen:
        continue
    seen.add(name)
    names.append(name)
    print("Definition %s : prog := Eval compute in [" % ident(name))
    rows = []
    for cls, text, succ in nodes:
        rows.append('  mkNode %s (bytes_of_string "%s") [%s]' % (CL[cls], text.replace('"', '""'), "; ".join(map(str, succ))))
    print(";\n".join(rows))
    print("].\n")
print("Definition ref_progs : list (bytes * prog) := Eval compute in [")
print(";\n".join('  (bytes_of_string "%s", %s)' % (n, ident(n)) for n in names))
print("].")
