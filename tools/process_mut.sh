#!/bin/bash
# usage: tools/process_mut.sh <worktree prefix, e.g. /tmp/mut2-> <property id> <tag, e.g. w2>
# For every out/m* of the mutation author's worktree: run the property's check against the patched scratch tree,
# confirm the mutation (suite passes, demo fails/passes) and store it under seeded/<id>-<tag>-<m>; remove the worktree.
PFX="$1"; ID="$2"; TAG="${3:-w2}"
ROOT="$(cd "$(dirname "$0")/.." && pwd)"; cd "$ROOT"
for d in "$PFX$ID"/out/m*; do
  [ -f "$d/patch.diff" ] || continue
  m=$(basename "$d")
  det=$(tools/try_patch.sh "$d/patch.diff" "$ID" 2>&1 | grep -E "^(VIOLATION|OK|#|PATCH)" | tail -2 | tr '\n' ' ' | cut -c1-330)
  conf=$(tools/confirm_seeded.sh "$d" "$ID-$TAG-$m" 2>&1 | tail -1)
  echo "$ID $m | $conf | $det"
done
git -C /repo worktree remove --force "$PFX$ID" >/dev/null 2>&1; git -C /repo worktree prune
