#!/bin/bash
# usage: tools/run_all.sh [tier] [ids...]   runs the checks (4 at a time) on /repo and prints one line per check
TIER="${1:-quick}"; shift
IDS="${*:-C01 C02 C03 C04 C05 C06 C07 C08 C09 C10 C11 C12 C13 C14 C15 C16 C17 C18 C19 C20}"
cd "$(dirname "$0")/.."
printf "%s\n" $IDS | xargs -P 4 -I{} bash -c 'out=$(python3 check.py {} '"$TIER"' 2>&1 | grep -E "^(OK|VIOLATION|KNOWN)" | head -3 | tr "\n" "|"); echo "{}: $out"' | sort
