#!/bin/bash
# usage: tools/confirm_wave.sh <worktree prefix, e.g. /tmp/mut5-> <property id> <tag, e.g. w5>
# Confirms every out/m* of a mutation author's worktree (tools/confirm_seeded.sh) and stores it under seeded/<id>-<tag>-<m>;
# removes the worktree. Detection is measured separately (tools/run_seeded.py).
PFX="$1"; ID="$2"; TAG="${3:-w5}"
ROOT="$(cd "$(dirname "$0")/.." && pwd)"; cd "$ROOT"
for d in "$PFX$ID"/out/m*; do
  [ -f "$d/patch.diff" ] || continue
  m=$(basename "$d")
  conf=$(tools/confirm_seeded.sh "$d" "$ID-$TAG-$m" 2>&1 | tail -1)
  echo "$ID $m | $conf"
done
git -C /repo worktree remove --force "$PFX$ID" >/dev/null 2>&1; git -C /repo worktree prune
