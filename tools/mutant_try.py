#!/usr/bin/env python3
"""usage: tools/mutant_try.py <file rel to /repo> <line> <desc substring> <ID[,ID..]>   re-run one mutant of a sweep against checks"""
import json, os, subprocess, sys
ROOT = os.path.dirname(os.path.dirname(os.path.abspath(__file__)))
rel, line, sub, ids = sys.argv[1], int(sys.argv[2]), sys.argv[3], sys.argv[4].split(",")
mutate = os.path.join(ROOT, "build", "mutate")
if not os.path.exists(mutate):
    subprocess.run(["go", "build", "-o", mutate, "."], cwd=os.path.join(ROOT, "tools", "mutate"),
                   env=dict(os.environ, GOFLAGS="-mod=mod", GOPROXY="off", GOSUMDB="off", GOTOOLCHAIN="local"), check=True)
out = subprocess.run([mutate, "/repo/" + rel], stdout=subprocess.PIPE, text=True).stdout
ms = [json.loads(l) for l in out.splitlines() if l.startswith("{")]
ms = [m for m in ms if m["line"] == line and sub in m["desc"]]
if not ms:
    sys.exit("no such mutant")
m = ms[0]
w = "/tmp/mtry-%d" % os.getpid()
subprocess.run(["git", "-C", "/repo", "worktree", "add", "--detach", w, "HEAD"], stdout=subprocess.DEVNULL, stderr=subprocess.DEVNULL)
try:
    src = open(os.path.join(w, rel), "rb").read()
    open(os.path.join(w, rel), "wb").write(src[:m["start"]] + m["repl"].encode() + src[m["end"]:])
    print("mutant:", m["desc"], "at line", m["line"])
    for pid in ids:
        env = dict(os.environ, VERIF_REPO=w, VERIF_EVIDENCE_DIR=w + "-ev")
        p = subprocess.run(["timeout", "900", "python3", "check.py", pid, "quick"], cwd=ROOT, env=env, stdout=subprocess.PIPE, stderr=subprocess.STDOUT, text=True)
        lines = [l for l in p.stdout.splitlines() if l.startswith(("VIOLATION", "OK", "#"))]
        print(pid, " | ".join(l[:200] for l in lines[-2:]))
finally:
    subprocess.run(["git", "-C", "/repo", "worktree", "remove", "--force", w], stdout=subprocess.DEVNULL)
    subprocess.run(["rm", "-rf", w + "-ev"])
