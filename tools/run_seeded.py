#!/usr/bin/env python3
"""Run every seeded change under /verif/seeded/<id>/ against the check of the property it breaks
(scratch worktree of /repo via tools/try_patch.sh) and record which are detected: seeded/results.json."""
import json, os, subprocess, sys
ROOT = os.path.dirname(os.path.dirname(os.path.abspath(__file__)))
only = sys.argv[1:]
res = {}
p = os.path.join(ROOT, "seeded", "results.json")
if os.path.exists(p):
    res = json.load(open(p))
from concurrent.futures import ThreadPoolExecutor
JOBS = int(os.environ.get("SEEDED_JOBS", "4"))


def one(sid):
    d = os.path.join(ROOT, "seeded", sid)
    meta = json.load(open(os.path.join(d, "meta.json")))
    prop = meta.get("property_for_detection") or meta.get("property", sid.split("-")[0])
    out = subprocess.run([os.path.join(ROOT, "tools", "try_patch.sh"), os.path.join(d, "patch.diff"), prop],
                         stdout=subprocess.PIPE, stderr=subprocess.STDOUT, text=True).stdout
    detected = "VIOLATION property=%s" % prop in out
    first = next((l for l in out.splitlines() if l.startswith("#")), "")
    print(sid, "DETECTED" if detected else "MISSED", first[:160], flush=True)
    return sid, {"property": prop, "detected": detected, "first_report": first[:300]}


sids = [sid for sid in sorted(os.listdir(os.path.join(ROOT, "seeded")))
        if os.path.isfile(os.path.join(ROOT, "seeded", sid, "meta.json"))
        and (not only or sid in only or sid.split("-")[0] in only or any(o.startswith("-") and o in sid for o in only))]
with ThreadPoolExecutor(JOBS) as ex:
    for sid, r in ex.map(one, sids):
        res[sid] = r
json.dump(res, open(p, "w"), indent=1, sort_keys=True)
