// mutate: enumerates statement/operator level mutants of a Go source file (classic mutation-testing operators)
// as byte-range replacements. Usage: mutate <file.go>  -> one JSON object per line:
// {"start":..,"end":..,"repl":"..","desc":"..","line":..}
// Used by tools/mutation_sweep.py to look for changes that the repository's tests do not kill and that a
// check of /verif should (DESIGN.md 9.8).
package main

import (
	"encoding/json"
	"fmt"
	"go/ast"
	"go/parser"
	"go/token"
	"os"
	"strconv"
)

type mut struct {
	Start int    `json:"start"`
	End   int    `json:"end"`
	Repl  string `json:"repl"`
	Desc  string `json:"desc"`
	Line  int    `json:"line"`
}

var swaps = map[token.Token][]token.Token{
	token.LSS: {token.LEQ, token.GEQ}, token.LEQ: {token.LSS, token.GTR}, token.GTR: {token.GEQ, token.LEQ}, token.GEQ: {token.GTR, token.LSS},
	token.EQL: {token.NEQ}, token.NEQ: {token.EQL}, token.LAND: {token.LOR}, token.LOR: {token.LAND},
	token.ADD: {token.SUB}, token.SUB: {token.ADD}, token.MUL: {token.QUO}, token.QUO: {token.MUL}, token.REM: {token.QUO},
	token.SHL: {token.SHR}, token.SHR: {token.SHL}, token.AND: {token.OR}, token.OR: {token.AND, token.XOR}, token.XOR: {token.OR}, token.AND_NOT: {token.AND},
}

var assignSwaps = map[token.Token]token.Token{
	token.ADD_ASSIGN: token.SUB_ASSIGN, token.SUB_ASSIGN: token.ADD_ASSIGN, token.MUL_ASSIGN: token.QUO_ASSIGN, token.QUO_ASSIGN: token.MUL_ASSIGN,
	token.OR_ASSIGN: token.AND_ASSIGN, token.AND_ASSIGN: token.OR_ASSIGN, token.SHL_ASSIGN: token.SHR_ASSIGN, token.SHR_ASSIGN: token.SHL_ASSIGN,
}

func main() {
	fn := os.Args[1]
	src, err := os.ReadFile(fn)
	if err != nil {
		panic(err)
	}
	fset := token.NewFileSet()
	f, err := parser.ParseFile(fset, fn, src, 0)
	if err != nil {
		panic(err)
	}
	enc := json.NewEncoder(os.Stdout)
	off := func(p token.Pos) int { return fset.Position(p).Offset }
	emit := func(s, e token.Pos, repl, desc string) {
		_ = enc.Encode(mut{off(s), off(e), repl, desc, fset.Position(s).Line})
	}
	text := func(s, e token.Pos) string { return string(src[off(s):off(e)]) }
	inConst := 0
	ast.Inspect(f, func(n ast.Node) bool {
		switch x := n.(type) {
		case *ast.GenDecl:
			if x.Tok == token.IMPORT {
				return false
			}
		case *ast.BinaryExpr:
			for _, t := range swaps[x.Op] {
				emit(x.OpPos, x.OpPos+token.Pos(len(x.Op.String())), t.String(), fmt.Sprintf("binary %s -> %s", x.Op, t))
			}
			if x.Op == token.LAND || x.Op == token.LOR {
				emit(x.Pos(), x.End(), text(x.X.Pos(), x.X.End()), "drop right operand of "+x.Op.String())
				emit(x.Pos(), x.End(), text(x.Y.Pos(), x.Y.End()), "drop left operand of "+x.Op.String())
			}
		case *ast.UnaryExpr:
			if x.Op == token.NOT || x.Op == token.SUB || x.Op == token.XOR {
				emit(x.Pos(), x.End(), text(x.X.Pos(), x.X.End()), "drop unary "+x.Op.String())
			}
		case *ast.BasicLit:
			if x.Kind == token.INT && inConst == 0 {
				if v, err := strconv.ParseInt(x.Value, 0, 64); err == nil {
					emit(x.Pos(), x.End(), strconv.FormatInt(v+1, 10), fmt.Sprintf("int %s -> +1", x.Value))
					if v > 0 {
						emit(x.Pos(), x.End(), strconv.FormatInt(v-1, 10), fmt.Sprintf("int %s -> -1", x.Value))
					}
				}
			}
		case *ast.Ident:
			if x.Name == "true" {
				emit(x.Pos(), x.End(), "false", "true -> false")
			} else if x.Name == "false" {
				emit(x.Pos(), x.End(), "true", "false -> true")
			}
		case *ast.IfStmt:
			emit(x.Cond.Pos(), x.Cond.End(), "!("+text(x.Cond.Pos(), x.Cond.End())+")", "negate if condition")
			if x.Else == nil {
				emit(x.Cond.Pos(), x.Cond.End(), "false", "if condition -> false (skip body)")
			}
		case *ast.AssignStmt:
			if t, ok := assignSwaps[x.Tok]; ok {
				emit(x.TokPos, x.TokPos+token.Pos(len(x.Tok.String())), t.String(), fmt.Sprintf("assign %s -> %s", x.Tok, t))
			}
			if x.Tok != token.DEFINE {
				emit(x.Pos(), x.End(), "", "delete assignment "+trunc(text(x.Pos(), x.End())))
			}
		case *ast.IncDecStmt:
			emit(x.Pos(), x.End(), "", "delete "+text(x.Pos(), x.End()))
		case *ast.ExprStmt:
			if _, ok := x.X.(*ast.CallExpr); ok {
				emit(x.Pos(), x.End(), "", "delete call "+trunc(text(x.Pos(), x.End())))
			}
		case *ast.DeferStmt:
			emit(x.Pos(), x.End(), "", "delete "+trunc(text(x.Pos(), x.End())))
		case *ast.BranchStmt:
			if x.Tok == token.CONTINUE {
				emit(x.Pos(), x.End(), "break", "continue -> break")
			} else if x.Tok == token.BREAK && x.Label == nil {
				emit(x.Pos(), x.End(), "continue", "break -> continue")
			}
		case *ast.CaseClause:
			if len(x.Body) > 0 && x.List != nil {
				emit(x.Body[0].Pos(), x.Body[len(x.Body)-1].End(), "", "empty case body")
			}
		}
		return true
	})
	_ = inConst
}

func trunc(s string) string {
	if len(s) > 60 {
		return s[:60] + "..."
	}
	return s
}
