#!/usr/bin/env python3
"""Systematic mutation sweep (DESIGN.md 9.8): classic mutation-testing operators (tools/mutate) applied to one
source file of /repo; every mutant that still BUILDS and that the repository's own test suite does NOT kill is
run against the quick checks of the properties anchored in that file. Mutants that survive both are listed for
inspection (equivalent mutant, behaviour outside every property, or a gap of the check).

usage: tools/mutation_sweep.py <file relative to /repo> <ID[,ID...]> [--max N] [--jobs J] [--seed S] [--only-survivors FILE]

Works in scratch worktrees of /repo HEAD (/tmp/msweep-<pid>-<k>), never in /repo; results (one JSON object per
mutant) are appended to build/msweep/<file with / replaced by _>.jsonl. Not part of any registered check."""
import json, os, random, subprocess, sys, threading, time

ROOT = os.path.dirname(os.path.dirname(os.path.abspath(__file__)))
REPO = "/repo"
ENV = dict(os.environ, GOFLAGS="-mod=mod", GOPROXY="off", GOSUMDB="off", GOTOOLCHAIN="local")


def sh(cmd, cwd=None, timeout=None, env=None):
    try:
        p = subprocess.run(cmd, cwd=cwd, env=env or ENV, stdout=subprocess.PIPE, stderr=subprocess.STDOUT, text=True, timeout=timeout)
        return p.returncode, p.stdout
    except subprocess.TimeoutExpired as e:
        return 124, (e.stdout or b"").decode("utf-8", "replace") if isinstance(e.stdout, bytes) else (e.stdout or "")


def main():
    args = sys.argv[1:]
    rel, ids = args[0], args[1].split(",")
    opt = dict(zip(args[2::2], args[3::2]))
    maxn, jobs, seed = int(opt.get("--max", 0)), int(opt.get("--jobs", 4)), int(opt.get("--seed", 1))
    src = open(os.path.join(REPO, rel), "rb").read()
    mutate = os.path.join(ROOT, "build", "mutate")
    if not os.path.exists(mutate):
        os.makedirs(os.path.dirname(mutate), exist_ok=True)
        rc, out = sh(["go", "build", "-o", mutate, "."], cwd=os.path.join(ROOT, "tools", "mutate"))
        if rc != 0:
            sys.exit("cannot build tools/mutate: " + out)
    rc, out = sh([mutate, os.path.join(REPO, rel)])
    muts = [json.loads(l) for l in out.splitlines() if l.startswith("{")]
    # de-duplicate identical replacements
    seen, uniq = set(), []
    for m in muts:
        k = (m["start"], m["end"], m["repl"])
        if k not in seen:
            seen.add(k)
            uniq.append(m)
    muts = uniq
    random.Random(seed).shuffle(muts)
    if maxn:
        muts = muts[:maxn]
    os.makedirs(os.path.join(ROOT, "build", "msweep"), exist_ok=True)
    outp = os.path.join(ROOT, "build", "msweep", rel.replace("/", "_") + ".jsonl")
    done = set()
    if os.path.exists(outp):
        for l in open(outp):
            try:
                r = json.loads(l)
                done.add((r["start"], r["end"], r["repl"]))
            except ValueError:
                pass
    muts = [m for m in muts if (m["start"], m["end"], m["repl"]) not in done]
    if "--recheck" in opt:
        # only the mutants that survived the tests and every check in an earlier run: run them again (the checks may have
        # been strengthened since); their old rows are replaced
        rows = [json.loads(l) for l in open(outp)] if os.path.exists(outp) else []
        keep = [r for r in rows if not (r.get("status") == "survived-tests" and not r.get("detected"))]
        redo = [r for r in rows if r.get("status") == "survived-tests" and not r.get("detected")]
        open(outp, "w").write("".join(json.dumps(r) + "\n" for r in keep))
        muts = [{k: r[k] for k in ("start", "end", "repl", "desc", "line")} for r in redo]
    print("%s: %d mutants to try (%d already done), checks %s" % (rel, len(muts), len(done), ids), flush=True)
    lock = threading.Lock()
    it = iter(muts)
    pkg = "./" + os.path.dirname(rel) if os.path.dirname(rel) else "."

    def worker(k):
        w = "/tmp/msweep-%d-%d" % (os.getpid(), k)
        sh(["git", "-C", REPO, "worktree", "add", "--detach", w, "HEAD"])
        try:
            while True:
                with lock:
                    m = next(it, None)
                if m is None:
                    return
                mutated = src[:m["start"]] + m["repl"].encode() + src[m["end"]:]
                open(os.path.join(w, rel), "wb").write(mutated)
                r = dict(m, file=rel)
                t0 = time.time()
                rc, out = sh(["go", "build", "./..."], cwd=w, timeout=300)
                if rc != 0:
                    r["status"] = "no-build"
                else:
                    rc, out = sh(["go", "vet", pkg], cwd=w, timeout=300)
                    rc, out = sh(["go", "test", "-count=1", "-timeout", "120s", "./..."], cwd=w, timeout=600)
                    if rc != 0:
                        r["status"] = "killed-by-tests"
                    else:
                        r["status"] = "survived-tests"
                        verdicts = {}
                        for pid in ids:
                            env = dict(ENV, VERIF_REPO=w, VERIF_EVIDENCE_DIR=w + "-ev")
                            rc2, out2 = sh(["timeout", "900", "python3", "check.py", pid, "quick"], cwd=ROOT, env=env, timeout=1000)
                            viol = [l for l in out2.splitlines() if l.startswith("VIOLATION")]
                            first = next((l for l in out2.splitlines() if l.startswith("#")), "")
                            verdicts[pid] = {"detected": bool(viol), "rc": rc2, "first": first[:200],
                                             "no_input": bool(viol) and all("no-failing-input-found" in v for v in viol)}
                            if viol:
                                break
                        r["checks"] = verdicts
                        r["detected"] = any(v["detected"] for v in verdicts.values())
                r["secs"] = round(time.time() - t0, 1)
                with lock:
                    open(outp, "a").write(json.dumps(r) + "\n")
                    tag = r["status"] if r["status"] != "survived-tests" else ("DETECTED" if r["detected"] else "MISSED")
                    print("%-16s L%-4d %s" % (tag, m["line"], m["desc"]), flush=True)
                open(os.path.join(w, rel), "wb").write(src)
        finally:
            sh(["git", "-C", REPO, "worktree", "remove", "--force", w])
            sh(["rm", "-rf", w + "-ev"])
            sh(["git", "-C", REPO, "worktree", "prune"])

    ts = [threading.Thread(target=worker, args=(k,)) for k in range(jobs)]
    [t.start() for t in ts]
    [t.join() for t in ts]
    # summary
    rows = [json.loads(l) for l in open(outp)]
    st = {}
    for r in rows:
        key = r["status"] if r["status"] != "survived-tests" else ("detected" if r["detected"] else "MISSED")
        st[key] = st.get(key, 0) + 1
    print("SUMMARY %s %s" % (rel, json.dumps(st, sort_keys=True)))


if __name__ == "__main__":
    main()
