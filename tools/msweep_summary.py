#!/usr/bin/env python3
"""Markdown summary of the mutation sweep results (build/msweep/*.jsonl, or seeded/msweep/*.jsonl when given as argv[1])."""
import json, glob, os, sys
d = sys.argv[1] if len(sys.argv) > 1 and not sys.argv[1].startswith("--") else os.path.join(os.path.dirname(os.path.dirname(os.path.abspath(__file__))), "build", "msweep")
tot = {"mutants": 0, "no-build": 0, "killed-by-tests": 0, "detected": 0, "undetected": 0}
lines = []
_print = print
def print(x):
    lines.append(x); _print(x)
print("| file | mutants tried | do not build | killed by the repo's tests | survive the tests, detected by the check(s) | survive both |")
print("|---|---|---|---|---|---|")
for f in sorted(glob.glob(os.path.join(d, "*.jsonl"))):
    rows = [json.loads(l) for l in open(f)]
    c = {"no-build": 0, "killed-by-tests": 0, "detected": 0, "undetected": 0}
    for r in rows:
        k = r["status"] if r["status"] != "survived-tests" else ("detected" if r["detected"] else "undetected")
        c[k] += 1
    ids = sorted({k for r in rows for k in r.get("checks", {})})
    print("| %s (%s) | %d | %d | %d | %d | %d |" % (rows[0]["file"], ",".join(ids), len(rows), c["no-build"], c["killed-by-tests"], c["detected"], c["undetected"]))
    tot["mutants"] += len(rows)
    for k in c:
        tot[k] += c[k]
print("| **total** | %d | %d | %d | %d | %d |" % (tot["mutants"], tot["no-build"], tot["killed-by-tests"], tot["detected"], tot["undetected"]))

# with --design: also write the table between the markers of DESIGN.md section 9.7
if "--design" in sys.argv:
    root = os.path.dirname(os.path.dirname(os.path.abspath(__file__)))
    dp = os.path.join(root, "DESIGN.md")
    t = open(dp).read()
    b, e = "<!-- msweep-table-begin -->", "<!-- msweep-table-end -->"
    t = t[:t.index(b) + len(b)] + "\n" + "\n".join(lines) + "\n" + t[t.index(e):]
    open(dp, "w").write(t)
