#!/bin/bash
# Build (part of) the Coq development under an exclusive lock.
# usage: tools/coqmake.sh [make targets relative to coq/, e.g. theories/Properties/C17.vo]
# With no target, builds everything. Always a full .vo build (never -vos/-vok).
set -u
ROOT="$(cd "$(dirname "$0")/.." && pwd)"
mkdir -p "$ROOT/build"
exec 9>"$ROOT/build/.coqlock"
flock 9
cd "$ROOT/coq"
{
  echo "-Q theories CanVerif"
  echo "-arg -w -arg -notation-overridden,-deprecated-hint-without-locality,-deprecated-instance-without-locality"
  find theories -name '*.v' | LC_ALL=C sort
} > _CoqProject.new
if ! cmp -s _CoqProject.new _CoqProject 2>/dev/null || [ ! -f Makefile.coq ]; then
  mv _CoqProject.new _CoqProject
  coq_makefile -f _CoqProject -o Makefile.coq >/dev/null || exit 2
else
  rm -f _CoqProject.new
fi
TMO="${VERIF_COQ_TIMEOUT:-3000}"
if [ $# -eq 0 ]; then
  timeout "$TMO" make -f Makefile.coq -j"${VERIF_JOBS:-16}" 2>&1
else
  timeout "$TMO" make -f Makefile.coq -j"${VERIF_JOBS:-16}" "$@" 2>&1
fi
