#!/usr/bin/env python3
"""Rewrite the table of DESIGN.md section 9.8 (between the markers seeded-table-begin / seeded-table-end) from
seeded/*/meta.json and seeded/results.json (written by tools/run_seeded.py)."""
import json, os, re, sys
ROOT = os.path.dirname(os.path.dirname(os.path.abspath(__file__)))
res = json.load(open(os.path.join(ROOT, "seeded", "results.json")))


def cell(s, n):
    s = re.sub(r"\s+", " ", str(s)).replace("|", "/")
    return s[:n]


def how(first):
    f = first.lstrip("# ")
    f = re.sub(r"^\[GOARCH=\d+\] ", "", f)
    for key, short in (("implementation disagrees with the specification", "impl != spec (model = spec theorem)"),
                       ("property predicate fails", "property predicate false on impl output"),
                       ("property clause fails", "property predicate false on impl output"),
                       ("translated source no longer equals the model", "translation tie: T_ lemma / translator breaks"),
                       ("generated code disagrees", "generated code / API differs from model"),
                       ("generated API differs", "generated code / API differs from model"),
                       ("compiled database differs", "compiled database differs from the denoted one"),
                       ("rendering differs", "rendering differs from the model"),
                       ("`cantool generate`", "cantool generate CLI differs from the library"),
                       ("output depends on what was generated earlier", "generator output depends on process history"),
                       ("generated code does not compile", "generated code does not compile"),
                       ("model and implementation disagree", "no-failing-input-found (broken tie / disagreement)"),
                       ("proof obligation", "proof obligation breaks")):
        if key in f:
            return short + (" [GOARCH=386]" if "[GOARCH=386]" in first else "")
    return cell(f, 70)


rows = []
for sid in sorted(os.listdir(os.path.join(ROOT, "seeded"))):
    d = os.path.join(ROOT, "seeded", sid)
    if not os.path.isfile(os.path.join(d, "meta.json")):
        continue
    meta = json.load(open(os.path.join(d, "meta.json")))
    r = res.get(sid, {})
    verdict = "not run" if not r else (how(r.get("first_report", "")) if r.get("detected") else "**MISSED**")
    rows.append("| %s | %s | %s | %s | %s |" % (sid, r.get("property", meta.get("property", sid[:3])),
                                               cell(meta.get("summary", ""), 170), cell(meta.get("needs", ""), 110), verdict))
table = "\n".join(["| seeded change | property | what was changed | needs | how the check reports it |", "|---|---|---|---|---|"] + rows)
p = os.path.join(ROOT, "DESIGN.md")
s = open(p).read()
b, e = "<!-- seeded-table-begin -->", "<!-- seeded-table-end -->"
if b not in s:
    sys.exit("markers not found in DESIGN.md")
s = s[:s.index(b) + len(b)] + "\n" + table + "\n" + s[s.index(e):]
open(p, "w").write(s)
n = sum(1 for x in res.values() if x.get("detected"))
print("table: %d seeded changes, %d with results, %d detected, missed: %s" % (
    len(rows), len(res), n, sorted(k for k, v in res.items() if not v.get("detected"))))
