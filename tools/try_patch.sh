#!/bin/bash
# usage: tools/try_patch.sh <patch.diff> <property id> [tier]
# Applies the patch to a scratch copy of /repo (never to /repo itself), runs the check against the
# copy through VERIF_REPO, prints the verdict lines, removes the copy.
set -u
PATCH="$(realpath "$1")"; ID="$2"; TIER="${3:-quick}"
ROOT="$(cd "$(dirname "$0")/.." && pwd)"
W="$(mktemp -d /tmp/verif-mutrepo-XXXX)"
git -C /repo worktree add --detach "$W/repo" HEAD >/dev/null 2>&1 || { echo "worktree failed"; exit 2; }
( cd "$W/repo" && git apply "$PATCH" ) || { echo "PATCH DOES NOT APPLY"; git -C /repo worktree remove --force "$W/repo"; rm -rf "$W"; exit 2; }
cd "$ROOT" && VERIF_EVIDENCE_DIR="$W/evidence" VERIF_REPO="$W/repo" timeout 1800 python3 check.py "$ID" "$TIER" 2>&1 | grep -E "^(VIOLATION|OK|KNOWN|#)" | head -8
RC=${PIPESTATUS[0]}
git -C /repo worktree remove --force "$W/repo" >/dev/null 2>&1; rm -rf "$W"; git -C /repo worktree prune
exit $RC
