#!/usr/bin/env python3
"""Regenerate MANIFEST.json from the PROPERTIES tables of checks/*.py (run from /verif)."""
import json, os, sys
sys.path.insert(0, os.path.dirname(os.path.dirname(os.path.abspath(__file__))))
import check
fam = check.families()
NA = {}
na_path = os.path.join(os.path.dirname(os.path.dirname(os.path.abspath(__file__))), "not_applicable.json")
if os.path.exists(na_path):
    NA = json.load(open(na_path))
checks = []
for pid in sorted(fam):
    p = fam[pid].PROPERTIES[pid]
    checks.append({
        "property_id": pid,
        "quick_cmd": "python3 check.py %s quick" % pid,
        "thorough_cmd": "python3 check.py %s thorough" % pid,
        "evidence_file": "evidence/%s.json" % pid,
        "replay_cmd_template": "python3 check.py %s quick --replay {path}" % pid,
        "engine": "coq-model+correspondence",
        "level_claimed": {"category": p.get("category", "proof"), "text": p["text"], "design_ref": p.get("design_ref", "")},
        "level_note": p["note"],
        "technique": p["technique"],
    })
ids = [c["property_id"] for c in checks]
m = {
    "version": 1,
    "setup_cmd": "make setup",
    "hooks": {
        "guard": "verif",
        "enable": "no source hooks: harness code is compiled into /repo's working tree with `go build -overlay` "
                  "(virtual cmd/verif_* packages and extra files overlaid into packages for unexported access); "
                  "nothing in /repo is edited",
        "baseline_off_cmd": "cd /repo && GOFLAGS=-mod=mod GOPROXY=off GOSUMDB=off go test -vet=off -count=1 ./...",
        "source_commits": [],
        "add_only": True,
    },
    "engines": [{
        "name": "coq-model+correspondence", "path": "check.py", "serves_properties": ids,
        "kind_free_text": "Coq 8.16 theorems about hand-written Gallina models (coq/theories); the same models extracted "
                          "to OCaml and compared with the Go implementation built from /repo's working tree (harness/, ocaml/)",
    }],
    "checks": checks,
    "notes": "See DESIGN.md. fix: commits made in /repo are listed in known_findings.json.",
    "not_applicable": [
        {"property_id": "C%02d" % i,
         "reason": NA.get("C%02d" % i, "not built yet (planned: DESIGN.md section 8); will be claimed when its model, theorems and correspondence check exist")}
        for i in range(1, 21) if "C%02d" % i not in ids],
}
json.dump(m, open("MANIFEST.json", "w"), indent=1)
print("MANIFEST.json: %d checks, %d not applicable" % (len(checks), len(m["not_applicable"])))
