"""C08, C09: signal descriptors (pkg/descriptor/signal.go; physical setter of internal/generate/file.go).
DESIGN.md 5.8, 5.9."""
import json
import os
import re
import shutil

import vlib
from checks import translate_tie

_NOTE08 = ("Trusted: Coq 8.16.1 kernel; extraction (ExtrOcamlBasic) + OCaml 4.13.1; the hand-written models "
           "Descriptor/Signal.v (on top of Can/Data.v) and, for float signals, Descriptor/Physical.v, validated against the "
           "code by the correspondence run; Go harness / OCaml driver / check.py glue. Print Assumptions: closed under "
           "the global context for the integer theorems; the float32 theorems depend on the standard-library real-number "
           "axioms that Flocq inherits (Classical_Prop.classic, ClassicalDedekindReals.sig_forall_dec, sig_not_dec, "
           "FunctionalExtensionality.functional_extensionality_dep; all Coq standard library). NaN payloads are not modelled (both sides "
           "canonicalise NaN); little-endian host assumed for the unsafe float32 reinterpretation (amd64).")

_NOTE09 = ("Trusted: Coq 8.16.1 kernel; Flocq 4.1 (IEEE-754 binary64 formalisation). Print Assumptions reports "
           "Classical_Prop.classic and the three real-number axioms ClassicalDedekindReals.sig_forall_dec, "
           "ClassicalDedekindReals.sig_not_dec, FunctionalExtensionality.functional_extensionality_dep (all Coq standard "
           "library, all reached through Flocq's own lemmas such as binary_normalize_correct and round_le) and nothing else; extraction + "
           "OCaml; the hand-written model Descriptor/Physical.v (every operation one round-to-nearest-even IEEE operation, "
           "math.Max/Min special cases as in Go's dim.go), validated against the code on every run; glue. Hardware "
           "assumption: amd64, no fused multiply-add in raw*scale+offset. The generated setter's float->integer conversion "
           "is modelled as truncation and proved to stay inside the raw range (where Go defines it). The clause 'error below "
           "one factor step' of the physical round trip is false for exact reals (theorem C09_roundtrip_physical_refuted: "
           "scale 0.1, offset -40, p = -39.6 comes back 1+1.4e-14 steps away); what is proved and checked is the bound of "
           "two steps (C09_roundtrip_physical_partial); the raw round trip is proved with the bound of one step as stated. "
           "The driver evaluates the property's own one-step clause on every in-class observation: its failures (ratio < 2) "
           "are the known finding C09-physical-roundtrip-truncation of known_findings.json (reported once as KNOWN-FINDING, "
           "counted in the evidence); a ratio >= 2 or any other clause is a violation.")

PROPERTIES = {
    "C08": {
        "text": "Coq theorems (Properties/C08.v): for every descriptor geometry that fits the 64 payload bits, Unmarshal* "
                "return exactly the bits C01 specifies and Marshal* perform exactly the write C02 specifies (corollaries of the "
                "bit-core theorems), 1-bit signals read/write the single addressed bit, float signals carry the IEEE-754 "
                "binary32 pattern of the binary32 rounding of the value (Flocq), MaxUnsigned/MinSigned/MaxSigned are exactly "
                "2^L-1, -2^(L-1), 2^(L-1)-1 for every L in 1..64 (int64/uint64 wrap of the Go shift formulas written out; "
                "the pre-fix formulas are refuted at L=63,64), and the saturated casts equal min(max(v,lo),hi). The model is "
                "tied to signal.go on every run by comparing with the real methods on all 4160 geometries x payload basis x "
                "{unsigned, signed, float32}, bounds and saturated casts at every L.",
        "note": _NOTE08 + " Geometries and lengths exhaustive; payload and value axes sampled (basis + boundary + random).",
        "technique": "Coq proof about a Gallina model + differential correspondence of model and code",
        "design_ref": "5.8",
    },
    "C09": {
        "text": "Coq theorems (Properties/C09.v) on the Flocq binary64 model of ToPhysical/FromPhysical and of the generated "
                "setter's truncation, for every signal with finite non-zero scale, finite offset/min/max, min <= max: the "
                "clamp clause (declared range => min <= ToPhysical(r) <= max and = the clamped linear value; no range => "
                "fl(fl(r*scale)+offset)), saturation for every non-NaN physical value incl. +-Inf (raw_lo <= FromPhysical(p) "
                "<= raw_hi, and for L <= 52 the truncated integer lies in the raw range: always encodable), and monotonicity "
                "of FromPhysical (non-decreasing for positive, non-increasing for negative scale) from monotonicity of IEEE "
                "rounding, and for L <= 32 under the hypothesis resolves_f (|offset| <= 2^50*|scale|, magnitudes in "
                "[2^-960, 2^960]) the round-trip bounds by forward error analysis: raw -> physical -> raw within one step; "
                "physical -> raw -> physical below two steps (below one step is refuted with a witness). The model is tied to the code by differential runs over signals of every length 1..52, both signs, "
                "decimal/binary/odd scales of both signs, offsets, absent/one-sided/two-sided ranges; the driver evaluates "
                "the clause predicates (clamp, rule, saturation/encodable, monotone on ordered pairs, round-trip bounds) on the "
                "implementation's outputs. A second stage runs GENERATED code: a seeded batch of DBC programs concentrated on "
                "scaled signals (multiplexed messages with always-present scaled signals behind multiplexed ones, scaled "
                "multiplexed signals, negative factors, one-sided ranges) goes through the tree's compiler + generator + the Go "
                "compiler, and every generated physical getter/setter (<Signal>() / Set<Signal>(float64), also after "
                "UnmarshalFrame and into Frame()) and the descriptor wiring Messages().<Msg>.<Signal> are compared with the "
                "same Flocq model (Gen/HistoryPhys.v phys_set / phys_get over the database the program denotes).",
        "note": _NOTE09,
        "technique": "Coq proof (Flocq) about a Gallina model + differential correspondence with predicate evaluation",
        "design_ref": "5.9",
    },
}

RULES = {
    "C08": "all 4160 fitting (order,start,length) geometries x payload basis (zero, ones, 64 one-hot, one-cold (16 in quick, 64 in thorough), "
           "seeded random) x {UnmarshalUnsigned, UnmarshalSigned}; Marshal{Unsigned,Signed} on 4 prior payloads x boundary+random "
           "values; float32 at every 32-bit geometry (special bit patterns + random; MarshalFloat on special/random float64 "
           "values incl. ties, subnormals, overflow, NaN); Unmarshal/MarshalBool for start 0..255; bounds at every L in 1..64; "
           "saturated casts at 0, +-1, both bounds, bounds+-1, type extremes, random; SaturatedCastFloat; value descriptions. "
           "non-trivial = result non-zero / write changed the payload / cast changed the value; distinct by line hash",
    "C09": "signals: every length 1..52 x {unsigned, signed} x seeded choices of scale (decimal 1e-6..1e6, binary 2^-20..2^20, "
           "odd; both signs), offset (0, constants, centred, multiples of the step up to 2^50 steps), range (absent, natural, "
           "narrower, wider, only-Max, only-Min, unaligned); raw axis exhaustive for a 0.1-scaled 16-bit signal and for every "
           "length <= 10 on 4 signals each, boundary+random elsewhere; physical axis: 0, -0, subnormals, +-1e+-300, "
           "+-MaxFloat64, +-Inf, range edges and offset +-1ulp, steps and half steps +-1ulp, random; ordered pairs for "
           "monotonicity; UnmarshalPhysical; a few signals outside the class (correspondence only). "
           "non-trivial = non-zero result (TP/FP/UP) or distinct results (MO); distinct by line hash. "
           "Generated-code stage (kinds PW PA PR PS PG): per program of gen_phys_batch (the last two are TWINS of the first two: "
           "same message and signal names, other lengths/signs/scaling, generated by the same process) every signal with "
           "physical accessors: wiring (PW, all signals), existence of the physical accessors (PA, all signals, incl. "
           "identity-scaled signals whose declared range touches the raw limit on one side), SetRaw -> <Signal>() on raw extremes/out-of-range/random arguments (PR), "
           "Set<Signal>(x) -> Raw/<Signal>()/Frame() on range edges, raw-extreme images, steps and half steps +-1ulp, "
           "zeros, subnormals, huge, +-Inf, random (PS; multiplexed signals with their selector set), UnmarshalFrame of "
           "boundary/random payloads -> all physical getters (PG); non-trivial = non-zero raw value / payload",
}

ASSUMPTIONS = {
    "C08": ["the Gallina models Descriptor/Signal.v and Descriptor/Physical.v (float part) are faithful transcriptions of "
            "pkg/descriptor/signal.go: checked on every run by the differential comparison",
            "Go semantics for uint8/int64/uint64 wrap-around and shifts >= width as written in Descriptor/Signal.v (amd64)",
            "float32(x) is IEEE round-to-nearest-even; the unsafe.Pointer casts read/write the low 32 bits (little-endian host)"],
    "C09": ["the Flocq model Descriptor/Physical.v is a faithful transcription of ToPhysical/FromPhysical/UnmarshalPhysical and "
            "of math.Max/math.Min: checked on every run by the differential comparison (bit patterns, NaN canonicalised)",
            "every float64 operation of the Go code is a single IEEE-754 round-to-nearest-even operation (amd64, no FMA)",
            "class of the theorems: finite non-zero scale, finite offset/min/max, min <= max; lengths 1..52 for saturation and "
            "monotonicity; round-trip clauses under the hypothesis resolves (|offset| <= 2^50*|scale|, magnitudes in "
            "[2^-960, 2^960]) and length <= 32",
            "the Go type of the generated setter's field is taken from the real internal/generate.signalPrimitiveType "
            "(overlay export); the conversion T(float64) truncates towards zero for in-range values (Go spec)",
            "generated-code stage: the DBC program generator (checks/genprogs.py gen_phys_batch) emits programs of DESIGN.md "
            "4.3 together with the database they denote; go/format, go-goon and the Go compiler are exercised, not modelled"],
}


KNOWN_ID = "C09-physical-roundtrip-truncation"


_TIE_TEXT = ' In addition the model is REGENERATED from the source on every run: harness/translate translates the Go functions (go/types-checked subset) to Gallina and coq/translate/Equiv.v re-proves, for all inputs, that each translated function equals the hand-written model; a semantic change of a translated function breaks that proof obligation.'
_TIE_NOTE = " Added trusted base of the translation tie: the translator harness/translate/main.go (unverified Go program) and Translate/GoSem.v's reading of Go's integer semantics."
for _pid in ['C08']:
    PROPERTIES[_pid] = dict(PROPERTIES[_pid], text=PROPERTIES[_pid]["text"] + _TIE_TEXT, note=PROPERTIES[_pid]["note"] + _TIE_NOTE + translate_tie.TIE_NOTE_FLOAT)
translate_tie.describe(PROPERTIES, "C09", "(here: ToPhysical, FromPhysical, UnmarshalPhysical, SaturatedCastFloat, MinFloat, MaxFloat, UnmarshalFloat, "
                       "MarshalFloat of pkg/descriptor/signal.go with the integer functions they call, = Descriptor/Physical.v)",
                       translate_tie.TIE_NOTE_INT, translate_tie.TIE_NOTE_FLOAT)


def known_c09():
    """the `known` entry of known_findings.json for the truncating-setter round trip, or None"""
    for k in vlib.load_known().get("known", []):
        if k.get("property") == "C09" and k.get("id") == KNOWN_ID:
            return k
    return None


def harness_args(pid, tier, seed, witness=False):
    if pid == "C08":
        return ["c08", seed] + ([2, 4] if tier == "quick" else [200, 1])   # nrand coldStep
    # perLen nraw nphys npairs exhMax exh16 witness
    return ["c09", seed] + ([5, 8, 8, 20, 10, 0] if tier == "quick" else [60, 24, 24, 60, 14, 1]) + [1 if witness else 0]


def harness_args_386(pid, seed, witness=False):
    """second architecture (32-bit int/uint; GO386=sse2, so float64 arithmetic is the same IEEE arithmetic): reduced sample"""
    if pid == "C08":
        return ["c08", seed, 1, 8]
    return ["c09", seed, 2, 4, 4, 8, 8, 0, 1 if witness else 0]


_ONE_STEP = re.compile(r" clause=roundtrip-physical-one-step ratio=(\S+)$")


def c09_known_matcher(res):
    """PFAILs of the property's own one-step clause with 1 <= ratio < 2 are the listed known finding
    (the driver reports that clause only when every other clause, incl. the proved two-step bound,
    holds); anything else stays a violation. One identical line for all of them."""
    def match(obs):
        m = _ONE_STEP.search(obs)
        if not m:
            return None
        try:
            ratio = float(m.group(1))
        except ValueError:
            return None
        if not (ratio < 2.0):
            return None
        return ("%s: physical round trip through the truncating setter exceeds one factor step "
                "(max ratio %s over %s cases, e.g. scale=0.1 offset=-40 u16 p=-39.6 -> 1.0000000000000142 steps)"
                % (KNOWN_ID, repr(float(res.cov.get("physical_roundtrip_max_ratio", 0.0))),
                   res.cov.get("physical_roundtrip_over_one_step", "?")))
    return match


def generated_code_stage(res):
    """C09 on GENERATED code: programs concentrated on scaled signals -> the tree's generate.Compile/Database -> go build
    (the batch pipeline of checks/gen.py) -> harness/genrun mode `phys` -> the gen driver (Flocq model)."""
    from checks import gen, genprogs
    quick = res.tier == "quick"
    count = 10 if quick else 40
    nraw, nphys, nframes = (8, 16, 24) if quick else (16, 40, 60)
    scratch = vlib.scratch_dir()
    try:
        progs = genprogs.gen_phys_batch(res.seed, count)
        nviol = len(res.violations)
        exe, progs, status = gen.prepare_batch(res, scratch, res.seed, count, progs=progs)
        corr = "generated physical accessors and descriptor wiring (tree's generator, Go compiler) = Flocq model on every case"
        res.corr_obligations = list(res.corr_obligations) + [corr]
        if exe is None:
            if len(res.violations) == nviol:
                res.violation("generated-code stage: batch could not be prepared", {"status": status}, no_input=True)
            return
        drv = vlib.build_driver("gen")
        args = ["phys", res.seed, nraw, nphys, nframes]
        rc, out, err = vlib.run_pipe(exe, [str(a) for a in args], drv, [os.path.join(scratch, "exp")], timeout=900)
        stats = None
        texts = {n: t for n, t, _, _ in progs}
        how = {"PA": "does the generated type of message <mi> have Raw<Sig>/SetRaw<Sig>, <Sig>() float64, Set<Sig>(float64) for signal <si>; "
                     "model: hasPhysicalRepresentation as specified for C11 (Gen/Api.v has_physical)",
               "PW": "reflection on <pkg>.Messages(): field <Msg>, then the field named like signal <si> of Database().Messages[<mi>]",
               "PR": "fresh message (dispatcher, Reset()); SetRaw<Sig>(argument); Raw<Sig>(); <Sig>()",
               "PS": "fresh message; multiplexer field := selector if the signal is multiplexed; Set<Sig>(float64frombits(x)); "
                     "Raw<Sig>(); <Sig>(); Frame().Data",
               "PG": "fresh message; UnmarshalFrame({ID, Length, IsExtended of the message, Data}); Raw<Sig>() and <Sig>() of "
                     "every signal with physical accessors (index:raw:physical)"}
        found = {}
        for line in out.splitlines():
            if line.startswith("STATS "):
                stats = json.loads(line[6:])
            elif line.startswith("CLASS "):
                cls = json.loads(line[6:])
                if cls["messages_outside"]:
                    res.violation("check machinery: programs of the generated-code stage fall outside the class of the C03/C10 "
                                  "theorems: %s" % cls["outside"][:5], {"outside": cls["outside"]}, no_input=True)
            elif line.startswith("MISMATCH ") or line.startswith("PFAIL "):
                kind, _, rest = line.partition(" ")
                obs, _, detail = rest.partition(" || ")
                found.setdefault(obs.split()[0], []).append((obs, detail))
        # one replay per kind of observation first (accessors: PR PS PG; wiring: PW), then the seconds, ...
        order = [k for k in ("PS", "PR", "PG", "PW", "PA") if k in found] + sorted(k for k in found if k not in ("PS", "PR", "PG", "PW", "PA"))
        shown = 0
        for rank in range(3):
            for k in order:
                if rank < len(found[k]) and shown < 8:
                    obs, detail = found[k][rank]
                    toks = obs.split()
                    pkg = toks[1] if len(toks) > 1 else "?"
                    shown += 1
                    res.violation("generated code disagrees with the physical-conversion model (%s): %s ; %s"
                                  % (k, obs[:300], detail[:300]),
                                  {"dbc": texts.get(pkg, ""), "observation": obs, "detail": detail,
                                   "line format": "<kind> <package> <message index> <signal index | payload> [argument] => implementation; model= what the Flocq model computes",
                                   "how": how.get(k, ""),
                                   "harness": "harness/genrun/phys_c09.go " + " ".join(map(str, args)),
                                   "reported_mismatches_by_kind": {kk: len(v) for kk, v in found.items()}})
        if rc != 0 or stats is None:
            res.violation("generated-code stage: runner or model driver failed (rc=%s)" % rc,
                          {"stderr": err[-2000:], "stdout_tail": out[-800:]}, no_input=True)
            return
        # counted like the descriptor-level streams
        res.cov["evaluations"] = res.cov.get("evaluations", 0) + stats["cases"]
        res.cov["distinct_nontrivial"] = res.cov.get("distinct_nontrivial", 0) + stats["distinct_nontrivial"]
        res.cov["mismatches"] = res.cov.get("mismatches", 0) + stats["mismatches"]
        kinds = dict(res.cov.get("kinds", {}))
        for k, v in stats["kinds"].items():
            kinds[k] = kinds.get(k, 0) + v
        res.cov["kinds"] = kinds
        res.cov["samples"] = list(res.cov.get("samples", [])) + [s[:300] for s in stats["samples"][:2]]
        summ = [s for _, _, _, s in progs]
        res.cov["generated_code_stage"] = {
            "programs": len(progs), "cases": stats["cases"], "kinds": stats["kinds"], "mismatches": stats["mismatches"],
            "messages": sum(s["messages"] for s in summ), "signals": sum(s["signals"] for s in summ),
            "scaled_signals": sum(s["scaled"] for s in summ), "multiplexed_signals": sum(s["muxed"] for s in summ),
            "always_present_scaled_signals_behind_a_multiplexed_one": sum(s["plain_scaled_behind_multiplexed"] for s in summ),
            "twin_programs": {s["twin_of"]: n for n, _, _, s in progs if s.get("twin_of")},
            "generator_status": sorted(status.values())[:2],
        }
    finally:
        shutil.rmtree(scratch, ignore_errors=True)


def run(res, replay=None):
    pid = res.id
    vlib.proof_stage(res)
    known = known_c09() if pid == "C09" else None
    # C08: integer descriptor functions + float32 marshalling; C09: ToPhysical / FromPhysical / UnmarshalPhysical / SaturatedCastFloat
    translate_tie.run_tie(res, ["descriptor", "physical"])
    vlib.standard_run(res, "descriptor", harness_args(pid, res.tier, res.seed, witness=known is not None),
                      "descriptor", RULES[pid], ASSUMPTIONS[pid],
                      timeout=1500 if res.tier == "quick" else 6000,
                      known_matcher=c09_known_matcher(res) if known is not None else None,
                      also_goarch="386", goarch_args=harness_args_386(pid, res.seed, witness=known is not None))
    if pid == "C09":
        generated_code_stage(res)
        res.cov["known_finding_listed"] = KNOWN_ID if known is not None else None
        res.cov["one_step_clause"] = {
            "cases_exceeding_one_step": res.cov.get("physical_roundtrip_over_one_step"),
            "max_ratio": res.cov.get("physical_roundtrip_max_ratio"),
            "disposition": "known finding (ratio < 2)" if known is not None else "violation",
        }
