"""C03, C10 (and the shared batch pipeline used by C11, C19): generated message types.
DESIGN.md 5.3, 5.10. Pipeline per run: seeded DBC programs of the supported class (genprogs.py,
each with the database it DENOTES) -> the tree's generate.Compile + generate.Database (harness/gen)
-> go build of all generated packages + the reflective runner (harness/genrun) -> histories executed
on the generated Go types -> replayed through the descriptor interpreter extracted from Coq."""
import json
import os
import shutil
import subprocess

import vlib
from checks import genprogs

_NOTE = ("Trusted: Coq 8.16.1 kernel; extraction (ExtrOcamlBasic) + OCaml 4.13.1; the hand-written descriptor interpreter "
         "Gen/Message.v + Gen/History.v (validated against the generated Go code of every batch program by this run); "
         "the DBC program generator checks/genprogs.py (emits each program together with the database it denotes); "
         "go/format, go-goon and the Go compiler are exercised, not modelled. Print Assumptions: closed under the global context.")

PROPERTIES = {
    "C03": {
        "text": "Coq theorems (Properties/C03.v) about the descriptor interpreter: Frame() writes exactly the bits of the active "
                "signals at their layout positions and zeros elsewhere, UnmarshalFrame reads each active signal by the C01 "
                "numbering and leaves inactive multiplexed fields unchanged, the four rejections leave the state unchanged, "
                "the dispatcher picks the message registered for the ID. The interpreter is tied to the code by running, for a "
                "seeded batch of generated DBC programs (every width 1..64, sign, byte order, float32, multiplexing, extended "
                "IDs), the tree's compiler + generator + Go compiler and replaying unmarshal/set/frame histories and dispatcher "
                "calls of the built types through the extracted interpreter; the compiled database and the database embedded "
                "in the generated package are compared with the database the program denotes.",
        "note": _NOTE,
        "technique": "Coq proof about a descriptor interpreter + differential correspondence against generated, compiled Go code",
        "design_ref": "5.3",
    },
    "C10": {
        "text": "Coq theorems (Properties/C10.v): the range invariant holds initially and is preserved by every operation "
                "(reset, raw setters with any argument of the accessor type, copy-from, unmarshal), hence by induction over "
                "all finite operation sequences; every reachable state yields a valid frame with the message's ID/length/"
                "format; re-unmarshalling the frame reproduces it; copy-from gives the same frame. Tied to the code by a "
                "seeded state-machine walker over the generated Go types of every batch program (two instances per message, "
                "all getters and Frame() compared after every operation).",
        "note": _NOTE + " Physical setters are replayed exactly with the Flocq model of FromPhysical + truncation "
                        "(Gen/HistoryPhys.v) for signals of the supported class; the theorems about them inherit C09's "
                        "axioms (the stdlib real-number axioms and Classical_Prop.classic, through Flocq).",
        "technique": "Coq invariant proof over operation histories + differential state-machine walk of generated Go code",
        "design_ref": "5.10",
    },
}


def write_programs(scratch, seed, count, progs=None):
    progs = progs if progs is not None else genprogs.gen_batch(seed, count)
    for d in ("in", "out", "exp"):
        os.makedirs(os.path.join(scratch, d), exist_ok=True)
    for name, text, db, _ in progs:
        open(os.path.join(scratch, "in", name + ".dbc"), "w").write(text)
        open(os.path.join(scratch, "exp", name + ".db"), "w").write("\n".join(db) + "\n")
    return progs


def prepare_batch(res, scratch, seed, count, progs=None):
    """Generate programs, run the tree's compiler+generator, build the runner.
    Returns (runner exe or None, progs, gen status dict). Records violations in res."""
    progs = write_programs(scratch, seed, count, progs)
    gen_exe, log = vlib.build_harness("gen", scratch)
    if gen_exe is None:
        res.violation("generator harness no longer builds against /repo (broken tie)", {"build_log": log[-3000:]}, no_input=True)
        return None, progs, {}
    rc, out = vlib.sh("ulimit -v 8000000; timeout 600 %s %s %s" % (gen_exe, os.path.join(scratch, "in"), os.path.join(scratch, "out")))
    status = {}
    for line in out.splitlines():
        if line.startswith("GEN "):
            parts = line.split()
            status[parts[1]] = line
    texts = {n: t for n, t, _, _ in progs}
    good = []
    for name, text, db, _ in progs:
        st = status.get(name, "GEN %s missing (generator crashed? rc=%d)" % (name, rc))
        ok = all(k in st for k in ("compile=ok", "generate=ok", "deterministic=1", "canonical=1"))
        if not ok:
            res.violation("generator fails on a DBC of the supported class: %s" % st, {"dbc": texts[name], "status": st})
            continue
        # the compiled database must be the database the program denotes
        comp = open(os.path.join(scratch, "out", name + ".db")).read().splitlines()
        if comp != db:
            diff = [(a, b) for a, b in zip(comp, db) if a != b][:3]
            res.violation("compiled database differs from the database the DBC denotes (program %s)" % name,
                          {"dbc": texts[name], "first_differences(compiled, denoted)": diff,
                           "lengths": [len(comp), len(db)]})
            continue
        good.append(name)
    if not good:
        return None, progs, status
    reg = ["package main", "", "import ("]
    ov = {}
    for name in good:
        reg.append('\t%s "go.einride.tech/can/verifgen/%s"' % (name, name))
        ov["verifgen/%s/%s.dbc.go" % (name, name)] = os.path.join(scratch, "out", name, name + ".dbc.go")
    reg += [")", "", "func init() {"]
    for name in good:
        reg.append('\tregister("%s", %s.Messages())' % (name, name))
    reg.append("}")
    open(os.path.join(scratch, "registry.go"), "w").write("\n".join(reg) + "\n")
    ov["cmd/verif_genrun/registry.go"] = os.path.join(scratch, "registry.go")
    exe, log = vlib.build_harness("genrun", scratch, extra_overlay=ov)
    if exe is None:
        # find the offending program(s): build each package alone
        culprit = None
        for name in good:
            rc2, out2 = vlib.sh(["go", "build", "-overlay", os.path.join(scratch, "overlay-genrun.json"), "-o", os.devnull, "./verifgen/" + name],
                                cwd=vlib.REPO, env=vlib.go_env(), timeout=300)
            if rc2 != 0:
                culprit = (name, out2[-1500:])
                break
        if culprit:
            res.violation("generated code does not compile (program %s)" % culprit[0],
                          {"dbc": texts[culprit[0]], "compiler_output": culprit[1]})
        else:
            res.violation("runner harness no longer builds against /repo (broken tie)", {"build_log": log[-3000:]}, no_input=True)
        return None, progs, status
    # the database embedded in the generated package must equal the compiled one
    rc, out = vlib.sh([exe, "rdb"], timeout=120)
    cur, blocks = None, {}
    for line in out.splitlines():
        if line.startswith("PKG "):
            cur = line[4:]
            blocks[cur] = []
        elif cur:
            blocks[cur].append(line)
    for name, text, db, _ in progs:
        if name in good and blocks.get(name) != db:
            res.violation("descriptors embedded in the generated package differ from the compiled database (program %s)" % name,
                          {"dbc": text, "embedded_head": blocks.get(name, [])[:5]})
    return exe, progs, status


def run(res, replay=None):
    pid = res.id
    vlib.proof_stage(res)
    count = 12 if res.tier == "quick" else 60
    scratch = vlib.scratch_dir()
    try:
        exe, progs, status = prepare_batch(res, scratch, res.seed, count)
        res.corr_obligations = ["generated Go types (tree's generator, Go compiler) = extracted descriptor interpreter on every executed history"]
        if exe is None:
            if not res.violations:
                res.violation("batch could not be prepared", {"status": status}, no_input=True)
            return
        drv = vlib.build_driver("gen")
        if pid == "C03":
            modes = [["hist", res.seed, 12 if res.tier == "quick" else 40, 14, "c03"], ["dsp", res.seed, 300 if res.tier == "quick" else 2000]]
        else:
            modes = [["hist", res.seed, 16 if res.tier == "quick" else 60, 30, "c10"]]
        total = {"cases": 0, "distinct_nontrivial": 0, "mismatches": 0, "kinds": {}, "samples": [], "operations": 0,
                 "physical_setter_ops": 0, "physical_setter_ops_exact": 0, "op_kinds": {}}
        for mode in modes:
            rc, out, err = vlib.run_pipe(exe, [str(a) for a in mode], drv, [os.path.join(scratch, "exp")], timeout=900)
            stats = ops = None
            for line in out.splitlines():
                if line.startswith("STATS "):
                    stats = json.loads(line[6:])
                elif line.startswith("OPS "):
                    ops = json.loads(line[4:])
                elif line.startswith("CLASS "):
                    cls = json.loads(line[6:])
                    total["theorem_class"] = cls
                    if cls["messages_outside"]:
                        res.violation("check machinery: generated programs fall outside the class the C03/C10 theorems "
                                      "quantify over (wf_message/wf_mux/wf_defaults/wf_header): %s" % cls["outside"][:5],
                                      {"outside": cls["outside"]}, no_input=True)
                elif line.startswith("MISMATCH ") or line.startswith("PFAIL "):
                    kind, _, rest = line.partition(" ")
                    obs, _, detail = rest.partition(" || ")
                    pkg = obs.split()[1] if len(obs.split()) > 1 else "?"
                    text = next((t for n, t, _, _ in progs if n == pkg), "")
                    what = ("generated code disagrees with the descriptor interpreter" if kind == "MISMATCH"
                            else "property predicate fails on the generated code's output")
                    res.violation("%s: %s" % (what, detail[:300]), {"dbc": text, "history": obs, "detail": detail})
            if rc != 0 or stats is None:
                res.violation("runner or model driver failed (rc=%s)" % rc, {"stderr": err[-2000:], "stdout_tail": out[-800:]}, no_input=True)
                return
            for k in ("cases", "distinct_nontrivial", "mismatches"):
                total[k] += stats[k]
            for k, v in stats["kinds"].items():
                total["kinds"][k] = total["kinds"].get(k, 0) + v
            total["samples"] += [s[:400] for s in stats["samples"][:2]]
            if ops:
                total["operations"] += ops["operations"]
                total["physical_setter_ops"] += ops["physical_setter_ops"]
                total["physical_setter_ops_exact"] += ops.get("physical_setter_ops_exact", 0)
                for k, v in ops["op_kinds"].items():
                    total["op_kinds"][k] = total["op_kinds"].get(k, 0) + v
        summ = [s for _, _, _, s in progs]
        res.cov.update({
            "evaluations": total["cases"],
            "distinct_nontrivial": total["distinct_nontrivial"],
            "rule": "one case = one operation history on two instances of one generated message (or one dispatcher call); "
                    "non-trivial = contains an unmarshal / setter / copy; distinct by line hash",
            "samples": total["samples"][:4],
            "kinds": total["kinds"],
            "operations": total["operations"],
            "op_kinds": total["op_kinds"],
            "physical_setter_ops": total["physical_setter_ops"],
            "physical_setter_ops_replayed_exactly_with_the_flocq_model": total["physical_setter_ops_exact"],
            "programs": len(progs),
            "messages_satisfying_the_hypotheses_of_the_theorems": total.get("theorem_class", {}).get("messages_satisfying_theorem_hypotheses"),
            "program_distribution": {
                "messages": sum(s["messages"] for s in summ), "signals": sum(s["signals"] for s in summ),
                "widths_covered": sorted({w for s in summ for w in s["widths"]}),
                "multiplexed_signals": sum(s["muxed"] for s in summ), "float_signals": sum(s["float"] for s in summ),
                "scaled_signals": sum(s["scaled"] for s in summ), "extended_messages": sum(s["extended"] for s in summ),
                "programs_with_send_types": sum(1 for s in summ if s["sendtypes"]),
            },
            "generator_status": sorted(status.values())[:3],
        })
        res.assumptions = [
            "the DBC program generator (checks/genprogs.py) emits programs of DESIGN.md 4.3 together with the database they denote",
            "float32 fields are compared as bit patterns; signalling NaN patterns are quieted by Go's float conversions (modelled)",
            "go/format, go-goon and the Go compiler are exercised on every batch program, not modelled",
        ]
    finally:
        shutil.rmtree(scratch, ignore_errors=True)
