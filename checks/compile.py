"""C05: compiling a DBC yields the database it denotes, in canonical order
(internal/generate/compile.go, pkg/dbc/messageid.go, pkg/descriptor). DESIGN.md 5.5, class 4.2."""
import vlib
from checks import translate_tie, compile_tie

_NOTE = ("Trusted: Coq 8.16.1 kernel; extraction (ExtrOcamlBasic) + OCaml 4.13.1; the hand-written model Dbc/Compile.v "
         "(collectDescriptors, addMetadata with warnings, sortDescriptors; uint8()/int64(float)/Duration conversions written "
         "out; sort.Slice = insertion sort, exact for n <= 12 and, under the class's distinct keys, for every n), validated "
         "against generate.Compile on every run; the parser model Dbc/Parser.v (+ Scanner.v, DecFloat.v; proved and tied to "
         "pkg/dbc by C04/C12) through which the SOURCE TEXT is the reference: compile_text = parser model ; compile model "
         "is compared with generate.Compile on the text (original order of every file + every 32nd reordering; the other "
         "texts start from Parser.Defs(), dumped by the harness); Go harness / OCaml driver / check.py glue. "
         "Print Assumptions: closed under the global context (no axioms). Stdlib only, no Flocq: floats are bit patterns. "
         "Outside the functional model (a fact about Go memory): a CompileResult is a value the caller keeps - in the "
         "model results are values, so 'compiling file B does not change the result of file A' and 'compiling the same text "
         "twice gives the same result' hold trivially; whether the Go objects alias state shared between calls (pooled "
         "compilers, reused backing arrays) is OBSERVED by the harness: the results of the last 4 Compile calls are kept "
         "alive and re-dumped (database, warning kind/position/Error() text) after every later call, and the original order "
         "of every file is compiled again after the next file (clauses kept_result_changed, recompile_differs). "
         "INT attribute values: since the fix F12 Parser.int() (code and model) reads a decimal integer literal exactly "
         "over the whole int64 range (Properties/C04.v C04_int_conversion_exact), so 'the value written in the source' "
         "holds for every int64 start value / attribute value written as a decimal integer (class files go up to both "
         "int64 limits); only the '.0' and exponent spellings still travel through float64 (class files use them up to "
         "2^53, where they are exact; wild files compare the rounding and the saturation).")

PROPERTIES = {
    "C05": {
        "text": "Coq theorems (Properties/C05.v) over ALL definition lists of the compile class: the compiled database is the "
                "one the definitions denote (every field of every node/message/signal, metadata from the resolving line) and "
                "is canonically ordered; warnings are exactly those of the specification and warned-about lines are attached "
                "to nothing; any reordering of messages, signals inside a message and resolved metadata lines (indeed any "
                "permutation of the definitions) compiles to the same database, warnings equal as multisets; the pre-fix "
                "comparator is refuted (F10, fixed in /repo). END TO END (C05_text_*): for every source file that is "
                "well-formed in the sense of C04's round-trip theorem and in the compile class, compile_text (parser model, "
                "then compile model) of the printed TEXT is Some (sorted denoted database of the source, specified warnings) "
                "- the text, not some parser's output, is the reference. The model is tied to internal/generate on every run: generated "
                "class files x all/24 permutations, model = generate.Compile, and canonical / denotes / warnings / "
                "order-independence evaluated on the implementation's own outputs; the texts are also parsed by the extracted "
                "parser model, and denotes / warnings are evaluated against the definitions the TEXT denotes whenever "
                "Parser.Defs() differs from them (clauses text_denotes, text_warnings_exact; the first differing definition "
                "localises the fault: parser or compiler).",
        "note": _NOTE + " Files and permutations are sampled (exhaustive permutations for <= 4 items).",
        "technique": "Coq proof about a Gallina model + differential correspondence of model and code",
        "design_ref": "5.5",
    },
}

RULE = ("seeded generator of DESIGN 4.2 files (1..20 nodes, 0..22 messages standard/extended incl. the limits of both id "
        "ranges, 0..12 signals incl. multiplexer/multiplexed with shared start bits and the limits of start/size/multiplexer "
        "value, signal names reused across messages, VAL_/CM_/SIG_VALTYPE_/BA_ for the four attributes in all spellings, "
        "INT/HEX attribute values, ranges and defaults beyond 2^24, 2^32 and 2^53 up to the int64 limits (decimal integers; '.0' and exponent spellings up to 2^53; "
        "start values of wide signals, cycle and delay times), factors/offsets/min/max with up to 25 significant digits, "
        "rounding boundaries and the ends of the exponent range, UTF-8 (2/3/4-byte) in units, comments, value texts and "
        "string attributes, VAL_ values at the raw range limits of 1/63/64-bit signed and unsigned signals, "
        "metadata for undeclared nodes/messages/signals, ignored forms, the pseudo message; in half of the files the "
        "signal-level metadata lines of one signal name are consecutive across messages); each file compiled in the original "
        "order + every permutation of <= 4 messages / signals of a message / resolved metadata lines, 24 random ones above, 8 "
        "combined shuffles; plus out-of-class 'wild' files (duplicates, truncating sizes, non-integral or out-of-range VAL_ "
        "values, wrapping cycle times) for model = implementation only. non-trivial = the file has at least one compiled "
        "message; distinct by hash of (file, variant); history: after every Compile call the 4 most recent kept results are "
        "dumped again and must be unchanged, and each file's original order is compiled a second time after the following "
        "file (consecutive texts almost always both carry warnings, at different positions)")

translate_tie.describe(PROPERTIES, "C05", "(here: MessageID.IsExtended/ToCAN/Validate of pkg/dbc/messageid.go = msgid_is_extended/msgid_to_can/"
                       "msgid_valid of Dbc/Ast.v, which compile's model uses for every message and metadata line)",
                       translate_tie.TIE_NOTE_INT)
PROPERTIES["C05"]["text"] += compile_tie.TIE_TEXT
PROPERTIES["C05"]["note"] += " Added trusted base: " + compile_tie.TRUSTED + "."


def sizes(tier):
    # (class files, wild files)
    return (150, 200) if tier == "quick" else (1500, 3000)


def run(res, replay=None):
    """--replay <replays/C05-*.json>: the generator is deterministic in (seed, tier), so a replay re-runs the
    run that produced the file (seed and tier are taken from it); the failing text itself is in the replay's
    observation (text=s:<hex of the DBC file>) and can be fed to the harness with `verif_compile text <file>`."""
    if replay:
        import json
        rp = json.load(open(replay))
        res.seed = int(rp.get("seed", res.seed))
        res.tier = rp.get("tier", res.tier)
    vlib.proof_stage(res)
    translate_tie.run_tie(res, ["dbcid"])
    compile_tie.run_compile_tie(res)  # stage compile_tie
    n_class, n_wild = sizes(res.tier)
    vlib.standard_run(
        res, "compile", [res.seed, n_class, n_wild], "compile", RULE,
        ["the Gallina model Dbc/Compile.v is a faithful transcription of compile.go / messageid.go / database.go / "
         "sendtype.go: checked on every run by the differential comparison (sampled files and permutations)",
         "the source text is the reference through the parser model Dbc/Parser.v (a faithful transcription of pkg/dbc's "
         "parser/scanner/strconv use: proved round trip C04, tied to the code by the C04/C12 checks and, here, by comparing "
         "its definitions with dbc.Parser.Defs() as dumped by harness/dbccommon/dump.go on the original order of every file "
         "and every 32nd reordering); on the remaining reorderings the model starts from Parser.Defs(); reordering is "
         "performed on the TEXT by the harness, so the run also exercises that text-level reorderings of 4.2 are "
         "definition-level reorderings",
         "the end-to-end theorems cover the source files of C04's proved class (wf_file / wf_lfile: plain layouts, ASCII "
         "strings); UTF-8 strings and the other layouts of the generator are covered by the differential run only",
         "sort.Slice (pdqsort) returns a sorted permutation for a strict weak order (its contract); the model is insertion "
         "sort, identical for n <= 12 and equal by uniqueness of the sorted permutation under the class's distinct keys",
         "64-bit int/uint (amd64/arm64); float64->int64 conversion of VAL_ values is only specified for finite in-range "
         "values (the class: integral values); outside it the model mirrors amd64 (checked on the wild files)",
         "strings.ToLower is modelled on ASCII; the class requires ASCII GenMsgSendType values"],
        corr_name="generate.Compile = extracted model compile on every generated text (database field by field, warnings as "
                  "a multiset of (kind, position)); generate.Compile(text) = compile_text(text) (parser model ; compile model) "
                  "with Parser.Defs() = the definitions the text denotes; canonical/denotes/warnings/permutation predicates "
                  "on the implementation's output",
        timeout=1500 if res.tier == "quick" else 3400)
