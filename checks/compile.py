"""C05: compiling a DBC yields the database it denotes, in canonical order
(internal/generate/compile.go, pkg/dbc/messageid.go, pkg/descriptor). DESIGN.md 5.5, class 4.2."""
import vlib

_NOTE = ("Trusted: Coq 8.16.1 kernel; extraction (ExtrOcamlBasic) + OCaml 4.13.1; the hand-written model Dbc/Compile.v "
         "(collectDescriptors, addMetadata with warnings, sortDescriptors; uint8()/int64(float)/Duration conversions written "
         "out; sort.Slice = insertion sort, exact for n <= 12 and, under the class's distinct keys, for every n), validated "
         "against generate.Compile on every run; the DBC parser is NOT part of this property (the model starts from "
         "Parser.Defs(), dumped by the harness); Go harness / OCaml driver / check.py glue. "
         "Print Assumptions: closed under the global context (no axioms). Stdlib only, no Flocq: floats are bit patterns.")

PROPERTIES = {
    "C05": {
        "text": "Coq theorems (Properties/C05.v) over ALL definition lists of the compile class: the compiled database is the "
                "one the definitions denote (every field of every node/message/signal, metadata from the resolving line) and "
                "is canonically ordered; warnings are exactly those of the specification and warned-about lines are attached "
                "to nothing; any reordering of messages, signals inside a message and resolved metadata lines (indeed any "
                "permutation of the definitions) compiles to the same database, warnings equal as multisets; the pre-fix "
                "comparator is refuted (F10, fixed in /repo). The model is tied to internal/generate on every run: generated "
                "class files x all/24 permutations, model = generate.Compile, and canonical / denotes / warnings / "
                "order-independence evaluated on the implementation's own outputs.",
        "note": _NOTE + " Files and permutations are sampled (exhaustive permutations for <= 4 items).",
        "technique": "Coq proof about a Gallina model + differential correspondence of model and code",
        "design_ref": "5.5",
    },
}

RULE = ("seeded generator of DESIGN 4.2 files (1..20 nodes, 0..22 messages standard/extended, 0..12 signals incl. "
        "multiplexer/multiplexed with shared start bits, VAL_/CM_/SIG_VALTYPE_/BA_ for the four attributes in all spellings, "
        "metadata for undeclared nodes/messages/signals, ignored forms, the pseudo message); each file compiled in the original "
        "order + every permutation of <= 4 messages / signals of a message / resolved metadata lines, 24 random ones above, 8 "
        "combined shuffles; plus out-of-class 'wild' files (duplicates, truncating sizes, non-integral or out-of-range VAL_ "
        "values, wrapping cycle times) for model = implementation only. non-trivial = the file has at least one compiled "
        "message; distinct by hash of (file, variant)")


def sizes(tier):
    # (class files, wild files)
    return (150, 200) if tier == "quick" else (1500, 3000)


def run(res, replay=None):
    """--replay <replays/C05-*.json>: the generator is deterministic in (seed, tier), so a replay re-runs the
    run that produced the file (seed and tier are taken from it); the failing text itself is in the replay's
    observation (text=s:<hex of the DBC file>) and can be fed to the harness with `verif_compile text <file>`."""
    if replay:
        import json
        rp = json.load(open(replay))
        res.seed = int(rp.get("seed", res.seed))
        res.tier = rp.get("tier", res.tier)
    vlib.proof_stage(res)
    n_class, n_wild = sizes(res.tier)
    vlib.standard_run(
        res, "compile", [res.seed, n_class, n_wild], "compile", RULE,
        ["the Gallina model Dbc/Compile.v is a faithful transcription of compile.go / messageid.go / database.go / "
         "sendtype.go: checked on every run by the differential comparison (sampled files and permutations)",
         "the model starts from the parser's definitions (dbc.Parser.Defs(), dumped by harness/dbccommon/dump.go): the parser "
         "is covered by C04/C12, not here; reordering is performed on the TEXT by the harness, so the run also exercises that "
         "text-level reorderings of 4.2 are definition-level reorderings",
         "sort.Slice (pdqsort) returns a sorted permutation for a strict weak order (its contract); the model is insertion "
         "sort, identical for n <= 12 and equal by uniqueness of the sorted permutation under the class's distinct keys",
         "64-bit int/uint (amd64/arm64); float64->int64 conversion of VAL_ values is only specified for finite in-range "
         "values (the class: integral values); outside it the model mirrors amd64 (checked on the wild files)",
         "strings.ToLower is modelled on ASCII; the class requires ASCII GenMsgSendType values"],
        corr_name="generate.Compile = extracted model compile on every generated text (database field by field, warnings as "
                  "a multiset of (kind, position)); canonical/denotes/warnings/permutation predicates on the implementation's output",
        timeout=1500 if res.tier == "quick" else 3400)
