"""Translation tie for the DBC parser (stage `parser_tie` of C04 and C12, DESIGN.md 9.6 "Translation tie
for the parser"): regenerate Gallina definitions of the parseFrom methods of pkg/dbc/def.go from the
CURRENT source (harness/parsetrans) and re-prove, for all parser states, that they equal the hand
model Dbc/Parser.v (coq/translate/ParserGlue.v + ParserEquiv.v).

    run_parser_tie(res)  -> True iff the tie holds

A translator error (construct outside the subset, file:line) or a lemma that no longer checks is
reported as a VIOLATION naming the method / lemma, without a failing input (the differential run of the
same check may find one). Counts go to res.cov["parser_translation_tie"].

This module has no PROPERTIES table: check.py does not treat it as a family."""
import os
import re
import shutil
import sys
import time

if __name__ == "__main__":  # python3 checks/parser_tie.py
    sys.path.insert(0, os.path.dirname(os.path.dirname(os.path.abspath(__file__))))
import vlib  # noqa: E402
from checks import translate_tie  # noqa: E402  (reused: _enclosing, COQ_MEM_KB)

TDIR = os.path.join(vlib.COQ, "translate")
_LEMMA = re.compile(r"^\s*Lemma\s+(TP_(\w+?)_eq)\b", re.M)
# operations of Dbc/Parser.v (and below) that remain HAND MODEL ONLY, tied to the code by the differential run
HAND_ONLY = ["PREMISE carried by TP_Parser_int_eq (not proved): the float value of the number token Parser.int converts is non-negative (parse_float txt = Some b -> 0 <= b < 2^63: the scanner delivers a sign as a separate token)", "Parser.nextToken / peekToken (p_look + Scanner.sc_scan)", "Parser.nextRune / peekRune (sc_Next / sc_peek)",
             "Parser.useWhitespace (set_ws)", 
             "Parser.anyOf (variadic range)",
             "Parser.failf / parseError (PErr; the error kind ESyntax / EValue is the model's classification of the message text)",
             "strconv.Atoi / ParseUint / ParseFloat (DecFloat.v; num oracle stream)",
             "the Validate methods / enumeration conversions (ident_valid, msgid_valid, object_type_of, attr_type_of, "
             "access_type_of: translate_tie groups dbcid / dbcvalidate)", "text/scanner (Dbc/Scanner.v)"]
# methods whose lemma is not (yet) proved stay "hand model, correspondence only"
TIE_TEXT = (" In addition the per-definition parsing code is REGENERATED from the source on every run: harness/parsetrans "
            "translates the parseFrom methods of pkg/dbc/def.go (monadic subset, go/types-checked) to Gallina in the state monad "
            "of Dbc/Parser.v and coq/translate/ParserEquiv.v re-proves, for all parser states, that each translated method equals "
            "the hand model (lemmas TP_<Def>_parseFrom_eq); likewise 19 Parser helper methods (Parser.string included) of parser.go (TP_Parser_<method>_eq) and "
            "the dispatch loop of Parse (TP_Parser_Parse_eq). Hand model only (differential run): nextToken/peekToken, "
            "nextRune/peekRune, useWhitespace, int, anyOf, failf, strconv, the scanner.")
TIE_NOTE = (" Added trusted base of the parser translation tie: the translator harness/parsetrans/main.go (unverified Go program; "
            "its header states the reading of Go's semantics) and coq/translate/ParserGlue.v (Go struct field <-> Ast field).")
TRUSTED = ("parser translation tie: the translator harness/parsetrans/main.go (unverified Go program; go/parser, go/types, "
           "x/tools/go/packages) with its reading of Go's statement semantics (receiver update = functional record update, "
           "failf = PErr, defer at normal return, loops on the model's fuel) and coq/translate/ParserGlue.v (field correspondence)")


def _coqc(scratch, fname, timeout):
    cmd = "ulimit -v %d; timeout %d coqc -Q %s CanTranslated -Q %s CanVerif -w -notation-overridden %s" % (
        translate_tie.COQ_MEM_KB, timeout, scratch, os.path.join(vlib.COQ, "theories"), fname)
    return vlib.sh(["bash", "-c", cmd], cwd=scratch)


def run_parser_tie(res, timeout=240):
    t0 = time.time()
    cov = {"ok": False, "repo": vlib.REPO}
    res.cov["parser_translation_tie"] = cov
    name = ("ParserTranslated.v regenerated from pkg/dbc/def.go and proved equal to the hand model Dbc/Parser.v "
            "(coq/translate/ParserEquiv.v)")

    def broken(what, detail):
        cov["wall_s"] = round(time.time() - t0, 2)
        cov["failure"] = what
        _hook_finish(res, name)
        d = {"correspondence": name, "repo": vlib.REPO}
        d.update(detail)
        res.violation("translated parser source no longer equals the model: " + what, d, no_input=True)
        return False

    esrc = open(os.path.join(TDIR, "ParserEquiv.v"), encoding="utf-8").read()
    stripped = vlib.strip_coq_comments(esrc)
    lemmas = [(m.group(1), m.group(2)) for m in _LEMMA.finditer(stripped)]
    scratch = vlib.scratch_dir()
    try:
        exe, log = vlib.build_harness("parsetrans", scratch)
        if exe is None:
            return broken("the translator (harness/parsetrans) does not build in the source tree", {"build_log": log[-3000:]})
        cmd = "ulimit -v 8000000; timeout 120 %s %s %s" % (exe, vlib.REPO, scratch)
        rc, out = vlib.sh(["bash", "-c", cmd], env=vlib.go_env())
        cov["translate_s"] = round(time.time() - t0, 2)
        if rc != 0:
            errs = [ln[len("TRANSLATE-ERROR "):] for ln in out.splitlines() if ln.startswith("TRANSLATE-ERROR ")]
            first = errs[0] if errs else "translator exit status %d" % rc
            return broken("translator: " + first, {"translator_messages": errs[:20], "output_tail": out[-2000:]})
        translated, files = {}, []
        for ln in out.splitlines():
            p = ln.split()
            if p[:1] == ["TRANSLATED"]:
                translated[p[1]] = p[2]
            elif p[:1] == ["FILES"]:
                files = p[1:]
        proved = [d for (_, d) in lemmas]
        unproved = sorted(m for m in translated if m not in proved)
        cov["methods_translated"] = len(translated)
        cov["lemmas"] = [l for (l, _) in lemmas]
        cov["translated_without_lemma"] = unproved
        cov["hand_model_correspondence_only"] = unproved + HAND_ONLY
        gone = [d for d in proved if d not in translated]
        if gone:
            return broken("lemma TP_%s_eq has no translated method %s any more" % (gone[0], gone[0]),
                          {"missing_methods": gone})
        targets = ["theories/Dbc/Ast.vo", "theories/Dbc/Scanner.vo", "theories/Dbc/DecFloat.vo", "theories/Dbc/Parser.vo", "theories/Dbc/Totality.vo"]
        rc, mk = vlib.sh(["bash", "-c", "ulimit -v %d; exec %s %s" % (
            translate_tie.COQ_MEM_KB, os.path.join(vlib.ROOT, "tools", "coqmake.sh"), " ".join(targets))], timeout=3400)
        if rc != 0:
            return broken("the Coq theories the tie needs do not build (%s)" % " ".join(targets), {"log_tail": mk[-2000:]})
        shutil.copy(os.path.join(TDIR, "ParserGlue.v"), os.path.join(scratch, "ParserGlue.v"))
        for f, who in (("ParserTypes.v", "translator defect or a struct field of a type outside the subset"),
                       ("ParserGlue.v", "a struct of def.go no longer has the fields coq/translate/ParserGlue.v relates to Dbc/Ast.v"),
                       ("ParserTranslated.v", "translator defect or a method that no longer fits the model's types")):
            rc, o1 = _coqc(scratch, f, timeout)
            if rc != 0:
                return broken("the regenerated %s is rejected by coqc (%s): %s" % (f, who, " ".join(o1.split())[:300]),
                              {"coqc_output": o1[-3000:]})
        full = esrc + "\nDefinition parser_tie_all_lemmas__ := (%s, tt).\nPrint Assumptions parser_tie_all_lemmas__.\n" % ", ".join(
            "@" + l for (l, _) in lemmas)
        open(os.path.join(scratch, "ParserEquiv.v"), "w", encoding="utf-8").write(full)
        rc, o2 = _coqc(scratch, "ParserEquiv.v", timeout)
        cov["go_files"] = files
        if rc != 0:
            lines = full.split("\n")
            m = re.search(r'File "[^"]*ParserEquiv\.v", line (\d+), characters [\d-]+:\s*\n(?:Warning[^\n]*\n)*Error:?\s*(.*)', o2, re.S)
            if m:
                ln = int(m.group(1))
                lemma = translate_tie._enclosing(lines, ln) or "?"
                err = " ".join(m.group(2).split())[:240]
                dm0 = re.search(r"([A-Za-z]+Def)_", lemma)  # TP_<Def>_parseFrom_eq and the auxiliary <Def>_loop_eq / _core lemmas
                dm1 = re.search(r"(Parser_[A-Za-z]+)_", lemma)  # TP_Parser_<method>_eq, Parser_<method>_loop_eq
                fn = dm0.group(1) + "_parseFrom" if dm0 else dm1.group(1) if dm1 else re.sub(r"^TP_|_eq$", "", lemma)
                where = translated.get(fn, "")
                tsrc = open(os.path.join(scratch, "ParserTranslated.v"), encoding="utf-8").read()
                dm = re.search(r"Definition %s .*?\.\n\n" % re.escape(fn), tsrc, re.S)
                what = "lemma %s (coq/translate/ParserEquiv.v) no longer checks against the regenerated %s%s: %s" % (
                    lemma, fn, " (%s)" % where if where else "", err)
                return broken(what, {"lemma": lemma, "equiv_line": ln, "go_method": fn, "go_position": where, "coq_error": err,
                                     "regenerated_definition": dm.group(0).strip()[:4000] if dm else ""})
            why = "timeout" if rc == 124 else "rc=%d" % rc
            return broken("ParserEquiv.v does not compile against the regenerated ParserTranslated.v (%s)" % why,
                          {"coqc_output": o2[-3000:]})
        closed = len(re.findall(r"Closed under the global context", o2))
        cov["closed_under_global_context"] = bool(closed == 1)
        if closed != 1 or "Axioms:" in o2:
            return broken("the TP_ lemmas are not closed under the global context: " + " ".join(o2.split())[-300:],
                          {"print_assumptions": o2[-3000:]})
        cov["ok"] = True
        cov["wall_s"] = round(time.time() - t0, 2)
        line = ("ParserTranslated.v regenerated from %s's current %s (%d methods: parseFrom of every definition kind, Parser helper "
                "methods, Parse) and %d of them proved equal to the hand model Dbc/Parser.v for all parser states (ParserEquiv.v: %s; "
                "closed under the global context); hand model, correspondence only: %s" % (
                    vlib.REPO, "|".join(files) or "source", len(translated), len([d for d in proved if d in translated]),
                    " ".join(l for (l, _) in lemmas), "; ".join(cov["hand_model_correspondence_only"])))
        res.corr_obligations.append(line)
        _hook_finish(res, line)
        return True
    finally:
        shutil.rmtree(scratch, ignore_errors=True)


def _hook_finish(res, line):
    """vlib.standard_run replaces res.corr_obligations and res.assumptions; put the tie's lines back when the
    evidence is written, and list violations that carry a concrete failing input first."""
    if getattr(res, "_ptie_lines", None) is not None:
        res._ptie_lines.append(line)
        return
    res._ptie_lines = [line]
    orig = res.finish

    def finish(*a, **kw):
        for ln in res._ptie_lines:
            if ln not in res.corr_obligations:
                res.corr_obligations.append(ln)
        if TRUSTED not in res.assumptions:
            res.assumptions = list(res.assumptions) + [TRUSTED]
        res.violations.sort(key=lambda v: bool(v[2]))  # stable: concrete inputs first
        return orig(*a, **kw)

    res.finish = finish


if __name__ == "__main__":
    import json
    _res = vlib.Result("PTIE", "quick", 1)
    _ok = run_parser_tie(_res)
    print(json.dumps(_res.cov["parser_translation_tie"], indent=1))
    for _v in _res.violations:
        print("BROKEN TIE: " + _v[0])
    print("\n".join(_res.corr_obligations))
    sys.exit(0 if _ok else 1)
