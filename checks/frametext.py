"""C15, C16: text forms of a CAN frame (frame.go String/UnmarshalString, frame_json.go
JSON/MarshalJSON/UnmarshalJSON). DESIGN.md 5.15, 5.16."""
import vlib
from checks import translate_tie

_NOTE = ("Trusted: Coq 8.16.1 kernel; extraction (ExtrOcamlBasic) + OCaml 4.13.1; the hand-written models "
         "Can/FrameString.v, Can/FrameJSON.v and the library oracles of Base/Dec.v, Base/Hex.v (strconv.ParseUint/Atoi/Itoa, "
         "encoding/hex, fmt %03X/%08X, strings.Split/ToUpper, and for C16 encoding/json's decoding into the five-member "
         "struct), each validated against the code by the correspondence run (the oracles also directly, 'O-' lines); "
         "Go harness / OCaml driver / check.py glue. Print Assumptions: closed under the global context (no axioms).")

PROPERTIES = {
    "C15": {
        "text": "Coq theorems (Properties/C15.v) about the model of String/UnmarshalString, for all frames and all byte "
                "strings: a valid frame with zero unused bytes prints to the documented upper-case pattern (3 ID digits iff "
                "standard) and parses back to itself; every string of the pattern in either letter case is accepted and "
                "decoded as written (ID, format, remote flag, length, data); for ANY byte string the parser returns a frame or "
                "an error, never the modelled Panic outcome, and leaves the destination unchanged on error; a parsed frame "
                "that validates prints and re-parses to itself. The model is tied to frame.go on every run: all 2^11 standard "
                "IDs x lengths 0..8 x remote/data x payload basis, extended IDs boundary/one-hot/random, invalid frames "
                "(String() panics on data frames with Length > 8: model and code agree), pattern-derived strings in both "
                "cases, single edits, every byte value at the inspected positions, random bytes; destination pre-filled with "
                "a sentinel; calls run under recover().",
        "note": _NOTE + " The correspondence samples the payload axis and the string space (seeded); standard IDs x lengths are exhaustive.",
        "technique": "Coq proof about a Gallina model + differential correspondence of model and code",
        "design_ref": "5.15",
    },
    "C16": {
        "text": "Coq theorems (Properties/C16.v) about the model of JSON()/UnmarshalJSON: for every valid frame with zero "
                "unused bytes the output is the member-wise text (id decimal; data present iff data frame with length>0, "
                "lower-case hex of the first length bytes; extended/remote present and true iff set; length present iff "
                "remote), it is accepted by an RFC 8259 recogniser and is ASCII, json.Unmarshal of it yields exactly those "
                "members and UnmarshalJSON yields the identical frame; decoding is total (never Panic) and a remote frame "
                "without length is rejected. The model (incl. an oracle model of encoding/json's decoding into the 5-member "
                "struct: any JSON value, member order, duplicates, case-folded and escaped keys, null/wrong-typed values, "
                "uint32/uint8 range, nesting limit) is tied to frame_json.go + encoding/json on every run: frames as C15, "
                "16k present/absent/null/wrong-typed member combinations, number/string/key variants, mutations, random "
                "bytes, embedding in an array and a struct through encoding/json, json.Valid on outputs and inputs.",
        "note": _NOTE + " Documents embedded through encoding/json whose inner text is not by itself a JSON value are outside "
                        "the model; they are counted as out_of_model (with the number of disagreements) in the evidence, "
                        "neither as agreement nor as violation. That MarshalJSON/UnmarshalJSON are reachable by encoding/json "
                        "for every way a Frame can sit in a Go value (by value, pointer, struct field, slice/map element, "
                        "interface) is a fact about Go method sets (value vs pointer receiver), not expressible in the "
                        "Gallina model; it is observed on every run by the 'C-' lines (9 container kinds: document must carry "
                        "exactly the JSON() text, decoding back must give the identical frame). Likewise 'the returned []byte is "
                        "not shared with later calls' (no aliasing of a pooled/global buffer) is a property of Go memory, outside "
                        "the functional model; it is observed by the 'A-'/'AC-' lines (results retained across further calls, "
                        "sequentially and from 4 goroutines), and 'a decode does not depend on what the destination held' by the "
                        "'RS-'/'RJ-' lines (for the model it is a theorem: C15_result_independent_of_destination).",
        "technique": "Coq proof about a Gallina model + differential correspondence of model and code",
        "design_ref": "5.16",
    },
}

RULES = {
    "C15": "S: every standard ID 0..0x7FF x length 0..8 x {data with payloads zero / all-ones / random (unused bytes zeroed) / "
           "random with unused bytes set, remote, remote-with-data}, extended IDs boundary + 29 one-hot + one-cold + random, "
           "invalid frames (ID out of range, length 9..255); every printed text is parsed back (U) and every successfully "
           "parsed frame printed again. U: fixed list of edge strings, every byte value at 10 inspected positions, "
           "pattern-derived strings (upper/lower/mixed), 1-2 random edits of them, random bytes. RS: two texts parsed into the SAME "
           "destination (long data frame then shorter / remote, valid then malformed and vice versa) vs. a fresh destination. O-: direct observations of "
           "strconv.ParseUint/Atoi/Itoa, hex.Decode/Encode, fmt %03X/%08X, strings.Split/ToUpper. non-trivial = all; "
           "distinct by line hash",
    "C16": "J/D/M/E: frames as C15 (JSON(), json.Valid, MarshalJSON==JSON(), UnmarshalJSON of the output, json.Marshal inside "
           "[]Frame, decoding inside an array and a struct); C: every 4th frame (thorough: every frame) marshalled and decoded "
           "back through encoding/json as a Frame by value, *Frame, struct{Frame;*Frame} by value and by pointer, []Frame, "
           "[]*Frame, map[string]Frame, interface{} holding a Frame, []interface{} holding a Frame and a []Frame; A: triples of "
           "random valid frames: MarshalJSON() results retained while further frames are marshalled (also json.Marshal twice in "
           "sequence); AC: 4 goroutines x 200 MarshalJSON()+json.Marshal calls on distinct frames, every result seen must be the "
           "frame's JSON form; RJ: two documents decoded into the SAME destination (long data frame then shorter, valid then "
           "malformed and vice versa) vs. a fresh destination; D: fixed edge documents (top-level non-objects, duplicates, "
           "case-folded / escaped keys, escapes and non-ASCII in data, data of 8/9/255/256/257 bytes, nesting 9999..10001, "
           "trailing garbage, BOM), all 9x11x10x7x7 member-value combinations (absent/null/right/wrong type) with shuffled "
           "order and random whitespace, number / string literal tables in every member position, random member documents, "
           "1-2 random edits, random bytes. non-trivial = all except out-of-model embeddings; distinct by line hash",
}


def harness_args(pid, tier, seed):
    if pid == "C15":
        return ["c15", seed] + ([1, 40, 20000] if tier == "quick" else [6, 4000, 400000])
    return ["c16", seed] + ([1, 40, 10000, 4] if tier == "quick" else [4, 2000, 200000, 1])


TIE_NOTE_TEXT = (" Translated here with their run-time panics modelled (result None = slice-bounds / index panic): strings are byte "
                 "lists; s[i], s[a:b], Data[:Length], parts[k] carry an explicit bounds test in front of the statement. Library "
                 "functions are READ as the definitions of Translate/GoSemText.v (trusted readings): fmt.Sprintf(\"%0wX\") = "
                 "Hex.fmt_hex_upper, strconv.Itoa = Dec.itoa, hex.EncodeToString = Hex.hex_encode, strings.ToUpper = ASCII upper-casing "
                 "(valid for ASCII arguments only; the call site's argument is proved ASCII), strings.Split(s, \"#\") = the pieces "
                 "between one-byte separators, strconv.ParseUint = Dec.parse_uint (value 0 / max on error), strconv.Atoi = Dec.atoi and "
                 "hex.DecodeString = Hex.hex_decode (the value returned together with a non-nil error is not modelled).")
translate_tie.describe(PROPERTIES, "C15", "Frame.String and Frame.UnmarshalString of frame.go (= to_string / unmarshal_string) and Frame.JSON",
                       translate_tie.TIE_NOTE_INT, TIE_NOTE_TEXT)
translate_tie.describe(PROPERTIES, "C16", "Frame.JSON (= to_json) and Frame.UnmarshalJSON of frame_json.go (= of_doc / unmarshal_json: everything after the call "
                       "json.Unmarshal(jsonData, &jf), which is an oracle parameter assumed to return what the model's read_doc "
                       "returns - error, or nil and the five members; *string/*uint8/*bool members are options) "
                       "and Frame.String / Frame.UnmarshalString",
                       translate_tie.TIE_NOTE_INT, TIE_NOTE_TEXT)


def replay_args(replay):
    """--replay <file written by a failing run>: re-run exactly the recorded observation."""
    import json
    obs = json.load(open(replay)).get("replay", {}).get("observation", "")
    parts = obs.split()
    if not parts or parts[0] not in ("S", "U", "J", "M", "D", "E", "C", "A", "AC", "RS", "RJ"):
        return None
    return ["one", parts[0]] + parts[1:4]


def run(res, replay=None):
    pid = res.id
    vlib.proof_stage(res)
    translate_tie.run_tie(res, ["frametext"])
    hargs = harness_args(pid, res.tier, res.seed)
    if replay:
        hargs = replay_args(replay) or hargs
    stats = vlib.standard_run(
        res, "frametext", hargs, "frametext", RULES[pid],
        ["the Gallina models Can/FrameString.v / Can/FrameJSON.v are faithful transcriptions of frame.go:60-134 / "
         "frame_json.go:26-103: checked on every run by the differential comparison (standard IDs x lengths exhaustive; "
         "payloads, extended IDs, strings and documents sampled from seeded generators)",
         "Go library behaviour modelled, not verified (oracles): strconv.ParseUint/Atoi/Itoa, encoding/hex, fmt %03X/%08X, "
         "strings.Split/ToUpper" + (", encoding/json decoding into jsonFrame (Go 1.23)" if pid == "C16" else "") +
         "; each compared directly with the library on every run",
         "64-bit int (strconv.Itoa(int(uint32)) never negative)"],
        timeout=3000)
    if stats is not None and pid == "C16":
        res.cov["out_of_model_note"] = (
            "%d observations (documents embedded through encoding/json whose inner text is not a JSON value by itself) are "
            "outside the modelled class; model and Go disagreed on %d of them; they are neither agreement nor violation"
            % (stats.get("out_of_model", 0), stats.get("out_of_model_disagree", 0)))
