"""Translation tie for the lint analyzers (stage `lint_tie` of C18, DESIGN.md 9.6 "Translation tie for the
lint analyzers"): regenerate one Gallina function per analyzer from the CURRENT pkg/dbc/analysis/passes/*/analyzer.go
(harness/linttrans) and re-prove, for all files, that it equals the hand model Dbc/Lint.v
(coq/translate/LintGlue.v + LintEquiv.v).

    run_lint_tie(res)  -> True iff the tie holds

An analyzer that has a lemma but left the translator's subset (file:line), or a lemma that no longer checks,
is a VIOLATION naming the analyzer / lemma, without a failing input (the differential run of the same check
may find one). Counts go to res.cov["lint_translation_tie"]: analyzers tied vs. hand model, correspondence only.

This module has no PROPERTIES table: check.py does not treat it as a family."""
import os
import re
import shutil
import sys
import time

if __name__ == "__main__":  # python3 checks/parser_tie.py
    sys.path.insert(0, os.path.dirname(os.path.dirname(os.path.abspath(__file__))))
import vlib  # noqa: E402
from checks import translate_tie  # noqa: E402  (reused: _enclosing, COQ_MEM_KB)

TDIR = os.path.join(vlib.COQ, "translate")
_LEMMA = re.compile(r"^\s*Lemma\s+(TL_(\w+?)_run_eq)\b", re.M)
TIE_TEXT = (" In addition the analyzers are REGENERATED from the source on every run: harness/linttrans translates the run functions "
            "of pkg/dbc/analysis/passes/*/analyzer.go (range loops as folds, type assertions, maps as association lists, Reportf as "
            "an appended diagnostic) to Gallina and coq/translate/LintEquiv.v re-proves, for all files, that each translated analyzer "
            "equals the hand model (lemmas TL_<analyzer>_run_eq); analyzers outside the translator's subset remain hand models tied "
            "by the differential run only (evidence key lint_translation_tie).")
TRUSTED = ("lint translation tie: the translator harness/linttrans/main.go (unverified Go program; go/parser, go/types, "
           "x/tools/go/packages) with its reading of Go's semantics (range loop = fold with continue/break, map = insertion list "
           "with first-match lookup, Reportf = append of position + message kind, definitions non-nil) and coq/translate/LintGlue.v "
           "(field correspondence, table format literal -> message constructor)")


def _coqc(scratch, fname, timeout):
    cmd = "ulimit -v %d; timeout %d coqc -Q %s CanTranslated -Q %s CanVerif -w -notation-overridden %s" % (
        translate_tie.COQ_MEM_KB, timeout, scratch, os.path.join(vlib.COQ, "theories"), fname)
    return vlib.sh(["bash", "-c", cmd], cwd=scratch)


def run_lint_tie(res, timeout=240):
    t0 = time.time()
    cov = {"ok": False, "repo": vlib.REPO}
    res.cov["lint_translation_tie"] = cov
    name = ("LintTranslated.v regenerated from pkg/dbc/analysis/passes/*/analyzer.go and proved equal to the hand model Dbc/Lint.v "
            "(coq/translate/LintEquiv.v)")

    def broken(what, detail):
        cov["wall_s"] = round(time.time() - t0, 2)
        cov["failure"] = what
        _hook_finish(res, name)
        d = {"correspondence": name, "repo": vlib.REPO}
        d.update(detail)
        res.violation("translated analyzer source no longer equals the model: " + what, d, no_input=True)
        return False

    esrc = open(os.path.join(TDIR, "LintEquiv.v"), encoding="utf-8").read()
    stripped = vlib.strip_coq_comments(esrc)
    lemmas = [(m.group(1), m.group(2)) for m in _LEMMA.finditer(stripped)]
    extra = re.findall(r"^\s*Lemma\s+(TL_\w+_eq)\b", stripped, re.M)
    extra = [l for l in extra if l not in [x for (x, _) in lemmas]]
    scratch = vlib.scratch_dir()
    try:
        exe, log = vlib.build_harness("linttrans", scratch)
        if exe is None:
            return broken("the translator (harness/linttrans) does not build in the source tree", {"build_log": log[-3000:]})
        cmd = "ulimit -v 8000000; timeout 120 %s %s %s" % (exe, vlib.REPO, scratch)
        rc, out = vlib.sh(["bash", "-c", cmd], env=vlib.go_env())
        cov["translate_s"] = round(time.time() - t0, 2)
        if rc != 0:
            errs = [ln[len("TRANSLATE-ERROR "):] for ln in out.splitlines() if ln.startswith("TRANSLATE-ERROR ")]
            first = errs[0] if errs else "translator exit status %d" % rc
            return broken("translator: " + first, {"translator_messages": errs[:20], "output_tail": out[-2000:]})
        translated, untranslated, files = {}, {}, []
        for ln in out.splitlines():
            p = ln.split()
            if p[:1] == ["TRANSLATED"]:
                translated[p[1]] = p[2]
            elif p[:1] == ["UNTRANSLATED"]:
                untranslated[p[1]] = " ".join(p[2:])
            elif p[:1] == ["FILES"]:
                files = p[1:]
        proved = [a for (_, a) in lemmas]
        cov["analyzers_translated"] = sorted(a for a in translated if a != "IsIndependentSignalsMessage")
        cov["analyzers_tied"] = sorted(proved)
        cov["lemmas"] = [l for (l, _) in lemmas] + extra
        cov["hand_model_correspondence_only"] = (
            sorted("%s (translated, no lemma yet)" % a for a in translated if a not in proved and a != "IsIndependentSignalsMessage")
            + sorted("%s (outside the subset: %s)" % (a, w) for a, w in untranslated.items())
            + ["Pass.Reportf / fmt.Sprintf (message wording)", "identifiers.IsCamelCase (tied by group lintnames)",
               "strings.HasPrefix/HasSuffix, float64 > (oracles of Lint.v)"])
        gone = [a for a in proved if a not in translated]
        if gone:
            return broken("lemma TL_%s_run_eq: the run function of analyzer %s is no longer in the translator's subset (%s)" % (
                gone[0], gone[0], untranslated.get(gone[0], "analyzer not found")),
                {"missing_analyzers": gone, "translator_messages": [untranslated.get(a, "") for a in gone]})
        targets = ["theories/Dbc/Ast.vo", "theories/Dbc/Lint.vo"]
        rc, mk = vlib.sh(["bash", "-c", "ulimit -v %d; exec %s %s" % (
            translate_tie.COQ_MEM_KB, os.path.join(vlib.ROOT, "tools", "coqmake.sh"), " ".join(targets))], timeout=3400)
        if rc != 0:
            return broken("the Coq theories the tie needs do not build (%s)" % " ".join(targets), {"log_tail": mk[-2000:]})
        shutil.copy(os.path.join(TDIR, "LintGlue.v"), os.path.join(scratch, "LintGlue.v"))
        for f, who in (("LintGlue.v", "coq/translate/LintGlue.v no longer fits Dbc/Ast.v / Dbc/Lint.v"),
                       ("LintTranslated.v", "a struct field, a Reportf format literal (lemma fmt_known_k) or an operation that "
                                            "coq/translate/LintGlue.v does not relate to the model, or a translator defect")):
            rc, o1 = _coqc(scratch, f, timeout)
            if rc != 0:
                return broken("the regenerated %s is rejected by coqc (%s): %s" % (f, who, " ".join(o1.split())[:400]),
                              {"coqc_output": o1[-3000:]})
        full = esrc + "\nDefinition lint_tie_all_lemmas__ := (%s, tt).\nPrint Assumptions lint_tie_all_lemmas__.\n" % ", ".join(
            "@" + l for l in cov["lemmas"])
        open(os.path.join(scratch, "LintEquiv.v"), "w", encoding="utf-8").write(full)
        rc, o2 = _coqc(scratch, "LintEquiv.v", timeout)
        cov["go_files"] = files
        if rc != 0:
            lines = full.split("\n")
            m = re.search(r'File "[^"]*LintEquiv\.v", line (\d+), characters [\d-]+:\s*\n(?:Warning[^\n]*\n)*Error:?\s*(.*)', o2, re.S)
            if m:
                ln = int(m.group(1))
                lemma = translate_tie._enclosing(lines, ln) or "?"
                err = " ".join(m.group(2).split())[:240]
                fn = re.sub(r"^TL_|_run_eq$|_eq$", "", lemma)
                where = translated.get(fn, "")
                tsrc = open(os.path.join(scratch, "LintTranslated.v"), encoding="utf-8").read()
                dm = re.search(r"Definition %s(_run)? .*?\.\n\n" % re.escape(fn), tsrc, re.S)
                what = "lemma %s (coq/translate/LintEquiv.v) no longer checks against the regenerated %s%s: %s" % (
                    lemma, fn, " (%s)" % where if where else "", err)
                return broken(what, {"lemma": lemma, "equiv_line": ln, "go_function": fn, "go_position": where, "coq_error": err,
                                     "regenerated_definition": dm.group(0).strip()[:4000] if dm else ""})
            why = "timeout" if rc == 124 else "rc=%d" % rc
            return broken("LintEquiv.v does not compile against the regenerated LintTranslated.v (%s)" % why,
                          {"coqc_output": o2[-3000:]})
        closed = len(re.findall(r"Closed under the global context", o2))
        cov["closed_under_global_context"] = bool(closed == 1)
        if closed != 1 or "Axioms:" in o2:
            return broken("the TL_ lemmas are not closed under the global context: " + " ".join(o2.split())[-300:],
                          {"print_assumptions": o2[-3000:]})
        cov["ok"] = True
        cov["wall_s"] = round(time.time() - t0, 2)
        line = ("LintTranslated.v regenerated from %s's current analyzers (%d of 20 run functions in the subset) and %d of them proved "
                "equal to the hand model Dbc/Lint.v for all files (LintEquiv.v: %s; closed under the global context); hand model, "
                "correspondence only: %s" % (vlib.REPO, len(cov["analyzers_translated"]), len(lemmas),
                                             " ".join(cov["lemmas"]), "; ".join(cov["hand_model_correspondence_only"])))
        res.corr_obligations.append(line)
        _hook_finish(res, line)
        return True
    finally:
        shutil.rmtree(scratch, ignore_errors=True)


def _hook_finish(res, line):
    """vlib.standard_run replaces res.corr_obligations and res.assumptions; put the tie's lines back when the
    evidence is written, and list violations that carry a concrete failing input first."""
    if getattr(res, "_ltie_lines", None) is not None:
        res._ltie_lines.append(line)
        return
    res._ltie_lines = [line]
    orig = res.finish

    def finish(*a, **kw):
        for ln in res._ltie_lines:
            if ln not in res.corr_obligations:
                res.corr_obligations.append(ln)
        if TRUSTED not in res.assumptions:
            res.assumptions = list(res.assumptions) + [TRUSTED]
        res.violations.sort(key=lambda v: bool(v[2]))  # stable: concrete inputs first
        return orig(*a, **kw)

    res.finish = finish


if __name__ == "__main__":
    import json
    _res = vlib.Result("LTIE", "quick", 1)
    _ok = run_lint_tie(_res)
    print(json.dumps(_res.cov["lint_translation_tie"], indent=1))
    for _v in _res.violations:
        print("BROKEN TIE: " + _v[0])
    print("\n".join(_res.corr_obligations))
    sys.exit(0 if _ok else 1)
