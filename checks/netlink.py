"""C20: netlink link-info codec of pkg/candevice/device_linux.go. DESIGN.md 5.20."""
import vlib
from checks import translate_tie

PROPERTIES = {
    "C20": {
        "text": "Coq theorems (Properties/C20.v) prove, for all field values in range, that the model's byte images of "
                "ifinfomsg / can_bittiming / can_ctrlmode equal the C struct layouts computed from the kernel headers' "
                "member lists by the ABI rule (little-endian), that unmarshal(marshal x) = x, that every one of the seven "
                "decoders returns an error for every slice whose length differs from the C sizeof and reaches no "
                "out-of-bounds access on ANY input (checked slicing in the model), that decoders invert the C layout, that "
                "decode_linkinfo(encode_linkinfo li) returns the same kind, bit timing and control mode on any receiver, "
                "that a fixed-size nested attribute of any other size makes the decoder return an error, and that the "
                "TLV decoder never reads out of bounds on arbitrary bytes. The model is tied to the code on every run: "
                "the real helpers (reached through a file overlaid into package candevice) and the real "
                "netlink.AttributeEncoder/Decoder are run on boundary/one-hot/random field values, on all slice lengths "
                "0..2x size, on link-info round trips and on hand-built / corrupted TLV streams, and compared with the "
                "extracted model; layouts are compared three ways (implementation, model/spec, unsafe in-memory image of "
                "unix.IfInfomsg / CANBitTiming / CANCtrlMode).",
        "note": "Trusted: Coq 8.16.1 kernel; extraction (ExtrOcamlBasic) + OCaml 4.13.1; the hand-written models "
                "Netlink/Layout.v and Netlink/Attr.v (the latter also models the mdlayher/netlink v1.7.2 attribute codec and "
                "nlenc as an oracle), validated against the code by the correspondence run; Go harness / OCaml driver / "
                "check.py glue. Print Assumptions: closed under the global context (no axioms). Native byte order is "
                "little-endian (amd64 host); Go slices are modelled with cap = len (the harness passes exact-capacity "
                "slices, as AttributeDecoder.Bytes() does). Field values and byte contents are sampled (boundary, one-hot, "
                "seeded random); slice lengths 0..2x size are exhaustive. No socket is opened.",
        "technique": "Coq proof about a Gallina model + differential correspondence of model and code",
        "design_ref": "5.20",
    },
}

RULE = ("per structure field: 0/1/max/one-hot/one-cold/random words with the other fields zero or random (marshal, ABI "
        "image via unsafe, unmarshal of the image); every decoder on every slice length 0..2x sizeof with zero/0xff/"
        "counting/random contents (cap = len, under recover); link-info values (kinds can/vcan/others/over-long, boundary+"
        "random timing words) through the real AttributeEncoder and back through the real AttributeDecoder; hand-built TLV "
        "streams (all CAN attribute types, flag bits, ignored types, shuffled order), the same with one fixed-size "
        "attribute of a wrong size (must be an error), corrupted streams (bit flips, truncation, lying length fields, "
        "garbage), two messages on one receiver, and Device.unmarshalBinary on whole messages; non-trivial = every case; "
        "distinct by line hash")


translate_tie.describe(PROPERTIES, "C20", "(here: the ten marshalBinary/unmarshalBinary methods of ifInfoMsg, BitTiming, BitTimingConst, "
                       "Clock, CtrlMode, BusErrorCounters and Stats in device_linux.go, = Netlink/Layout.v)",
                       translate_tie.TIE_NOTE_INT, translate_tie.TIE_NOTE_SLICE)



def _wire_stage(res):
    """ACTION-SEQUENCE TIE (DESIGN.md 9.6 "Action-sequence tie for the netlink walkers"): the CURRENT text of Info.decode,
    Info.encode, linkInfoMsg.decode, linkInfoMsg.encode and Device.unmarshalBinary in pkg/candevice/device_linux.go is read by
    the strict extractor harness/netwire (one node per statement: depth + canonical text; unknown statement shapes are errors
    with file:line) and compared node by node with the reference programs of Netlink/Program.v (info_walk, linkinfo_walk,
    device_walk, info_encode_prog, linkinfo_encode_prog, rendered by the driver), which C20_decode_program_is_model /
    C20_encode_program_is_model prove to BE the hand model of Netlink/Attr.v when executed step by step."""
    import json as _json, os as _os, shutil as _sh, subprocess, time as _t
    t0 = _t.time()
    scratch = vlib.scratch_dir()
    try:
        wexe, log = vlib.build_harness("netwire", scratch)
        if wexe is None:
            res.violation("netlink action-sequence extractor no longer builds (broken tie)", {"build_log": log[-3000:]}, no_input=True)
            return
        drv = vlib.build_driver("netlink")
        src = _os.path.join(vlib.REPO, "pkg", "candevice", "device_linux.go")
        p = subprocess.run(["bash", "-c", "timeout 120 %s %s | %s wire" % (wexe, src, drv)],
                           stdout=subprocess.PIPE, stderr=subprocess.PIPE, text=True)
    finally:
        _sh.rmtree(scratch, ignore_errors=True)
    how = ("harness/netwire <repo>/pkg/candevice/device_linux.go | netlink driver `wire` (reference programs of Netlink/Program.v); "
           "the correspondence run of this check supplies a concrete failing input where the behaviour changed")
    stat, reported = None, 0
    for line in p.stdout.splitlines():
        text = None
        if line.startswith("NWSTAT "):
            stat = _json.loads(line[7:])
        elif line.startswith("NWERR "):
            text = "device_linux.go walker is outside the statement shapes the action-sequence extractor accepts: %s" % line[6:][:400]
        elif line.startswith(("NWDIFF ", "NWMISSING ", "NWUNKNOWN ")):
            head, _, detail = line.partition(" || ")
            toks = head.split()
            text = ("action sequence of %s is no longer the reference program the netlink model was proved for (%s): %s"
                    % (toks[1], " ".join(toks[2:]), detail[:500]))
        if text:
            reported += 1
            if reported <= 3:
                res.violation(text, {"line": line, "how": how}, no_input=True)
    if stat is None:
        res.violation("netlink action-sequence extractor or model driver failed (rc=%s)" % p.returncode,
                      {"stderr": p.stderr[-2000:], "stdout_tail": p.stdout[-800:]}, no_input=True)
        return
    res.cov["action_sequence_tie"] = dict(stat, wall_s=round(_t.time() - t0, 1), rule=(
        "the five attribute walkers of device_linux.go, statement by statement (signature, depth, canonical text: loop, switch, "
        "case constants, case bodies, error check placement, encoder calls) against the Coq reference programs"))
    res.corr_obligations = list(res.corr_obligations) + [
        "the statement sequences of Info.decode/encode, linkInfoMsg.decode/encode and Device.unmarshalBinary read from the current "
        "source text equal the reference programs of Netlink/Program.v, which are proved to be the hand model "
        "(C20_decode_program_is_model, C20_encode_program_is_model)"]


def run(res, replay=None):
    if replay:
        # a replay names the harness invocation (seed, tier) that produced the observation: re-run exactly that
        import json
        rp = json.load(open(replay))
        res.seed = int(rp.get("seed", res.seed))
        res.tier = rp.get("tier", res.tier)
    vlib.proof_stage(res)
    translate_tie.run_tie(res, ["netlink"])
    scale = 1 if res.tier == "quick" else 50
    _wire_stage(res)
    wire_obl = list(res.corr_obligations)
    vlib.standard_run(
        res, "netlink", [res.seed, scale], "netlink", RULE,
        ["the Gallina models Netlink/Layout.v and Netlink/Attr.v are faithful transcriptions of device_linux.go:309-569: "
         "checked on every run by the differential comparison (slice lengths exhaustive, values sampled)",
         "mdlayher/netlink v1.7.2 AttributeEncoder/AttributeDecoder and nlenc behave as the TLV model of Netlink/Attr.v "
         "(u16 length without padding, u16 type, 4-byte padding, flags 0x8000/0x4000 masked by Type()): exercised by the "
         "same run through the real library",
         "little-endian host (nlenc uses native order); Go slice cap = len for the decoders' inputs",
         "golang.org/x/sys/unix IfInfomsg / CANBitTiming / CANCtrlMode are the kernel's structs: their unsafe in-memory "
         "images are compared with the C layouts of Netlink/LayoutSpec.v on every layout case"],
        corr_name="device_linux.go codec helpers + real netlink attribute codec = extracted Netlink model on every "
                  "generated case (harness/netlink | ocaml/netlink_main.ml)")
    res.corr_obligations = list(res.corr_obligations) + wire_obl
