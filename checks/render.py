"""C19: text, JSON and HTTP debug renderings of generated messages (pkg/cantext, pkg/canjson, pkg/candebug).
DESIGN.md 5.19. Reuses the generator-family batch of checks/gen.py (prepare_batch: seeded DBC programs of the
supported class -> the tree's generate.Compile/Database -> go build of the generated packages + the reflective
runner harness/genrun, here with its mode `render` from harness/genrun/render_c19.go).

Two-pass protocol (float text, JSON string escaping and time.Duration text are NOT modelled in Coq):

  pass 1   verif_genrun render <seed> <states> <pages>     implementation: for every message x state prints the bytes of
           cantext.Marshal / MarshalCompact / MessageString, msg.String(), canjson.Marshal (+ json.Valid) and the
           httptest response of candebug.ServeMessagesHTTP (whole list and single-message path suffix, zero times)
        |  ocaml render driver (coq/extract/render.v + ocaml/render_main.ml): replays payload -> UnmarshalFrame ->
           Frame() in the descriptor interpreter and prints the MODEL's segment list next to each observed byte string
           (SEG lines); integers are already printed by the Coq printers
  pass 2|  verif_render (harness/render/main.go): renders each segment - L literal; G strconv.AppendFloat(f,'g',-1,64);
           F strconv.FormatFloat(f,'f',-1,64); J encoding/json.Marshal(string); D time.Duration.String() - with the
           float bits / bytes the MODEL computed, compares with the observed bytes (MISMATCH lines) and checks the two
           hypotheses of theorem C19_json_valid on every rendered value (PFAIL lines).

Call patterns of the entry points (same pipeline, lines A / AP / AF / AC / B / BF of harness/genrun/render_c19.go):
results RETAINED by the caller across further renderings of other messages / states (sequentially and while 4 goroutines
render concurrently) must still be the rendering they were when returned; a message rendered twice gives the same bytes;
rendering leaves the message unchanged; Append* onto a non-empty prefix with or without spare capacity returns
prefix ++ text and leaves the caller's prefix alone (model: append_to, theorems C19_append_*). A second, short run of the
same observations under the Go race detector (-race build of the runner) must report no data race.
"""
import json
import os
import shutil
import subprocess

import random

import vlib
from checks import translate_tie
from checks import gen, genprogs

PROPERTIES = {
    "C19": {
        "text": "Coq theorems (Properties/C19.v) about the renderer model Gen/Render.v: each rendering is header + the "
                "per-signal blocks of ALL descriptor signals, once each, in descriptor order (closed form of the Go loops); "
                "the raw value printed is the printer applied to the C01 read of the signal's layout over the full 64-bit "
                "range and parses back to it (text: hex, unsigned as such, signed as 64-bit two's complement; JSON: decimal, "
                "unsigned up to 2^64-1 as such, signed with sign); the float segment of an integer signal is to_physical "
                "(C09 model) of that raw value; unit / matching value description appear exactly when defined (per format: "
                "stated precisely); the JSON rendering is in the RFC 8259 grammar provided FormatFloat('f') of a finite "
                "float is a JSON number and json.Marshal(string) a JSON string; candebug serves the first message named "
                "like the last path element, else all. Pre-fix uintToJSON is refuted (F7). Every cantext.Append* call returns "
                "the caller's buffer followed by a text that does not depend on the buffer (so the caller's prefix is "
                "kept), only AppendFrame can fail; Marshal/MarshalCompact are chains of such appends over one buffer. Model "
                "tied to the code by rendering every message of a seeded batch of generated packages in extreme + random "
                "states, once and repeatedly, with results retained across later calls, from several goroutines, and onto "
                "caller-provided prefixes.",
        "note": "Trusted: Coq 8.16.1 kernel; extraction (ExtrOcamlBasic) + OCaml 4.13.1; the hand-written models Gen/Render.v, "
                "Gen/Message.v, Descriptor/Signal.v, Descriptor/Physical.v (Flocq binary64), validated against the code by "
                "this run; NOT modelled and executed by the Go side on the model's values: strconv.AppendFloat/FormatFloat, "
                "encoding/json string escaping and Number validation, time.Duration.String, net/http(test), path.Base is "
                "modelled. Print Assumptions: the theorems that mention float64 values inherit Flocq's use of the stdlib "
                "real-number axioms (whitelisted); the others are closed under the global context. "
                "'The []byte / string a renderer returns is not shared with later calls' (no aliasing of a pooled or global "
                "buffer, sequentially or between goroutines) is a property of Go memory, outside the functional model: "
                "for the model it is trivially true, renderings are values (C19_renderings_are_values). It is observed on "
                "every run by the 'A'/'AP'/'AC' lines: every value returned by Marshal, MarshalCompact, MessageString, "
                "String(), canjson.Marshal, Append*(nil, ...) and every HTTP response body is retained while the other "
                "messages / states of the package are rendered, 4 goroutines render concurrently, and every item is rendered "
                "again; at the end each retained value must equal the copy taken when it was returned, and the harness is "
                "also run under the Go race detector. Likewise 'Append* does not write to the caller's prefix' is observed "
                "on the caller's backing array ('B'/'BF' lines); the model states the functional part (result = prefix ++ "
                "text, C19_append_only_appends).",
        "technique": "Coq proof about a Gallina model + two-pass differential correspondence against generated, compiled Go code",
        "design_ref": "5.19",
    },
}


# every boundary width must be rendered with both signs (C19 quantifies over "every signal width 1..64 and sign");
# the shared batch draws signs at random, so programs are added (same generator, further seeds) until this holds
NEEDED = [(w, sg) for w in genprogs.WIDTH_BOUNDARIES if w >= 2 for sg in (0, 1)]


def _pairs(db_lines):
    out = set()
    for line in db_lines:
        if line.startswith("SIGD "):
            t = line.split()
            if t[6] == "0":  # not a float signal
                out.add((int(t[3], 16), int(t[5])))
    return out


def batch_with_all_widths(seed, count, orig=genprogs.gen_batch):
    progs = orig(seed, count)
    missing = [p for p in NEEDED if p not in set().union(*[_pairs(db) for _, _, db, _ in progs])]
    k = 0
    while missing and k < 200 and len(progs) < count + 12:
        rng = random.Random(seed * 1000003 + k)
        k += 1
        name = "p%d" % len(progs)
        forced = sorted({w for w, _ in missing}, reverse=True)[:3]
        text, db, summary = genprogs.gen_program(rng, name, forced)
        got = _pairs(db)
        if any(p in got for p in missing):
            progs.append((name, text, db, summary))
            missing = [p for p in missing if p not in got]
    return progs


def _start_race_run(scratch, seed, keep):
    """Second, short run of the same observations with a -race build of the runner (the overlay is the one
    gen.prepare_batch wrote). Started in the background; _finish_race_run collects it. Output is discarded:
    only the race detector's verdict is of interest here (its text goes to stderr, exit code 66)."""
    ov = os.path.join(scratch, "overlay-genrun.json")
    exe = os.path.join(scratch, "harness-genrun-race")
    cmd = ("cd %s && timeout 600 go build -race -overlay %s -o %s ./cmd/verif_genrun 2>%s/race-build.log || exit 97; "
           "GORACE='halt_on_error=0 exitcode=66' timeout 600 %s render %d 1 2 %d >/dev/null"
           % (vlib.REPO, ov, exe, scratch, exe, seed, keep))
    try:
        return subprocess.Popen(["bash", "-c", cmd], stdout=subprocess.DEVNULL, stderr=subprocess.PIPE, text=True, env=vlib.go_env())
    except OSError:
        return None


def _finish_race_run(res, race, scratch, seed):
    if race is None:
        res.cov["race_detector_run"] = "not started"
        return
    try:
        _, err = race.communicate(timeout=900)
    except subprocess.TimeoutExpired:
        race.kill()
        res.cov["race_detector_run"] = "timed out (not counted)"
        return
    if race.returncode == 97:
        # no race-enabled toolchain (cgo) on this machine: say so, do not fail
        log = ""
        try:
            log = open(os.path.join(scratch, "race-build.log")).read()[-400:]
        except OSError:
            pass
        res.cov["race_detector_run"] = "race build unavailable: " + log
        return
    n = err.count("WARNING: DATA RACE")
    res.cov["race_detector_run"] = {"data_races": n, "exit_code": race.returncode}
    if n or race.returncode == 66:
        first = err[err.find("WARNING: DATA RACE"):][:3500]
        res.violation("a returned rendering changed after later calls (concurrent): the Go race detector reports %d data race(s) "
                      "between goroutines that render different message values" % n,
                      {"how": "runner built with `go build -race` (harness/genrun, mode render, seed %d): 4 goroutines, each with its own "
                              "message values, call cantext.Marshal / MarshalCompact / MessageString / canjson.Marshal / AppendSignal and "
                              "read the returned values again after yielding" % seed,
                       "race_report": first})
    elif race.returncode != 0:
        res.violation("race-detector run of the runner failed (rc=%s)" % race.returncode, {"stderr": err[-2000:]}, no_input=True)


_CALL_PATTERN = {
    "A": "the value returned is kept by the caller while the other (message, state) items of the package are rendered, 4 goroutines "
         "render concurrently, every item is rendered a second time ('#2') and the debug pages are served; compared at the end",
    "AC": "4 goroutines, each with its own message values, render their items concurrently and keep every result until all are done",
    "B": "called with buf = the given prefix in a backing array with `spare` bytes of spare capacity",
}


def _hex_text(h):
    if h in ("-", "", "E"):
        return h
    try:
        return bytes.fromhex(h).decode("utf-8", "replace")
    except ValueError:
        return h


TIE_NOTE_RENDER = (" Renderers (group render): append-style byte building (`buf = append(buf, x...)`, `buf = strconv.AppendXxx(buf, ..)`) is "
                   "read as concatenation of contents (sharing of the backing array not represented); strconv.FormatUint/AppendUint(10, 16), "
                   "FormatInt/AppendInt(10), AppendBool are READ as RenderNum.dec_u / hex_u / dec_s / bool_text, the printers the hand model "
                   "uses (Translate/GoSemText.v); strconv.FormatFloat / AppendFloat(f, 'g' or 'f', -1, 64) have NO model: they are oracle "
                   "parameters (bit pattern -> text) of the translated functions, as in the hand model (segments FloatG / FloatF), and the "
                   "lemmas hold for every such function; time.Duration.String() likewise (GoDuration). A parameter of the interface type "
                   "generated.Message is READ as the pair of the values its Frame() / Descriptor() methods return (pure, stable across calls; "
                   "that the generated methods return what the model says is the wiring tie of C03/C10). canjson.Marshal's loop, "
                   "encoding/json's struct encoder, AppendSendType, AppendFrame and candebug are NOT translated: hand model + correspondence run only.")
translate_tie.describe(PROPERTIES, "C19", "(here: the pkg/descriptor functions the renderers call: Unmarshal*, UnmarshalPhysical, ToPhysical, "
                       "bounds, the can.Data accessors, and the lookups with loops UnmarshalValueDescription/ValueDescription, "
                       "Database.Message/Node/Signal, Message.MultiplexerSignal; AND THE RENDERERS THEMSELVES, group render: "
                       "pkg/canjson/encode.go uintToJSON/intToJSON/floatToJSON, signal.setUnsignedValue/setSignedValue/setBoolValue/set = "
                       "json_signal_value; pkg/cantext/encode.go AppendSignal = buf ++ render(text_signal), AppendSignalCompact = "
                       "buf ++ render(text_compact_signal), AppendID, AppendSender, appendAttributeString, AppendCycleTime, AppendDelayTime, and the loops "
                       "Marshal = render(text_multiline_data), MarshalCompact / MessageString = render(text_compact_data))",
                       translate_tie.TIE_NOTE_INT, translate_tie.TIE_NOTE_FLOAT, translate_tie.TIE_NOTE_LOOP, TIE_NOTE_RENDER)


def run(res, replay=None):
    vlib.proof_stage(res)
    translate_tie.run_tie(res, ["descriptor", "physical", "lookup", "render"])
    quick = res.tier == "quick"
    count = 12 if quick else 60
    states, pages, keep = (10, 24, 4) if quick else (300, 400, 40)
    scratch = vlib.scratch_dir()
    try:
        orig = genprogs.gen_batch
        genprogs.gen_batch = lambda seed, n: batch_with_all_widths(seed, n, orig)
        try:
            exe, progs, status = gen.prepare_batch(res, scratch, res.seed, count)
        finally:
            genprogs.gen_batch = orig
        res.corr_obligations = ["cantext/canjson/candebug output on generated Go message types = Gen/Render.v segments rendered "
                                "with strconv/encoding/json on the model's values, byte for byte, on every state of the batch"]
        if exe is None:
            if not res.violations:
                res.violation("batch could not be prepared", {"status": status}, no_input=True)
            return
        rexe, log = vlib.build_harness("render", scratch)
        if rexe is None:
            res.violation("segment renderer (harness/render) does not build", {"build_log": log[-3000:]}, no_input=True)
            return
        drv = vlib.build_driver("render")
        cmd = ("ulimit -v 8000000; set -o pipefail; timeout 1500 %s render %d %d %d %d | timeout 1500 %s %s | timeout 1500 %s"
               % (exe, res.seed, states, pages, keep, drv, os.path.join(scratch, "exp"), rexe))
        race = _start_race_run(scratch, res.seed, 2 if quick else 20)
        p = subprocess.run(["bash", "-c", cmd], stdout=subprocess.PIPE, stderr=subprocess.PIPE, text=True)
        stats = rstats = cov = None
        texts = {n: t for n, t, _, _ in progs}
        n_viol = 0
        for line in p.stdout.splitlines():
            if line.startswith("STATS "):
                stats = json.loads(line[6:])
            elif line.startswith("RSTATS "):
                rstats = json.loads(line[7:])
            elif line.startswith("COV "):
                cov = json.loads(line[4:])
            elif line.startswith("MISMATCH ") or line.startswith("PFAIL "):
                kind, _, rest = line.partition(" ")
                obs, _, detail = rest.partition(" || ")
                toks = obs.split()
                tag = toks[0]
                parts = tag.split(":")
                pkg = parts[1] if len(parts) > 1 and parts[0] in ("R", "RR", "P", "PH", "A", "AP", "AF", "AC", "B") else (toks[1] if len(toks) > 1 else "?")
                rep = {"dbc": texts.get(pkg, ""), "observation": obs[:4000], "detail": detail[:4000]}
                if parts[0] in ("R", "RR") and len(parts) >= 5:
                    rep.update({"package": pkg, "message_index": int(parts[2], 16), "payload": parts[3], "renderer": parts[4],
                                "how": ("fresh message" if parts[0] == "R" else "a message instance that was rendered before in another state") +
                                       ", Reset(), UnmarshalFrame({ID, Length, IsExtended of the message, Data: payload}), then the renderer"})
                if parts[0] in ("P", "AP", "PH") and len(parts) >= 4:
                    rep.update({"package": pkg, "url_path": _hex_text(parts[2]), "entries(wrapper:message index:payload)": parts[3]})
                if parts[0] in ("P", "PH") and len(parts) >= 5:
                    # the entries contain ':' themselves: P:<pkg>:<path>:<entries>:body, PH:<pkg>:<path>:<entries>:<request>[@step]:<what>
                    rest = tag.split(":", 3)[3].rsplit(":", 2 if parts[0] == "PH" else 1)
                    rep["entries(wrapper:message index:payload)"] = rest[0]
                if parts[0] == "PH" and len(parts) >= 5:
                    rep.update({"request_headers[@history.step]": rest[1],
                                "how": "ONE []generated.Message slice (the entries, in this order; rn/tn0/tn1 = wrappers with a real recent "
                                       "Receive/TransmitTime) is served by candebug.ServeMessagesHTTP for a sequence of GET requests: every "
                                       "message by name under /debug/, /debug/, two single ones, /; between requests one message gets a new "
                                       "frame (Reset + UnmarshalFrame, time = now); ims = If-Modified-Since (previous Last-Modified, else now), "
                                       "inm = If-None-Match (previous ETag), range = Range: bytes=0-10, ifrange = If-Range; the entries shown "
                                       "carry the payloads current at this step"})
                if parts[0] in ("A", "AC", "B") and len(parts) >= 6:
                    rep.update({"package": pkg, "message_index": int(parts[2], 16), "payload": parts[3], "signal_index": parts[4],
                                "renderer": parts[5],
                                "how": "fresh message, Reset(), UnmarshalFrame({ID, Length, IsExtended of the message, Data: payload}), then "
                                       "the renderer; " + _CALL_PATTERN[parts[0]]})
                if parts[0] == "AF" and len(parts) >= 4:
                    rep.update({"package": pkg, "message_index": int(parts[2], 16), "payload": parts[3]})
                if parts[0] == "BF" and len(parts) >= 3:
                    rep.update({"frame(id,length,extended,remote,data)": parts[1], "prefix": parts[2], "renderer": "cantext.AppendFrame(prefix, frame)"})
                for t in toks[1:]:
                    k, eq, v = t.partition("=")
                    if eq and k in ("copy", "now", "prefix_after", "results"):
                        rep[{"copy": "text_when_returned", "now": "text_held_at_the_end", "prefix_after": "caller_prefix_after_the_call",
                             "results": "distinct_texts_seen"}[k]] = ", ".join(_hex_text(x) for x in v.split(","))
                    elif eq and k in ("later", "calls", "spare", "before", "after", "step", "request", "status"):
                        rep[k] = v
                    elif eq and k == "prefix":
                        rep["prefix_hex"] = v
                o = [t for t in toks if t.startswith("obs=")]
                if o:
                    rep["implementation_text"] = _hex_text(o[0][4:])
                if detail.startswith("model="):
                    rep["model_text"] = _hex_text(detail[6:])
                what = ("rendering differs from the model (model = specification of the rendering, see Properties/C19.v)"
                        if kind == "MISMATCH" else "property clause fails on the implementation's output")
                n_viol += 1
                if n_viol <= 8:
                    if "text_when_returned" in rep:
                        res.violation("%s: %s %s returned=%r now=%r" % (what, tag[:120], detail[:160], rep["text_when_returned"][:200],
                                                                         rep.get("text_held_at_the_end", "")[:200]), rep)
                    elif kind == "PFAIL" and parts[0] == "PH":
                        res.violation("%s: %s %s status=%s body=%r" % (what, tag[:160], detail[:220], rep.get("status", "200"),
                                                                         rep.get("implementation_text", "")[:200]), rep)
                    elif kind == "PFAIL" and ("distinct_texts_seen" in rep or "caller_prefix_after_the_call" in rep or parts[0] == "AF"):
                        res.violation("%s: %s %s %s" % (what, tag[:120], detail[:200],
                                                        rep.get("distinct_texts_seen", rep.get("caller_prefix_after_the_call", ""))[:300]), rep)
                    else:
                        res.violation("%s: %s impl=%r model=%r" % (what, tag[:120], rep.get("implementation_text", "")[:200],
                                                                    rep.get("model_text", detail)[:200]), rep)
        _finish_race_run(res, race, scratch, res.seed)
        if p.returncode != 0 or stats is None or rstats is None:
            res.violation("runner, model driver or segment renderer failed (rc=%s)" % p.returncode,
                          {"stderr": p.stderr[-3000:], "stdout_tail": p.stdout[-800:]}, no_input=True)
            return
        summ = [s for _, _, _, s in progs]
        res.cov.update({
            "evaluations": rstats["renderings_compared"],
            "distinct_nontrivial": stats["distinct_nontrivial"],
            "rule": "one evaluation = one rendered byte string (Marshal, MarshalCompact, MessageString, String(), canjson.Marshal of "
                    "one message state, one candebug response body; A: a retained result of these or of Append*(nil,..), first and "
                    "second rendering of the same value; AC: a distinct result of a concurrent rendering; B/BF: Append* onto a "
                    "caller's prefix; PH: the response to one request of a request history served from one caller-owned slice, "
                    "with conditional / range headers, after state changes) compared with the model; additionally every A/AP line compares the retained value with the "
                    "copy taken when it was returned, AF the message's frame before/after, B/BF the caller's prefix after the call; "
                    "distinct_nontrivial = distinct (message, payload) states with at least one signal + distinct (path, served "
                    "list) pages + distinct call-pattern observations, by line hash",
            "states_and_pages": stats["cases"],
            "kinds": stats["kinds"],
            "samples": [s[:300] for s in stats["samples"][:4]],
            "second_pass": rstats,
            "value_axis": cov,
            "programs": len(progs),
            "program_distribution": {
                "messages": sum(s["messages"] for s in summ), "signals": sum(s["signals"] for s in summ),
                "widths_covered": sorted({w for s in summ for w in s["widths"]}),
                "multiplexed_signals": sum(s["muxed"] for s in summ), "float_signals": sum(s["float"] for s in summ),
                "scaled_signals": sum(s["scaled"] for s in summ),
            },
        })
        res.assumptions = [
            "strconv.AppendFloat(f,'g',-1,64), strconv.FormatFloat(f,'f',-1,64), encoding/json string encoding and time.Duration.String "
            "are not modelled: the Go side applies them to the float bits / bytes computed by the MODEL (harness/render/main.go)",
            "hypotheses of C19_json_valid (FormatFloat 'f' of a finite float is a JSON number; json.Marshal of a string is a JSON string) "
            "are checked on every rendered value of the run, and json.Valid on every canjson.Marshal output",
            "the DBC program generator (checks/genprogs.py) emits programs of DESIGN.md 4.3 together with the database they denote",
            "aliasing of returned buffers and writes to a caller's prefix are facts about Go memory: observed (retained values compared at the "
            "end of each package, sequentially + 4 goroutines; race-detector run), not modelled",
            "debug page: the P lines use zero ReceiveTime/TransmitTime (\"never\"); the PH request histories also use real times: the "
            "time-dependent text '<duration> ago (<clock>)' is checked by the harness (clock of the entry's time, 0 <= duration <= time "
            "since) and then replaced by 'never' (time.Since is not modelled); the page is a function of the current entries only, so "
            "every response of a history must be status 200 with the full current page whatever was requested before and whatever "
            "If-Modified-Since / If-None-Match / Range / If-Range headers the request carries, and the caller's slice must be unchanged; the optional interfaces are provided by wrappers of the "
            "generated message types (the shape of the generated <Node>_Rx_/<Node>_Tx_ types)",
        ]
    finally:
        shutil.rmtree(scratch, ignore_errors=True)
