"""Seeded generator of DBC programs of the generator-supported class (DESIGN.md 4.3) together
with the database each program DENOTES (written from the generator's own knowledge of what it
emitted, never from the code under test). Used by checks/gen.py (C03, C10, C11, C19).

Signal names only have to be unique inside a message. Besides the signals drawn from the program's
main random stream every program may (probability SHARE_PROB; one program of every batch always does:
the forced shape) REUSE signal names across messages ("Shr..." signals: float32, value descriptions,
scaled, plain; with start values / comments / VAL_ / SIG_VALTYPE_ attached), and then emits the
metadata lines of same-named signals of different messages either where the message's other lines are
or as one run of directly consecutive lines, in ascending and in descending message order. These
additions draw from a second random stream derived from (not consuming) the main one, so the signals,
messages and attribute values drawn from the main stream are the same as without them.

gen_phys_batch: programs concentrated on scaled (physical) signals for the generated-code stage of C09.

Database dump format (one item per line, see harness/gencommon/dbdump.go for the Go twin):
  DB s:<source> s:<version> <nmsg> <nnodes>
  NODE s:<name> s:<description>
  MSG s:<name> <id> <ext> <length> <sendtype 0|1|2> s:<description> s:<sender> <cycle_ns> <delay_ns> <nsig>
  SIGD s:<name> <start> <length> <be> <signed> <float> <mux> <muxed> <muxval> <offset> <scale> <min> <max>
       s:<unit> s:<description> <default> <nvd> {<value> s:<text>}* <nrecv> {s:<recv>}*
ints in lower-case hex (negative ints as the hex of their uint64 reinterpretation), floats as the hex
of their binary64 bit pattern, strings as s:+hex(utf-8 bytes).
"""
import hashlib
import random
import struct

WIDTH_BOUNDARIES = [1, 2, 7, 8, 9, 15, 16, 17, 31, 32, 33, 52, 63, 64]


def hx(n):
    return "%x" % (n & 0xFFFFFFFFFFFFFFFF)


def hs(s):
    return "s:" + s.encode("utf-8").hex()


def fbits(text):
    return "%x" % struct.unpack(">Q", struct.pack(">d", float(text)))[0]


def le_positions(s, l):
    return [s + i for i in range(l)]


def be_positions(s, l):
    out, pos = [], s
    for _ in range(l):
        out.append(pos)
        pos = pos + 15 if pos % 8 == 0 else pos - 1
    return out


class Sig:
    pass


class Msg:
    pass


def pick_geometry(rng, nbits, length, used, tries=60):
    for _ in range(tries):
        be = rng.random() < 0.5
        s = rng.randrange(nbits)
        pos = be_positions(s, length) if be else le_positions(s, length)
        if max(pos) >= nbits:
            continue
        if any(p in used for p in pos):
            continue
        return be, s, pos
    return None


SCALES = ["0.1", "0.01", "0.001", "0.5", "0.25", "2", "10", "100", "1e-3", "2.5e-2", "0.0625", "-0.1", "-1", "-2.5", "3", "1E2"]
OFFSETS = ["0", "0", "-40", "40", "0.5", "-1000", "1e3", "12.75", "-0.25"]
UNITS = ["", "km/h", "%", "degC", "rpm", "V", "m/s", "\u00b0C", "m/s\u00b2", "a&b", "<1>", "'", "&amp;", "\u00b5s", "%d", "{x}", "1/min"]
SENDTYPES = [("Cyclic", 1), ("Event", 2), ("None", 0), ("OnEvent", 2), ("cyclicIfActive", 1), ("Periodic", 1)]


SHARE_PROB = 0.6
FLOAT_DEFAULTS = [0, 1, 5, -5, -1000, 16777216, 3221225472, -3221225472]
DESCS = ["", "", "signal comment", "multi word, with comma"]
VD_FORMATS = ["Val%s%d", "Val %s %d", "V\u00e4l%s%d", "val-%s_%d", "Stop & Go %s%d", "<%s%d>", "it's %s%d", "%s%d \u2713 ok", "{%s%d}", "100%% %s%d", " lead%s%d", "trail%s%d ", "  two  blanks %s%d  ", "tab\t%s%d"]


def derived_rng(rng, tag):
    """a second stream that is a function of the main stream's current state but does not consume it"""
    return random.Random("%s:%s" % (tag, hashlib.sha256(repr(rng.getstate()).encode()).hexdigest()))


def decorate(r, s, nodes):
    """scaling / metadata of one placed signal (draws from r)"""
    s.factor, s.offset, s.min, s.max = "1", "0", "0", "0"
    s.unit = r.choice(UNITS)
    s.desc = r.choice(DESCS)
    s.receivers = sorted(set(r.sample(nodes, r.randrange(0, len(nodes) + 1)))) if nodes else []
    if not s.receivers:
        s.receivers = ["Vector__XXX"]
    s.default = None
    s.vds = []
    lo, hi = raw_range(s)
    if not s.float and not s.is_mux and 2 <= s.length <= 52 and r.random() < 0.55:
        s.factor = r.choice(SCALES)
        s.offset = r.choice(OFFSETS)
        x = r.random()
        f, o = float(s.factor), float(s.offset)
        a, b = sorted([lo * f + o, hi * f + o])
        if x < 0.3:
            pass
        elif x < 0.6:
            s.min, s.max = repr_float(a), repr_float(b)
        else:
            q = (b - a) / 4
            s.min, s.max = repr_float(a + q), repr_float(b - q)
    elif not s.float and not s.is_mux and s.length == 1 and r.random() < 0.25:
        # a 1-bit signal with a factor/offset/range stays a plain bool (no physical accessors)
        s.factor = r.choice(["2", "0.5", "1"])
        s.offset = r.choice(["0", "1", "-1"])
        if r.random() < 0.5:
            s.min, s.max = "0", "1"
    elif not s.float and not s.is_mux and s.length >= 2 and r.random() < 0.2:
        # identity scale with a declared range equal to the raw range or narrower (<= 52 bits only)
        if s.length <= 52 and r.random() < 0.5:
            s.min, s.max = repr_float(lo // 2), repr_float(hi // 2)
        elif s.length <= 52:
            s.min, s.max = repr_float(lo), repr_float(hi)
    if not s.float and r.random() < 0.3:
        draw_vds(r, s)
    if getattr(s, "force_default", None) is not None:
        s.default = s.force_default
    elif r.random() < (0.8 if s.float else 0.3):
        draw_default(r, s)


def draw_vds(r, s):
    lo, hi = raw_range(s)
    k = r.randrange(1, 5)
    if s.length == 1:
        vals = r.sample([0, 1], r.randrange(1, 3))
    else:
        # VAL_ values travel through float64 in the parser: keep them exactly representable (|v| <= 2^53)
        clo, chi = max(lo, -(1 << 53)), min(hi, 1 << 53)
        cand = {clo, chi, 0 if clo <= 0 <= chi else clo, min(chi, 1), min(chi, 2), r.randrange(clo, chi + 1)}
        vals = r.sample(sorted(cand), min(k, len(cand)))
    s.vds = [(v, r.choice(VD_FORMATS) % (chr(65 + i), abs(v) % 1000)) for i, v in enumerate(vals)]
    r.shuffle(s.vds)


def draw_default(r, s):
    lo, hi = raw_range(s)
    if s.float:
        # exactly representable in binary32; negative and large values exercise the order in which
        # the compiler sees GenSigStartValue (BA_) and the float type (SIG_VALTYPE_)
        s.default = r.choice(FLOAT_DEFAULTS)
    elif s.length == 1:
        s.default = r.choice([0, 1])
    else:
        s.default = r.choice([lo, hi, 0 if lo <= 0 <= hi else lo, r.randrange(lo, hi + 1)])
        if abs(s.default) >= 1 << 53:
            s.default = hi if s.length < 54 else r.choice([0, 1, 1000])


def build_message(r, mi, my_force, nodes, with_sendtypes, ids_used, carrier=False, ext=None):
    """one message with its signals, drawn from r. carrier: an empty 8-byte message that only
    receives shared-name signals afterwards."""
    m = Msg()
    m.name = "Msg%s%d" % (chr(65 + r.randrange(26)), mi)
    m.ext = r.random() < 0.35
    if ext is not None:
        m.ext = ext
    while True:
        if m.ext:
            m.id = r.choice([0, 1, 0x7FF, 0x800, 1 << 28, (1 << 29) - 1, r.randrange(1 << 29), 1 << r.randrange(29)])
        else:
            m.id = r.choice([0, 1, 0x7FF, r.randrange(0x800), 1 << r.randrange(11)])
        if m.id not in ids_used:
            ids_used.add(m.id)
            break
    m.length = r.choice([8, 8, 8, 8, 7, 6, 5, 4, 3, 2, 1, 0])
    if my_force is not None or carrier:
        m.length = 8
    m.sender = r.choice(nodes) if nodes and r.random() < 0.8 else "Vector__XXX"
    m.desc = r.choice(["", "", "message %d comment" % mi, "with \\\"quote\\\" inside"])
    m.sendtype = r.choice(SENDTYPES) if with_sendtypes and r.random() < 0.8 else None
    m.cycle = r.choice([None, 10, 100, 1000, 0]) if with_sendtypes else None
    m.delay = r.choice([None, None, 5]) if with_sendtypes else None
    m.signals = []
    m.extra = carrier
    nbits = m.length * 8
    used_plain = set()       # positions of non-multiplexed signals and the multiplexer
    used_by_sel = {}         # selector -> positions
    m.used_plain, m.used_by_sel, m.mux = used_plain, used_by_sel, None
    if carrier:
        return m
    if my_force is not None:
        # the forced shape of this message is placed first, at a position where it certainly fits
        fl, fbe, fkind = my_force if isinstance(my_force, tuple) else (my_force, r.random() < 0.5, r.choice(["signed", "unsigned"]))
        s = Sig()
        s.name = "Forced%d" % mi
        s.length = fl
        for _ in range(200):
            t = r.randrange(0, 64 - fl + 1)
            if fbe:
                start = 8 * (t // 8) + 7 - t % 8
                pos = be_positions(start, fl)
            else:
                start = t
                pos = le_positions(start, fl)
            if not any(p in used_plain for p in pos):
                break
        else:
            pos = None
        if pos is not None:
            s.be, s.start = fbe, start
            s.muxed, s.muxval, s.is_mux = False, 0, False
            s.float = fkind == "float" and fl == 32
            s.signed = fkind == "signed" and not s.float
            s.force_default = r.choice([-5, -1000, -3221225472]) if s.float else None
            used_plain.update(pos)
            m.signals.append(s)
    has_mux = nbits >= 16 and r.random() < 0.45
    mux = None
    if has_mux:
        l = r.choice([2, 3, 4, 8, 8, 9, 16])
        g = pick_geometry(r, nbits, l, used_plain)
        if g:
            mux = Sig()
            mux.name = "Mux%d" % mi
            mux.be, mux.start, pos = g
            mux.length, mux.signed, mux.float = l, False, False
            mux.is_mux, mux.muxed, mux.muxval = True, False, 0
            used_plain.update(pos)
            m.signals.append(mux)
    m.mux = mux
    n_sigs = r.randrange(0, 9) if nbits else 0
    for si in range(n_sigs):
        s = Sig()
        s.name = "Sig%s%d" % (chr(65 + r.randrange(26)), si)
        s.length = r.choice([1, 1, 2, 3, 4, 7, 8, 9, 12, 15, 16, 17, 24, 31, 32, 33, 40, 48, 52, 63, 64])
        if s.length > nbits:
            continue
        s.muxed = mux is not None and r.random() < 0.5
        if not place_signal(r, m, s):
            continue
        s.float = s.length == 32 and r.random() < 0.4
        s.signed = (not s.float) and r.random() < 0.5
        m.signals.append(s)
    # scaling / metadata per signal
    for s in m.signals:
        decorate(r, s, nodes)
    r.shuffle(m.signals)
    return m


def place_signal(r, m, s):
    """draws the selector (if s.muxed) and a free geometry for s in m; False when nothing fits"""
    nbits = m.length * 8
    s.muxval = 0
    if s.muxed:
        s.muxval = r.randrange(0, 1 << m.mux.length)
        used = m.used_plain | m.used_by_sel.get(s.muxval, set())
    else:
        # a plain signal must avoid every multiplexed signal too
        used = set(m.used_plain)
        for v in m.used_by_sel.values():
            used |= v
    g = pick_geometry(r, nbits, s.length, used)
    if not g:
        return False
    s.be, s.start, pos = g
    if s.muxed:
        m.used_by_sel.setdefault(s.muxval, set()).update(pos)
    else:
        m.used_plain.update(pos)
    s.is_mux = False
    return True


SHARED_KINDS = ["float", "enum", "scaled", "plain"]


def add_shared_signals(r2, msgs, nodes, forced):
    """signals whose NAME is used in several messages (names are unique per message only). Every kind
    carries the signal-level metadata definitions of the DBC format: float -> SIG_VALTYPE_ (+ start value),
    enum -> VAL_, all -> CM_ SG_ / BA_ GenSigStartValue with good probability (forced: always)."""
    kinds = list(SHARED_KINDS) if forced else r2.sample(SHARED_KINDS, r2.randrange(2, 5))
    pool = [("Shr%s%s" % (k.capitalize(), chr(65 + r2.randrange(26))), k) for k in kinds]
    for m in msgs:
        for nm, kind in pool:
            sure = forced and m.extra
            if not sure and r2.random() >= 0.8:
                continue
            s = Sig()
            s.name = nm
            s.extra = True
            s.length = {"float": 32, "enum": r2.choice([2, 3, 4, 8, 12, 16]), "scaled": r2.choice([8, 10, 12, 16, 24]),
                        "plain": r2.choice([1, 4, 8])}[kind]
            if sure:
                s.length = min(s.length, 12)
                if kind == "float":
                    s.length = 32
                if kind == "plain":
                    s.length = 8
            if s.length > m.length * 8:
                continue
            s.muxed = m.mux is not None and r2.random() < 0.4
            placed = place_signal(r2, m, s)
            if not placed and m.mux is not None:
                s.muxed = not s.muxed          # a crowded message may still have room under another selector
                placed = place_signal(r2, m, s)
            if not placed and kind != "float" and s.length > 2:
                s.length, s.muxed = 2, False
                placed = place_signal(r2, m, s)
            if not placed:
                continue
            s.float = kind == "float"
            s.signed = (not s.float) and r2.random() < 0.5
            decorate(r2, s, nodes)
            if kind == "float":
                s.factor, s.offset, s.min, s.max, s.vds = "1", "0", "0", "0", []
                if sure or r2.random() < 0.7:
                    s.default = r2.choice(FLOAT_DEFAULTS[1:])
            elif kind == "enum":
                if not s.vds:
                    draw_vds(r2, s)
            elif kind == "scaled" and s.factor == "1" and s.offset == "0":
                s.factor, s.offset = r2.choice(SCALES), r2.choice(OFFSETS)
            if sure or r2.random() < 0.6:
                s.desc = s.desc or "shared %s of message %s" % (kind, m.name)
            if (sure or r2.random() < 0.5) and not s.default:
                draw_default(r2, s)
                if not s.default and kind != "float":
                    lo, hi = raw_range(s)
                    s.default = hi
            if sure and kind == "plain" and s.length >= 8:
                # a start value that is written zero-padded (010): decimal, NOT octal
                s.default, s.pad_default = r2.choice([10, 17, 25, 64, 100, 127]), True
            m.signals.insert(r2.randrange(len(m.signals) + 1), s)
    return pool


def fmt_int(r2, v, padded, force=False):
    """an INT attribute value as decimal digits, sometimes zero-padded (fixed-width exporters write 010, -012,
    0100000): still the DECIMAL number. Only values whose digits are all below 8 are padded - text/scanner, which
    the tree's parser is built on, rejects 08/09 as malformed octal literals. padded collects the values whose
    reading as an octal literal would differ."""
    digits = "%d" % abs(v)
    if v != 0 and all(c in "01234567" for c in digits) and (force or r2.random() < 0.3):
        if abs(v) >= 8:
            padded.append(v)
        return ("-" if v < 0 else "") + "0" * r2.randrange(1, 3) + digits
    return "%d" % v


def apply_names(msgs, names_from):
    """TWIN programs: message j takes the name of message j of an earlier program of the batch and its signals
    take that message's signal names (as far as both exist and no name is used twice), so that the two programs
    agree in message AND signal names while lengths, signs, types, scaling and metadata come from different streams"""
    taken_m = {m.name for m in msgs}
    for m, (mname, snames) in zip(msgs, names_from):
        if mname != m.name and mname in taken_m:
            continue
        taken_m.discard(m.name)
        m.name = mname
        taken_m.add(mname)
        taken = {s.name for s in m.signals}
        for s, sn in zip(m.signals, snames):
            if sn == s.name or sn not in taken:
                taken.discard(s.name)
                s.name = sn
                taken.add(sn)


def arrange(r2, items, grouped, flip):
    """items: [(line, signal or None)] in the order of the main stream. The lines of shared-name (extra)
    signals stay where their message's lines are, or (grouped) are taken out and put back as one run of
    directly consecutive lines per signal name, in ascending or descending message order, at a random place."""
    if not grouped:
        return [l for l, _ in items]
    rest = [[l] for l, s in items if s is None or not getattr(s, "extra", False)]
    blocks = {}
    for l, s in items:
        if s is not None and getattr(s, "extra", False):
            blocks.setdefault(s.name, []).append(l)
    for nm in sorted(blocks):
        b = blocks[nm]
        if flip[0]:
            b = b[::-1]
        flip[0] = not flip[0]
        rest.insert(r2.randrange(len(rest) + 1), b)   # between other lines / runs, never inside a run
    return [l for unit in rest for l in unit]


def gen_program(rng, name, forced_widths, share=None, salt=0, names_from=None):
    """returns (dbc_text, expected_db_lines, summary).
    share: None = reuse signal names across messages with probability SHARE_PROB; True = the forced shape
    (three extra messages that all carry the same four names, metadata lines of equal names consecutive,
    both orders); False = never. The draws from rng do not depend on share."""
    n_nodes = rng.choice([0, 1, 2, 3, 4])
    nodes = ["Node%s%d" % (chr(65 + rng.randrange(26)), i) for i in range(n_nodes)]
    with_sendtypes = rng.random() < 0.6 and n_nodes > 0
    n_msgs = max(rng.randrange(2, 7), len(forced_widths))
    msgs = []
    ids_used = set()
    forced = list(forced_widths)
    for mi in range(n_msgs):
        my_force = forced.pop(0) if forced else None
        msgs.append(build_message(rng, mi, my_force, nodes, with_sendtypes, ids_used))
    version = rng.choice(["", "1.0", "v 2"])
    # ---------------- shared signal names (second stream)
    r2 = derived_rng(rng, "share:%s:%d" % (name, salt))
    forced_shape = share is True
    if share is None:
        share = r2.random() < SHARE_PROB
    grouped = False
    flip = [r2.random() < 0.5]
    if share:
        if forced_shape:
            for k in range(3):
                # float32 (SIG_VALTYPE_) inside an extended-ID and inside a standard-ID message
                msgs.append(build_message(r2, n_msgs + k, None, nodes, with_sendtypes, ids_used, carrier=True,
                                          ext=[True, False, None][k]))
        add_shared_signals(r2, msgs, nodes, forced_shape)
        grouped = forced_shape or r2.random() < 0.75
    if names_from:
        apply_names(msgs, names_from)
    return render_program(rng, r2, name, nodes, msgs, version, with_sendtypes, grouped, flip)


def render_program(rng, r2, name, nodes, msgs, version, with_sendtypes, grouped=False, flip=None):
    """prints the DBC text (lines of the main stream drawn from rng, additions from r2) and the database it denotes"""
    flip = flip or [False]
    # ---------------- print the DBC text
    nl = "\n"
    L = []
    L.append('VERSION "%s"' % version)
    L.append("")
    L.append("NS_ :")
    L.append("\tCM_")
    L.append("\tBA_DEF_")
    L.append("")
    L.append("BS_:")
    L.append("")
    L.append("BU_: " + " ".join(nodes))
    L.append("")
    for m in msgs:
        did = m.id | (0x80000000 if m.ext else 0)
        L.append("BO_ %d %s: %d %s" % (did, m.name, m.length, m.sender))
        for s in m.signals:
            muxs = " M" if s.is_mux else (" m%d" % s.muxval if s.muxed else "")
            L.append(' SG_ %s%s : %d|%d@%d%s (%s,%s) [%s|%s] "%s" %s' % (
                s.name, muxs, s.start, s.length, 0 if s.be else 1, "-" if s.signed else "+",
                s.factor, s.offset, s.min, s.max, s.unit, ",".join(s.receivers)))
        L.append("")
    meta = []
    for n in nodes:
        if rng.random() < 0.4:
            meta.append(('CM_ BU_ %s "node %s comment";' % (n, n), None))
    for m in msgs:
        did = m.id | (0x80000000 if m.ext else 0)
        if m.desc:
            meta.append(('CM_ BO_ %d "%s";' % (did, m.desc), None))
        for s in m.signals:
            if s.desc:
                meta.append(('CM_ SG_ %d %s "%s";' % (did, s.name, s.desc), s))
    meta = arrange(r2, meta, grouped, flip)
    L += meta
    attrs = []
    if with_sendtypes:
        enum = ["None", "Cyclic", "OnEvent", "Event", "cyclicIfActive", "Periodic"]
        attrs.append('BA_DEF_ BO_ "GenMsgSendType" ENUM %s;' % ",".join('"%s"' % e for e in enum))
        attrs.append('BA_DEF_ BO_ "GenMsgCycleTime" INT 0 100000;')
        attrs.append('BA_DEF_ BO_ "GenMsgDelayTime" INT 0 100000;')
    attrs.append('BA_DEF_ SG_ "GenSigStartValue" INT -9223372036854775808 9223372036854775807;')
    if with_sendtypes:
        attrs.append('BA_DEF_DEF_ "GenMsgSendType" "None";')
        attrs.append('BA_DEF_DEF_ "GenMsgCycleTime" 0;')
    attrs.append('BA_DEF_DEF_ "GenSigStartValue" 0;')
    vals, more, padded = [], [], []
    for m in msgs:
        did = m.id | (0x80000000 if m.ext else 0)
        r = r2 if m.extra else rng
        dst = more if m.extra else vals
        if m.sendtype:
            if r.random() < 0.5:
                dst.append(('BA_ "GenMsgSendType" BO_ %d "%s";' % (did, m.sendtype[0]), None))
            else:
                dst.append(('BA_ "GenMsgSendType" BO_ %d %d;' % (did, ["None", "Cyclic", "OnEvent", "Event", "cyclicIfActive", "Periodic"].index(m.sendtype[0])), None))
        if m.cycle is not None:
            dst.append(('BA_ "GenMsgCycleTime" BO_ %d %s;' % (did, fmt_int(r2, m.cycle, padded)), None))
        if m.delay is not None:
            dst.append(('BA_ "GenMsgDelayTime" BO_ %d %s;' % (did, fmt_int(r2, m.delay, padded)), None))
        for s in m.signals:
            if s.default is not None:
                (more if getattr(s, "extra", False) else dst).append(
                    ('BA_ "GenSigStartValue" SG_ %d %s %s;' % (did, s.name, fmt_int(r2, s.default, padded, getattr(s, "pad_default", False))), s))
    rng.shuffle(vals)
    for item in more:
        # additions of the second stream: anywhere among the shuffled lines (grouped: see arrange)
        vals.insert(r2.randrange(len(vals) + 1), item)
    vals = arrange(r2, vals, grouped, flip)
    L += attrs + vals
    tail = []
    for m in msgs:
        did = m.id | (0x80000000 if m.ext else 0)
        for s in m.signals:
            if s.vds:
                tail.append(("VAL_ %d %s %s ;" % (did, s.name, " ".join('%d "%s"' % (v, t) for v, t in s.vds)), s))
            if s.float:
                tail.append(("SIG_VALTYPE_ %d %s : 1;" % (did, s.name), s))
    L += arrange(r2, tail, grouped, flip)
    text = nl.join(L) + nl
    # ---------------- the database the text denotes
    D = []
    src = name + ".dbc"
    D.append("DB %s %s %x %x" % (hs(src), hs(version), len(msgs), len(nodes)))
    node_desc = {}
    for line in meta:
        if line.startswith("CM_ BU_ "):
            n = line.split()[2]
            node_desc[n] = "node %s comment" % n
    for n in sorted(nodes):
        D.append("NODE %s %s" % (hs(n), hs(node_desc.get(n, ""))))
    for m in sorted(msgs, key=lambda m: m.id):
        st = m.sendtype[1] if m.sendtype else 0
        D.append("MSG %s %x %d %x %d %s %s %s %s %x" % (
            hs(m.name), m.id, 1 if m.ext else 0, m.length, st, hs(m.desc), hs(m.sender),
            hx((m.cycle or 0) * 1000000), hx((m.delay or 0) * 1000000), len(m.signals)))
        for s in sorted(m.signals, key=lambda s: (s.start, s.muxval)):
            vds = sorted(s.vds)
            D.append("SIGD %s %x %x %d %d %d %d %d %x %s %s %s %s %s %s %s %x%s %x%s" % (
                hs(s.name), s.start, s.length, s.be, s.signed, s.float, s.is_mux, s.muxed, s.muxval,
                fbits(s.offset), fbits(s.factor), fbits(s.min), fbits(s.max), hs(s.unit), hs(s.desc),
                hx(s.default or 0), len(vds), "".join(" %s %s" % (hx(v), hs(t)) for v, t in vds),
                len(s.receivers), "".join(" " + hs(r) for r in s.receivers)))
    names = {}
    for m in msgs:
        for s in m.signals:
            names.setdefault(s.name, set()).add(m.name)
    summary = {"messages": len(msgs), "signals": sum(len(m.signals) for m in msgs), "nodes": len(nodes),
               "widths": sorted({s.length for m in msgs for s in m.signals}),
               "muxed": sum(1 for m in msgs for s in m.signals if s.muxed),
               "float": sum(1 for m in msgs for s in m.signals if s.float),
               "scaled": sum(1 for m in msgs for s in m.signals if s.factor != "1" or s.offset != "0"),
               "extended": sum(1 for m in msgs if m.ext), "sendtypes": with_sendtypes,
               "names_in_several_messages": sum(1 for v in names.values() if len(v) > 1),
               "consecutive_same_name_lines": consecutive_same_name(L),
               "zero_padded_ints_whose_octal_reading_differs": len(padded),
               "float_signals_in_extended_messages": sum(1 for m in msgs if m.ext for s in m.signals if s.float),
               "name_stream": [[m.name, [s.name for s in m.signals]] for m in msgs]}
    return text, D, summary


_SIG_META = [("SIG_VALTYPE_", 1, 2), ("VAL_", 1, 2), ("CM_ SG_", 2, 3), ('BA_ "GenSigStartValue" SG_', 3, 4)]


def consecutive_same_name(lines):
    """per kind of signal-level metadata definition: number of places where two directly consecutive
    definitions name the same signal of DIFFERENT messages; and how many of these places have the two
    messages in the order of their BO_ definitions (ascending) / in the opposite order (descending)"""
    out = {k: 0 for k, _, _ in _SIG_META}
    out["ascending"] = out["descending"] = 0
    order = [l.split()[1] for l in lines if l.startswith("BO_ ")]
    prev = None
    for l in lines:
        cur = None
        for k, im, isg in _SIG_META:
            if l.startswith(k + " "):
                t = l.split()
                cur = (k, t[im], t[isg])
        if cur and prev and cur[0] == prev[0] and cur[2] == prev[2] and cur[1] != prev[1]:
            out[cur[0]] += 1
            out["ascending" if order.index(prev[1]) < order.index(cur[1]) else "descending"] += 1
        prev = cur
    return out


def has_forced_share_shape(summary):
    c = summary["consecutive_same_name_lines"]
    return (all(c[k] >= 1 for k, _, _ in _SIG_META) and c["ascending"] >= 1 and c["descending"] >= 1
            and summary["zero_padded_ints_whose_octal_reading_differs"] >= 1
            and summary["float_signals_in_extended_messages"] >= 1)


def raw_range(s):
    if s.float:
        return (0, 0)
    if s.signed:
        return (-(1 << (s.length - 1)), (1 << (s.length - 1)) - 1)
    return (0, (1 << s.length) - 1)


def repr_float(x):
    """a decimal literal the DBC float grammar accepts (no leading zeros issue, <= 19 digits)"""
    if x == int(x) and abs(x) < 1 << 53:
        return "%d" % int(x)
    if x == int(x) and abs(x) < 1e30 and (int(abs(x)) % 7 == 3 or abs(x) >= 2 ** 64):
        # some large integral bounds are written as plain integers of 17..30 digits (the exact value of the float64)
        return "%d" % int(x)
    r = repr(float(x))
    return r.replace("e+", "e")


def gen_batch(seed, count):
    rng = random.Random(seed * 7919 + 17)
    progs = []
    forced = []
    for w in WIDTH_BOUNDARIES:
        forced.append(w)
    # shapes every batch must contain: float32 in both byte orders, wide signed/unsigned in both byte orders
    for be in (False, True):
        forced.append((32, be, "float"))
        for w in (33, 63, 64):
            forced.append((w, be, "signed"))
            forced.append((w, be, "unsigned"))
        forced.append((12, be, "signed"))
    # the widths at which the accessor type changes, with BOTH signs (the byte order alternates)
    for k, w in enumerate((8, 16, 32)):
        forced.append((w, k % 2 == 0, "signed"))
        forced.append((w, k % 2 == 1, "unsigned"))
    rng.shuffle(forced)
    per = max(1, -(-len(forced) // max(1, count)))
    for i in range(count):
        name = "p%d" % i
        fw = forced[i * per:(i + 1) * per]
        if i == seed % count:
            # the forced shape: signal names reused across messages, the SIG_VALTYPE_ / VAL_ / CM_ SG_ /
            # GenSigStartValue definitions of equal names directly consecutive, in both message orders
            st = rng.getstate()
            for salt in range(50):
                rng.setstate(st)
                text, db, summary = gen_program(rng, name, fw, share=True, salt=salt)
                if has_forced_share_shape(summary):
                    break
        else:
            text, db, summary = gen_program(rng, name, fw)
        progs.append((name, text, db, summary))
    # TWIN programs (added to the batch): same message and signal names as an earlier program, everything else from
    # another stream - one process compiles and generates the whole batch (as `cantool generate <dir>` does)
    rt = random.Random(seed * 31337 + 3)
    for target in rt.sample(range(count), min(count, 2 if count <= 24 else 4)):
        name = "p%d" % len(progs)
        fw = rt.sample(WIDTH_BOUNDARIES, 2)
        text, db, summary = gen_program(rt, name, fw, names_from=progs[target][3]["name_stream"])
        summary["twin_of"] = progs[target][0]
        progs.append((name, text, db, summary))
    return progs


# --------------------------------------------------------------------------- programs for the generated-code stage of C09

PHYS_SCALES = SCALES + ["1e-6", "1e6", "0.000001", "1000000", "0.2", "0.3", "7", "1.5", "-0.001", "-100", "-0.5", "0.03125",
                        "1048576", "9.5367431640625e-07", "-3", "1e-4", "0.05", "1"]
PHYS_OFFSETS = OFFSETS + ["-273.15", "1e6", "-1e6", "100", "-0.5", "1", "-1"]


def phys_decorate(r, s, nodes, scaled=True):
    """a signal of the class of C09: finite non-zero factor of either sign, finite offset, and a range that is
    absent / natural / narrower / wider / only-Max / only-Min / not aligned to the steps"""
    s.factor, s.offset, s.min, s.max = "1", "0", "0", "0"
    s.unit = r.choice(UNITS)
    s.desc = r.choice(DESCS)
    s.receivers = ["Vector__XXX"] if not nodes else sorted(set(r.sample(nodes, r.randrange(1, len(nodes) + 1))))
    s.default, s.vds, s.float = None, [], False
    lo, hi = raw_range(s)
    if scaled and s.length >= 44 and r.random() < 0.8:
        # a wide signal with a large factor: the natural range lies beyond 2^64 and is written as plain integers
        s.factor, s.offset = r.choice(["1000000", "1e6", "-1000000", "65536"]), "0"
        f = float(s.factor)
        a, b = sorted([lo * f, hi * f])
        s.min, s.max = repr_float(a), repr_float(b)
        return
    if scaled and s.length >= 2:
        s.factor = r.choice(PHYS_SCALES)
        s.offset = r.choice(PHYS_OFFSETS)
        if r.random() < 0.15:
            s.offset = repr_float(-float(s.factor) * (1 << (s.length - 1)))      # centred
        elif r.random() < 0.15:
            s.offset = repr_float(float(s.factor) * r.randrange(-1000, 1001))     # a multiple of the step
        f, o = float(s.factor), float(s.offset)
        if f == 1 and o == 0:
            s.offset, o = "0.5", 0.5
        a, b = sorted([lo * f + o, hi * f + o])
        w = b - a
        k = r.randrange(8)
        if k <= 1:
            mn, mx = 0.0, 0.0
        elif k == 2:
            mn, mx = a, b
        elif k == 3:
            mn, mx = a + w / 4, b - w / 4
        elif k == 4:
            mn, mx = a - w - 1, b + w + 1
        elif k == 5:     # only Max
            mn, mx = 0.0, r.choice([abs(b) + abs(a) / 2 + 1, abs(b) / 2 if b != 0 else 1.0])
        elif k == 6:     # only Min
            mn, mx = r.choice([-(abs(a) + 1), -abs(w) / 4]), 0.0
        else:
            mid = a + w * r.random()
            mn, mx = mid - abs(f) * 3.3, mid + abs(f) * 7.7
        if mn > mx:
            mn, mx = mx, mn
        s.min, s.max = repr_float(mn), repr_float(mx)
    elif s.length >= 2:
        # identity scale (factor 1, offset 0): physical accessors exist exactly when a declared range constrains the
        # raw range - including ranges in which ONE bound coincides with the raw limit and only the other constrains
        k = r.randrange(8)
        mid = [v for v in (-100, -5, -1, 0, 1, 5, 100, lo // 2, hi // 2) if lo < v < hi]
        c = r.choice(mid) if mid else lo
        if k == 0:
            s.min, s.max = repr_float(lo), repr_float(hi)             # the raw range itself: not constraining
        elif k <= 2:
            s.min, s.max = repr_float(min(c, 0) if s.signed else 0), repr_float(hi)   # max at the raw limit, min constrains (signed)
        elif k <= 4:
            s.min, s.max = repr_float(lo), repr_float(max(c, 1))      # min at the raw limit, max constrains
        elif k == 5:
            s.min, s.max = repr_float(min(c, hi - 1)), repr_float(hi)  # max at the raw limit, any min
        elif k == 6:
            a, b = sorted([c, r.choice(mid) if mid else hi])
            s.min, s.max = repr_float(a), repr_float(b if b != a else hi)
    if r.random() < 0.15:
        draw_vds(r, s)
    if r.random() < 0.3:
        draw_default(r, s)


def phys_place(r, m, s, lo_bit=0):
    """like place_signal but only at start bits >= lo_bit (little-endian) when lo_bit > 0"""
    if not lo_bit:
        return place_signal(r, m, s)
    nbits = m.length * 8
    s.muxval, s.is_mux = 0, False
    used = set(m.used_plain)
    for v in m.used_by_sel.values():
        used |= v
    for _ in range(60):
        if nbits - s.length < lo_bit:
            return False
        st = r.randrange(lo_bit, nbits - s.length + 1)
        pos = le_positions(st, s.length)
        if not any(p in used for p in pos):
            s.be, s.start = False, st
            m.used_plain.update(pos)
            return True
    return False


def gen_phys_program(rng, name, names_from=None):
    """a program whose signals are mostly scaled integer signals (2..52 bits) with physical accessors:
    plain ones, multiplexed ones, and in multiplexed messages always-present scaled signals at HIGHER start
    bits than multiplexed ones (descriptor order by start bit then interleaves the two kinds)"""
    nodes = ["Node%s%d" % (chr(65 + rng.randrange(26)), i) for i in range(rng.choice([0, 1, 2]))]
    msgs, ids_used = [], set()
    n_msgs = rng.randrange(3, 6)
    for mi in range(n_msgs):
        m = Msg()
        m.name = "Msg%s%d" % (chr(65 + rng.randrange(26)), mi)
        m.ext = rng.random() < 0.3
        while True:
            m.id = rng.randrange(1 << 29) if m.ext else rng.randrange(0x800)
            if m.id not in ids_used:
                ids_used.add(m.id)
                break
        m.length = rng.choice([8, 8, 8, 8, 6, 4])
        m.sender = rng.choice(nodes) if nodes and rng.random() < 0.8 else "Vector__XXX"
        m.desc, m.sendtype, m.cycle, m.delay, m.extra = "", None, None, None, False
        m.signals, m.used_plain, m.used_by_sel, m.mux = [], set(), {}, None
        nbits = m.length * 8
        with_mux = mi == 0 or rng.random() < 0.6
        if with_mux:
            mux = Sig()
            mux.name = "Mux%d" % mi
            mux.length = rng.choice([2, 3, 4, 8])
            mux.signed, mux.float, mux.muxed, mux.is_mux = False, False, False, True
            if mi == 0 or rng.random() < 0.5:
                mux.be, mux.start, mux.muxval = False, 0, 0
                m.used_plain.update(le_positions(0, mux.length))
                m.mux = mux
            else:
                m.mux = mux
                mux.muxed = False
                if not place_signal(rng, m, mux):
                    m.mux = None
                mux.is_mux = True
            if m.mux is not None:
                m.signals.append(mux)
        hi_mux = 0
        n = rng.randrange(3, 8)
        n_muxed = rng.randrange(1, 4) if m.mux is not None else 0
        for si in range(n):
            s = Sig()
            s.name = "Sig%s%d" % (chr(65 + rng.randrange(26)), si)
            # the first signals of a multiplexed message are multiplexed, the following ones always present and
            # (every second multiplexed message, so always in message 0) placed at higher start bits than the
            # multiplexed ones
            s.muxed = si < n_muxed
            if s.muxed:
                s.length = rng.choice([2, 3, 4, 7, 8, 9, 10, 12, 16])
            else:
                s.length = rng.choice([2, 3, 4, 5, 7, 8, 9, 10, 12, 12, 13, 16, 16, 17, 20, 24, 31, 32, 33, 40, 52, 1])
            if not s.muxed and si == n_muxed and mi == 1 and nbits == 64:
                s.length = rng.choice([44, 48, 52])     # one wide scaled signal per program (ranges beyond 2^64)
            if s.length > nbits:
                continue
            behind = m.mux is not None and not s.muxed and hi_mux and (mi % 2 == 0)
            s.signed = rng.random() < 0.5
            if s.muxed:
                if not place_signal(rng, m, s):
                    continue
                hi_mux = max(hi_mux, s.start + 1)
            else:
                if behind and nbits - s.length < hi_mux:
                    s.length = rng.choice([2, 3, 4, 8])
                if not phys_place(rng, m, s, hi_mux if behind else 0):
                    if not place_signal(rng, m, s):
                        continue
            phys_decorate(rng, s, nodes, scaled=rng.random() < 0.8)
            m.signals.append(s)
        if m.mux is not None:
            mux = m.mux
            mux.factor, mux.offset, mux.min, mux.max, mux.unit, mux.desc = "1", "0", "0", "0", "", ""
            mux.receivers, mux.default, mux.vds = ["Vector__XXX"], None, []
        rng.shuffle(m.signals)
        msgs.append(m)
    r2 = derived_rng(rng, "phys:" + name)
    if names_from:
        apply_names(msgs, names_from)
    return render_program(rng, r2, name, nodes, msgs, "", False)


def plain_behind_muxed(db_lines):
    """number of always-present signals with physical scaling that follow a multiplexed signal in descriptor order"""
    n, seen_muxed = 0, False
    for line in db_lines:
        if line.startswith("MSG "):
            seen_muxed = False
        elif line.startswith("SIGD "):
            t = line.split()
            if t[8] == "1":
                seen_muxed = True
            elif seen_muxed and t[7] == "0" and (t[11] != fbits("1") or t[10] != fbits("0")):
                n += 1
    return n


def gen_phys_batch(seed, count):
    """the last programs (2 of up to 24, else 4) are TWINS of the first ones: same message and signal names, other
    lengths / signs / scaling (one process generates the whole batch)"""
    rng = random.Random(seed * 104729 + 5)
    progs = []
    twins = 0 if count < 3 else (2 if count <= 24 else 4)
    for i in range(count):
        name = "p%d" % i
        t = i - (count - twins)
        while True:
            text, db, summary = gen_phys_program(rng, name, names_from=progs[t][3]["name_stream"] if t >= 0 else None)
            summary["plain_scaled_behind_multiplexed"] = plain_behind_muxed(db)
            if summary["plain_scaled_behind_multiplexed"] > 0:
                break
        if t >= 0:
            summary["twin_of"] = progs[t][0]
        progs.append((name, text, db, summary))
    return progs
