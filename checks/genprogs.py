"""Seeded generator of DBC programs of the generator-supported class (DESIGN.md 4.3) together
with the database each program DENOTES (written from the generator's own knowledge of what it
emitted, never from the code under test). Used by checks/gen.py (C03, C10, C11, C19).

Database dump format (one item per line, see harness/gencommon/dbdump.go for the Go twin):
  DB s:<source> s:<version> <nmsg> <nnodes>
  NODE s:<name> s:<description>
  MSG s:<name> <id> <ext> <length> <sendtype 0|1|2> s:<description> s:<sender> <cycle_ns> <delay_ns> <nsig>
  SIGD s:<name> <start> <length> <be> <signed> <float> <mux> <muxed> <muxval> <offset> <scale> <min> <max>
       s:<unit> s:<description> <default> <nvd> {<value> s:<text>}* <nrecv> {s:<recv>}*
ints in lower-case hex (negative ints as the hex of their uint64 reinterpretation), floats as the hex
of their binary64 bit pattern, strings as s:+hex(utf-8 bytes).
"""
import random
import struct

WIDTH_BOUNDARIES = [1, 2, 7, 8, 9, 15, 16, 17, 31, 32, 33, 52, 63, 64]


def hx(n):
    return "%x" % (n & 0xFFFFFFFFFFFFFFFF)


def hs(s):
    return "s:" + s.encode("utf-8").hex()


def fbits(text):
    return "%x" % struct.unpack(">Q", struct.pack(">d", float(text)))[0]


def le_positions(s, l):
    return [s + i for i in range(l)]


def be_positions(s, l):
    out, pos = [], s
    for _ in range(l):
        out.append(pos)
        pos = pos + 15 if pos % 8 == 0 else pos - 1
    return out


class Sig:
    pass


class Msg:
    pass


def pick_geometry(rng, nbits, length, used, tries=60):
    for _ in range(tries):
        be = rng.random() < 0.5
        s = rng.randrange(nbits)
        pos = be_positions(s, length) if be else le_positions(s, length)
        if max(pos) >= nbits:
            continue
        if any(p in used for p in pos):
            continue
        return be, s, pos
    return None


SCALES = ["0.1", "0.01", "0.001", "0.5", "0.25", "2", "10", "100", "1e-3", "2.5e-2", "0.0625", "-0.1", "-1", "-2.5", "3", "1E2"]
OFFSETS = ["0", "0", "-40", "40", "0.5", "-1000", "1e3", "12.75", "-0.25"]
UNITS = ["", "km/h", "%", "degC", "rpm", "V", "m/s"]
SENDTYPES = [("Cyclic", 1), ("Event", 2), ("None", 0), ("OnEvent", 2), ("cyclicIfActive", 1), ("Periodic", 1)]


def gen_program(rng, name, forced_widths):
    """returns (dbc_text, expected_db_lines, summary)"""
    n_nodes = rng.choice([0, 1, 2, 3, 4])
    nodes = ["Node%s%d" % (chr(65 + rng.randrange(26)), i) for i in range(n_nodes)]
    with_sendtypes = rng.random() < 0.6 and n_nodes > 0
    n_msgs = max(rng.randrange(2, 7), len(forced_widths))
    msgs = []
    ids_used = set()
    forced = list(forced_widths)
    for mi in range(n_msgs):
        m = Msg()
        m.name = "Msg%s%d" % (chr(65 + rng.randrange(26)), mi)
        m.ext = rng.random() < 0.35
        while True:
            if m.ext:
                m.id = rng.choice([0, 1, 0x7FF, 0x800, 1 << 28, (1 << 29) - 1, rng.randrange(1 << 29), 1 << rng.randrange(29)])
            else:
                m.id = rng.choice([0, 1, 0x7FF, rng.randrange(0x800), 1 << rng.randrange(11)])
            if m.id not in ids_used:
                ids_used.add(m.id)
                break
        m.length = rng.choice([8, 8, 8, 8, 7, 6, 5, 4, 3, 2, 1, 0])
        my_force = forced.pop(0) if forced else None
        if my_force is not None:
            m.length = 8
        m.sender = rng.choice(nodes) if nodes and rng.random() < 0.8 else "Vector__XXX"
        m.desc = rng.choice(["", "", "message %d comment" % mi, "with \\\"quote\\\" inside"])
        m.sendtype = rng.choice(SENDTYPES) if with_sendtypes and rng.random() < 0.8 else None
        m.cycle = rng.choice([None, 10, 100, 1000, 0]) if with_sendtypes else None
        m.delay = rng.choice([None, None, 5]) if with_sendtypes else None
        m.signals = []
        nbits = m.length * 8
        used_plain = set()       # positions of non-multiplexed signals and the multiplexer
        used_by_sel = {}         # selector -> positions
        if my_force is not None:
            # the forced shape of this message is placed first, at a position where it certainly fits
            fl, fbe, fkind = my_force if isinstance(my_force, tuple) else (my_force, rng.random() < 0.5, rng.choice(["signed", "unsigned"]))
            s = Sig()
            s.name = "Forced%d" % mi
            s.length = fl
            for _ in range(200):
                t = rng.randrange(0, 64 - fl + 1)
                if fbe:
                    start = 8 * (t // 8) + 7 - t % 8
                    pos = be_positions(start, fl)
                else:
                    start = t
                    pos = le_positions(start, fl)
                if not any(p in used_plain for p in pos):
                    break
            else:
                pos = None
            if pos is not None:
                s.be, s.start = fbe, start
                s.muxed, s.muxval, s.is_mux = False, 0, False
                s.float = fkind == "float" and fl == 32
                s.signed = fkind == "signed" and not s.float
                s.force_default = rng.choice([-5, -1000, -3221225472]) if s.float else None
                used_plain.update(pos)
                m.signals.append(s)
        has_mux = nbits >= 16 and rng.random() < 0.45
        mux = None
        if has_mux:
            l = rng.choice([2, 3, 4, 8, 8, 9, 16])
            g = pick_geometry(rng, nbits, l, used_plain)
            if g:
                mux = Sig()
                mux.name = "Mux%d" % mi
                mux.be, mux.start, pos = g
                mux.length, mux.signed, mux.float = l, False, False
                mux.is_mux, mux.muxed, mux.muxval = True, False, 0
                used_plain.update(pos)
                m.signals.append(mux)
        n_sigs = rng.randrange(0, 9) if nbits else 0
        for si in range(n_sigs):
            s = Sig()
            s.name = "Sig%s%d" % (chr(65 + rng.randrange(26)), si)
            s.length = rng.choice([1, 1, 2, 3, 4, 7, 8, 9, 12, 15, 16, 17, 24, 31, 32, 33, 40, 48, 52, 63, 64])
            if s.length > nbits:
                continue
            s.muxed = mux is not None and rng.random() < 0.5
            s.muxval = 0
            if s.muxed:
                s.muxval = rng.randrange(0, 1 << mux.length)
                used = used_plain | used_by_sel.get(s.muxval, set())
            else:
                # a plain signal must avoid every multiplexed signal too
                used = set(used_plain)
                for v in used_by_sel.values():
                    used |= v
            g = pick_geometry(rng, nbits, s.length, used)
            if not g:
                continue
            s.be, s.start, pos = g
            if s.muxed:
                used_by_sel.setdefault(s.muxval, set()).update(pos)
            else:
                used_plain.update(pos)
            s.is_mux = False
            s.float = s.length == 32 and rng.random() < 0.4
            s.signed = (not s.float) and rng.random() < 0.5
            m.signals.append(s)
        # scaling / metadata per signal
        for s in m.signals:
            s.factor, s.offset, s.min, s.max = "1", "0", "0", "0"
            s.unit = rng.choice(UNITS)
            s.desc = rng.choice(["", "", "signal comment", "multi word, with comma"])
            s.receivers = sorted(set(rng.sample(nodes, rng.randrange(0, len(nodes) + 1)))) if nodes else []
            if not s.receivers:
                s.receivers = ["Vector__XXX"]
            s.default = None
            s.vds = []
            lo, hi = raw_range(s)
            if not s.float and not s.is_mux and 2 <= s.length <= 52 and rng.random() < 0.55:
                s.factor = rng.choice(SCALES)
                s.offset = rng.choice(OFFSETS)
                r = rng.random()
                f, o = float(s.factor), float(s.offset)
                a, b = sorted([lo * f + o, hi * f + o])
                if r < 0.3:
                    pass
                elif r < 0.6:
                    s.min, s.max = repr_float(a), repr_float(b)
                else:
                    q = (b - a) / 4
                    s.min, s.max = repr_float(a + q), repr_float(b - q)
            elif not s.float and not s.is_mux and s.length == 1 and rng.random() < 0.25:
                # a 1-bit signal with a factor/offset/range stays a plain bool (no physical accessors)
                s.factor = rng.choice(["2", "0.5", "1"])
                s.offset = rng.choice(["0", "1", "-1"])
                if rng.random() < 0.5:
                    s.min, s.max = "0", "1"
            elif not s.float and not s.is_mux and s.length >= 2 and rng.random() < 0.2:
                # identity scale with a declared range equal to the raw range or narrower (<= 52 bits only)
                if s.length <= 52 and rng.random() < 0.5:
                    s.min, s.max = repr_float(lo // 2), repr_float(hi // 2)
                elif s.length <= 52:
                    s.min, s.max = repr_float(lo), repr_float(hi)
            if not s.float and rng.random() < 0.3:
                k = rng.randrange(1, 5)
                if s.length == 1:
                    vals = rng.sample([0, 1], rng.randrange(1, 3))
                else:
                    # VAL_ values travel through float64 in the parser: keep them exactly representable (|v| <= 2^53)
                    clo, chi = max(lo, -(1 << 53)), min(hi, 1 << 53)
                    cand = {clo, chi, 0 if clo <= 0 <= chi else clo, min(chi, 1), min(chi, 2), rng.randrange(clo, chi + 1)}
                    vals = rng.sample(sorted(cand), min(k, len(cand)))
                s.vds = [(v, rng.choice(["Val%s%d", "Val %s %d", "V\u00e4l%s%d", "val-%s_%d"]) % (chr(65 + i), abs(v) % 1000))
                         for i, v in enumerate(vals)]
                rng.shuffle(s.vds)
            if getattr(s, "force_default", None) is not None:
                s.default = s.force_default
            elif rng.random() < (0.8 if s.float else 0.3):
                if s.float:
                    # exactly representable in binary32; negative and large values exercise the order in which
                    # the compiler sees GenSigStartValue (BA_) and the float type (SIG_VALTYPE_)
                    s.default = rng.choice([0, 1, 5, -5, -1000, 16777216, 3221225472, -3221225472])
                elif s.length == 1:
                    s.default = rng.choice([0, 1])
                else:
                    s.default = rng.choice([lo, hi, 0 if lo <= 0 <= hi else lo, rng.randrange(lo, hi + 1)])
                    if abs(s.default) >= 1 << 53:
                        s.default = hi if s.length < 54 else rng.choice([0, 1, 1000])
        rng.shuffle(m.signals)
        msgs.append(m)
    version = rng.choice(["", "1.0", "v 2"])
    # ---------------- print the DBC text
    nl = "\n"
    L = []
    L.append('VERSION "%s"' % version)
    L.append("")
    L.append("NS_ :")
    L.append("\tCM_")
    L.append("\tBA_DEF_")
    L.append("")
    L.append("BS_:")
    L.append("")
    L.append("BU_: " + " ".join(nodes))
    L.append("")
    for m in msgs:
        did = m.id | (0x80000000 if m.ext else 0)
        L.append("BO_ %d %s: %d %s" % (did, m.name, m.length, m.sender))
        for s in m.signals:
            muxs = " M" if s.is_mux else (" m%d" % s.muxval if s.muxed else "")
            L.append(' SG_ %s%s : %d|%d@%d%s (%s,%s) [%s|%s] "%s" %s' % (
                s.name, muxs, s.start, s.length, 0 if s.be else 1, "-" if s.signed else "+",
                s.factor, s.offset, s.min, s.max, s.unit, ",".join(s.receivers)))
        L.append("")
    meta = []
    for n in nodes:
        if rng.random() < 0.4:
            meta.append('CM_ BU_ %s "node %s comment";' % (n, n))
    for m in msgs:
        did = m.id | (0x80000000 if m.ext else 0)
        if m.desc:
            meta.append('CM_ BO_ %d "%s";' % (did, m.desc))
        for s in m.signals:
            if s.desc:
                meta.append('CM_ SG_ %d %s "%s";' % (did, s.name, s.desc))
    L += meta
    attrs = []
    if with_sendtypes:
        enum = ["None", "Cyclic", "OnEvent", "Event", "cyclicIfActive", "Periodic"]
        attrs.append('BA_DEF_ BO_ "GenMsgSendType" ENUM %s;' % ",".join('"%s"' % e for e in enum))
        attrs.append('BA_DEF_ BO_ "GenMsgCycleTime" INT 0 100000;')
        attrs.append('BA_DEF_ BO_ "GenMsgDelayTime" INT 0 100000;')
    attrs.append('BA_DEF_ SG_ "GenSigStartValue" INT -9223372036854775808 9223372036854775807;')
    if with_sendtypes:
        attrs.append('BA_DEF_DEF_ "GenMsgSendType" "None";')
        attrs.append('BA_DEF_DEF_ "GenMsgCycleTime" 0;')
    attrs.append('BA_DEF_DEF_ "GenSigStartValue" 0;')
    vals = []
    for m in msgs:
        did = m.id | (0x80000000 if m.ext else 0)
        if m.sendtype:
            if rng.random() < 0.5:
                vals.append('BA_ "GenMsgSendType" BO_ %d "%s";' % (did, m.sendtype[0]))
            else:
                vals.append('BA_ "GenMsgSendType" BO_ %d %d;' % (did, ["None", "Cyclic", "OnEvent", "Event", "cyclicIfActive", "Periodic"].index(m.sendtype[0])))
        if m.cycle is not None:
            vals.append('BA_ "GenMsgCycleTime" BO_ %d %d;' % (did, m.cycle))
        if m.delay is not None:
            vals.append('BA_ "GenMsgDelayTime" BO_ %d %d;' % (did, m.delay))
        for s in m.signals:
            if s.default is not None:
                vals.append('BA_ "GenSigStartValue" SG_ %d %s %d;' % (did, s.name, s.default))
    rng.shuffle(vals)
    L += attrs + vals
    for m in msgs:
        did = m.id | (0x80000000 if m.ext else 0)
        for s in m.signals:
            if s.vds:
                L.append("VAL_ %d %s %s ;" % (did, s.name, " ".join('%d "%s"' % (v, t) for v, t in s.vds)))
            if s.float:
                L.append("SIG_VALTYPE_ %d %s : 1;" % (did, s.name))
    text = nl.join(L) + nl
    # ---------------- the database the text denotes
    D = []
    src = name + ".dbc"
    D.append("DB %s %s %x %x" % (hs(src), hs(version), len(msgs), len(nodes)))
    node_desc = {}
    for line in meta:
        if line.startswith("CM_ BU_ "):
            n = line.split()[2]
            node_desc[n] = "node %s comment" % n
    for n in sorted(nodes):
        D.append("NODE %s %s" % (hs(n), hs(node_desc.get(n, ""))))
    for m in sorted(msgs, key=lambda m: m.id):
        st = m.sendtype[1] if m.sendtype else 0
        D.append("MSG %s %x %d %x %d %s %s %s %s %x" % (
            hs(m.name), m.id, 1 if m.ext else 0, m.length, st, hs(m.desc), hs(m.sender),
            hx((m.cycle or 0) * 1000000), hx((m.delay or 0) * 1000000), len(m.signals)))
        for s in sorted(m.signals, key=lambda s: (s.start, s.muxval)):
            vds = sorted(s.vds)
            D.append("SIGD %s %x %x %d %d %d %d %d %x %s %s %s %s %s %s %s %x%s %x%s" % (
                hs(s.name), s.start, s.length, s.be, s.signed, s.float, s.is_mux, s.muxed, s.muxval,
                fbits(s.offset), fbits(s.factor), fbits(s.min), fbits(s.max), hs(s.unit), hs(s.desc),
                hx(s.default or 0), len(vds), "".join(" %s %s" % (hx(v), hs(t)) for v, t in vds),
                len(s.receivers), "".join(" " + hs(r) for r in s.receivers)))
    summary = {"messages": len(msgs), "signals": sum(len(m.signals) for m in msgs), "nodes": len(nodes),
               "widths": sorted({s.length for m in msgs for s in m.signals}),
               "muxed": sum(1 for m in msgs for s in m.signals if s.muxed),
               "float": sum(1 for m in msgs for s in m.signals if s.float),
               "scaled": sum(1 for m in msgs for s in m.signals if s.factor != "1" or s.offset != "0"),
               "extended": sum(1 for m in msgs if m.ext), "sendtypes": with_sendtypes}
    return text, D, summary


def raw_range(s):
    if s.float:
        return (0, 0)
    if s.signed:
        return (-(1 << (s.length - 1)), (1 << (s.length - 1)) - 1)
    return (0, (1 << s.length) - 1)


def repr_float(x):
    """a decimal literal the DBC float grammar accepts (no leading zeros issue, <= 19 digits)"""
    if x == int(x) and abs(x) < 1 << 53:
        return "%d" % int(x)
    r = repr(float(x))
    return r.replace("e+", "e")


def gen_batch(seed, count):
    rng = random.Random(seed * 7919 + 17)
    progs = []
    forced = []
    for w in WIDTH_BOUNDARIES:
        forced.append(w)
    # shapes every batch must contain: float32 in both byte orders, wide signed/unsigned in both byte orders
    for be in (False, True):
        forced.append((32, be, "float"))
        for w in (33, 63, 64):
            forced.append((w, be, "signed"))
            forced.append((w, be, "unsigned"))
        forced.append((12, be, "signed"))
    rng.shuffle(forced)
    per = max(1, -(-len(forced) // max(1, count)))
    for i in range(count):
        name = "p%d" % i
        fw = forced[i * per:(i + 1) * per]
        text, db, summary = gen_program(rng, name, fw)
        progs.append((name, text, db, summary))
    return progs
